(* C12 <- C04: a bridge between the two hand-written models of the PIT cost.

   Model/PitCost.v (C04; `pit_cost spec net ms d full`, proved equal to the cost GENERATED from the source by
   Proofs/PitCostGen.v: `gen_cost1_is_model`) and Model/CostGrad.v (C12; `pit_cost f n` over `net St`, proofs in
   Proofs/CostGrad.v) describe the same continuous cost in two vocabularies:

     C04: a list of layer records, each with its OWN mask record (alpha + frozen flag, beta, gamma); the input size is a
          calculator TERM (Const / ModAttr i / Flatten / Concat) evaluated against the masks of the other layers; the
          per-layer cost is a sum over the call sites of `s_fn spec kind dw hp`; layers that are not searchable use
          their static sizes and count only under full_cost.
     C12: a list of maskers + a list of layers that point to a masker by index, the input size as an affine form
          c0 + sum mult_j * out_eff(masker j), the time mask as an option, the cost function `f` abstract.

   `to_costgrad net ms` embeds EVERY C04 network (no restriction) with masker i := (alpha, frozen) of mask i,
   layer i := (static = the C04 layer record itself, mask index i, affine normal form of its calculator term,
   time mask of a searchable Conv1d), and `bridge_f spec full` is the C12 cost function that the C04 specification
   induces.  `bridge_value`: C04.pit_cost spec net ms false full == C12.pit_cost (bridge_f spec full) (to_costgrad net ms)
   for every proper spec.  Composed with `gen_cost1_is_model` the C12 theorems about values become theorems about the
   generated cost `gen_cost1` (continuous cost, d = false). *)
From Coq Require Import QArith Qround ZArith List Bool Arith Lia Lqa Setoid Morphisms.
Import ListNotations.
Require Import Plinio.Base.Qx Plinio.Model.Masks Plinio.Proofs.Masks.
Require Import Plinio.Model.PitCost Plinio.Proofs.PitCost Plinio.Gen.PitCostGen Plinio.Proofs.PitCostGen.
Require Plinio.Model.CostGrad Plinio.Proofs.CostGrad.
Module CG := Plinio.Model.CostGrad.
Module CGP := Plinio.Proofs.CostGrad.
Local Open Scope Q_scope.

(* ================================================================ the embedding *)
Definition to_masker (m : lmask) : CG.masker := {| CG.m_alpha := m_alpha m; CG.m_frozen := m_afrozen m |}.

(* affine normal form of a calculator term *)
Definition aff_scale (c : Q) (a : CG.affine) : CG.affine := (c * fst a, map (fun q => (c * fst q, snd q)) (snd a)).
Definition aff_add (a b : CG.affine) : CG.affine := (fst a + fst b, snd a ++ snd b).
Fixpoint to_affine (c : calc) : CG.affine :=
  match c with
  | CConst n => (nq n, [])
  | CMod i => (0, [(1, i)])
  | CFlat p mult => aff_scale (nq mult) (to_affine p)
  | CCat l => fold_right aff_add (0, []) (map to_affine l)
  end.

(* only a searchable Conv1d has a time mask *)
Definition to_time (l : layer) (m : lmask) : option CG.tmask :=
  if l_search l then
    match l_kind l with
    | KConv1d => Some {| CG.t_K := ksize l; CG.t_beta := m_beta m; CG.t_gamma := m_gamma m |}
    | _ => None
    end
  else None.

Definition to_layer (i : nat) (l : layer) (m : lmask) : CG.layer layer :=
  {| CG.l_s := l; CG.l_mask := i; CG.l_in := to_affine (l_calc l); CG.l_time := to_time l m |}.
Fixpoint to_layers (i : nat) (lms : list (layer * lmask)) : list (CG.layer layer) :=
  match lms with
  | [] => []
  | lm :: t => to_layer i (fst lm) (snd lm) :: to_layers (S i) t
  end.
Definition to_costgrad (net : list layer) (ms : list lmask) : CG.net layer :=
  {| CG.n_maskers := map to_masker ms; CG.n_layers := to_layers 0 (combine net ms) |}.

(* the C12 cost function induced by a C04 specification: static data = the C04 layer record *)
Definition bridge_hp (l : layer) (cin cout k : Q) (site : list nat) : hp :=
  mkHp cin cout (match l_kind l with KConv1d => [k] | _ => map nq (l_ks l) end) (l_groups l) (l_bias l) site.
Definition bridge_f (spec : cspec) (full : bool) (l : layer) (cin cout k : Q) : Q :=
  if counted full l then
    qsum (map (fun site => s_fn spec (l_kind l) (static_dw l) (if l_search l then bridge_hp l cin cout k site else static_hp l site))
              (sites_of spec l))
  else 0.

(* ================================================================ value *)
Lemma out_eff_to_masker m : CG.out_eff (to_masker m) = qsum (theta_a m).
Proof. reflexivity. Qed.

Lemma mask_eff_to ms i : CG.mask_eff (map to_masker ms) i = qsum (theta_a (nth i ms dmask)).
Proof.
  unfold CG.mask_eff. revert i. induction ms as [|m ms IH]; intros [|i]; cbn [map nth]; try reflexivity. apply IH.
Qed.

(* in_eff and in_orig are the same affine evaluation under two valuations of the maskers *)
Definition aff_eval (v : nat -> Q) (a : CG.affine) : Q := fst a + qsum (map (fun p => fst p * v (snd p)) (snd a)).
Lemma aff_eval_scale v c a : aff_eval v (aff_scale c a) == c * aff_eval v a.
Proof.
  unfold aff_eval, aff_scale. cbn [fst snd]. rewrite map_map. cbn [fst snd].
  destruct a as [a0 l]. cbn [fst snd]. induction l as [|p l IH]; cbn [map]; [rewrite !qsum_nil; ring|].
  rewrite !qsum_cons.
  setoid_replace (c * a0 + (c * fst p * v (snd p) + qsum (map (fun x => c * fst x * v (snd x)) l)))
    with (c * fst p * v (snd p) + (c * a0 + qsum (map (fun x => c * fst x * v (snd x)) l))) by ring.
  rewrite IH. ring.
Qed.
Lemma aff_eval_add v a b : aff_eval v (aff_add a b) == aff_eval v a + aff_eval v b.
Proof. unfold aff_eval, aff_add. cbn [fst snd]. rewrite map_app, qsum_app. ring. Qed.
Lemma in_eff_scale ms c a : CG.in_eff ms (aff_scale c a) == c * CG.in_eff ms a.
Proof. apply (aff_eval_scale (CG.mask_eff ms)). Qed.
Lemma in_eff_add ms a b : CG.in_eff ms (aff_add a b) == CG.in_eff ms a + CG.in_eff ms b.
Proof. apply (aff_eval_add (CG.mask_eff ms)). Qed.

Lemma in_eff_to_affine ms c : CG.in_eff (map to_masker ms) (to_affine c) == calc_feat ms c.
Proof.
  induction c as [n|i|p m IH|l IH] using calc_ind2; cbn [to_affine calc_feat].
  - unfold CG.in_eff. cbn. ring.
  - unfold CG.in_eff. cbn [fst snd map]. rewrite qsum_cons, qsum_nil, mask_eff_to. ring.
  - rewrite in_eff_scale, IH. reflexivity.
  - induction IH as [|c t Hc Ht IHt]; [unfold CG.in_eff; cbn; ring|]. cbn [map fold_right]. rewrite in_eff_add, Hc, IHt. reflexivity.
Qed.

Lemma k_eff_to_time l m : l_search l = true -> l_kind l = KConv1d -> CG.k_eff (to_time l m) = k_eff_cont true (ksize l) (m_beta m) (m_gamma m).
Proof. intros Hs Hk. unfold to_time. rewrite Hs, Hk. reflexivity. Qed.

Lemma bridge_layer_cost spec full ms l m i : spec_proper spec -> nth i ms dmask = m ->
  (if counted full l then pit_layer_cost spec ms false l m else 0) ==
  CG.layer_cost (bridge_f spec full) (map to_masker ms) (to_layer i l m).
Proof.
  intros Hp Hi. unfold CG.layer_cost, bridge_f, to_layer. cbn [CG.l_s CG.l_mask CG.l_in CG.l_time].
  destruct (counted full l); [|reflexivity]. unfold pit_layer_cost. apply qsum_map_ext. intros site _.
  destruct (l_search l) eqn:Hs; [|reflexivity]. apply Hp.
  unfold hp_eq, pit_hp, bridge_hp. cbn [h_in h_out h_k h_groups h_bias h_oshape]. repeat split.
  - symmetry. apply in_eff_to_affine.
  - rewrite mask_eff_to, Hi. reflexivity.
  - destruct (l_kind l) eqn:Hk; try apply Forall2_Qeq_refl.
    constructor; [|constructor]. rewrite (k_eff_to_time l m Hs Hk). reflexivity.
Qed.

Lemma bridge_layers spec full ms : spec_proper spec -> forall lms i,
  (forall j, (j < length lms)%nat -> nth (i + j) ms dmask = snd (nth j lms (dlayer, dmask))) ->
  qsum (map (fun lm => if counted full (fst lm) then pit_layer_cost spec ms false (fst lm) (snd lm) else 0) lms) ==
  qsum (map (CG.layer_cost (bridge_f spec full) (map to_masker ms)) (to_layers i lms)).
Proof.
  intros Hp. induction lms as [|lm lms IH]; intros i H; [reflexivity|].
  cbn [map to_layers]. rewrite !qsum_cons. rewrite (IH (S i)).
  - rewrite (bridge_layer_cost spec full ms (fst lm) (snd lm) i Hp); [reflexivity|].
    specialize (H O). cbn [length nth] in H. rewrite Nat.add_0_r in H. apply H. lia.
  - intros j Hj. specialize (H (S j)). cbn [length nth] in H. rewrite Nat.add_succ_r in H. apply H. lia.
Qed.

Lemma combine_nth_snd (net : list layer) (ms : list lmask) : forall j, (j < length (combine net ms))%nat ->
  nth j ms dmask = snd (nth j (combine net ms) (dlayer, dmask)).
Proof.
  revert ms. induction net as [|l net IH]; intros ms j Hj; [cbn in Hj; lia|].
  destruct ms as [|m ms]; [cbn in Hj; lia|]. destruct j as [|j]; [reflexivity|]. cbn [combine nth]. apply IH. cbn in Hj. lia.
Qed.

(* the two hand models agree on every network, every masks, every proper specification (continuous cost) *)
Theorem bridge_value spec net ms full : spec_proper spec ->
  pit_cost spec net ms false full == CG.pit_cost (bridge_f spec full) (to_costgrad net ms).
Proof.
  intros Hp. unfold pit_cost, CG.pit_cost, to_costgrad. cbn [CG.n_maskers CG.n_layers].
  apply bridge_layers; [exact Hp|]. intros j Hj. cbn [plus]. apply combine_nth_snd, Hj.
Qed.

(* ... hence the cost generated from the source is the C12 model's cost of the embedded network *)
Theorem gen_cost_is_costgrad spec net ms full : spec_proper spec ->
  gen_cost1 net ms spec false full == CG.pit_cost (bridge_f spec full) (to_costgrad net ms).
Proof. intros Hp. rewrite (proj1 (gen_cost1_is_model spec net ms false full Hp)). apply bridge_value, Hp. Qed.

(* ================================================================ admissible specifications *)
(* what C12 asks of a cost function (non-negative, non-decreasing in every size on non-negative sizes), said of a C04
   specification: on hyper-parameter records ordered component-wise (same groups / bias / output shape) *)
Definition hp_le (a b : hp) : Prop :=
  0 <= h_in a <= h_in b /\ 0 <= h_out a <= h_out b /\ Forall2 (fun x y => 0 <= x <= y) (h_k a) (h_k b) /\
  h_groups a = h_groups b /\ h_bias a = h_bias b /\ h_oshape a = h_oshape b.
Definition spec_mono (spec : cspec) : Prop := forall k dw a b, hp_le a b -> 0 <= s_fn spec k dw a <= s_fn spec k dw b.

Lemma nq_nonneg n : 0 <= nq n.
Proof. unfold nq. change 0 with (inject_Z 0). rewrite <- Zle_Qle. lia. Qed.

Lemma le0_map_nq l : Forall2 (fun x y => 0 <= x <= y) (map nq l) (map nq l).
Proof. induction l; cbn [map]; constructor; [split; [apply nq_nonneg|apply Qle_refl]|assumption]. Qed.

Lemma hp_le_static l site : hp_le (static_hp l site) (static_hp l site).
Proof.
  unfold hp_le, static_hp. cbn [h_in h_out h_k h_groups h_bias h_oshape].
  repeat split; try apply nq_nonneg; try apply Qle_refl. apply le0_map_nq.
Qed.

Lemma hp_le_bridge l a b c a' b' c' site : 0 <= a <= a' -> 0 <= b <= b' -> 0 <= c <= c' ->
  hp_le (bridge_hp l a b c site) (bridge_hp l a' b' c' site).
Proof.
  intros Ha Hb Hc. unfold hp_le, bridge_hp. cbn [h_in h_out h_k h_groups h_bias h_oshape].
  repeat split; try tauto. destruct (l_kind l); try apply le0_map_nq. constructor; [exact Hc|constructor].
Qed.

Lemma le0_qsum_map {A} (f g : A -> Q) l : (forall x, In x l -> 0 <= f x <= g x) -> 0 <= qsum (map f l) <= qsum (map g l).
Proof.
  intro H. apply CGP.le0_qsum. induction l as [|x l IH]; cbn [map]; constructor.
  - apply H. left. reflexivity.
  - apply IH. intros y Hy. apply H. right. exact Hy.
Qed.

Lemma bridge_f_mono0 spec full l a b c a' b' c' : spec_mono spec -> 0 <= a <= a' -> 0 <= b <= b' -> 0 <= c <= c' ->
  0 <= bridge_f spec full l a b c <= bridge_f spec full l a' b' c'.
Proof.
  intros Hm Ha Hb Hc. unfold bridge_f. destruct (counted full l); [|split; apply Qle_refl].
  apply le0_qsum_map. intros site _. apply Hm. destruct (l_search l); [apply hp_le_bridge; assumption|apply hp_le_static].
Qed.
Lemma bridge_f_nonneg spec full : spec_mono spec -> forall l a b c, True -> 0 <= a -> 0 <= b -> 0 <= c -> 0 <= bridge_f spec full l a b c.
Proof. intros Hm l a b c _ Ha Hb Hc. apply (bridge_f_mono0 spec full l a b c a b c Hm); apply CGP.cst_mono; assumption. Qed.
Lemma bridge_f_mono spec full : spec_mono spec -> forall l a b c a' b' c', True -> 0 <= a <= a' -> 0 <= b <= b' -> 0 <= c <= c' ->
  bridge_f spec full l a b c <= bridge_f spec full l a' b' c'.
Proof. intros Hm l a b c a' b' c' _ Ha Hb Hc. apply (bridge_f_mono0 spec full l a b c a' b' c' Hm Ha Hb Hc). Qed.

(* ---- the embedded network is well-formed and every static record is admissible *)
Lemma wf_aff_scale c a : 0 <= c -> CG.wf_affine a -> CG.wf_affine (aff_scale c a).
Proof.
  intros Hc [H0 Hl]. unfold CG.wf_affine, aff_scale. cbn [fst snd]. split; [nra|].
  induction Hl as [|q t Hq _ IHt]; cbn [map]; constructor; [cbn [fst]; nra|exact IHt].
Qed.
Lemma wf_aff_add a b : CG.wf_affine a -> CG.wf_affine b -> CG.wf_affine (aff_add a b).
Proof.
  intros [H0 Hl] [H0' Hl']. unfold CG.wf_affine, aff_add. cbn [fst snd]. split; [lra|]. apply Forall_app. split; assumption.
Qed.
Lemma wf_to_affine c : CG.wf_affine (to_affine c).
Proof.
  induction c as [n|i|p m IH|l IH] using calc_ind2; cbn [to_affine].
  - split; cbn [fst snd]; [apply nq_nonneg|constructor].
  - split; cbn [fst snd]; [apply Qle_refl|]. constructor; [cbn; lra|constructor].
  - apply wf_aff_scale; [apply nq_nonneg|exact IH].
  - induction IH as [|c t Hc _ IHt]; cbn [map fold_right]; [split; cbn [fst snd]; [apply Qle_refl|constructor]|].
    apply wf_aff_add; assumption.
Qed.

Lemma wf_to_layers i lms : Forall (fun l => CG.wf_affine (CG.l_in l)) (to_layers i lms).
Proof. revert i. induction lms as [|lm lms IH]; intro i; cbn [to_layers]; constructor; [apply wf_to_affine|apply IH]. Qed.
Lemma wf_to_costgrad net ms : CG.wf_net (to_costgrad net ms).
Proof. apply wf_to_layers. Qed.

Lemma ok_to_costgrad net ms : CGP.ok_net layer (fun _ => True) (to_costgrad net ms).
Proof. unfold CGP.ok_net. apply Forall_forall. intros; exact I. Qed.

(* ---- masks ordered by magnitude (C12's order) on C04's mask records *)
Definition lmask_le (m m' : lmask) : Prop :=
  m_afrozen m = m_afrozen m' /\ CG.abs_le (m_alpha m) (m_alpha m') /\ CG.abs_le (m_beta m) (m_beta m') /\ CG.abs_le (m_gamma m) (m_gamma m').

Lemma to_layers_le i : forall lms lms', Forall2 (fun a b => fst a = fst b /\ lmask_le (snd a) (snd b)) lms lms' ->
  Forall2 CG.layer_le (to_layers i lms) (to_layers i lms').
Proof.
  intros lms lms' H. revert i. induction H as [|a b lms lms' [Hf [_ [_ [Hb Hg]]]] _ IH]; intro i; cbn [to_layers]; constructor; [|apply IH].
  unfold CG.layer_le, to_layer. cbn [CG.l_s CG.l_mask CG.l_in CG.l_time]. rewrite <- Hf. repeat split.
  unfold to_time. destruct (l_search (fst a)); [|exact I]. destruct (l_kind (fst a)); try exact I.
  cbn. repeat split; assumption.
Qed.

Lemma combine_le (net : list layer) ms ms' : Forall2 lmask_le ms ms' ->
  Forall2 (fun a b => fst a = fst b /\ lmask_le (snd a) (snd b)) (combine net ms) (combine net ms').
Proof.
  intro H. revert net. induction H as [|m m' ms ms' Hm _ IH]; intros [|l net]; cbn [combine]; constructor; [|apply IH].
  split; [reflexivity|exact Hm].
Qed.

Lemma to_costgrad_le net ms ms' : Forall2 lmask_le ms ms' -> CG.net_le (to_costgrad net ms) (to_costgrad net ms').
Proof.
  intro H. split; cbn [to_costgrad CG.n_maskers CG.n_layers].
  - induction H as [|m m' ms ms' [Hf [Ha _]] _ IH]; cbn [map]; constructor; [split; assumption|exact IH].
  - apply to_layers_le, combine_le, H.
Qed.

(* ================================================================ C12's sentences about values, on the generated cost *)
Theorem gen_cost_nonneg spec net ms full : spec_proper spec -> spec_mono spec -> 0 <= gen_cost1 net ms spec false full.
Proof.
  intros Hp Hm. rewrite (gen_cost_is_costgrad spec net ms full Hp).
  apply (CGP.pit_cost_nonneg layer (bridge_f spec full) (fun _ => True) (bridge_f_nonneg spec full Hm) (bridge_f_mono spec full Hm));
    [apply ok_to_costgrad|apply wf_to_costgrad].
Qed.

Theorem gen_cost_mono_abs spec net ms ms' full : spec_proper spec -> spec_mono spec -> Forall2 lmask_le ms ms' ->
  gen_cost1 net ms spec false full <= gen_cost1 net ms' spec false full.
Proof.
  intros Hp Hm Hle. rewrite (gen_cost_is_costgrad spec net ms full Hp), (gen_cost_is_costgrad spec net ms' full Hp).
  apply (CGP.pit_cost_mono_abs layer (bridge_f spec full) (fun _ => True) (bridge_f_nonneg spec full Hm) (bridge_f_mono spec full Hm));
    [apply ok_to_costgrad|apply wf_to_costgrad|apply to_costgrad_le, Hle].
Qed.

(* ================================================================ the five built-in specifications are admissible *)
Lemma bq_nonneg b : 0 <= bq b.
Proof. destruct b; cbn; lra. Qed.

Ltac mono_step :=
  first [ assumption
        | apply CGP.mul_mono
        | apply CGP.add_mono
        | apply CGP.fl_mono0; [lia|]
        | apply CGP.cst_mono; first [assumption | apply nq_nonneg | apply bq_nonneg | lra] ].
Ltac hp_le_setup :=
  intros k dw [ai ao ak ag ab ash] [bi bo bk bg bb bsh] (Hi & Ho & Hk & Hg & Hb & Hs);
  cbn [h_in h_out h_k h_groups h_bias h_oshape] in *; subst bg bb bsh;
  pose proof (CGP.le0_nth _ _ 0 Hk) as Hk0; pose proof (CGP.le0_nth _ _ 1 Hk) as Hk1.

Lemma mono_params : spec_mono params_spec.
Proof.
  hp_le_setup. cbn [s_fn params_spec]. unfold params_fn, k0, k1. cbn [h_in h_out h_k h_bias].
  destruct k, dw; repeat mono_step.
Qed.
Lemma mono_params_nb : spec_mono params_nb_spec.
Proof.
  hp_le_setup. cbn [s_fn params_nb_spec]. unfold params_nb_fn, k0, k1. cbn [h_in h_out h_k h_bias].
  destruct k, dw; repeat mono_step.
Qed.
Lemma mono_ops : spec_mono ops_spec.
Proof.
  hp_le_setup. cbn [s_fn ops_spec]. unfold ops_fn, params_fn, spatial, os, k0, k1. cbn [h_in h_out h_k h_bias h_oshape].
  destruct k, dw; repeat mono_step.
Qed.
Lemma mono_ops_nb : spec_mono ops_nb_spec.
Proof.
  hp_le_setup. cbn [s_fn ops_nb_spec]. unfold ops_nb_fn, params_nb_fn, spatial, os, k0, k1. cbn [h_in h_out h_k h_bias h_oshape].
  destruct k, dw; repeat mono_step.
Qed.
Lemma mono_gap8 : spec_mono gap8_spec.
Proof.
  hp_le_setup. cbn [s_fn gap8_spec]. unfold gap8_fn, os, k0, k1. cbn [h_in h_out h_k h_bias h_oshape].
  destruct k, dw; try (split; apply Qle_refl); repeat mono_step.
Qed.

(* ================================================================ every mask of magnitude 1 (either sign): the original cost *)
(* C12's "fully open": |x| == 1 for every element (C04's open_mask asks the literal vector of ones), vectors of the
   lengths the layers create *)
Definition unit_mask (l : layer) (m : lmask) : Prop :=
  length (m_alpha m) = l_cout l /\ CG.unit_vec (m_alpha m) /\
  (l_search l = true -> l_kind l = KConv1d ->
   length (m_beta m) = ksize l /\ length (m_gamma m) = gamma_len (ksize l) /\ CG.unit_vec (m_beta m) /\ CG.unit_vec (m_gamma m)).

Lemma in_orig_scale ms c a : CG.in_orig ms (aff_scale c a) == c * CG.in_orig ms a.
Proof. apply (aff_eval_scale (CG.mask_orig ms)). Qed.
Lemma in_orig_add ms a b : CG.in_orig ms (aff_add a b) == CG.in_orig ms a + CG.in_orig ms b.
Proof. apply (aff_eval_add (CG.mask_orig ms)). Qed.

Lemma mask_orig_to ms i : CG.mask_orig (map to_masker ms) i = nq (length (m_alpha (nth i ms dmask))).
Proof.
  unfold CG.mask_orig. revert i. induction ms as [|m ms IH]; intros [|i]; cbn [map nth]; try reflexivity. apply IH.
Qed.

Section UnitNet.
  Variable net : list layer.
  Variable ms : list lmask.
  Hypothesis Hlen : Forall2 (fun l m => length (m_alpha m) = l_cout l) net ms.

  Lemma alpha_len_nth i : length (m_alpha (nth i ms dmask)) = l_cout (nth i net dlayer).
  Proof. apply (Forall2_nth (fun l m => length (m_alpha m) = l_cout l) net ms dlayer dmask Hlen). reflexivity. Qed.

  Lemma in_orig_to_affine c : CG.in_orig (map to_masker ms) (to_affine c) == nq (calc_width net c).
  Proof.
    induction c as [n|i|p m IH|l IH] using calc_ind2; cbn [to_affine calc_width].
    - unfold CG.in_orig. cbn. ring.
    - unfold CG.in_orig. cbn [fst snd map]. rewrite qsum_cons, qsum_nil, mask_orig_to, alpha_len_nth. ring.
    - rewrite in_orig_scale, IH, nq_mult. reflexivity.
    - induction IH as [|c t Hc Ht IHt]; [reflexivity|]. cbn [map fold_right]. rewrite in_orig_add, Hc, IHt, nq_plus. reflexivity.
  Qed.
End UnitNet.

Lemma orig_layer spec full net ms l m i : spec_proper spec ->
  Forall2 (fun l m => length (m_alpha m) = l_cout l) net ms -> wf_open net l -> nth i ms dmask = m -> length (m_alpha m) = l_cout l ->
  bridge_f spec full l (CG.in_orig (map to_masker ms) (to_affine (l_calc l))) (CG.mask_orig (map to_masker ms) i) (CG.k_orig (to_time l m)) ==
  (if counted full l then plain_layer_cost spec l else 0).
Proof.
  intros Hp Hlen Hw Hi Ha. unfold bridge_f. destruct (counted full l); [|reflexivity]. unfold plain_layer_cost.
  apply qsum_map_ext. intros site _. destruct (l_search l) eqn:Hs; [|reflexivity]. apply Hp.
  destruct (Hw Hs) as [Hc Hk]. unfold hp_eq, bridge_hp, static_hp. cbn [h_in h_out h_k h_groups h_bias h_oshape]. repeat split.
  - rewrite (in_orig_to_affine net ms Hlen), Hc. reflexivity.
  - rewrite mask_orig_to, Hi, Ha. reflexivity.
  - destruct (l_kind l) eqn:Ek; try apply Forall2_Qeq_refl.
    destruct (Hk eq_refl) as [E1 _]. rewrite E1. cbn [map]. constructor; [|constructor].
    unfold to_time. rewrite Hs, Ek. reflexivity.
Qed.

Lemma orig_layers spec full net ms : spec_proper spec -> Forall2 (fun l m => length (m_alpha m) = l_cout l) net ms ->
  forall lms i,
  (forall j, (j < length lms)%nat -> nth (i + j) ms dmask = snd (nth j lms (dlayer, dmask))) ->
  Forall (fun lm => wf_open net (fst lm) /\ length (m_alpha (snd lm)) = l_cout (fst lm)) lms ->
  qsum (map (fun l => bridge_f spec full (CG.l_s l) (CG.in_orig (map to_masker ms) (CG.l_in l)) (CG.mask_orig (map to_masker ms) (CG.l_mask l))
                               (CG.k_orig (CG.l_time l))) (to_layers i lms)) ==
  qsum (map (fun lm => if counted full (fst lm) then plain_layer_cost spec (fst lm) else 0) lms).
Proof.
  intros Hp Hlen. induction lms as [|lm lms IH]; intros i H Hf; [reflexivity|].
  inversion Hf as [|? ? [Hw Ha] Hf']; subst. cbn [map to_layers]. rewrite !qsum_cons. rewrite (IH (S i)).
  - unfold to_layer at 1 2 3 4. cbn [CG.l_s CG.l_mask CG.l_in CG.l_time].
    rewrite (orig_layer spec full net ms (fst lm) (snd lm) i Hp Hlen Hw); [reflexivity| |exact Ha].
    specialize (H O). cbn [length nth] in H. rewrite Nat.add_0_r in H. apply H. lia.
  - intros j Hj. specialize (H (S j)). cbn [length nth] in H. rewrite Nat.add_succ_r in H. apply H. lia.
  - exact Hf'.
Qed.

Lemma map_fst_combine {A} (g : layer -> A) (net : list layer) (ms : list lmask) : length net = length ms ->
  map (fun lm => g (fst lm)) (combine net ms) = map g net.
Proof.
  revert ms. induction net as [|l net IH]; intros [|m ms] H; cbn in H; try discriminate; [reflexivity|].
  cbn [combine map fst]. f_equal. apply IH. lia.
Qed.

Lemma Forall2_length' {A B} (R : A -> B -> Prop) l l' : Forall2 R l l' -> length l = length l'.
Proof. induction 1; cbn; congruence. Qed.

Lemma unit_open_net net0 net ms : Forall (wf_open net0) net -> Forall2 unit_mask net ms -> forall i,
  Forall (fun l => CG.open_tmask (CG.l_time l)) (to_layers i (combine net ms)).
Proof.
  intros Hw Hu. induction Hu as [|l m net ms [_ [_ Ht]] _ IH]; intro i; cbn [combine to_layers]; constructor.
  - unfold to_layer. cbn [CG.l_time fst snd]. unfold to_time. inversion Hw as [|? ? Hwl _]; subst.
    destruct (l_search l) eqn:Hs; [|exact I]. destruct (l_kind l) eqn:Ek; try exact I.
    destruct (Hwl Hs) as [_ Hk]. destruct (Hk Ek) as [_ HK]. destruct (Ht eq_refl eq_refl) as (A & B & C & D).
    cbn [CG.open_tmask CG.t_K CG.t_beta CG.t_gamma]. repeat split; assumption.
  - apply IH. inversion Hw; assumption.
Qed.

Lemma combine_wf net0 net ms : Forall (wf_open net0) net -> Forall2 (fun l m => length (m_alpha m) = l_cout l) net ms ->
  Forall (fun lm => wf_open net0 (fst lm) /\ length (m_alpha (snd lm)) = l_cout (fst lm)) (combine net ms).
Proof.
  intros Hw H. induction H as [|l m net ms Hl _ IH]; cbn [combine]; [constructor|].
  inversion Hw; subst. constructor; [split; assumption|apply IH; assumption].
Qed.

Theorem gen_cost_unit_eq_original spec net ms full : spec_proper spec -> spec_mono spec ->
  Forall (wf_open net) net -> Forall2 unit_mask net ms ->
  gen_cost1 net ms spec false full == plain_cost spec full net.
Proof.
  intros Hp Hm Hw Hu. rewrite (gen_cost_is_costgrad spec net ms full Hp).
  assert (Hlen : Forall2 (fun l m => length (m_alpha m) = l_cout l) net ms).
  { clear - Hu. induction Hu as [|l m net ms [H _] _ IH]; constructor; assumption. }
  rewrite (CGP.pit_cost_open layer (bridge_f spec full) (fun _ => True) (bridge_f_mono spec full Hm) (to_costgrad net ms)
             (ok_to_costgrad net ms) (wf_to_costgrad net ms)).
  - unfold CG.orig_cost, to_costgrad, plain_cost. cbn [CG.n_maskers CG.n_layers].
    rewrite (orig_layers spec full net ms Hp Hlen).
    + rewrite (map_fst_combine (fun l => if counted full l then plain_layer_cost spec l else 0) net ms (Forall2_length' _ _ _ Hu)). reflexivity.
    + intros j Hj. cbn [plus]. apply combine_nth_snd, Hj.
    + apply combine_wf; assumption.
  - split; cbn [to_costgrad CG.n_maskers CG.n_layers].
    + clear - Hu. induction Hu as [|l m net ms [_ [H _]] _ IH]; cbn [map]; constructor; assumption.
    + apply (unit_open_net net); assumption.
Qed.

(* ================================================================ weights; the built-in specifications *)
(* the generated cost is the cost of the C12 model object (architecture + weights) whatever the weights are *)
Theorem gen_cost_indep_weights spec net ms full (w : list (list Q)) : spec_proper spec ->
  gen_cost1 net ms spec false full ==
  CG.model_cost (bridge_f spec full) {| CG.pm_arch := to_costgrad net ms; CG.pm_weights := w |}.
Proof. intros Hp. unfold CG.model_cost. cbn [CG.pm_arch]. apply gen_cost_is_costgrad, Hp. Qed.

Theorem builtin_admissible spec : In spec all_specs -> spec_proper spec /\ spec_mono spec.
Proof.
  intros [<-|[<-|[<-|[<-|[<-|[]]]]]]; split.
  - apply proper_params. - apply mono_params.
  - apply proper_params_nb. - apply mono_params_nb.
  - apply proper_ops. - apply mono_ops.
  - apply proper_ops_nb. - apply mono_ops_nb.
  - apply proper_gap8. - apply mono_gap8.
Qed.

Theorem gen_cost_builtin spec net full : In spec all_specs ->
  (forall ms, 0 <= gen_cost1 net ms spec false full) /\
  (forall ms ms', Forall2 lmask_le ms ms' -> gen_cost1 net ms spec false full <= gen_cost1 net ms' spec false full) /\
  (forall ms, Forall (wf_open net) net -> Forall2 unit_mask net ms -> gen_cost1 net ms spec false full == plain_cost spec full net).
Proof.
  intros Hin. destruct (builtin_admissible spec Hin) as [Hp Hm]. repeat split.
  - intro ms. apply gen_cost_nonneg; assumption.
  - intros ms ms'. apply gen_cost_mono_abs; assumption.
  - intros ms. apply gen_cost_unit_eq_original; assumption.
Qed.

(* ================================================================ PART 2: params / ops (+ no-bias) into `net std`
   C12's derivative theorems are about `d_pit_cost d_std_f` over `net std` (the hand-written common shape `std_f` of the
   params / ops formulas).  `to_std` embeds a C04 network index-preservingly (layer i -> layer i, mask record i -> masker i):
   a searchable layer carries the std record (depthwise flag on the static sizes, osz = SUM over its counted call sites of
   the spatial output size -- the formulas are linear in it --, bias flag, product of the fixed kernel sizes); a layer
   that is not searchable is a constant: a layer whose affine input is the constant `its static cost` with the neutral
   record (dw, osz 1, b 0, kc 1).  `std_like cb sp spec`: the specification's function IS std_f on the record. *)
Definition std_site (cb : bool) (k : lkind) (dw : bool) (h : hp) (osz : Q) : CG.std :=
  {| CG.s_dw := match k with KLinear => false | _ => dw end; CG.s_osz := osz;
     CG.s_b := if cb then bq (h_bias h) else 0; CG.s_kc := match k with KConv2d => k0 h * k1 h | _ => 1 end |}.
Definition std_like (cb sp : bool) (spec : cspec) : Prop := forall k dw h,
  s_fn spec k dw h == CG.std_f (std_site cb k dw h (if sp then spatial k h else 1)) (h_in h) (h_out h) (match k with KConv1d => k0 h | _ => 1 end).

Lemma std_like_params : std_like true false params_spec.
Proof. intros k dw h. cbn [s_fn params_spec]. unfold params_fn, CG.std_f, std_site. cbn [CG.s_dw CG.s_osz CG.s_b CG.s_kc]. destruct k, dw; ring. Qed.
Lemma std_like_params_nb : std_like false false params_nb_spec.
Proof. intros k dw h. cbn [s_fn params_nb_spec]. unfold params_nb_fn, CG.std_f, std_site. cbn [CG.s_dw CG.s_osz CG.s_b CG.s_kc]. destruct k, dw; ring. Qed.
Lemma std_like_ops : std_like true true ops_spec.
Proof. intros k dw h. cbn [s_fn ops_spec]. unfold ops_fn, params_fn, CG.std_f, std_site. cbn [CG.s_dw CG.s_osz CG.s_b CG.s_kc]. destruct k, dw; ring. Qed.
Lemma std_like_ops_nb : std_like false true ops_nb_spec.
Proof. intros k dw h. cbn [s_fn ops_nb_spec]. unfold ops_nb_fn, params_nb_fn, CG.std_f, std_site. cbn [CG.s_dw CG.s_osz CG.s_b CG.s_kc]. destruct k, dw; ring. Qed.

Definition site_osz (sp : bool) (l : layer) (site : list nat) : Q := if sp then spatial (l_kind l) (static_hp l site) else 1.
Definition std_osz (sp : bool) (spec : cspec) (full : bool) (l : layer) : Q :=
  if counted full l then qsum (map (site_osz sp l) (sites_of spec l)) else 0.
Definition std_neutral : CG.std := {| CG.s_dw := true; CG.s_osz := 1; CG.s_b := 0; CG.s_kc := 1 |}.
Definition std_rec (cb sp : bool) (spec : cspec) (full : bool) (l : layer) : CG.std :=
  if l_search l then
    {| CG.s_dw := static_dw l; CG.s_osz := std_osz sp spec full l; CG.s_b := if cb then bq (l_bias l) else 0;
       CG.s_kc := match l_kind l with KConv2d => nth 0 (map nq (l_ks l)) 0 * nth 1 (map nq (l_ks l)) 0 | _ => 1 end |}
  else std_neutral.
Definition fixed_const (spec : cspec) (full : bool) (l : layer) : Q := if counted full l then plain_layer_cost spec l else 0.
Definition to_std_layer (cb sp : bool) (spec : cspec) (full : bool) (i : nat) (l : layer) (m : lmask) : CG.layer CG.std :=
  {| CG.l_s := std_rec cb sp spec full l; CG.l_mask := i;
     CG.l_in := if l_search l then to_affine (l_calc l) else (fixed_const spec full l, []);
     CG.l_time := to_time l m |}.
Fixpoint to_std_layers (cb sp : bool) (spec : cspec) (full : bool) (i : nat) (lms : list (layer * lmask)) : list (CG.layer CG.std) :=
  match lms with
  | [] => []
  | lm :: t => to_std_layer cb sp spec full i (fst lm) (snd lm) :: to_std_layers cb sp spec full (S i) t
  end.
Definition to_std (cb sp : bool) (spec : cspec) (full : bool) (net : list layer) (ms : list lmask) : CG.net CG.std :=
  {| CG.n_maskers := map to_masker ms; CG.n_layers := to_std_layers cb sp spec full 0 (combine net ms) |}.

Lemma std_f_osz dw o b kc x y z :
  CG.std_f {| CG.s_dw := dw; CG.s_osz := o; CG.s_b := b; CG.s_kc := kc |} x y z ==
  o * CG.std_f {| CG.s_dw := dw; CG.s_osz := 1; CG.s_b := b; CG.s_kc := kc |} x y z.
Proof. unfold CG.std_f. cbn [CG.s_dw CG.s_osz CG.s_b CG.s_kc]. destruct dw; ring. Qed.

Lemma qsum_scale {A} (o : A -> Q) (C : Q) l : qsum (map (fun s => o s * C) l) == qsum (map o l) * C.
Proof. induction l as [|x l IH]; cbn [map]; [rewrite !qsum_nil; ring|]. rewrite !qsum_cons, IH. ring. Qed.

Lemma static_dw_linear l : l_kind l = KLinear -> static_dw l = false.
Proof. intro E. unfold static_dw. rewrite E. reflexivity. Qed.

(* layer by layer, under ANY masker list: the C04-induced cost function and std_f agree *)
Lemma std_layer_cost cb sp spec full mks i l m : std_like cb sp spec ->
  CG.layer_cost (bridge_f spec full) mks (to_layer i l m) == CG.layer_cost CG.std_f mks (to_std_layer cb sp spec full i l m).
Proof.
  intros Hstd. unfold std_like in Hstd. unfold CG.layer_cost, to_layer, to_std_layer, std_rec, bridge_f. cbn [CG.l_s CG.l_mask CG.l_in CG.l_time].
  destruct (l_search l) eqn:Hs.
  - set (a := CG.in_eff mks (to_affine (l_calc l))). set (b := CG.mask_eff mks i).
    rewrite std_f_osz. unfold std_osz. destruct (counted full l); [|ring].
    rewrite <- qsum_scale. apply qsum_map_ext. intros site _. rewrite Hstd. unfold std_site. rewrite std_f_osz.
    unfold site_osz, to_time. rewrite Hs.
    destruct (l_kind l) eqn:Ek; unfold bridge_hp, static_hp, spatial, os, k0, k1; rewrite ?Ek; cbn [h_in h_out h_k h_bias h_oshape nth CG.k_eff]; try rewrite (static_dw_linear l Ek); reflexivity.
  - unfold fixed_const, plain_layer_cost, to_time. rewrite Hs. cbn [CG.k_eff].
    unfold CG.std_f, std_neutral, CG.in_eff. cbn [CG.s_dw CG.s_osz CG.s_b CG.s_kc fst snd map]. rewrite qsum_nil.
    destruct (counted full l); ring.
Qed.

Lemma std_layers cb sp spec full mks : std_like cb sp spec -> forall lms i,
  qsum (map (CG.layer_cost (bridge_f spec full) mks) (to_layers i lms)) ==
  qsum (map (CG.layer_cost CG.std_f mks) (to_std_layers cb sp spec full i lms)).
Proof.
  intros Hstd. induction lms as [|lm lms IH]; intro i; [reflexivity|].
  cbn [to_layers to_std_layers map]. rewrite !qsum_cons, IH, (std_layer_cost cb sp spec full mks i _ _ Hstd). reflexivity.
Qed.

Theorem bridge_std cb sp spec net ms full : std_like cb sp spec ->
  CG.pit_cost (bridge_f spec full) (to_costgrad net ms) == CG.pit_cost CG.std_f (to_std cb sp spec full net ms).
Proof. intros Hstd. unfold CG.pit_cost, to_costgrad, to_std. cbn [CG.n_maskers CG.n_layers]. apply std_layers, Hstd. Qed.

Theorem gen_cost_is_std cb sp spec net ms full : spec_proper spec -> std_like cb sp spec ->
  gen_cost1 net ms spec false full == CG.pit_cost CG.std_f (to_std cb sp spec full net ms).
Proof. intros Hp Hstd. rewrite (gen_cost_is_costgrad spec net ms full Hp). apply bridge_std, Hstd. Qed.

(* ---- the embedded network is in the domain of the derivative theorems *)
Lemma spatial_nonneg k h : 0 <= spatial k h.
Proof. unfold spatial, os. destruct k; [apply nq_nonneg| |lra]. apply Qmult_le_0_compat; apply nq_nonneg. Qed.

Lemma std_osz_nonneg sp spec full l : 0 <= std_osz sp spec full l.
Proof.
  unfold std_osz. destruct (counted full l); [|apply Qle_refl]. apply qsum_map_nonneg. intros site _.
  unfold site_osz. destruct sp; [apply spatial_nonneg|lra].
Qed.

Lemma wf_std_rec cb sp spec full l : CG.wf_std (std_rec cb sp spec full l).
Proof.
  unfold CG.wf_std, std_rec. destruct (l_search l); cbn [CG.s_osz CG.s_b CG.s_kc std_neutral]; [|repeat split; lra].
  repeat split.
  - apply std_osz_nonneg.
  - destruct cb; [apply bq_nonneg|apply Qle_refl].
  - destruct (l_kind l); try lra.
    pose proof (CGP.le0_nth _ _ 0 (le0_map_nq (l_ks l))). pose proof (CGP.le0_nth _ _ 1 (le0_map_nq (l_ks l))).
    apply Qmult_le_0_compat; tauto.
Qed.

Lemma fixed_const_nonneg spec full l : spec_mono spec -> 0 <= fixed_const spec full l.
Proof.
  intro Hm. unfold fixed_const. destruct (counted full l); [|apply Qle_refl]. unfold plain_layer_cost.
  apply qsum_map_nonneg. intros site _. apply (Hm _ _ _ _ (hp_le_static l site)).
Qed.

Lemma to_std_domain cb sp spec full net ms : spec_mono spec ->
  CG.wf_net (to_std cb sp spec full net ms) /\ Forall (fun l => CG.wf_std (CG.l_s l)) (CG.n_layers (to_std cb sp spec full net ms)).
Proof.
  intro Hm. unfold CG.wf_net, to_std. cbn [CG.n_layers]. generalize (combine net ms) O. intros lms.
  induction lms as [|lm lms IH]; intro i; cbn [to_std_layers]; [split; constructor|].
  destruct (IH (S i)) as [A B]. split; constructor; try assumption.
  - unfold to_std_layer. cbn [CG.l_in]. destruct (l_search (fst lm)); [apply wf_to_affine|].
    split; cbn [fst snd]; [apply fixed_const_nonneg, Hm|constructor].
  - apply wf_std_rec.
Qed.

(* ---- C12's derivative sentences on the network whose VALUE is the generated cost *)
Theorem gen_dual_value cb sp spec net ms full w : spec_proper spec -> std_like cb sp spec ->
  CG.dv (CG.d_pit_cost CG.d_std_f w (to_std cb sp spec full net ms)) == gen_cost1 net ms spec false full.
Proof. intros Hp Hstd. rewrite CGP.d_pit_cost_value_std. symmetry. apply gen_cost_is_std; assumption. Qed.

Theorem gen_grad_sign cb sp spec net ms full w : spec_mono spec ->
  0 <= CG.qsgn (CGP.pval (to_std cb sp spec full net ms) w) * CG.dd (CG.d_pit_cost CG.d_std_f w (to_std cb sp spec full net ms)).
Proof. intro Hm. destruct (to_std_domain cb sp spec full net ms Hm) as [A B]. apply CGP.pit_grad_sign; assumption. Qed.

(* the parameter elements of the embedded network are the elements of C04's mask records: index-preserving *)
Lemma nth_to_masker ms j : (j < length ms)%nat -> nth j (map to_masker ms) CG.dflt_masker = to_masker (nth j ms dmask).
Proof. revert j. induction ms as [|m ms IH]; intros [|j] H; cbn in H; try lia; cbn [map nth]; [reflexivity|apply IH; lia]. Qed.

Lemma pval_alpha cb sp spec full net ms j i :
  CGP.pval (to_std cb sp spec full net ms) (CG.PAlpha j i) = nth i (m_alpha (nth j ms dmask)) 0.
Proof.
  unfold CGP.pval, to_std. cbn [CG.n_maskers]. destruct (Nat.lt_ge_cases j (length ms)) as [H|H].
  - rewrite (nth_to_masker ms j H). reflexivity.
  - rewrite (nth_overflow (map to_masker ms)) by (rewrite map_length; exact H). rewrite (nth_overflow ms) by exact H. destruct i; reflexivity.
Qed.

Lemma nth_error_to_std_layers cb sp spec full : forall lms i j l m, nth_error lms j = Some (l, m) ->
  nth_error (to_std_layers cb sp spec full i lms) j = Some (to_std_layer cb sp spec full (i + j) l m).
Proof.
  induction lms as [|lm lms IH]; intros i [|j] l m H; cbn in H; try discriminate.
  - injection H as E. subst lm. cbn [to_std_layers nth_error fst snd]. rewrite Nat.add_0_r. reflexivity.
  - cbn [to_std_layers nth_error]. rewrite (IH (S i) j l m H). f_equal. f_equal. lia.
Qed.

Lemma pval_time cb sp spec full net ms j i l m : nth_error (combine net ms) j = Some (l, m) -> l_search l = true -> l_kind l = KConv1d ->
  CGP.pval (to_std cb sp spec full net ms) (CG.PBeta j i) = nth i (m_beta m) 0 /\
  CGP.pval (to_std cb sp spec full net ms) (CG.PGamma j i) = nth i (m_gamma m) 0.
Proof.
  intros H Hs Hk. unfold CGP.pval, to_std. cbn [CG.n_layers]. rewrite (nth_error_to_std_layers cb sp spec full _ 0 j l m H).
  unfold to_std_layer. cbn [CG.l_time]. unfold to_time. rewrite Hs, Hk. cbn [CG.t_beta CG.t_gamma]. split; reflexivity.
Qed.

(* zero derivative: at an element that is exactly 0, at the keep-alive (last) element, for a frozen masker *)
Theorem gen_grad_zero cb sp spec net ms full :
  (forall w, CGP.pval (to_std cb sp spec full net ms) w == 0 -> CG.dd (CG.d_pit_cost CG.d_std_f w (to_std cb sp spec full net ms)) == 0) /\
  (forall j i, (j < length ms)%nat -> S i = length (m_alpha (nth j ms dmask)) ->
     CG.dd (CG.d_pit_cost CG.d_std_f (CG.PAlpha j i) (to_std cb sp spec full net ms)) == 0) /\
  (forall j i, m_afrozen (nth j ms dmask) = true ->
     CG.dd (CG.d_pit_cost CG.d_std_f (CG.PAlpha j i) (to_std cb sp spec full net ms)) == 0).
Proof.
  split; [|split].
  - intros w. apply CGP.pit_grad_zero_at_zero.
  - intros j i Hj H. apply CGP.pit_grad_keepalive_zero. unfold to_std. cbn [CG.n_maskers]. rewrite (nth_to_masker ms j Hj). exact H.
  - intros j i H. apply CGP.pit_grad_frozen_zero. unfold to_std. cbn [CG.n_maskers].
    destruct (Nat.lt_ge_cases j (length ms)) as [Hj|Hj]; [rewrite (nth_to_masker ms j Hj); exact H|].
    rewrite nth_overflow in H by exact Hj. discriminate.
Qed.

(* strictly positive: an element of the alpha of layer j (searchable, not depthwise on its static sizes, counted at a
   site of positive spatial size), trainable, not the keep-alive one, not 0, the rest of the layer's formula positive *)
Lemma nth_error_combine (net : list layer) (ms : list lmask) : forall j l m, nth_error (combine net ms) j = Some (l, m) ->
  nth j ms dmask = m /\ (j < length ms)%nat.
Proof.
  revert ms. induction net as [|l0 net IH]; intros [|m0 ms] [|j] l m H; cbn in H; try discriminate.
  - injection H as _ E. subst. split; [reflexivity|cbn; lia].
  - destruct (IH ms j l m H) as [A B]. split; [exact A|cbn; lia].
Qed.

Theorem gen_grad_pos_out cb sp spec net ms full j i l m : spec_mono spec ->
  nth_error (combine net ms) j = Some (l, m) -> l_search l = true -> static_dw l = false ->
  m_afrozen m = false -> (S i < length (m_alpha m))%nat -> ~ nth i (m_alpha m) 0 == 0 ->
  0 < std_osz sp spec full l ->
  0 < calc_feat ms (l_calc l) * (CG.k_eff (to_time l m) * CG.s_kc (std_rec cb sp spec full l)) + CG.s_b (std_rec cb sp spec full l) ->
  0 < CG.qsgn (nth i (m_alpha m) 0) * CG.dd (CG.d_pit_cost CG.d_std_f (CG.PAlpha j i) (to_std cb sp spec full net ms)).
Proof.
  intros Hm Hn Hs Hdw Hfr Hi Hx Hosz Hpos. destruct (nth_error_combine net ms j l m Hn) as [Ej Hj].
  destruct (to_std_domain cb sp spec full net ms Hm) as [A B].
  pose proof (pval_alpha cb sp spec full net ms j i) as Ev. rewrite Ej in Ev. rewrite <- Ev.
  assert (Hl : nth_error (CG.n_layers (to_std cb sp spec full net ms)) j = Some (to_std_layer cb sp spec full j l m)).
  { unfold to_std. cbn [CG.n_layers]. apply (nth_error_to_std_layers cb sp spec full _ 0 j l m Hn). }
  assert (Em : nth j (CG.n_maskers (to_std cb sp spec full net ms)) CG.dflt_masker = to_masker m).
  { unfold to_std. cbn [CG.n_maskers]. rewrite (nth_to_masker ms j Hj), Ej. reflexivity. }
  apply (CGP.pit_grad_pos (to_std cb sp spec full net ms) j i (to_std_layer cb sp spec full j l m) A B).
  - rewrite Em. exact Hfr.
  - rewrite Em. exact Hi.
  - rewrite Ev. exact Hx.
  - apply (nth_error_In _ j Hl).
  - unfold CGP.alpha_feeds, to_std_layer. cbn [CG.l_s CG.l_mask CG.l_in CG.l_time]. split.
    + unfold std_rec. rewrite Hs. cbn [CG.s_osz]. exact Hosz.
    + left. split; [reflexivity|]. split; [unfold std_rec; rewrite Hs; exact Hdw|].
      rewrite Hs. unfold to_std. cbn [CG.n_maskers]. rewrite in_eff_to_affine. exact Hpos.
Qed.

(* the four specifications *)
Theorem std_builtin : std_like true false params_spec /\ std_like false false params_nb_spec /\
                      std_like true true ops_spec /\ std_like false true ops_nb_spec.
Proof. split; [apply std_like_params|split; [apply std_like_params_nb|split; [apply std_like_ops|apply std_like_ops_nb]]]. Qed.

(* ================================================================ PART 3: gap8_latency into `net g8`
   Same index-preserving embedding for C12's GAP8 model `gap8_f` (value = floor-based cost, derivative = straight-through).
   A layer without a GAP8 model (Conv1d), not counted, or without a call site is a zero-cost record; a layer that is not
   searchable keeps its static input size as a constant affine form and reads its output size through its OWN mask
   record, which must therefore say `cout` (premise `fixed_masks_ok`: the all-ones frozen masker the C12 check gives to
   fixed layers satisfies it; vacuous when full_cost = false; C04's cost does not read those records at all). *)
Definition g8_zero : CG.g8 := {| CG.g_kind := CG.G8Dw; CG.g_kx := 0; CG.g_ky := 0; CG.g_ox := 0; CG.g_oy := 0 |}.
Definition g8_rec (l : layer) (site : list nat) : CG.g8 :=
  {| CG.g_kind := match l_kind l with KLinear => CG.G8Lin | _ => if static_dw l then CG.G8Dw else CG.G8Conv end;
     CG.g_kx := nth 0 (map nq (l_ks l)) 0; CG.g_ky := nth 1 (map nq (l_ks l)) 0;
     CG.g_ox := nq (nth 0 site 0%nat); CG.g_oy := nq (nth 1 site 0%nat) |}.
Definition g8_static (full : bool) (l : layer) : CG.g8 :=
  if counted full l then
    match l_kind l, l_sites l with
    | KConv1d, _ => g8_zero
    | _, [] => g8_zero
    | _, site :: _ => g8_rec l site
    end
  else g8_zero.
Definition to_g8_layer (full : bool) (i : nat) (l : layer) (m : lmask) : CG.layer CG.g8 :=
  {| CG.l_s := g8_static full l; CG.l_mask := i;
     CG.l_in := if l_search l then to_affine (l_calc l) else (nq (l_cin l), []);
     CG.l_time := to_time l m |}.
Fixpoint to_g8_layers (full : bool) (i : nat) (lms : list (layer * lmask)) : list (CG.layer CG.g8) :=
  match lms with
  | [] => []
  | lm :: t => to_g8_layer full i (fst lm) (snd lm) :: to_g8_layers full (S i) t
  end.
Definition to_g8 (full : bool) (net : list layer) (ms : list lmask) : CG.net CG.g8 :=
  {| CG.n_maskers := map to_masker ms; CG.n_layers := to_g8_layers full 0 (combine net ms) |}.

Definition fixed_mask_ok (full : bool) (lm : layer * lmask) : Prop :=
  counted full (fst lm) = true -> l_search (fst lm) = false -> qsum (theta_a (snd lm)) == nq (l_cout (fst lm)).
Definition fixed_masks_ok (full : bool) (net : list layer) (ms : list lmask) : Prop := Forall (fixed_mask_ok full) (combine net ms).

Lemma gap8_zero a b c : CG.gap8_f g8_zero a b c == 0.
Proof. unfold CG.gap8_f, g8_zero. cbn [CG.g_kind CG.g_kx CG.g_ky CG.g_ox CG.g_oy]. ring. Qed.

Lemma gap8_fn_is_g8 l site h : h_k h = map nq (l_ks l) -> h_oshape h = site -> l_kind l <> KConv1d ->
  gap8_fn (l_kind l) (static_dw l) h == CG.gap8_f (g8_rec l site) (h_in h) (h_out h) 1.
Proof.
  intros Ek Es Hk. unfold gap8_fn, CG.gap8_f, g8_rec, os, k0, k1. rewrite Ek, Es. cbn [CG.g_kind CG.g_kx CG.g_ky CG.g_ox CG.g_oy].
  destruct (l_kind l) eqn:E; [contradiction Hk; reflexivity| |].
  - destruct (static_dw l); change CG.fl with fl; ring.
  - change CG.fl with fl. reflexivity.
Qed.

Lemma gap8_f_proper s a a' b b' c c' : a == a' -> b == b' -> CG.gap8_f s a b c == CG.gap8_f s a' b' c'.
Proof.
  intros Ea Eb. unfold CG.gap8_f. change CG.fl with fl.
  assert (E : CG.g_kx s * CG.g_ky s * a == CG.g_kx s * CG.g_ky s * a') by (rewrite Ea; reflexivity).
  destruct (CG.g_kind s).
  - rewrite (fl_proper b b' 4 Eb), (fl_proper _ _ 4 E), E. reflexivity.
  - rewrite (fl_proper b b' 4 Eb). reflexivity.
  - rewrite (fl_proper b b' 4 Eb), (fl_proper a a' 2 Ea). reflexivity.
Qed.

Lemma g8_layer_cost full ms i l m : nth i ms dmask = m -> fixed_mask_ok full (l, m) ->
  CG.layer_cost (bridge_f gap8_spec full) (map to_masker ms) (to_layer i l m) ==
  CG.layer_cost CG.gap8_f (map to_masker ms) (to_g8_layer full i l m).
Proof.
  intros Hi Hfix. unfold CG.layer_cost, to_layer, to_g8_layer, g8_static, bridge_f. cbn [CG.l_s CG.l_mask CG.l_in CG.l_time].
  unfold fixed_mask_ok in Hfix. cbn [fst snd] in Hfix.
  destruct (counted full l) eqn:Hc; [|rewrite gap8_zero; reflexivity].
  unfold sites_of. cbn [s_shared gap8_spec s_fn].
  destruct (l_kind l) eqn:Ek.
  - rewrite gap8_zero. apply qsum_map_zero. intros site _. unfold gap8_fn. reflexivity.
  - destruct (l_sites l) as [|site rest]; [rewrite gap8_zero; reflexivity|]. cbn [firstn map]. rewrite qsum_cons, qsum_nil.
    assert (Hk : l_kind l <> KConv1d) by (rewrite Ek; discriminate). rewrite <- Ek.
    destruct (l_search l) eqn:Hs.
    + rewrite (gap8_fn_is_g8 l site (bridge_hp l _ _ _ site)); [|unfold bridge_hp; rewrite Ek; reflexivity|reflexivity|exact Hk].
      unfold bridge_hp. cbn [h_in h_out]. rewrite Qplus_0_r. apply gap8_f_proper; reflexivity.
    + rewrite (gap8_fn_is_g8 l site (static_hp l site)); [|reflexivity|reflexivity|exact Hk].
      unfold static_hp. cbn [h_in h_out]. rewrite Qplus_0_r. apply gap8_f_proper.
      * unfold CG.in_eff. cbn [fst snd map]. rewrite qsum_nil. ring.
      * rewrite mask_eff_to, Hi. symmetry. apply Hfix; reflexivity.
  - destruct (l_sites l) as [|site rest]; [rewrite gap8_zero; reflexivity|]. cbn [firstn map]. rewrite qsum_cons, qsum_nil.
    assert (Hk : l_kind l <> KConv1d) by (rewrite Ek; discriminate). rewrite <- Ek.
    destruct (l_search l) eqn:Hs.
    + rewrite (gap8_fn_is_g8 l site (bridge_hp l _ _ _ site)); [|unfold bridge_hp; rewrite Ek; reflexivity|reflexivity|exact Hk].
      unfold bridge_hp. cbn [h_in h_out]. rewrite Qplus_0_r. apply gap8_f_proper; reflexivity.
    + rewrite (gap8_fn_is_g8 l site (static_hp l site)); [|reflexivity|reflexivity|exact Hk].
      unfold static_hp. cbn [h_in h_out]. rewrite Qplus_0_r. apply gap8_f_proper.
      * unfold CG.in_eff. cbn [fst snd map]. rewrite qsum_nil. ring.
      * rewrite mask_eff_to, Hi. symmetry. apply Hfix; reflexivity.
Qed.

Lemma g8_layers full ms : forall lms i,
  (forall j, (j < length lms)%nat -> nth (i + j) ms dmask = snd (nth j lms (dlayer, dmask))) -> Forall (fixed_mask_ok full) lms ->
  qsum (map (CG.layer_cost (bridge_f gap8_spec full) (map to_masker ms)) (to_layers i lms)) ==
  qsum (map (CG.layer_cost CG.gap8_f (map to_masker ms)) (to_g8_layers full i lms)).
Proof.
  induction lms as [|lm lms IH]; intros i H Hf; [reflexivity|]. inversion Hf as [|? ? Hf1 Hf2]; subst.
  cbn [to_layers to_g8_layers map]. rewrite !qsum_cons, (IH (S i)).
  - rewrite (g8_layer_cost full ms i (fst lm) (snd lm)); [reflexivity| |destruct lm; exact Hf1].
    specialize (H O). cbn [length nth] in H. rewrite Nat.add_0_r in H. apply H. lia.
  - intros j Hj. specialize (H (S j)). cbn [length nth] in H. rewrite Nat.add_succ_r in H. apply H. lia.
  - exact Hf2.
Qed.

Theorem gen_cost_is_gap8 net ms full : fixed_masks_ok full net ms ->
  gen_cost1 net ms gap8_spec false full == CG.pit_cost CG.gap8_f (to_g8 full net ms).
Proof.
  intro Hf. rewrite (gen_cost_is_costgrad gap8_spec net ms full proper_gap8).
  unfold CG.pit_cost, to_costgrad, to_g8. cbn [CG.n_maskers CG.n_layers]. apply g8_layers; [|exact Hf].
  intros j Hj. cbn [plus]. apply combine_nth_snd, Hj.
Qed.

Lemma wf_g8_static full l : CGP.wf_g8 (g8_static full l).
Proof.
  assert (Z : CGP.wf_g8 g8_zero) by (unfold CGP.wf_g8, g8_zero; cbn; repeat split; lra).
  unfold g8_static. destruct (counted full l); [|exact Z]. destruct (l_kind l); [exact Z| |]; destruct (l_sites l) as [|site rest]; try exact Z;
    unfold CGP.wf_g8, g8_rec; cbn [CG.g_kx CG.g_ky CG.g_ox CG.g_oy];
    pose proof (CGP.le0_nth _ _ 0 (le0_map_nq (l_ks l))); pose proof (CGP.le0_nth _ _ 1 (le0_map_nq (l_ks l)));
    repeat split; try apply nq_nonneg; tauto.
Qed.

Lemma to_g8_domain full net ms :
  CG.wf_net (to_g8 full net ms) /\ Forall (fun l => CGP.wf_g8 (CG.l_s l)) (CG.n_layers (to_g8 full net ms)).
Proof.
  unfold CG.wf_net, to_g8. cbn [CG.n_layers]. generalize (combine net ms) O. intros lms.
  induction lms as [|lm lms IH]; intro i; cbn [to_g8_layers]; [split; constructor|].
  destruct (IH (S i)) as [A B]. split; constructor; try assumption.
  - unfold to_g8_layer. cbn [CG.l_in]. destruct (l_search (fst lm)); [apply wf_to_affine|].
    split; cbn [fst snd]; [apply nq_nonneg|constructor].
  - apply wf_g8_static.
Qed.

Theorem gen_dual_value_gap8 net ms full w : fixed_masks_ok full net ms ->
  CG.dv (CG.d_pit_cost CG.d_gap8_f w (to_g8 full net ms)) == gen_cost1 net ms gap8_spec false full.
Proof. intro Hf. rewrite CGP.d_pit_cost_value_gap8. symmetry. apply gen_cost_is_gap8, Hf. Qed.

Theorem gen_grad_sign_gap8 net ms full w :
  0 <= CG.qsgn (CGP.pval (to_g8 full net ms) w) * CG.dd (CG.d_pit_cost CG.d_gap8_f w (to_g8 full net ms)).
Proof. destruct (to_g8_domain full net ms) as [A B]. apply CGP.pit_grad_sign_gap8; assumption. Qed.

Lemma pval_alpha_g8 full net ms j i :
  CGP.pval (to_g8 full net ms) (CG.PAlpha j i) = nth i (m_alpha (nth j ms dmask)) 0.
Proof.
  unfold CGP.pval, to_g8. cbn [CG.n_maskers]. destruct (Nat.lt_ge_cases j (length ms)) as [H|H].
  - rewrite (nth_to_masker ms j H). reflexivity.
  - rewrite (nth_overflow (map to_masker ms)) by (rewrite map_length; exact H). rewrite (nth_overflow ms) by exact H. destruct i; reflexivity.
Qed.

Theorem gen_grad_zero_gap8 net ms full :
  (forall w, CGP.pval (to_g8 full net ms) w == 0 -> CG.dd (CG.d_pit_cost CG.d_gap8_f w (to_g8 full net ms)) == 0) /\
  (forall j i, (j < length ms)%nat -> S i = length (m_alpha (nth j ms dmask)) ->
     CG.dd (CG.d_pit_cost CG.d_gap8_f (CG.PAlpha j i) (to_g8 full net ms)) == 0) /\
  (forall j i, m_afrozen (nth j ms dmask) = true ->
     CG.dd (CG.d_pit_cost CG.d_gap8_f (CG.PAlpha j i) (to_g8 full net ms)) == 0).
Proof.
  split; [|split].
  - intros w. apply CGP.pit_grad_zero_at_zero_gap8.
  - intros j i Hj H. apply CGP.pit_grad_keepalive_zero_gap8. unfold to_g8. cbn [CG.n_maskers]. rewrite (nth_to_masker ms j Hj). exact H.
  - intros j i H. apply CGP.pit_grad_frozen_zero_gap8. unfold to_g8. cbn [CG.n_maskers].
    destruct (Nat.lt_ge_cases j (length ms)) as [Hj|Hj]; [rewrite (nth_to_masker ms j Hj); exact H|].
    rewrite nth_overflow in H by exact Hj. discriminate.
Qed.
