"""C18 — export, summary and cost are observers (DESIGN.md §C18).  Theorems: coq/Props/C18.v over
coq/Model/Observers.v.

Implementation side (vlib/c18_impl.py): one small real model per method (PIT with fused BatchNorm +
Dropout + an excluded Linear, MPS with (2,4,8)-bit weights, SuperNet with 3 branches), full_cost on/off,
train / eval, softmax / Gumbel sampling.  ALL op sequences up to a depth over the alphabet
{export, export(add_bn=False), summary, .cost, get_cost('a'), set cost_specification (3 values), forward,
search step} are enumerated; every history is run from scratch on ONE freshly built live object (no copy of the
model under test), seeded length-5 histories over the full alphabet are added.  After every
step a fingerprint is taken: parameters / buffers (bitwise), `.training` of every module, sampled
coefficients, sampling options, plain attributes of every module (padding, value, stride, ... of the
layers shared with the user's model / the export), position of torch's global RNG, requires_grad, and — on deep copies, RNG re-seeded — every
cost value, summary(), structural hash of export(), output on a fixed batch.

Oracle (on the implementation): an observer changes no fingerprint component (flags are compared module by
module: start states with mixed flags and a 'flip the flags of sub-set S' op are part of the enumeration); its
result — network, summary, every cost value — equals the probe taken before it (get_cost(a) / get_cost(b) are
read in both orders in different histories); a history and the same history with the observers erased end in the same fingerprint and
give the same forward outputs; switching the specification back restores the cost values.
Correspondence: the abstract state predicted by the Coq model after every step of every enumerated
history (flags, RNG position, parameter / buffer / coefficient provenance, specification, error
observations) is compared with the abstract state extracted from the real object.
"""
import itertools, multiprocessing, concurrent.futures
from .common import *
from . import c18_impl as I

TRAINOPS = ['train_nas_only', 'train_net_only', 'train_net_and_nas']
ALL = ['export', 'export_nobn', 'summary', 'cost', 'get_cost:a', 'get_cost:b', 'set_spec:dict', 'set_spec:single_a', 'set_spec:single_b', 'forward', 'train_step', 'flip_sub']
FULL = [o for o in ALL if o not in ('export_nobn', 'set_spec:single_b')]
STEPOPS = ['backward', 'opt_step', 'write_params', 'load_params', 'mode_eval', 'mode_train']
ALL = ALL + TRAINOPS + STEPOPS
# observers between backward() and optimizer.step(); parameter writes followed by eval() + inference without a training forward
STEP = ['export', 'summary', 'cost', 'backward', 'opt_step', 'write_params', 'mode_eval']       # + export_nobn on PIT (the only method that accepts it)
MID = ['export', 'summary', 'cost', 'get_cost:a', 'get_cost:b', 'set_spec:dict', 'set_spec:single_a', 'forward']
SMALL = ['export', 'summary', 'get_cost:a', 'get_cost:b', 'forward']
ALPH = {'full': FULL, 'full_pit': ['export_nobn'] + FULL, 'mid': MID, 'small': SMALL, 'zoo': MID + ['train_step'], 'step': STEP}
STATE = ('params', 'buffers', 'train_wrapper', 'train_seed', 'train_leaves_all', 'train_leaves_any', 'train_sub_all', 'train_sub_any', 'flags', 'theta', 'rng', 'reqgrad', 'grads', 'sampling', 'attrs', 'user_model')
DERIVED = ('cost', 'summary', 'export', 'output', 'output_eval')
GROUP = {'params': 'parameters', 'buffers': 'buffers', 'train_wrapper': 'training-mode', 'train_seed': 'training-mode', 'train_leaves_all': 'training-mode',
         'train_leaves_any': 'training-mode', 'train_sub_all': 'training-mode', 'train_sub_any': 'training-mode', 'flags': 'training-mode', 'theta': 'sampled-coefficients', 'sampling': 'sampling-options', 'attrs': 'module-attributes', 'grads': 'requires-grad', 'user_model': 'user-model', 'rng': 'rng', 'reqgrad': 'requires-grad',
         'cost': 'cost', 'summary': 'summary', 'export': 'export', 'output': 'output', 'output_eval': 'output'}


def is_obs(op):
    return op in I.OBSERVERS


def all_cfgs():
    out = []
    for method in ('PIT', 'MPS', 'SuperNet'):
        for gumbel in ((False,) if method == 'PIT' else (False, True)):
            for fc in (True, False):
                for train in (True, False):
                    # full_cost: dict specification (both orders of get_cost are then inside depth 2), uniform flags;
                    # otherwise single specification and MIXED flags: BatchNorm / Dropout / samplers start with the flag
                    # opposite to the wrapper's (frozen BN in training, the converse in eval)
                    sub = {'PIT': ('bn', 'drop'), 'MPS': ('sampler',), 'SuperNet': ('bn', 'drop', 'sampler') if gumbel else ('bn', 'drop')}[method]
                    out.append(dict(method=method, full_cost=fc, train=train, gumbel=gumbel, spec0='dict' if fc else 'single_a', prefix=(), sub=sub, mixed=not fc, qmoved=(method == 'MPS' and not fc)))
    return out


def zoo_cfgs():
    """further topologies (c18_impl._build_zoo): causal Conv1d network with non-zero ConstantPad1d modules and pruned rf / dilation
    masks (PIT); two-input networks that concatenate their raw inputs (PIT, MPS)"""
    out = []
    for arch in ('tcn', 'fusion'):
        for fc in (True, False):
            for train in ((True, False) if fc else (True,)):
                out.append(dict(method='PIT', arch=arch, full_cost=fc, train=train, gumbel=False, spec0='dict' if fc else 'single_a', prefix=(), sub=('bn',), mixed=not fc))
    out.append(dict(method='MPS', arch='fusion', full_cost=True, train=True, gumbel=False, spec0='dict', prefix=(), sub=('sampler',), mixed=False))
    out.append(dict(method='MPS', arch='fusion', full_cost=False, train=True, gumbel=True, spec0='dict', prefix=(), sub=('sampler',), mixed=True))
    # MPS model that keeps plain BatchNorm1d layers (Conv1d + BN1d is not folded), observers called in TRAINING mode
    out.append(dict(method='MPS', arch='tcn1d', full_cost=True, train=True, gumbel=False, spec0='dict', prefix=(), sub=('bn',), mixed=False))
    out.append(dict(method='MPS', arch='tcn1d', full_cost=False, train=True, gumbel=True, spec0='single_a', prefix=('forward',), sub=('sampler',), mixed=True))
    # parameters frozen by the user at observer time: PIT with its excluded (shared, parameterised) Linear, SuperNet / MPS plain layers
    out.append(dict(method='PIT', full_cost=True, train=True, gumbel=False, spec0='single_a', prefix=('train_nas_only',), sub=('bn', 'drop'), mixed=False))
    out.append(dict(method='SuperNet', full_cost=True, train=True, gumbel=True, spec0='dict', prefix=('forward', 'train_step', 'train_nas_only'), sub=('bn', 'drop'), mixed=False))
    out.append(dict(method='MPS', arch='tcn1d', full_cost=True, train=True, gumbel=False, spec0='single_a', prefix=('train_step', 'train_net_only'), sub=('bn',), mixed=False))
    return out


def step_cfgs():
    """training-mode configurations for the 'step' alphabet (single specification so that .cost is valid)"""
    b = dict(full_cost=True, train=True, spec0='single_a', prefix=(), mixed=False, eval_probe=True)
    return [dict(b, method='PIT', gumbel=False, sub=('bn', 'drop')),
            dict(b, method='PIT', arch='tcn', gumbel=False, sub=('bn',)),
            dict(b, method='MPS', gumbel=True, sub=('sampler',), qmoved=False),
            dict(b, method='SuperNet', gumbel=True, sub=('bn', 'drop'))]


def option_cfgs():
    """sampling options at non-default values at observer time (set through update_softmax_options in the prefix)"""
    base = dict(full_cost=True, spec0='single_a', mixed=False)
    out = []
    for gumbel in (False, True):
        m = dict(base, method='MPS', gumbel=gumbel, sub=('sampler',), qmoved=gumbel)
        # frozen after some search steps: the stored coefficients differ from what alpha gives now
        out.append(dict(m, train=True, prefix=('forward', 'train_step', 'train_step', 'opts:frozen')))
        out.append(dict(m, train=True, prefix=('opts:hard', 'opts:temp', 'forward')))
        out.append(dict(m, train=True, prefix=('opts:gumbel_off' if gumbel else 'opts:gumbel_on', 'forward', 'train_step')))
        sn = dict(base, method='SuperNet', gumbel=gumbel, sub=('bn', 'drop'))
        out.append(dict(sn, train=True, prefix=('opts:hard', 'opts:temp', 'forward', 'train_step')))
    out.append(dict(base, method='MPS', gumbel=False, sub=('sampler',), train=False, prefix=('forward', 'train_step', 'opts:frozen', 'opts:temp')))
    out.append(dict(base, method='SuperNet', gumbel=False, sub=('bn', 'drop'), train=False, prefix=('opts:temp', 'forward', 'opts:hard')))
    return out


def cfg_name(c):
    return '%s%s%s/%s/%s/%s/%s/%s' % (c['method'], ':' + c['arch'] if c.get('arch') else '', ':qmoved' if c.get('qmoved') else '', 'gumbel' if c['gumbel'] else 'softmax', 'train' if c['train'] else 'eval', 'full_cost' if c['full_cost'] else 'nas_cost', c['spec0'],
                                  ('mixed:' if c.get('mixed') else 'S=') + '+'.join(c.get('sub', ()))) + ('/after:' + ','.join(c['prefix']) if c.get('prefix') else '')


def _task(t):
    kind, cfg = t[0], t[1]
    if kind == 'dfs':
        return t, I.dfs(cfg, ALPH[t[2]], t[3], [t[4]])
    return t, I.linear(cfg, t[2])


# ----------------------------------------------------------------------------- oracle
def spec_after(cfg, path):
    sp = cfg['spec0']
    for op in path:
        if op.startswith('set_spec:'):
            sp = op.split(':')[1]
    return sp


def _fl(v):
    return v if str(v).startswith('EXC') else float.fromhex(v)


def step_oracle(cfg, path, ob, fp, par, fails):
    """one step parent --op--> node"""
    op = path[-1]
    meth = cfg['method']
    tag = meth + (':gumbel-train' if cfg['gumbel'] and cfg['train'] else '')
    opn = op.split(':')[0]
    info = {'cfg': cfg, 'ops': list(path)}
    if is_obs(op):
        ch = [k for k in STATE + DERIVED if fp[k] != par[k]]
        st = sorted({GROUP[k] for k in ch if k in STATE})
        de = sorted({GROUP[k] for k in ch if k in DERIVED})
        ba = {k: (par[k], fp[k]) for k in ch[:4]}
        if 'sampling' in ch:
            ba['sampling'] = (par['sampling_v'], fp['sampling_v'])
        if 'params' in ch or 'buffers' in ch:
            ba['changed tensors'] = ([k for k in fp['tensors_v'] if fp['tensors_v'][k] != par['tensors_v'].get(k)] + ['(gone) ' + k for k in par['tensors_v'] if k not in fp['tensors_v']])[:8]
        if 'reqgrad' in ch:
            ba['reqgrad'] = ('un-frozen by the call: %s' % sorted(set(par['reqgrad_v']) - set(fp['reqgrad_v']))[:8], 'frozen by the call: %s' % sorted(set(fp['reqgrad_v']) - set(par['reqgrad_v']))[:8])
        if 'attrs' in ch:
            ba['attrs'] = (sorted(set(par['attrs_v']) - set(fp['attrs_v']))[:6], sorted(set(fp['attrs_v']) - set(par['attrs_v']))[:6])
        if 'cost' in ch:       # show the values: each metric as read FIRST on a copy of the model before / after the call
            ba['cost'] = ({k: _fl(v) for k, v in par['costs'].items()}, {k: _fl(v) for k, v in fp['costs'].items()})
        for g in (st or de):
            fails.append(('%s-changes-%s:%s' % (opn, g, tag), dict(info, changed=ch),
                          '%s on %s after %s changed %s of the NAS model (before -> after: %s)' % (op, cfg_name(cfg), list(path[:-1]), ch, ba)))
        # the observer's own result = what the probe on a copy reported before the call
        exp = None
        if op in ('export', 'export_nobn') and not str(ob).startswith('EXC:'):
            exp = par['export']
        elif op == 'summary':
            exp = par['summary']
        elif op == 'cost':
            exp = par['costs']['cost']       # the value a copy of the model gave for this metric when it was read FIRST
        elif op.startswith('get_cost:'):
            exp = par['costs'][op.split(':')[1]]
        if exp is not None and ob != exp:
            fails.append(('%s-result-differs-from-earlier-one:%s' % (opn, tag), dict(info, got=ob, expected=exp),
                          '%s on %s after %s returned %s, the same call on a copy of the model before it returned %s' % (op, cfg_name(cfg), list(path[:-1]), ob, exp)))
    elif op.startswith('set_spec:'):
        ch = [k for k in STATE + ('summary', 'export', 'output', 'output_eval') if fp[k] != par[k]]
        if ch:
            fails.append(('set_spec-changes-%s:%s' % (GROUP[ch[0]], tag), dict(info, changed=ch), 'assigning cost_specification on %s changed %s' % (cfg_name(cfg), ch)))
        # the three specifications give pairwise different cost values on these models: a switch must be visible
        nonzero = any(not str(v).startswith('EXC') and float.fromhex(v) != 0.0 for v in list(par['costs'].values()) + list(fp['costs'].values()))
        # (a hard selection of a cost-free branch, e.g. Identity with the NAS-only cost, makes every metric 0)
        if nonzero and spec_after(cfg, path) != spec_after(cfg, path[:-1]) and fp['cost'] == par['cost']:
            fails.append(('set_spec-has-no-effect-on-cost:%s' % tag, info, 'assigning cost_specification %s on %s after %s did not change any cost value' % (op, cfg_name(cfg), list(path[:-1]))))


def path_oracles(cfg, nodes, fails):
    """nodes: dict path -> (obs, fp).  erasure + specification round trip + cost results"""
    meth = cfg['method']
    tag = meth + (':gumbel-train' if cfg['gumbel'] and cfg['train'] else '')
    for path, (ob, fp) in nodes.items():
        if not path:
            continue
        er = tuple(o for o in path if not is_obs(o))
        if er != path and er in nodes:
            fe = nodes[er][1]
            ch = [k for k in STATE + DERIVED if fp[k] != fe[k]]
            if ch:
                fails.append(('continuation-differs-after-observers:%s' % tag, {'cfg': cfg, 'ops': list(path), 'ops_without_observers': list(er), 'changed': ch},
                              'history %s on %s ends in a different model than the same history without its observer calls %s: %s differ' % (list(path), cfg_name(cfg), list(er), ch)))
            # the non-observer results along the way (forward outputs) must agree as well
            a = [nodes[path[:i + 1]][0] for i in range(len(path)) if not is_obs(path[i]) and path[:i + 1] in nodes]
            b = [nodes[er[:i + 1]][0] for i in range(len(er)) if er[:i + 1] in nodes]
            if len(a) == len(b) and a != b:
                fails.append(('forward-output-differs-after-observers:%s' % tag, {'cfg': cfg, 'ops': list(path), 'ops_without_observers': list(er), 'results': a, 'results_without_observers': b},
                              'forward / search-step results along %s on %s differ from those of %s' % (list(path), cfg_name(cfg), list(er))))
        # cost values are a function of (specification, state): same spec + only observers / spec switches since -> same probe
        for k in range(len(path) - 1, -1, -1):
            if not (is_obs(path[k]) or path[k].startswith('set_spec:')):
                break
            anc = path[:k]
            if anc in nodes and spec_after(cfg, anc) == spec_after(cfg, path) and nodes[anc][1]['cost'] != fp['cost']:
                fails.append(('set-spec-roundtrip-cost-differs:%s' % tag, {'cfg': cfg, 'ops': list(path), 'earlier': list(anc)},
                              'cost values under specification %s on %s differ between %s and %s (only observers and specification switches in between): %s vs %s' % (spec_after(cfg, path), cfg_name(cfg), list(anc), list(path), {k: _fl(v) for k, v in nodes[anc][1]['costs'].items()}, {k: _fl(v) for k, v in fp['costs'].items()})))
                break


# ----------------------------------------------------------------------------- model side
def coq_cfg(c):
    m = {'PIT': 'PIT', 'MPS': 'MPS', 'SuperNet': 'SN'}[c['method']]
    has_bn = c['method'] in ('PIT', 'SuperNet') or c.get('arch') == 'tcn1d'
    has_drop = c['method'] in ('PIT', 'SuperNet') and not c.get('arch')        # the zoo networks have no Dropout
    sub = c.get('sub', ())
    return '(mkCfg %s %s %s %s true %s %s %s %s)' % (m, coq(c['gumbel']), coq(has_bn), coq(has_drop), coq('bn' in sub), coq('drop' in sub), coq('sampler' in sub), coq(c['full_cost']))


SPEC_COQ = {'single_a': 'SingleA', 'single_b': 'SingleB', 'dict': 'DictAB'}


def coq_op(op):
    if op.startswith('set_spec:'):
        return '(OSetSpec %s)' % SPEC_COQ[op.split(':')[1]]
    if op.startswith('get_cost:'):
        return '(OGetCost "%s"%%string)' % op.split(':')[1]
    return {'export': 'OExport', 'export_nobn': 'OExportNoBn', 'summary': 'OSummary', 'cost': 'OCost', 'forward': 'OForward', 'train_step': 'OTrainStep', 'flip_sub': 'OFlip',
            'backward': 'OBackward', 'opt_step': 'OStep', 'write_params': 'OWrite', 'load_params': 'OWrite', 'mode_eval': '(OSetMode false)', 'mode_train': '(OSetMode true)',
            'train_nas_only': '(OSetTrain TNas)', 'train_net_only': '(OSetTrain TNet)', 'train_net_and_nas': '(OSetTrain TAll)',
            'opts:frozen': '(OSetOpt (Some true) None None None)', 'opts:unfrozen': '(OSetOpt (Some false) None None None)',
            'opts:hard': '(OSetOpt None (Some true) None None)', 'opts:soft': '(OSetOpt None (Some false) None None)',
            'opts:gumbel_on': '(OSetOpt None None (Some true) None)', 'opts:gumbel_off': '(OSetOpt None None (Some false) None)',
            'opts:temp': '(OSetOpt None None None (Some 2))', 'opts:temp1': '(OSetOpt None None None (Some 1))'}[op]


def compare_path(cfg, path, nodes, mres, mism):
    """model trace (obs, state tuple) per step vs the fingerprints along root..path; returns #comparisons.
    mres covers prefix + path; the root fingerprint was taken after the prefix"""
    n = 0
    fps = [nodes[path[:i]][1] for i in range(len(path) + 1)]
    obs = [nodes[path[:i + 1]][0] for i in range(len(path))]
    init = (0, 0, (cfg['train'],) * 3 + (cfg['train'] != bool(cfg.get('mixed')),), ('TInit',), 0, (SPEC_COQ[cfg['spec0']],), False, (False, False, cfg['gumbel'], 1), ('TBuilt',))
    k = len(cfg.get('prefix', ()))
    sts = ([init] + [r[1] for r in mres])[k:]
    mobs = [r[0] for r in mres][k:]

    def bad(what, i, model, impl):
        mism.append({'what': what, 'cfg': cfg, 'ops': list(path), 'step': i, 'model': repr(model), 'impl': repr(impl)})
    for i, (st, fp) in enumerate(zip(sts, fps)):
        pv, bv, (tw, ts, tl, tsub), th, rng, sp, pol, mopt, mtrn = st
        for nm, mv, iv in (('train_wrapper', tw, fp['train_wrapper']), ('train_seed', ts, fp['train_seed']), ('train_rest(all)', tl, fp['train_leaves_all']),
                           ('train_rest(any)', tl, fp['train_leaves_any']), ('train_sub(all)', tsub, tsub if fp['train_sub_all'] is None else fp['train_sub_all']),
                           ('train_sub(any)', tsub, tsub if fp['train_sub_any'] is None else fp['train_sub_any']), ('polluted', pol, fp['polluted']), ('spec', sp[0], SPEC_COQ[spec_after(cfg, path[:i])])):
            n += 1
            if mv != iv:
                bad(nm, i, mv, iv)
    # provenance tokens: equal in the model => equal in the implementation (all pairs); for the parameter version and
    # the RNG position also the converse; for buffers / coefficients the converse on consecutive states
    mps = cfg['method'] == 'MPS'
    for i in range(len(sts)):
        for j in range(i + 1, len(sts)):
            a, b = sts[i], sts[j]
            for nm, ma, mb, key, both in (('params', a[0], b[0], 'params', not any(sts[k][8][0] == 'TNas' for k in range(i, j))     # NAS-only steps may have no gradient (hard selection)
                                           and not any(o in ('opt_step', 'write_params', 'load_params') for o in path[i:j])),     # no stored gradient / an involution
                                          ('rng', a[4], b[4], 'rng', True),
                                          ('requires_grad mode', a[8], b[8], 'reqgrad', False),
                                          ('sampling options', a[7] if cfg['method'] != 'PIT' else 0, b[7] if cfg['method'] != 'PIT' else 0, 'sampling', True),
                                          ('buffers', (a[1], (a[3], a[7][3]) if mps else 0), (b[1], (b[3], b[7][3]) if mps else 0), 'buffers', j == i + 1 and a[1] != b[1]),     # MPS: theta_alpha and temperature are buffers
                                          ('theta', a[3], b[3], 'theta', j == i + 1 and cfg['method'] != 'PIT' and 'opt_step' not in path[:j] and a[3][0] != 'TInit' and a[8][0] != 'TNet'     # (frozen alpha: same sample)
                                           and ((b[3][0] == 'TGumbel' and not b[3][3]) or (b[3][0] == 'TSoft' and not b[3][2])))):     # one-hot samples may coincide
                n += 1
                ie = fps[i][key] == fps[j][key]
                if (ma == mb and not ie) or (both and ma != mb and ie):
                    bad('%s: model says %s, implementation says %s (steps %d,%d)' % (nm, 'same' if ma == mb else 'different', 'same' if ie else 'different', i, j), j, (ma, mb), (fps[i][key], fps[j][key]))
    for i, (mo, io) in enumerate(zip(mobs, obs)):
        n += 1
        if (mo[0] == 'OErr') != str(io).startswith('EXC:') or (mo[0] == 'OOk') != (io == 'ok'):
            bad('observation class', i + 1, mo, io)
        for j in range(i + 1, len(mobs)):
            if mobs[j] == mo and mo[0] not in ('OErr',):
                n += 1
                if obs[j] != io:
                    bad('observation: model predicts equal results for steps %d and %d' % (i + 1, j + 1), j + 1, mo, (io, obs[j]))
    return n


# ----------------------------------------------------------------------------- run
def plan(ctx):
    cfgs = all_cfgs() + zoo_cfgs()
    for c in cfgs:       # MPS zoo networks: quantizer parameters moved away from their construction values (see move_quantizer_params)
        if c['method'] == 'MPS' and c.get('arch'):
            c['qmoved'] = True
    only = os.environ.get('VERIF_C18_METHODS')        # development knob (mutant runs): restrict to some methods
    if only:
        cfgs = [c for c in cfgs if c['method'] in only.split(',')]
    main = [c for c in cfgs if not c.get('arch') and not c.get('prefix') and c['train'] and (c['method'] == 'PIT' or c['gumbel'])]          # 2 + 2 + 2
    tasks = []
    full = lambda c: ('zoo' if ctx.quick else 'full') if c.get('arch') else 'full_pit' if c['method'] == 'PIT' else 'full'
    # depth 3: the three main methods in training, one with uniform flags + dict specification, two with mixed flags + dict
    deep3 = [dict(c, mixed=(c['method'] != 'MPS'), spec0='dict') for c in main if c['full_cost']]
    if ctx.quick:
        for c in cfgs:
            tasks += [('dfs', c, full(c), 2, op) for op in ALPH[full(c)]]
        for c in [c for c in deep3 if c['method'] != 'MPS']:        # (MPS at depth 3: thorough tier)
            tasks += [('dfs', c, full(c), 3, op) for op in ALPH[full(c)]]
        for c in option_cfgs():
            tasks += [('dfs', c, 'mid', 2, op) for op in MID]
        for c in step_cfgs():
            tasks += [('dfs', c, 'step', 3 if c['method'] == 'PIT' else 2, op) for op in STEP]
        nlin = 4
    else:
        for c in cfgs + deep3:
            tasks += [('dfs', c, full(c), 3 if c['train'] else 2, op) for op in ALPH[full(c)]]
        for c in deep3 + [c for c in main if not c['full_cost']][:1]:
            tasks += [('dfs', c, 'mid', 4, op) for op in MID]
        for c in deep3:
            tasks += [('dfs', c, 'small', 5, op) for op in SMALL]
        for c in step_cfgs():
            tasks += [('dfs', c, 'step', 4, op) for op in STEP]
        for c in option_cfgs():
            tasks += [('dfs', c, full(c), 2, op) for op in ALPH[full(c)]]
            tasks += [('dfs', c, 'mid', 3, op) for op in MID]
        nlin = 20
    for c in cfgs:
        kinds = [k for k in I.KINDS if not (c['method'] == 'MPS' and k in ('bn', 'drop')) and not (c['method'] == 'PIT' and k == 'sampler')]
        for _ in range(nlin):
            alph = ALL + ['opts:' + o for o in I.OPTS_FOR[c['method']]]
            ops = [ctx.rng.choice(alph) for _ in range(5)]
            sub = tuple(k for k in kinds if ctx.rng.random() < 0.5) or (ctx.rng.choice(kinds),)
            pre = ctx.rng.choice([(), ('forward',), ('forward', 'train_step')])
            if I.OPTS_FOR[c['method']] and ctx.rng.random() < 0.5:       # non-default sampling options at observer time
                pre = pre + tuple('opts:' + o for o in ctx.rng.sample(I.OPTS_FOR[c['method']], 2))
            c2 = dict(c, spec0=ctx.rng.choice(I.SPECS), prefix=pre, sub=sub, mixed=ctx.rng.random() < 0.5, qmoved=(c['method'] == 'MPS' and ctx.rng.random() < 0.5), eval_probe=True)
            tasks.append(('lin', c2, ops))
    return tasks


def run(ctx):
    built = ctx.build()
    tasks = plan(ctx)
    ctx.rule = ('every op sequence up to the stated depth over the alphabet {export, export(add_bn=False) [PIT], summary, cost, get_cost(a), get_cost(b), set spec dict / single, '
                'forward, search step, flip the flags of the sub-set S} on 20 base configurations (method x sampler x train/eval x {full_cost + dict specification + uniform flags | '
                'nas cost + single specification + MIXED flags: BatchNorm/Dropout/samplers opposite to the wrapper}) + 3 training configurations with full_cost, dict specification '
                '(2 of them with mixed flags); every history runs from scratch on one freshly built live object; + seeded length-5 histories (random sub-set S, random mixed start, '
                'random initial specification, update_softmax_options presets as ops and in the prefix) + 10 MPS / SuperNet configurations whose sampling options are non-default at '
                'observer time + 13 zoo configurations (PIT causal Conv1d net with ConstantPad1d(value != 0) and pruned rf/dilation masks; PIT and MPS two-input nets that cat their raw inputs; MPS Conv1d+BatchNorm1d net whose BN stays unfolded, in training mode; parameters frozen with train_nas_only / train_net_only before the observers); half of the MPS configurations have the PACT clipping bounds moved to 1e-5 / 0 / -0.5 / 0.5 .. 10 before the observers; options: (disable_sampling=True after search steps, hard, temperature 0.5, gumbel switched; 8-op alphabet depth 2). quick: depth 2 on the 20, depth 3 on 2 of the 3; 7-op step alphabet {export, summary, cost, backward, opt_step, write_params, eval()} depth 3 on the 2 PIT / depth 2 on the MPS and SuperNet training configurations (observers between backward() and step(), parameter writes followed by eval() + inference); thorough: depth 3 on training / 2 on eval configurations, 8-op alphabet depth 4 on 4, '
                '5-op alphabet depth 5 on 3; a case = one history; non-trivial = it contains an observer call; distinct = distinct (configuration, history)')
    tasks.sort(key=lambda t: -(len(ALPH[t[2]]) ** (t[3] - 1) if t[0] == 'dfs' else 1))
    mp = multiprocessing.get_context('fork')
    groups = {}     # (cfg key, kind) -> (cfg, dict path -> (obs, fp))
    with concurrent.futures.ProcessPoolExecutor(NPROC, mp_context=mp) as ex:
        for t, res in ex.map(_task, tasks, chunksize=1):
            cfg = t[1]
            gk = (json.dumps(cfg, sort_keys=True), 'tree' if t[0] == 'dfs' else 'lin:' + '|'.join(t[2]))
            g = groups.setdefault(gk, (cfg, {}))
            for path, ob, fp in res:
                g[1].setdefault(path, (ob, fp))
    fails = []
    leaves = []     # (cfg, nodes, path)
    for (ck, kind), (cfg, nodes) in groups.items():
        for path, (ob, fp) in nodes.items():
            if path:
                step_oracle(cfg, path, ob, fp, nodes[path[:-1]][1], fails)
                ctx.case((ck, path, kind[:3]), nontrivial=any(is_obs(o) for o in path), kind='%s:len%d' % (cfg['method'], len(path)),
                         sample={'cfg': cfg_name(cfg), 'ops': list(path), 'last_result': ob, 'fingerprint': {k: fp[k] for k in ('params', 'train_seed', 'rng', 'cost', 'export')}})
        path_oracles(cfg, nodes, fails)
        for path in nodes:
            if path and not any(path + (o,) in nodes for o in ALL + ['opts:' + o for o in I.OPTS]):
                leaves.append((cfg, nodes, path))
    ctx.exhaustive = True
    ctx.extra['exhaustive_part'] = 'all histories up to the stated depth over the stated alphabets (see rule); the 3 networks, their weights and the input batch are fixed'
    ctx.extra['steps_executed'] = sum(len(n) for _, n in groups.values())

    # consequences (continuation / round trip / forward results) are reported only where no single observer step
    # already explains them
    step_tags = {k.split(':', 1)[1] for k, _, _ in fails if '-changes-' in k or '-result-differs-' in k}
    fails.sort(key=lambda f: (len(f[1].get('ops', ())), len(f[1]['cfg'].get('prefix', ()))))     # shortest witness of every key (stable sort)
    seen = set()
    for key, rep, what in fails:
        if key in seen or (key.split(':', 1)[0] in ('continuation-differs-after-observers', 'forward-output-differs-after-observers', 'set-spec-roundtrip-cost-differs')
                           and key.split(':', 1)[1] in step_tags):
            continue
        seen.add(key)
        ctx.violation(key, rep, what)

    # ---- model evaluation in Coq
    mism = []
    model_ok = built
    if built:
        try:
            exprs = ['run_trace_t fixed %s %s %s %s [%s]' % (coq_cfg(c), coq(c['train']), coq(bool(c.get('mixed'))), SPEC_COQ[c['spec0']], '; '.join(coq_op(o) for o in tuple(c.get('prefix', ())) + path))
                     for c, _, path in leaves]
            vals = ctx.coq_eval_sharded('cases', ['Plinio.Model.Observers'], '', exprs, shard=500)
            for (c, nodes, path), mres in zip(leaves, vals):
                ctx.corr += compare_path(c, path, nodes, mres, mism)
        except RuntimeError as ex:
            model_ok = False
            ctx.notes.append('model evaluation failed: ' + str(ex)[-800:])
    ctx.extra['model_impl_mismatches'] = len(mism)
    ctx.assumptions += ['the read-only probes (cost values, summary, export, output) are taken on deep copies of the live object; the histories themselves never run on a copy',
                        'tensors are compared bitwise through sha1 prefixes (48 bit); the RNG position is torch.random.get_rng_state() of the CPU generator']

    if not ctx.violations:   # a printed KNOWN-FINDING must not hide a broken proof / model / correspondence
        if not built:
            ctx.violation('proof-broken', {'theorems': [o[0] for o in ctx.obligations if not o[1]], 'log': getattr(ctx, 'broken_log', '')[-3000:]}, 'Props/C18.v no longer checks', no_input=True)
        elif not model_ok:
            ctx.violation('model-eval-broken', {'notes': ctx.notes}, 'the model could not be evaluated', no_input=True)
        elif mism:
            ctx.violation('correspondence-broken', dict(mism[0], n_mismatches=len(mism), correspondence='Model/Observers.v vs plinio.methods.{pit,mps,supernet}'),
                          'model and implementation disagree on %d observations (first: %s) but the property oracle found no failing input' % (len(mism), mism[0]), no_input=True)


def replay(r):
    """re-executes the failing history on the implementation (one live object) and prints what the property requires"""
    print(json.dumps({k: r[k] for k in r if k not in ('log',)}, indent=1, default=str)[:2500])
    if 'cfg' not in r or 'ops' not in r:
        print('no input to replay (%s)' % r.get('key'))
        return 1
    cfg, ops = r['cfg'], r['ops']
    cfg['prefix'] = tuple(cfg.get('prefix', ()))
    res = I.run_sequence(cfg, ops)
    bad = 0
    for i, op in enumerate(ops):
        par, fp = res['fps'][i], res['fps'][i + 1]
        if is_obs(op):
            ch = [k for k in STATE + DERIVED if fp[k] != par[k]]
            print('step %d %-18s -> %-16s changed: %s' % (i + 1, op, str(res['obs'][i])[:16], ch or 'nothing'))
            if 'params' in ch or 'buffers' in ch:
                print('        changed tensors of the state_dict: %s' % ([k for k in fp['tensors_v'] if fp['tensors_v'][k] != par['tensors_v'].get(k)] + ['(gone) ' + k for k in par['tensors_v'] if k not in fp['tensors_v']])[:8])
            if 'reqgrad' in ch:
                print('        parameters un-frozen by the call: %s  frozen by the call: %s' % (sorted(set(par['reqgrad_v']) - set(fp['reqgrad_v']))[:8], sorted(set(fp['reqgrad_v']) - set(par['reqgrad_v']))[:8]))
            if 'attrs' in ch:
                print('        module attributes before: %s  after: %s' % (sorted(set(par['attrs_v']) - set(fp['attrs_v']))[:6], sorted(set(fp['attrs_v']) - set(par['attrs_v']))[:6]))
            if 'sampling' in ch:
                print('        sampling options before: %s  after: %s' % (par['sampling_v'], fp['sampling_v']))
            if 'cost' in ch:
                print('        cost values (each read first on a copy) before: %s  after: %s' % ({k: _fl(v) for k, v in par['costs'].items()}, {k: _fl(v) for k, v in fp['costs'].items()}))
            bad += bool(ch)
        else:
            print('step %d %-18s -> %-16s (not an observer)' % (i + 1, op, str(res['obs'][i])[:16]))
    if 'ops_without_observers' in r:
        res2 = I.run_sequence(cfg, r['ops_without_observers'])
        ch = [k for k in STATE + DERIVED if res['fps'][-1][k] != res2['fps'][-1][k]]
        print('final state vs. the history without observers: differing components: %s' % (ch or 'none'))
        bad += bool(ch)
    if 'earlier' in r:
        k = len(r['earlier'])
        same = res['fps'][k]['cost'] == res['fps'][-1]['cost']
        print('cost values after %s vs after %s: %s   (%s vs %s)' % (r['earlier'], ops, 'same' if same else 'DIFFERENT', {k: _fl(v) for k, v in res['fps'][k]['costs'].items()} if False else res['fps'][len(r['earlier'])]['costs'], res['fps'][-1]['costs']))
        bad += (not same)
    print('required: every observer call (export / summary / cost / get_cost) leaves parameters, buffers, training flags, sampled coefficients, RNG position, '
          'cost values, summary, export and outputs unchanged ->', 'HOLDS on this history' if not bad else 'VIOLATED')
    return 0 if not bad else 1
