#!/venv/bin/python
"""regenerates the two generated tables of DESIGN.md §13.1 (findings) and §13.2 (seeded changes) between markers"""
import json, glob, re, subprocess
D = '/verif/DESIGN.md'
s = open(D).read()
k = json.load(open('/verif/KNOWN_FINDINGS.json'))['findings']
rows = ['| property | status | /repo commit | what failed on the tree as found (key) |', '|---|---|---|---|']
for f in sorted(k, key=lambda f: (f['property'], f['status'], f['key'])):
    what = (f.get('record') or f.get('description') or '')
    what = re.sub(r'^fixed: property=\S+ \S+ ', '', what)
    rows.append('| %s | %s | %s | %s (`%s`) |' % (f['property'], f['status'], f.get('commit', ''), what[:260].replace('|', '/').replace('\n', ' '), f['key'][:70]))
nfix = len({f.get('commit') for f in k if f['status'] == 'fixed'})
t1 = '\n'.join(rows) + '\n\n%d records: %d fixed (in %d `fix:` commits), %d open.\n' % (len(k), sum(f['status'] == 'fixed' for f in k), nfix, sum(f['status'] == 'open' for f in k))
t2 = subprocess.run(['/venv/bin/python', '/verif/tools/seeded_table.py'], capture_output=True, text=True).stdout
for name, t in (('findings', t1), ('seeded', t2)):
    b, e = '<!-- table:%s -->' % name, '<!-- /table:%s -->' % name
    block = b + '\n' + t + e
    if b in s:
        s = s[:s.index(b)] + block + s[s.index(e) + len(e):]
    else:
        anchor = '### §13.2 Seeded changes' if name == 'findings' else '\n### §13.C15 / C19 / C13 / C20 (as built)'
        s = s.replace(anchor, block + '\n\n' + anchor.lstrip('\n') if name == 'findings' else '\n' + block + '\n' + anchor, 1)
open(D, 'w').write(s)
print('tables written')
