"""C10 — second tie, by translation (DESIGN.md §13, "Second tie, by translation").

translator/sampler2coq.py reads the source of the samplers of the tree under test (STEArgmax.forward,
MPSBaseQtz.sample_alpha_sm/_gs/_none, update_softmax_options, __init__, SuperNetCombiner.sample_alpha_sm/_gs, __init__,
SuperNet.update_softmax_options) and writes coq/Gen/SamplerGen.v; coq/Proofs/SamplerGen.v proves the generated functions
equal to Model/Sampler.v for the configuration mkCfg true false, and Props/C10.v states the C10_generated_* theorems.
This module is what vlib/c10.py needs:

    rej = c10_gen.regenerate(ctx)                 # BEFORE ctx.build(); None, or why the translator refused the source
    ...
    gvals = ctx.coq_eval_sharded('gtraces', c10_gen.IMPORTS, '', c10_gen.gen_exprs(exprs), shard=250)
    mism += c10_gen.differences(exprs, vals, gvals)   # the generated model next to the hand model, same cases
"""
import os
import re
from .common import COQ, REPO, write_if_changed
from translator import sampler2coq

GEN_V = os.path.join(COQ, 'Gen', 'SamplerGen.v')
IMPORTS = ['Plinio.Model.Sampler', 'Plinio.Gen.SamplerGen']
TRANSLATOR = 'translator/sampler2coq.py'
SOURCE = 'plinio/methods/mps/nn/{qtz,ste_argmax}.py, plinio/methods/supernet/nn/combiner.py, SuperNet.update_softmax_options'


def regenerate(ctx=None, repo=None):
    """translate the samplers of the tree under test into Gen/SamplerGen.v (written only when it changed).
    -> None, or the reason why the translator refused the source (the file then fails on purpose)"""
    try:
        text, rej = sampler2coq.translate_repo(repo or REPO), None
    except (sampler2coq.Reject, SyntaxError, OSError) as e:
        rej = '%s: %s' % (type(e).__name__, e)
        text = ('(* translator/sampler2coq.py REFUSED the samplers of the tree under test:\n   %s\n   no model of the current code exists; this file fails on purpose. *)\n'
                'Definition translator_rejected : True := 0.\n' % rej.replace('*)', '* )').replace('(*', '( *'))
    write_if_changed(GEN_V, text)
    if ctx is not None and rej:
        ctx.notes.append('generated model: the translator refused the source: ' + rej)
    return rej


def status(rej, built):
    """the `generated_model` entry of the evidence file"""
    return {'file': 'coq/Gen/SamplerGen.v', 'translator': TRANSLATOR, 'source': SOURCE,
            'status': 'refused: ' + rej if rej else 'regenerated; equal to the hand model for cfg = (keep_opts true, comb_eval_argmax false) (C10_generated_*)' if built
            else 'regenerated; obligations do not check'}


_TRACE = re.compile(r'^run_trace (?:true|false) (?:true|false) ')
_SAMPLE = re.compile(r'^run_sample (?:true|false) ')


def gen_expr(e):
    """the expression of the hand model -> the same case run with the generated functions
    (run_trace keep fixc K ... -> run_trace_gen K ... ; run_sample fixc K ... -> run_sample_gen K ...); None if it has no counterpart"""
    if _TRACE.match(e):
        return _TRACE.sub('run_trace_gen ', e, 1)
    if _SAMPLE.match(e):
        return _SAMPLE.sub('run_sample_gen ', e, 1)
    return None


def gen_exprs(exprs):
    """the counterparts of all expressions that have one (run_selected is a function of alpha alone: none)"""
    return [g for g in map(gen_expr, exprs) if g is not None]


def differences(exprs, vals, gvals, limit=3):
    """[(what, info, value)] for every case on which the generated and the hand-written model differ.  The generated model has
    no switches: it must agree with the hand model run with the switches the check probed (keep, fixc) -- which the theorems
    guarantee when these are (true, false)"""
    idx = [k for k, e in enumerate(exprs) if gen_expr(e) is not None]
    out = []
    if len(idx) != len(gvals):
        return [('generated model: %d values for %d cases' % (len(gvals), len(idx)), {}, None)]
    bad = [(k, gv) for k, gv in zip(idx, gvals) if vals[k] != gv]
    for k, gv in bad[:limit]:
        out.append(('generated model differs from the hand-written model', {'expr': gen_expr(exprs[k])[:600], 'hand': str(vals[k])[:200], 'n': len(bad)}, str(gv)[:200]))
    return out


def report(ctx, rej, built):
    """translator-rejected / proof-broken wording for the final verdict; True if a violation was filed"""
    if built or ctx.violations:
        return False
    if rej:
        ctx.violation('translator-rejected', {'translator': TRANSLATOR, 'source': SOURCE, 'reason': rej, 'theorems': [o[0] for o in ctx.obligations if not o[1]]},
                      'the source of the samplers is outside the subset the translator accepts (%s): no generated model, the C10_generated_* theorems are not established' % rej[:300], no_input=True)
        return True
    return False
