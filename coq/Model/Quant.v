(* Model of plinio/methods/mps/quant/quantizers: MinMaxWeight (symmetric), PACTAct, QuantizerBias  (C13) *)
From Coq Require Import QArith Qround ZArith List.
Import ListNotations.
Require Import Plinio.Base.Qx Plinio.Base.Round.
Local Open Scope Q_scope.

Definition pow2 (p : nat) : Z := (2 ^ Z.of_nat p)%Z.
Definition qpow2 (p : nat) : Q := inject_Z (pow2 p).

(* ---------------- MinMaxWeight, symmetric: ch_max = max |x|, ch_min = -ch_max *)
Definition chan_max (xs : list Q) : Q := fold_left (fun a x => qmax a (qabs x)) xs 0.

(* scale property / scale_factor of _min_max_quantize:  range = ch_max - ch_min, 0 replaced by 1,
   divided by 2^p - 1; zeros at 0 bits *)
Definition wq_scale (p : nat) (m : Q) : Q :=
  match p with
  | O => 0
  | _ => (let r := m - (- m) in if Qeq_bool r 0 then 1 else r) / (qpow2 p - 1)
  end.

(* y = round(x / scale); y = clip(y, max = 2^(p-1) - 1);  zeros at 0 bits *)
Definition wq_int (p : nat) (m x : Q) : Z :=
  match p with
  | O => 0%Z
  | S p' => Z.min (rne (x / wq_scale p m)) (pow2 p' - 1)
  end.
Definition wq_fq (p : nat) (m x : Q) : Q := inject_Z (wq_int p m x) * wq_scale p m.

Definition wq_channel (p : nat) (xs : list Q) : list Z := map (wq_int p (chan_max xs)) xs.

(* ---------------- PACTAct *)
Definition qclamp (x lo hi : Q) : Q := qmin (qmax x lo) hi.     (* torch.clamp(x, lo, hi) *)
(* scale_factor = (2^p - 1) / (clip + 1e-3) *)
Definition aq_sf (p : nat) (clip : Q) : Q := (qpow2 p - 1) / (clip + (1 # 1000)).
Definition aq_int (p : nat) (clip x : Q) : Z := Qfloor (aq_sf p clip * qclamp x 0 clip).
Definition aq_fq (p : nat) (clip x : Q) : Q := inject_Z (aq_int p clip x) / aq_sf p clip.
(* PACTAct.scale: upstream  clip / (2^p - 1);  now  (clip + 1e-3) / (2^p - 1) *)
Definition aq_scale_v0 (p : nat) (clip : Q) : Q := clip / (qpow2 p - 1).
Definition aq_scale (p : nat) (clip : Q) : Q := (clip + (1 # 1000)) / (qpow2 p - 1).

(* ---------------- QuantizerBias: mask = ~isclose(s_b, 0)  (|s_b| <= 1e-8 is "zero") *)
Definition bq_int (sb b : Q) : Z :=
  if Qle_bool (qabs sb) (1 # 100000000) then 0%Z else rne (b / sb).
Definition bq_fq (sb b : Q) : Q := sb * inject_Z (bq_int sb b).

(* correspondence helpers *)
Definition run_wq (p : nat) (xs : list Q) : list Z * (Z * Z) :=
  (wq_channel p xs, qpair (wq_scale p (chan_max xs))).
Definition run_aq (p : nat) (clip : Q) (xs : list Q) : list Z * (Z * Z) :=
  (map (aq_int p clip) xs, qpair (aq_scale p clip)).
Definition run_aq_pre (p : nat) (clip : Q) (xs : list Q) : list (Z * Z) :=
  map (fun x => qpair (aq_sf p clip * qclamp x 0 clip)) xs.
Definition run_wq_pre (p : nat) (xs : list Q) : list (Z * Z) :=
  map (fun x => qpair (x / wq_scale p (chan_max xs))) xs.
Definition run_bq (sb : Q) (bs : list Q) : list Z := map (bq_int sb) bs.
Definition run_bq_pre (sb : Q) (bs : list Q) : list (Z * Z) := map (fun b => qpair (b / sb)) bs.
