"""Translator: the samplers of the selection coefficients  ->  coq/Gen/SamplerGen.v   (C10)

Reads, with `ast`, the SOURCE of
  plinio/methods/mps/nn/ste_argmax.py        STEArgmax.forward                               -> ste_argmax_gen
  plinio/methods/mps/nn/qtz.py               MPSBaseQtz.sample_alpha_sm / _gs / _none        -> mps_sample_alpha_{sm,gs,none}_gen
                                             MPSBaseQtz.update_softmax_options               -> mps_update_softmax_options_gen
                                             MPSBaseQtz.__init__ (the option wiring)         -> mps_init_gen
                                             `self.sample_alpha()` at the head of forward    -> mps_sample_alpha_gen / mps_forward_gen
  plinio/methods/supernet/nn/combiner.py     SuperNetCombiner.sample_alpha_sm / _gs          -> comb_sample_alpha_{sm,gs}_gen
                                             SuperNetCombiner.__init__ (choice of sampler)   -> comb_init_gen
                                             `self.sample_alpha()` at the head of forward    -> comb_sample_alpha_gen / comb_forward_gen
  plinio/methods/supernet/supernet.py        SuperNet.update_softmax_options (loop body)     -> comb_update_softmax_options_gen
of the tree under test and emits Gallina definitions that follow the code statement by statement over the vocabulary
of Model/Sampler.v.  Proofs/SamplerGen.v proves them equal to the hand-written model (`sample_sm`, `sample_gs`, `sample`,
the `SUpdate` / `SForward` cases of `step`) for the configuration `mkCfg true false` that describes the current tree.

How the code is read (TRUSTED conventions)
  * the object: `self` is a `gobj` = (core : sampler of Model/Sampler.v, bound : Z); `bound` is the NAME of the function
    stored in `self.sample_alpha` (0 = sample_alpha_sm, 1 = sample_alpha_gs, 2 = sample_alpha_none), `self.sample_alpha()`
    calls the method of that name.  self.alpha / theta_alpha / hard_softmax / gumbel_softmax / disable_sampling /
    temperature (`_softmax_temperature` and its property for the combiner) / training are the fields of `core`.
    `self.training` is what nn.Module.train()/eval() set.  Every statement yields the next `self` (let self := ... in).
  * tensors are lists of COLUMNS (dim 0 = the alternative, one column per decision); a 1-D tensor is one column.
    `x / t` is element-wise; `cast(torch.Tensor, x)`, `.to(torch.float32)`, `.float()`, `torch.tensor(v, dtype=float32)`,
    `.item()` are the identity (float arithmetic is read as rational arithmetic, exp as the abstract g).
  * F.softmax(x, dim=0) is  exp(x_i) / sum_j exp(x_j)  per column (`tsoftmax g`); any other dim is refused.
  * F.gumbel_softmax(logits, tau, hard, dim=0) is the model's `gumbel_softmax` per column with the NOISE AS AN EXPLICIT
    PARAMETER: the translator cannot see the noise torch draws inside (`-empty_like(logits).exponential_().log()`); that
    F.gumbel_softmax is softmax((logits + noise) / tau) followed, if hard, by the one-hot of its arg-max is trusted.
    At most one call per path of a function; the 4th positional argument of F.gumbel_softmax is `eps`, NOT dim: refused.
  * F.one_hot(torch.argmax(x, dim=0), num_classes=len(x)) has the class axis LAST: for a 2-D x it is the transposed
    layout; the translator tracks the layout, `.t()` flips it, and a tensor may be stored / returned only in the normal
    layout (a 1-D tensor of the combiner has one layout).  torch.argmax = first maximum (Model/Sampler.v `argmax`).
  * annotations give the types: float -> Q, bool -> bool, Optional[float] / Optional[bool] -> option; `if x is not None`
    on an optional argument is a `match`; an optional bool used as a test is Python truthiness (None = False).
  * an `if` that contains a `return` or assigns a local name is translated by copying the statements that follow into
    both branches (early return); otherwise the branches are joined on `self`.

Fail closed: anything outside this subset raises Reject.  The wiring around the translated functions is checked
structurally: the set of classes of each module and of methods of each class is fixed (an unknown method -> Reject);
`summary` / `best_layer_index` of the combiner and the constructors of MPSPerLayerQtz / MPSPerChannelQtz (initial
theta_alpha = ones, initial `self.sample_alpha()`) are pinned by a digest of their AST (docstrings excluded); every other
method must be READ-ONLY on the sampler state (no store to a tracked attribute, no in-place tensor method on it, no call of
a sampler / option / mode method); `forward` must start with `self.sample_alpha()` and be read-only afterwards; the
statements of the two `__init__` that do not concern the options are compared with a fixed list; module level may only
hold imports and classes, with F / nn / torch / cast / STEArgmax bound as expected.
"""
import ast
import hashlib
import os


class Reject(Exception):
    pass


NAME_OF = {'sample_alpha_sm': 0, 'sample_alpha_gs': 1, 'sample_alpha_none': 2}
TRACKED = ('alpha', 'theta_alpha', 'temperature', '_softmax_temperature', 'softmax_temperature', 'hard_softmax', 'gumbel_softmax',
           'disable_sampling', 'training', 'sample_alpha', 'sample_alpha_sm', 'sample_alpha_gs', 'sample_alpha_none')
CALL_FORBIDDEN = ('sample_alpha', 'sample_alpha_sm', 'sample_alpha_gs', 'sample_alpha_none', 'update_softmax_options', 'train', 'eval',
                  'register_buffer', 'register_parameter', '__setattr__', '__delattr__', 'requires_grad_', 'load_state_dict', 'apply_', '_apply')

ATTRS_COMMON = {
    'alpha': ('T', '(alpha (core self))', None),
    'theta_alpha': ('T', '(theta (core self))', 'with_theta'),
    'hard_softmax': ('B', '(hard (core self))', 'with_hard'),
    'training': ('B', '(training (core self))', None),
    'sample_alpha': ('M', '(bound self)', 'with_bound'),
}
ATTRS = {
    'mps': dict(ATTRS_COMMON, temperature=('Q', '(temp (core self))', 'with_temp'),
                gumbel_softmax=('B', '(gumbel (core self))', 'with_gumbel'),
                disable_sampling=('B', '(disabled (core self))', 'with_disabled')),
    'comb': dict(ATTRS_COMMON, _softmax_temperature=('Q', '(temp (core self))', 'with_temp'),
                 softmax_temperature=('Q', '(temp (core self))', 'with_temp')),
}
COQ_TY = {'Q': 'Q', 'B': 'bool', 'OQ': 'option Q', 'OB': 'option bool', 'T': 'list (list Q)'}


def _d(n):
    return ast.dump(n)[:200]


def _u(n):
    return ast.unparse(n)


def _strip(stmts):
    return [s for s in stmts if not (isinstance(s, ast.Expr) and isinstance(s.value, ast.Constant) and isinstance(s.value.value, str))
            and not isinstance(s, ast.Pass)]


def digest(fn):
    """AST digest of a function, docstrings excluded (comments and layout are not in the AST)"""
    fn = ast.parse(ast.unparse(fn)).body[0]
    for x in ast.walk(fn):
        if isinstance(x, (ast.FunctionDef, ast.ClassDef)):
            x.body = _strip(x.body) or [ast.Pass()]
    return hashlib.sha256(ast.dump(fn).encode()).hexdigest()[:16]


def _is_self(n, selfname):
    return isinstance(n, ast.Name) and n.id == selfname


def _attr_chain(n):
    """a.b.c -> 'a.b.c' (None if not a plain chain)"""
    parts = []
    while isinstance(n, ast.Attribute):
        parts.append(n.attr)
        n = n.value
    if isinstance(n, ast.Name):
        parts.append(n.id)
        return '.'.join(reversed(parts))
    return None


def _kw(call, names, npos_max):
    """arguments of a call by name: positional ones follow `names`; unknown / duplicated keywords -> Reject"""
    if len(call.args) > npos_max:
        raise Reject('too many positional arguments in ' + _u(call)[:120])
    if any(isinstance(a, ast.Starred) for a in call.args) or any(k.arg is None for k in call.keywords):
        raise Reject('* / ** arguments in ' + _u(call)[:120])
    out = dict(zip(names, call.args))
    for k in call.keywords:
        if k.arg not in names or k.arg in out:
            raise Reject('argument %s of %s' % (k.arg, _u(call)[:120]))
        out[k.arg] = k.value
    return out


def _is_float32(n):
    return _attr_chain(n) in ('torch.float32', 'torch.float')


def _const_int(n, v):
    return isinstance(n, ast.Constant) and type(n.value) is int and n.value == v


class Tr:
    """translation of the methods of one class; `kind` in ('mps', 'comb', 'ste')"""

    def __init__(self, kind, rank1, softmax_fns, ste_ok, selfname='self'):
        self.kind = kind
        self.rank1 = rank1                  # every tensor is 1-D (the combiner): one layout only
        self.softmax_fns = softmax_fns      # dotted names that denote torch.nn.functional in this module
        self.ste_ok = ste_ok                # STEArgmax is the class of ste_argmax.py
        self.selfname = selfname
        self.attrs = ATTRS.get(kind, {})
        self.known_calls = {}               # method name -> generated function (no noise) callable from a body
        self.noise_used = False

    # ------------------------------------------------------------------ expressions
    def self_attr(self, n):
        if isinstance(n, ast.Attribute) and _is_self(n.value, self.selfname):
            return n.attr
        return None

    def qexpr(self, n, env):
        if isinstance(n, ast.Constant) and type(n.value) is int and n.value >= 0:
            return '%d' % n.value
        if isinstance(n, ast.Constant) and type(n.value) is float and n.value >= 0 and float(int(n.value)) == n.value:
            return '%d' % int(n.value)
        if isinstance(n, ast.Name):
            if n.id in env and env[n.id][0] == 'Q':
                return env[n.id][1]
            raise Reject('name %s is not a number here' % n.id)
        a = self.self_attr(n)
        if a is not None:
            if a in self.attrs and self.attrs[a][0] == 'Q':
                return self.attrs[a][1]
            raise Reject('%s.%s is not a number' % (self.selfname, a))
        if isinstance(n, ast.Call):
            f = n.func
            # x.item() : the value of a 0-d tensor
            if isinstance(f, ast.Attribute) and f.attr == 'item' and not n.args and not n.keywords:
                return self.qexpr(f.value, env)
            # torch.tensor(v, dtype=torch.float32) / float(v)
            if _attr_chain(f) == 'torch.tensor':
                a_ = _kw(n, ['data', 'dtype'], 1)
                if 'data' in a_ and ('dtype' not in a_ or _is_float32(a_['dtype'])):
                    return self.qexpr(a_['data'], env)
            if isinstance(f, ast.Name) and f.id == 'float' and len(n.args) == 1 and not n.keywords:
                return self.qexpr(n.args[0], env)
        raise Reject('number expression not in the subset: ' + _u(n)[:160])

    def bexpr(self, n, env):
        if isinstance(n, ast.Constant) and isinstance(n.value, bool):
            return 'true' if n.value else 'false'
        if isinstance(n, ast.Name):
            if n.id in env and env[n.id][0] == 'B':
                return env[n.id][1]
            if n.id in env and env[n.id][0] == 'OB':
                return '(truthy %s)' % env[n.id][1]                      # Python truthiness of an Optional[bool]
            raise Reject('name %s is not a boolean here' % n.id)
        a = self.self_attr(n)
        if a is not None:
            if a in self.attrs and self.attrs[a][0] == 'B':
                return self.attrs[a][1]
            raise Reject('%s.%s is not a boolean' % (self.selfname, a))
        if isinstance(n, ast.UnaryOp) and isinstance(n.op, ast.Not):
            return '(negb %s)' % self.bexpr(n.operand, env)
        if isinstance(n, ast.BoolOp):
            op = 'andb' if isinstance(n.op, ast.And) else 'orb'
            out = self.bexpr(n.values[0], env)
            for v in n.values[1:]:
                out = '(%s %s %s)' % (op, out, self.bexpr(v, env))       # operands have no effect and cannot fail: lazy = strict
            return out
        t = self.opt_test(n, env)
        if t is not None:
            return '(is_none %s)' % env[t[0]][1] if not t[1] else '(negb (is_none %s))' % env[t[0]][1]
        raise Reject('test not in the subset: ' + _u(n)[:160])

    def opt_test(self, n, env):
        """`X is not None` -> (X, True), `X is None` -> (X, False) for an optional X"""
        if isinstance(n, ast.Compare) and len(n.ops) == 1 and isinstance(n.ops[0], (ast.Is, ast.IsNot)) and isinstance(n.left, ast.Name) \
                and isinstance(n.comparators[0], ast.Constant) and n.comparators[0].value is None \
                and n.left.id in env and env[n.left.id][0] in ('OQ', 'OB'):
            return n.left.id, isinstance(n.ops[0], ast.IsNot)
        return None

    def mexpr(self, n, env):
        """a bound method used as a value -> Z"""
        a = self.self_attr(n)
        if a in NAME_OF and a in self.methods:
            return '%d%%Z' % NAME_OF[a]
        if a == 'sample_alpha':
            return '(bound self)'
        if isinstance(n, ast.IfExp):
            return '(if %s then %s else %s)' % (self.bexpr(n.test, env), self.mexpr(n.body, env), self.mexpr(n.orelse, env))
        raise Reject('sampling function not in the subset: ' + _u(n)[:160])

    def _dim0(self, n):
        return n is not None and _const_int(n, 0)

    def _len_of(self, n, x_src):
        """len(x) / x.shape[0] / x.size(0) / x.size(dim=0) of the tensor whose source text is x_src"""
        if isinstance(n, ast.Call) and isinstance(n.func, ast.Name) and n.func.id == 'len' and len(n.args) == 1 and not n.keywords:
            return _u(n.args[0]) == x_src
        if isinstance(n, ast.Subscript) and isinstance(n.value, ast.Attribute) and n.value.attr == 'shape' and _const_int(n.slice, 0):
            return _u(n.value.value) == x_src
        if isinstance(n, ast.Call) and isinstance(n.func, ast.Attribute) and n.func.attr == 'size':
            a_ = _kw(n, ['dim'], 1)
            return self._dim0(a_.get('dim')) and _u(n.func.value) == x_src
        return False

    def texpr(self, n, env):
        """tensor expression -> (layout 'N' | 'T', Coq term : list (list Q))"""
        if isinstance(n, ast.Name):
            if n.id in env and env[n.id][0] in ('T', 'TT'):
                return ('N' if env[n.id][0] == 'T' else 'T'), env[n.id][1]
            raise Reject('name %s is not a tensor here' % n.id)
        a = self.self_attr(n)
        if a is not None:
            if a in self.attrs and self.attrs[a][0] == 'T':
                return 'N', self.attrs[a][1]
            raise Reject('%s.%s is not a tensor' % (self.selfname, a))
        if isinstance(n, ast.BinOp) and isinstance(n.op, ast.Div):
            lay, x = self.texpr(n.left, env)
            return lay, '(tdiv %s %s)' % (x, self.qexpr(n.right, env))
        if isinstance(n, ast.Attribute) and n.attr == 'T':
            lay, x = self.texpr(n.value, env)
            return self._flip(lay), x
        if not isinstance(n, ast.Call):
            raise Reject('tensor expression not in the subset: ' + _u(n)[:160])
        f = n.func
        fname = _attr_chain(f)
        # cast(torch.Tensor, x)
        if fname == 'cast' and len(n.args) == 2 and not n.keywords and _attr_chain(n.args[0]) == 'torch.Tensor':
            return self.texpr(n.args[1], env)
        # softmax
        if fname in [p + '.softmax' for p in self.softmax_fns] + ['torch.softmax']:
            a_ = _kw(n, ['input', 'dim'], 2)
            if 'input' not in a_ or not self._dim0(a_.get('dim')):
                raise Reject('softmax: the axis is not dim=0: ' + _u(n)[:160])
            lay, x = self.texpr(a_['input'], env)
            self._normal(lay, 'softmax over dim 0')
            return 'N', '(tsoftmax g %s)' % x
        if fname in [p + '.gumbel_softmax' for p in self.softmax_fns]:
            a_ = _kw(n, ['logits', 'tau', 'hard', 'eps', 'dim'], 5)
            if 'eps' in a_:
                raise Reject('gumbel_softmax: a 4th positional argument is `eps`, not the axis (the axis then defaults to -1): ' + _u(n)[:200])
            if 'logits' not in a_ or not self._dim0(a_.get('dim')):
                raise Reject('gumbel_softmax: the axis is not given as dim=0 (the 4th positional argument is eps): ' + _u(n)[:200])
            if self.noise_used is None:
                raise Reject('gumbel_softmax in a function that has no noise argument')
            if self.noise_used:
                raise Reject('second gumbel_softmax call on one path of a function (one noise draw per call is modelled)')
            self.noise_used = True
            lay, x = self.texpr(a_['logits'], env)
            self._normal(lay, 'gumbel_softmax over dim 0')
            tau = self.qexpr(a_['tau'], env) if 'tau' in a_ else '1'
            hd = self.bexpr(a_['hard'], env) if 'hard' in a_ else 'false'
            return 'N', '(tgumbel g %s %s %s noise)' % (x, tau, hd)
        # F.one_hot(torch.argmax(x, dim=0), num_classes=len(x))
        if fname in [p + '.one_hot' for p in self.softmax_fns]:
            a_ = _kw(n, ['tensor', 'num_classes'], 2)
            am = a_.get('tensor')
            x_node = None
            if isinstance(am, ast.Call) and _attr_chain(am.func) == 'torch.argmax':
                b_ = _kw(am, ['input', 'dim'], 2)
                x_node, dim = b_.get('input'), b_.get('dim')
            elif isinstance(am, ast.Call) and isinstance(am.func, ast.Attribute) and am.func.attr == 'argmax':
                b_ = _kw(am, ['dim'], 1)
                x_node, dim = am.func.value, b_.get('dim')
            if x_node is None or not (self._dim0(dim) or (dim is None and self.rank1)):
                raise Reject('one_hot: the index is not argmax(x, dim=0): ' + _u(n)[:200])
            if 'num_classes' not in a_ or not self._len_of(a_['num_classes'], _u(x_node)):
                raise Reject('one_hot: num_classes is not the length of the tensor the arg-max is taken of: ' + _u(n)[:200])
            lay, x = self.texpr(x_node, env)
            self._normal(lay, 'argmax over dim 0')
            return self._flip('N'), '(tonehot_argmax %s)' % x
        if fname == 'STEArgmax.apply' and self.ste_ok and len(n.args) == 1 and not n.keywords:
            lay, x = self.texpr(n.args[0], env)
            self._normal(lay, 'STEArgmax.apply')
            return 'N', '(ste_argmax_gen %s)' % x
        if isinstance(f, ast.Attribute):
            # x.t() / x.to(torch.float32) / x.to(dtype=torch.float32) / x.float() / x.softmax(dim=0)
            if f.attr == 't' and not n.args and not n.keywords:
                lay, x = self.texpr(f.value, env)
                return self._flip(lay), x
            if f.attr == 'float' and not n.args and not n.keywords:
                return self.texpr(f.value, env)
            if f.attr == 'to':
                a_ = _kw(n, ['dtype'], 1)
                if 'dtype' in a_ and _is_float32(a_['dtype']):
                    return self.texpr(f.value, env)
            if f.attr == 'softmax':
                a_ = _kw(n, ['dim'], 1)
                if self._dim0(a_.get('dim')):
                    lay, x = self.texpr(f.value, env)
                    self._normal(lay, 'softmax over dim 0')
                    return 'N', '(tsoftmax g %s)' % x
        raise Reject('tensor expression not in the subset: ' + _u(n)[:160])

    def _flip(self, lay):
        return lay if self.rank1 else ('T' if lay == 'N' else 'N')

    def _normal(self, lay, what):
        if lay != 'N':
            raise Reject('%s of a tensor whose class axis is last (F.one_hot output not transposed back)' % what)

    # ------------------------------------------------------------------ statements
    def _has_return_or_local(self, s):
        for x in ast.walk(s):
            if isinstance(x, ast.Return):
                return True
            if isinstance(x, (ast.Assign, ast.AnnAssign, ast.AugAssign)):
                ts = x.targets if isinstance(x, ast.Assign) else [x.target]
                if any(not (isinstance(t, ast.Attribute) and _is_self(t.value, self.selfname)) for t in ts):
                    return True
        return False

    def store(self, attr, value, env):
        if attr not in self.attrs or self.attrs[attr][2] is None:
            raise Reject('assignment to %s.%s' % (self.selfname, attr))
        k, _, setter = self.attrs[attr]
        if k == 'T':
            lay, v = self.texpr(value, env)
            self._normal(lay, 'storing into %s' % attr)
        elif k == 'Q':
            v = self.qexpr(value, env)
        elif k == 'B':
            if isinstance(value, ast.Name) and value.id in env and env[value.id][0] == 'OB':
                raise Reject('%s.%s may become None' % (self.selfname, attr))
            v = self.bexpr(value, env)
        else:
            v = self.mexpr(value, env)
        return '(%s self %s)' % (setter, v)

    def block(self, stmts, env, ind, skip=None):
        """statement list -> Coq term for the final `self`"""
        pad = '  ' * ind
        stmts = _strip(stmts)
        if not stmts:
            return pad + 'self'
        s, rest = stmts[0], stmts[1:]
        if skip is not None:
            eff = skip(s)
            if eff is not False:
                return (pad + 'let self := %s in\n' % eff if eff else '') + self.block(rest, env, ind, skip)
        if isinstance(s, ast.Return):
            if s.value is not None and not (isinstance(s.value, ast.Constant) and s.value.value is None):
                raise Reject('return of a value: ' + _u(s)[:120])
            return pad + 'self'
        if isinstance(s, ast.Assign) and len(s.targets) == 1:
            t = s.targets[0]
            a = self.self_attr(t)
            if a is not None:
                return pad + 'let self := %s in\n' % self.store(a, s.value, env) + self.block(rest, env, ind, skip)
            if isinstance(t, ast.Name):
                return self.local(t.id, s.value, env, rest, ind, skip)
            raise Reject('assignment not in the subset: ' + _u(s)[:160])
        if isinstance(s, ast.AnnAssign) and s.value is not None and isinstance(s.target, ast.Name):
            return self.local(s.target.id, s.value, env, rest, ind, skip)
        if isinstance(s, ast.Expr) and isinstance(s.value, ast.Call):
            c = s.value
            a = self.self_attr(c.func)
            # self.register_buffer('name', value): an assignment
            if a == 'register_buffer' and len(c.args) == 2 and not c.keywords and isinstance(c.args[0], ast.Constant) and isinstance(c.args[0].value, str):
                return pad + 'let self := %s in\n' % self.store(c.args[0].value, c.args[1], env) + self.block(rest, env, ind, skip)
            if a in self.known_calls:
                fn, params = self.known_calls[a]
                a_ = _kw(c, [p for p, _ in params], len(params))
                args = []
                for p, k in params:
                    if p not in a_ or (isinstance(a_[p], ast.Constant) and a_[p].value is None):
                        if k not in ('OQ', 'OB'):
                            raise Reject('argument %s of %s is missing' % (p, a))
                        args.append('None')
                    elif k in ('OQ', 'OB') and isinstance(a_[p], ast.Name) and a_[p].id in env and env[a_[p].id][0] == k:
                        args.append(env[a_[p].id][1])
                    else:
                        args.append('(Some %s)' % (self.qexpr(a_[p], env) if k == 'OQ' else self.bexpr(a_[p], env)) if k in ('OQ', 'OB')
                                    else self.qexpr(a_[p], env) if k == 'Q' else self.bexpr(a_[p], env))
                return pad + 'let self := %s in\n' % ' '.join([fn, 'self'] + args) + self.block(rest, env, ind, skip)
            raise Reject('call not in the subset: ' + _u(s)[:160])
        if isinstance(s, ast.If):
            ot = self.opt_test(s.test, env)
            if ot is not None:
                x, positive = ot
                xv = env[x][1] + '_v'
                env_some = dict(env)
                env_some[x] = (env[x][0][1:], xv)
                some_b, none_b = (s.body, s.orelse) if positive else (s.orelse, s.body)
                head, mid, tail = 'match %s with\n%s| Some %s =>\n' % (env[x][1], pad, xv), '\n%s| None =>\n' % pad, '\n%send' % pad
                envs = (env_some, env)
                branches = (some_b, none_b)
            else:
                head, mid, tail = 'if %s then\n' % self.bexpr(s.test, env), '\n%selse\n' % pad, ''
                envs = (env, env)
                branches = (s.body, s.orelse)
            dup = self._has_return_or_local(s)
            # early return / local bindings: the statements that follow are copied into both branches
            saved = self.noise_used                      # one noise draw per PATH
            t0 = self.block(list(branches[0]) + (rest if dup else []), envs[0], ind + 1, skip)
            used0, self.noise_used = self.noise_used, saved
            t1 = self.block(list(branches[1]) + (rest if dup else []), envs[1], ind + 1, skip)
            self.noise_used = None if saved is None else bool(used0 or self.noise_used)
            if dup:
                return pad + head + t0 + mid + t1 + tail
            return pad + 'let self := (' + head + t0 + mid + t1 + tail + ') in\n' + self.block(rest, env, ind, skip)
        raise Reject('statement not in the subset: ' + _u(s)[:160])

    def local(self, name, value, env, rest, ind, skip):
        """x = e : the kind of x is the first of tensor / number / boolean in which e can be read"""
        pad = '  ' * ind
        if name in ('self', 'g', 'noise', self.selfname) or (name in env and env[name][0] in ('OQ', 'OB')):
            raise Reject('re-binding of ' + name)
        saved = self.noise_used
        k = v = None
        why = []
        for kind_ in ('T', 'Q', 'B'):
            try:
                if kind_ == 'T':
                    lay, v = self.texpr(value, env)
                    k = 'T' if lay == 'N' else 'TT'
                else:
                    v = (self.qexpr if kind_ == 'Q' else self.bexpr)(value, env)
                    k = kind_
                break
            except Reject as e:
                self.noise_used = saved
                why.append(str(e))
        if k is None:
            raise Reject('local %s = %s: %s' % (name, _u(value)[:100], why[0]))
        env2 = dict(env)
        env2[name] = (k, 'l_' + name)
        return pad + 'let l_%s := %s in\n' % (name, v) + self.block(rest, env2, ind, skip)


# ---------------------------------------------------------------------------------------------- structure
def _params(fn, skip_first=1):
    """[(name, kind)] from the annotations: float -> Q, bool -> B, Optional[..] -> O.; anything else -> X (not usable)"""
    a = fn.args
    if a.vararg or a.kwarg or a.kwonlyargs or a.posonlyargs:
        raise Reject('%s: * / ** / keyword-only parameters' % fn.name)
    out = []
    defaults = [None] * (len(a.args) - len(a.defaults)) + list(a.defaults)
    for p, dflt in list(zip(a.args, defaults))[skip_first:]:
        ann = _u(p.annotation) if p.annotation is not None else ''
        k = {'float': 'Q', 'bool': 'B', 'Optional[float]': 'OQ', 'Optional[bool]': 'OB'}.get(ann, 'X')
        if k in ('OQ', 'OB') and not (isinstance(dflt, ast.Constant) and dflt.value is None):
            raise Reject('%s: optional parameter %s does not default to None' % (fn.name, p.arg))
        out.append((p.arg, k))
    return out


def _plist(params):
    return ' '.join('(a_%s : %s)' % (p, COQ_TY[k]) for p, k in params if k != 'X')


def _env(params):
    return {p: (k, 'a_' + p) for p, k in params if k != 'X'}      # a_ : the Coq name of a Python parameter (l_ : of a local)


def _methods(cls):
    out = {}
    for m in _strip(cls.body):
        if not isinstance(m, ast.FunctionDef):
            raise Reject('class %s: class-level statement %s' % (cls.name, _u(m)[:100]))
        key = m.name
        decs = [_u(d) for d in m.decorator_list]
        if any(d.endswith('.setter') for d in decs):
            key = m.name + '.setter'
        if key in out:
            raise Reject('class %s defines %s twice' % (cls.name, key))
        out[key] = m
    return out


def _classes(tree, expected):
    out = {}
    for n in tree.body:
        if isinstance(n, ast.ClassDef):
            if n.name in out:
                raise Reject('class %s defined twice' % n.name)
            if n.decorator_list or n.keywords:
                raise Reject('class %s: decorators / metaclass' % n.name)
            out[n.name] = n
        elif isinstance(n, (ast.Import, ast.ImportFrom)):
            continue
        elif isinstance(n, ast.Expr) and isinstance(n.value, ast.Constant) and isinstance(n.value.value, str):
            continue
        else:
            raise Reject('module-level statement: ' + _u(n)[:120])
    for c, bases in expected.items():
        if c not in out:
            raise Reject('class %s not found' % c)
        if [_u(b) for b in out[c].bases] != bases:
            raise Reject('class %s: bases %s' % (c, [_u(b) for b in out[c].bases]))
    extra = set(out) - set(expected)
    if extra:
        raise Reject('the module defines classes the translator does not know: %s' % sorted(extra))
    return out


def _imports(tree, want):
    """want: {bound name: origin}; every binding of such a name must be the expected one and must exist"""
    seen = {}
    for n in ast.walk(tree):
        if isinstance(n, ast.Import):
            for a in n.names:
                seen.setdefault(a.asname or a.name.split('.')[0], set()).add(a.name if a.asname else a.name.split('.')[0])
        elif isinstance(n, ast.ImportFrom):
            for a in n.names:
                seen.setdefault(a.asname or a.name, set()).add('%s%s:%s' % ('.' * n.level, n.module or '', a.name))
        elif isinstance(n, (ast.Assign, ast.AnnAssign, ast.AugAssign, ast.NamedExpr, ast.For, ast.With, ast.FunctionDef, ast.ClassDef, ast.arg, ast.ExceptHandler)):
            names = []
            if isinstance(n, (ast.FunctionDef, ast.ClassDef)):
                names = [n.name]
            elif isinstance(n, ast.arg):
                names = [n.arg]
            elif isinstance(n, ast.ExceptHandler):
                names = [n.name]
            else:
                ts = n.targets if isinstance(n, ast.Assign) else [n.target] if not isinstance(n, ast.With) else [i.optional_vars for i in n.items if i.optional_vars is not None]
                names = [x.id for t in ts for x in ast.walk(t) if isinstance(x, ast.Name)]
            for nm in names:
                if nm in want:
                    raise Reject('the name %s is re-bound in the module' % nm)
    for nm, origin in want.items():
        if seen.get(nm) != {origin}:
            raise Reject('%s is not %s in this module (%s)' % (nm, origin, sorted(seen.get(nm, []))))


def readonly(fn, selfname='self', what=''):
    """a method the translator does not model must not change the sampler state"""
    for x in ast.walk(fn):
        if isinstance(x, ast.Attribute) and _is_self(x.value, selfname):
            if isinstance(x.ctx, (ast.Store, ast.Del)) and x.attr in TRACKED:
                raise Reject('%s%s assigns %s.%s' % (what, fn.name, selfname, x.attr))
        if isinstance(x, (ast.Subscript, ast.Attribute)) and isinstance(x.ctx, (ast.Store, ast.Del)):
            base = x.value
            while isinstance(base, (ast.Subscript, ast.Attribute)) and not (isinstance(base, ast.Attribute) and _is_self(base.value, selfname)):
                base = base.value
            if isinstance(base, ast.Attribute) and _is_self(base.value, selfname) and base.attr in TRACKED \
                    and not (isinstance(x, ast.Attribute) and x.attr == 'requires_grad' and x.value is base):
                raise Reject('%s%s writes into %s.%s' % (what, fn.name, selfname, base.attr))
        if isinstance(x, ast.Call) and isinstance(x.func, ast.Attribute):
            if _is_self(x.func.value, selfname) and x.func.attr in CALL_FORBIDDEN:
                raise Reject('%s%s calls %s.%s' % (what, fn.name, selfname, x.func.attr))
            if x.func.attr.endswith('_') and not x.func.attr.endswith('__'):
                base = x.func.value
                while isinstance(base, (ast.Subscript, ast.Attribute, ast.Call)) and not (isinstance(base, ast.Attribute) and _is_self(base.value, selfname)):
                    base = base.func if isinstance(base, ast.Call) else base.value
                if isinstance(base, ast.Attribute) and _is_self(base.value, selfname) and base.attr in TRACKED:
                    raise Reject('%s%s: in-place %s on %s.%s' % (what, fn.name, x.func.attr, selfname, base.attr))
        if isinstance(x, ast.Call) and isinstance(x.func, ast.Name) and x.func.id in ('setattr', 'delattr', 'vars', 'exec', 'eval'):
            if x.func.id != 'vars' or any(_is_self(a, selfname) for a in x.args):
                raise Reject('%s%s calls %s' % (what, fn.name, x.func.id))
        if isinstance(x, ast.Attribute) and x.attr == '__dict__':
            raise Reject('%s%s uses __dict__' % (what, fn.name))
        if isinstance(x, (ast.Global, ast.Nonlocal)):
            raise Reject('%s%s: global / nonlocal' % (what, fn.name))


def check_forward(fn, cname):
    b = _strip(fn.body)
    if not b or _u(b[0]) != 'self.sample_alpha()':
        raise Reject('%s.forward does not start with self.sample_alpha()' % cname)
    readonly(ast.FunctionDef(name='forward', args=fn.args, body=b[1:] or [ast.Pass()], decorator_list=[], lineno=0, col_offset=0), what=cname + '.')


def _plain(fn, cname, decs=()):
    if [_u(d) for d in fn.decorator_list] != list(decs):
        raise Reject('%s.%s: decorators %s' % (cname, fn.name, [_u(d) for d in fn.decorator_list]))


def gen_method(tr, fn, cname, gname, with_g=True, noise=False, skip=None, params=None, lead=''):
    _plain(fn, cname)
    params = _params(fn) if params is None else params
    tr.noise_used = False if noise else None
    body = tr.block(fn.body, _env(params), 1, skip)
    if noise and not tr.noise_used:
        noise_note = '  (* no noise is drawn *)'
    else:
        noise_note = ''
    sig = ' '.join(x for x in ['(g : Q -> Q)' if with_g else '', '(self : gobj)', _plist(params), '(noise : list (list Q))' if noise else ''] if x)
    return 'Definition %s %s : gobj :=%s\n%s%s.\n' % (gname, sig, noise_note, lead, body)


# ---------------------------------------------------------------------------------------------- the three files
def translate_ste(src):
    tree = ast.parse(src)
    cl = _classes(tree, {'STEArgmax': ['torch.autograd.Function']})
    _imports(tree, {'F': 'torch.nn.functional', 'torch': 'torch'})
    ms = _methods(cl['STEArgmax'])
    if set(ms) != {'forward', 'backward'}:
        raise Reject('STEArgmax defines %s' % sorted(ms))
    fw = ms['forward']
    _plain(fw, 'STEArgmax', ['staticmethod'])
    if not (len(fw.args.args) == 1 and fw.args.vararg is not None and fw.args.vararg.arg == 'args'):
        raise Reject('STEArgmax.forward signature')
    tr = Tr('ste', False, ['F'], False)
    tr.methods = {}
    tr.noise_used = None
    body = _strip(fw.body)
    env = {}
    out = ''
    for k, s in enumerate(body):
        tgt = s.target if isinstance(s, ast.AnnAssign) else s.targets[0] if isinstance(s, ast.Assign) and len(s.targets) == 1 else None
        if isinstance(tgt, ast.Name) and s.value is not None:
            if _u(s.value) == 'args[0]':
                env = dict(env)
                env[tgt.id] = ('T', 'x')
                continue
            lay, v = tr.texpr(s.value, env)
            env = dict(env)
            env[tgt.id] = ('T' if lay == 'N' else 'TT', 'l_' + tgt.id)
            out += '  let l_%s := %s in\n' % (tgt.id, v)
            continue
        if isinstance(s, ast.Return) and k == len(body) - 1 and s.value is not None:
            lay, v = tr.texpr(s.value, env)
            tr._normal(lay, 'STEArgmax.forward returns the result')
            return 'Definition ste_argmax_gen (x : list (list Q)) : list (list Q) :=\n%s  %s.\n' % (out, v)
        raise Reject('STEArgmax.forward: statement not in the subset: ' + _u(s)[:160])
    raise Reject('STEArgmax.forward does not end with a return')


PINNED = {
    'MPSPerChannelQtz.__init__': 'db808dedc11c46e4',       # alpha = p / max(p) per row, theta_alpha = ones, initial self.sample_alpha()
    'MPSPerLayerQtz.__init__': '164183ebcf9f7dfd',
    'SuperNetCombiner.summary': '1af3a156ad9fe32b',         # softmax(alpha / T) [one-hot if hard] recomputed, theta_alpha untouched
    'SuperNetCombiner.best_layer_index': '0eb3ba53b7d06dfb',  # argmax(alpha)
}

MPS_INIT_FIXED = [
    'super(MPSBaseQtz, self).__init__()',
    "if len(precision) != len(set(precision)):\n    raise ValueError('precision cannot be repeated')",
    "self.register_buffer('precision', torch.tensor(precision, dtype=torch.float))",
    'self.quantizer = quantizer',
    'self.quantizer_kwargs = quantizer_kwargs',
    'self.qtz_funcs = nn.ModuleList()',
    'for p in precision:\n    qtz = quantizer(p, **quantizer_kwargs)\n    qtz = cast(nn.Module, qtz)\n    self.qtz_funcs.append(qtz)',
]
COMB_INIT_FIXED = {
    'super(SuperNetCombiner, self).__init__()': '',
    'self.n_branches = n_branches': '',
    'self.alpha = nn.Parameter(1 / n_branches * torch.ones(n_branches, dtype=torch.float), requires_grad=False)': '',
    'self.theta_alpha = torch.tensor(self.n_branches, dtype=torch.float32)': '',
    'self.theta_alpha.data = self.alpha': '(with_theta self (alpha (core self)))',        # theta_alpha starts as alpha itself
    'self._unique_leaf_modules = [[]] * self.n_branches': '',
    'self._cost_fn_map = None': '',
}


def _pin(cname, ms, name):
    key = '%s.%s' % (cname, name)
    if name not in ms:
        raise Reject('%s not found' % key)
    if digest(ms[name]) != PINNED[key]:
        raise Reject('%s is not the function the model was written for (AST digest %s, expected %s)' % (key, digest(ms[name]), PINNED[key]))


def _fixed_skip(fixed, cname):
    seen = []

    def skip(s):
        u = _u(s)
        if u in fixed:
            if u in seen:
                raise Reject('%s.__init__: statement repeated: %s' % (cname, u[:100]))
            seen.append(u)
            return fixed[u] if isinstance(fixed, dict) else ''
        return False
    skip.seen = seen
    return skip


def dispatch(prefix, methods):
    """self.sample_alpha(): call of the method whose name is bound"""
    txt = 'Definition %s_sample_alpha_gen (g : Q -> Q) (self : gobj) (noise : list (list Q)) : gobj :=\n' % prefix
    call = {'sample_alpha_sm': '%s_sample_alpha_sm_gen g self' % prefix, 'sample_alpha_gs': '%s_sample_alpha_gs_gen g self noise' % prefix,
            'sample_alpha_none': '%s_sample_alpha_none_gen self' % prefix}
    order = [m for m in ('sample_alpha_none', 'sample_alpha_gs') if m in methods]
    for m in order:
        txt += '  if Z.eqb (bound self) %d then %s else\n' % (NAME_OF[m], call[m])
    txt += '  %s.\n' % call['sample_alpha_sm']
    txt += 'Definition %s_forward_gen (g : Q -> Q) (self : gobj) (noise : list (list Q)) : gobj :=\n  let self := %s_sample_alpha_gen g self noise in\n  self.\n' % (prefix, prefix)
    return txt


def translate_qtz(src):
    tree = ast.parse(src)
    cl = _classes(tree, {'MPSType': ['Enum'], 'MPSBaseQtz': ['nn.Module'], 'MPSPerChannelQtz': ['MPSBaseQtz'], 'MPSPerLayerQtz': ['MPSBaseQtz'], 'MPSBiasQtz': ['nn.Module']})
    _imports(tree, {'F': 'torch.nn.functional', 'nn': 'torch.nn', 'torch': 'torch', 'cast': 'typing:cast', 'STEArgmax': '.ste_argmax:STEArgmax',
                    'Optional': 'typing:Optional'})
    for other in ('MPSType', 'MPSBiasQtz'):
        for x in ast.walk(cl[other]):
            nm = x.attr if isinstance(x, ast.Attribute) else x.id if isinstance(x, ast.Name) else None
            if nm in TRACKED[:2] + TRACKED[8:] or nm in ('STEArgmax', 'MPSBaseQtz', 'MPSPerChannelQtz', 'MPSPerLayerQtz', 'update_softmax_options'):
                raise Reject('class %s mentions %s' % (other, nm))
    ms = _methods(cl['MPSBaseQtz'])
    known = {'__init__', 'forward', 'sample_alpha_sm', 'sample_alpha_gs', 'sample_alpha_none', 'update_softmax_options', 'effective_scale', 'effective_precision'}
    if set(ms) != known:
        raise Reject('MPSBaseQtz: methods %s (expected %s)' % (sorted(set(ms) - known), sorted(known - set(ms))))
    tr = Tr('mps', False, ['F', 'nn.functional', 'torch.nn.functional'], True)
    tr.methods = ms
    out = ''
    for nm in ('sample_alpha_none', 'sample_alpha_sm', 'sample_alpha_gs'):
        if _params(ms[nm]):
            raise Reject('MPSBaseQtz.%s takes arguments' % nm)
    out += gen_method(tr, ms['sample_alpha_none'], 'MPSBaseQtz', 'mps_sample_alpha_none_gen', with_g=False)
    tr.known_calls = {'sample_alpha_none': ('mps_sample_alpha_none_gen', [])}
    out += gen_method(tr, ms['sample_alpha_sm'], 'MPSBaseQtz', 'mps_sample_alpha_sm_gen')
    tr.known_calls['sample_alpha_sm'] = ('mps_sample_alpha_sm_gen g', [])
    out += gen_method(tr, ms['sample_alpha_gs'], 'MPSBaseQtz', 'mps_sample_alpha_gs_gen', noise=True)
    # the option bookkeeping
    tr.known_calls = {}
    up = ms['update_softmax_options']
    uparams = _params(up)
    if uparams != [('temperature', 'OQ'), ('hard', 'OB'), ('gumbel', 'OB'), ('disable_sampling', 'OB')]:
        raise Reject('MPSBaseQtz.update_softmax_options signature: %s' % uparams)
    out += gen_method(tr, up, 'MPSBaseQtz', 'mps_update_softmax_options_gen', with_g=False)
    tr.known_calls = {'update_softmax_options': ('mps_update_softmax_options_gen', uparams)}
    init = ms['__init__']
    iparams = _params(init)
    if [p for p in iparams if p[1] != 'X'] != [('softmax_temperature', 'Q'), ('hard_softmax', 'B'), ('gumbel_softmax', 'B'), ('disable_sampling', 'B')]:
        raise Reject('MPSBaseQtz.__init__ signature: %s' % iparams)
    out += gen_method(tr, init, 'MPSBaseQtz', 'mps_init_gen', with_g=False, skip=_fixed_skip(MPS_INIT_FIXED, 'MPSBaseQtz'))
    b = _strip(ms['forward'].body)
    if len(b) != 1 or not isinstance(b[0], ast.Raise):
        raise Reject('MPSBaseQtz.forward is not abstract')
    for nm in ('effective_scale', 'effective_precision'):
        readonly(ms[nm], what='MPSBaseQtz.')
    for sub, extra in (('MPSPerChannelQtz', {'features_mask', 'out_features_eff'}), ('MPSPerLayerQtz', set())):
        sm = _methods(cl[sub])
        if set(sm) != {'__init__', 'forward', 'effective_precision'} | extra:
            raise Reject('%s: methods %s' % (sub, sorted(sm)))
        _pin(sub, sm, '__init__')
        _plain(sm['forward'], sub)
        check_forward(sm['forward'], sub)
        for nm in {'effective_precision'} | extra:
            readonly(sm[nm], what=sub + '.')
    out += dispatch('mps', ('sample_alpha_none', 'sample_alpha_gs', 'sample_alpha_sm'))
    return out


def translate_comb(src, supernet_src):
    tree = ast.parse(src)
    cl = _classes(tree, {'SuperNetCombiner': ['nn.Module']})
    _imports(tree, {'F': 'torch.nn.functional', 'nn': 'torch.nn', 'torch': 'torch', 'cast': 'typing:cast'})
    ms = _methods(cl['SuperNetCombiner'])
    known = {'__init__', 'set_sn_branch', 'get_cost', 'sample_alpha_sm', 'sample_alpha_gs', 'forward', 'best_layer_index', 'softmax_temperature',
             'softmax_temperature.setter', 'summary', 'train_selection', 'train_selection.setter', 'named_nas_parameters', 'nas_parameters'}
    if set(ms) != known:
        raise Reject('SuperNetCombiner: methods %s (expected %s)' % (sorted(set(ms) - known), sorted(known - set(ms))))
    # the temperature property
    g_, s_ = ms['softmax_temperature'], ms['softmax_temperature.setter']
    _plain(g_, 'SuperNetCombiner', ['property'])
    _plain(s_, 'SuperNetCombiner', ['softmax_temperature.setter'])
    if [_u(x) for x in _strip(g_.body)] != ['return self._softmax_temperature'] or [a.arg for a in s_.args.args] != ['self', 'value'] \
            or [_u(x) for x in _strip(s_.body)] != ['self._softmax_temperature = value']:
        raise Reject('SuperNetCombiner.softmax_temperature is not a plain property over _softmax_temperature')
    tr = Tr('comb', True, ['F', 'nn.functional', 'torch.nn.functional'], False)
    tr.methods = ms
    for nm in ('sample_alpha_sm', 'sample_alpha_gs'):
        if _params(ms[nm]):
            raise Reject('SuperNetCombiner.%s takes arguments' % nm)
    out = gen_method(tr, ms['sample_alpha_sm'], 'SuperNetCombiner', 'comb_sample_alpha_sm_gen')
    tr.known_calls = {'sample_alpha_sm': ('comb_sample_alpha_sm_gen g', [])}
    out += gen_method(tr, ms['sample_alpha_gs'], 'SuperNetCombiner', 'comb_sample_alpha_gs_gen', noise=True)
    tr.known_calls = {}
    init = ms['__init__']
    if [(a.arg, _u(a.annotation) if a.annotation else '') for a in init.args.args[1:]] != [('n_branches', 'int'), ('gumbel_softmax', 'bool'), ('hard_softmax', 'bool')]:
        raise Reject('SuperNetCombiner.__init__ signature')
    skip = _fixed_skip(COMB_INIT_FIXED, 'SuperNetCombiner')
    out += gen_method(tr, init, 'SuperNetCombiner', 'comb_init_gen', with_g=False, skip=skip)
    if 'self.theta_alpha.data = self.alpha' not in skip.seen or 'self.theta_alpha = torch.tensor(self.n_branches, dtype=torch.float32)' not in skip.seen:
        raise Reject('SuperNetCombiner.__init__ does not start theta_alpha as alpha')
    _pin('SuperNetCombiner', ms, 'summary')
    _pin('SuperNetCombiner', ms, 'best_layer_index')
    _plain(ms['forward'], 'SuperNetCombiner')
    check_forward(ms['forward'], 'SuperNetCombiner')
    for nm in ('set_sn_branch', 'get_cost', 'train_selection', 'train_selection.setter', 'named_nas_parameters', 'nas_parameters'):
        readonly(ms[nm], what='SuperNetCombiner.')
    out += dispatch('comb', ('sample_alpha_gs', 'sample_alpha_sm'))
    # SuperNet.update_softmax_options: for every combiner, `layer` plays the role of self
    st = ast.parse(supernet_src)
    sn = [n for n in st.body if isinstance(n, ast.ClassDef) and n.name == 'SuperNet']
    if len(sn) != 1:
        raise Reject('class SuperNet not found in supernet.py')
    _imports(st, {'SuperNetCombiner': '.nn.combiner:SuperNetCombiner'})
    ups = [m for m in sn[0].body if isinstance(m, ast.FunctionDef) and m.name == 'update_softmax_options']
    if len(ups) != 1:
        raise Reject('SuperNet.update_softmax_options not found (or defined twice)')
    up = ups[0]
    _plain(up, 'SuperNet')
    uparams = _params(up)
    if uparams != [('temperature', 'OQ'), ('hard', 'OB')]:
        raise Reject('SuperNet.update_softmax_options signature: %s' % uparams)
    b = _strip(up.body)
    if not (len(b) == 1 and isinstance(b[0], ast.For) and not b[0].orelse and _u(b[0].target) == '(_, _, layer)' and _u(b[0].iter) == 'self._unique_leaf_modules'):
        raise Reject('SuperNet.update_softmax_options is not one loop over self._unique_leaf_modules')
    lb = _strip(b[0].body)
    if not (len(lb) == 1 and isinstance(lb[0], ast.If) and not lb[0].orelse and _u(lb[0].test) == 'isinstance(layer, SuperNetCombiner)'):
        raise Reject('SuperNet.update_softmax_options: the loop body is not `if isinstance(layer, SuperNetCombiner):`')
    tr2 = Tr('comb', True, [], False, selfname='layer')
    tr2.methods = ms
    tr2.noise_used = None
    body = tr2.block(lb[0].body, _env(uparams), 1)
    out += 'Definition comb_update_softmax_options_gen (self : gobj) %s : gobj :=\n%s.\n' % (_plist(uparams), body)
    return out


HEADER = '''(* GENERATED by translator/sampler2coq.py from plinio/methods/mps/nn/{qtz,ste_argmax}.py, plinio/methods/supernet/nn/combiner.py
   and SuperNet.update_softmax_options of the tree under test -- do not edit.
   The samplers of the selection coefficients and the option bookkeeping, statement by statement, over Model/Sampler.v. *)
From Coq Require Import QArith ZArith List Bool.
Import ListNotations.
Require Import Plinio.Base.Qx Plinio.Model.Sampler.
Local Open Scope Q_scope.

(* ---- fixed vocabulary (not generated from the source): the object the methods work on ... *)
Record gobj := mkO { core : sampler; bound : Z }.
Definition with_hard (o : gobj) (b : bool) : gobj :=
  let s := core o in mkO (mkS b (gumbel s) (disabled s) (temp s) (training s) (alpha s) (theta s)) (bound o).
Definition with_gumbel (o : gobj) (b : bool) : gobj :=
  let s := core o in mkO (mkS (hard s) b (disabled s) (temp s) (training s) (alpha s) (theta s)) (bound o).
Definition with_disabled (o : gobj) (b : bool) : gobj :=
  let s := core o in mkO (mkS (hard s) (gumbel s) b (temp s) (training s) (alpha s) (theta s)) (bound o).
Definition with_temp (o : gobj) (t : Q) : gobj :=
  let s := core o in mkO (mkS (hard s) (gumbel s) (disabled s) t (training s) (alpha s) (theta s)) (bound o).
Definition with_theta (o : gobj) (th : list (list Q)) : gobj := mkO (set_theta (core o) th) (bound o).
Definition with_bound (o : gobj) (b : Z) : gobj := mkO (core o) b.
Definition truthy (o : option bool) : bool := match o with Some b => b | None => false end.
(* ... and the tensor operations (a tensor = list of columns, dim 0 = position inside a column) *)
Definition tdiv (a : list (list Q)) (t : Q) : list (list Q) := map (map (fun x => x / t)) a.
Definition softmax0 (g : Q -> Q) (a : list Q) : list Q := let e := map g a in let s := qsum e in map (fun x => x / s) e.
Definition tsoftmax (g : Q -> Q) (a : list (list Q)) : list (list Q) := map (softmax0 g) a.
Definition tonehot_argmax (a : list (list Q)) : list (list Q) := map (fun col => onehot (length col) (argmax col)) a.
Definition tgumbel (g : Q -> Q) (a : list (list Q)) (tau : Q) (hd : bool) (noise : list (list Q)) : list (list Q) :=
  zipcols (gumbel_softmax g tau hd) a noise.

(* ---- generated *)
'''

FOOTER = '''
(* ---- fixed glue (not generated from the source): an op sequence run with the generated functions.
   update_softmax_options / forward are the generated ones; train() / eval() / the optimizer step only replace a field
   (nn.Module, torch.optim: not translated).  SuperNet.update_softmax_options has the two parameters (temperature, hard):
   a call with gumbel / disable_sampling does not exist (None). *)
Definition embed (s : sampler) : gobj := mkO s (sampler_name s).
Definition with_training (o : gobj) (b : bool) : gobj :=
  let s := core o in mkO (mkS (hard s) (gumbel s) (disabled s) (temp s) b (alpha s) (theta s)) (bound o).
Definition with_alpha (o : gobj) (a : list (list Q)) : gobj :=
  let s := core o in mkO (mkS (hard s) (gumbel s) (disabled s) (temp s) (training s) a (theta s)) (bound o).
Definition forward_gen (g : Q -> Q) (k : kind) (o : gobj) (noise : list (list Q)) : gobj :=
  match k with KMps => mps_forward_gen g o noise | KComb => comb_forward_gen g o noise end.
Definition gen_step (g : Q -> Q) (k : kind) (o : gobj) (op : sop) : option gobj :=
  match op with
  | SUpdate t h gm d =>
      match k with
      | KMps => Some (mps_update_softmax_options_gen o t h gm d)
      | KComb => if (is_none gm && is_none d)%bool then Some (comb_update_softmax_options_gen o t h) else None
      end
  | STrain => Some (with_training o true)
  | SEval => Some (with_training o false)
  | SForward noise => Some (forward_gen g k o noise)
  | SOptStep a' => Some (with_alpha o a')
  end.
Fixpoint gen_run (g : Q -> Q) (k : kind) (o : gobj) (ops : list sop) : option gobj :=
  match ops with
  | [] => Some o
  | op :: r => match gen_step g k o op with Some o' => gen_run g k o' r | None => None end
  end.
Fixpoint gen_trace (g : Q -> Q) (k : kind) (o : gobj) (ops : list sop) : list (option gobj) :=
  match ops with
  | [] => []
  | op :: r => match gen_step g k o op with
               | Some o' => Some o' :: gen_trace g k o' r
               | None => [None]
               end
  end.

(* correspondence helpers (same shape as run_trace / run_sample of Model/Sampler.v; the sampler NAME compared with the
   implementation's `sample_alpha.__name__` is the bound name of the generated object) *)
Definition obs_agree_gen (tol : Q) (m : option gobj) (o : obs) : bool :=
  match m, o with
  | None, None => true
  | Some x, Some (nm, h, tr, t, th) =>
      let s := core x in
      Z.eqb (bound x) nm && Bool.eqb (hard s) h && Bool.eqb (training s) tr && Qeq_bool (temp s) t && mclose tol (theta s) th
  | _, _ => false
  end.
Fixpoint bad_steps_gen (tol : Q) (i : nat) (ms : list (option gobj)) (os : list obs) : list nat :=
  match ms, os with
  | [], [] => []
  | m :: ms', o :: os' => (if obs_agree_gen tol m o then [] else [i]) ++ bad_steps_gen tol (S i) ms' os'
  | _, _ => [i]
  end.
Fixpoint last_core (s : sampler) (ms : list (option gobj)) : sampler :=
  match ms with
  | [] => s
  | Some o :: r => last_core (core o) r
  | None :: r => last_core s r
  end.
Definition run_trace_gen (k : kind) (tab : list (Q * Q)) (tol : Q) (s : sampler) (ops : list sop) (skip : nat) (os : list obs)
  : list nat * list nat :=
  let ms := gen_trace (g_tab tab) k (embed s) ops in
  (bad_steps_gen tol skip (skipn skip ms) os, selected (alpha (last_core s ms))).
Definition run_sample_gen (k : kind) (tab : list (Q * Q)) (tol : Q) (s : sampler) (noise : list (list Q)) (impl : list (list Q))
  : bool * list nat :=
  let th := theta (core (forward_gen (g_tab tab) k (embed s) noise)) in
  (mclose tol th impl, map argmax th).
'''


def translate_repo(repo):
    def rd(*p):
        return open(os.path.join(repo, 'plinio', 'methods', *p)).read()
    return (HEADER + translate_ste(rd('mps', 'nn', 'ste_argmax.py')) + '\n' + translate_qtz(rd('mps', 'nn', 'qtz.py')) + '\n' +
            translate_comb(rd('supernet', 'nn', 'combiner.py'), rd('supernet', 'supernet.py')) + FOOTER)


def pins(repo):
    """the digests of the pinned functions in `repo` (used when the pinned functions are changed on purpose)"""
    out = {}
    for path, classes in ((('mps', 'nn', 'qtz.py'), ('MPSPerChannelQtz', 'MPSPerLayerQtz')), (('supernet', 'nn', 'combiner.py'), ('SuperNetCombiner',))):
        tree = ast.parse(open(os.path.join(repo, 'plinio', 'methods', *path)).read())
        for n in tree.body:
            if isinstance(n, ast.ClassDef) and n.name in classes:
                for k, m in _methods(n).items():
                    if '%s.%s' % (n.name, k) in PINNED:
                        out['%s.%s' % (n.name, k)] = digest(m)
    return out


if __name__ == '__main__':
    import sys
    if len(sys.argv) > 1 and sys.argv[1] == '--pins':
        print(pins(sys.argv[2] if len(sys.argv) > 2 else '/repo'))
    else:
        print(translate_repo(sys.argv[1] if len(sys.argv) > 1 else '/repo'))
