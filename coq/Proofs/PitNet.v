(* Soundness of export for channel-pruned networks (model: PitNet.v):
   the masked (PIT) and the exported evaluation agree on all alive channels of every node. *)
From Coq Require Import List Arith Bool Lia ZArith Setoid Morphisms.
Import ListNotations.
Require Import Plinio.Model.Conv.
Require Import Plinio.Model.PitNet.

(* ================================================================ pure list lemmas *)
Lemma filter_map_comm {A B} (p : B -> bool) (f : A -> B) l :
  filter p (map f l) = map f (filter (fun x => p (f x)) l).
Proof. induction l; simpl; auto. destruct (p (f a)); simpl; congruence. Qed.

Lemma kept_cons b m : kept (b :: m) = (if b then [0] else []) ++ map S (kept m).
Proof.
  unfold kept. simpl length. rewrite <- cons_seq. simpl filter.
  rewrite <- seq_shift, filter_map_comm. simpl. destruct b; reflexivity.
Qed.

Lemma kept_In j m : In j (kept m) -> j < length m /\ nth j m false = true.
Proof. unfold kept. rewrite filter_In, in_seq. intros [H1 H2]. split; [lia|auto]. Qed.

Lemma select_nil_r {A} m : @select A m [] = [].
Proof. destruct m; reflexivity. Qed.

Lemma select_map {A B} (f : A -> B) m l : select m (map f l) = map f (select m l).
Proof.
  revert l; induction m; intros [|x l]; simpl; auto. destruct a; simpl; rewrite IHm; auto.
Qed.

Lemma select_seq m : select m (seq 0 (length m)) = kept m.
Proof.
  induction m; simpl; auto. rewrite kept_cons, <- seq_shift, select_map, IHm.
  destruct a; reflexivity.
Qed.

Lemma select_as_kept {A} (d : A) m l :
  length l = length m -> select m l = map (fun j => nth j l d) (kept m).
Proof.
  revert l; induction m; intros [|x l] H; simpl in *; try discriminate; auto.
  rewrite kept_cons, map_app, map_map. rewrite (IHm l) by lia.
  destruct a; reflexivity.
Qed.

Lemma select_app {A} m1 m2 (l1 l2 : list A) :
  length m1 = length l1 -> select (m1 ++ m2) (l1 ++ l2) = select m1 l1 ++ select m2 l2.
Proof.
  revert l1; induction m1; intros [|x l1] H; simpl in *; try discriminate; auto.
  destruct a; simpl; rewrite IHm1 by lia; auto.
Qed.

Lemma select_all_true {A} (l : list A) : select (repeat true (length l)) l = l.
Proof. induction l; simpl; congruence. Qed.

Lemma select_repeat_false {A} k (l : list A) : select (repeat false k) l = [].
Proof. revert l; induction k; intros [|x l]; simpl; auto. Qed.

Lemma select_forall_true {A} m (l : list A) :
  length l = length m -> Forall (fun b => b = true) m -> select m l = l.
Proof.
  revert l; induction m; intros [|x l] H F; simpl in *; try discriminate; auto.
  inversion F; subst. rewrite IHm by (auto; lia). reflexivity.
Qed.

Lemma select_expand {A B} (E : A -> list B) mult m l :
  (forall s, length (E s) = mult) ->
  select (flat_map (fun b : bool => repeat b mult) m) (flat_map E l) = flat_map E (select m l).
Proof.
  intros HE. revert l; induction m; intros [|x l]; simpl; auto.
  - apply select_nil_r.
  - rewrite select_app by (rewrite repeat_length, HE; auto). rewrite IHm.
    destruct a; simpl.
    + rewrite <- (HE x), select_all_true. reflexivity.
    + rewrite select_repeat_false. reflexivity.
Qed.

Lemma map_as_seq {A B} (g : A -> B) (d : A) l :
  map g l = map (fun i => g (nth i l d)) (seq 0 (length l)).
Proof.
  induction l; simpl; auto. rewrite <- seq_shift, map_map. f_equal. exact IHl.
Qed.

Lemma nth_map_seq {A} (g : nat -> A) d n c : c < n -> nth c (map g (seq 0 n)) d = g c.
Proof.
  intros H. rewrite (nth_indep _ d (g 0)) by (rewrite map_length, seq_length; auto).
  rewrite (map_nth g (seq 0 n) 0 c), seq_nth; auto.
Qed.

Lemma Forall2_nth {A B} (R : A -> B -> Prop) l1 l2 d1 d2 :
  Forall2 R l1 l2 -> forall j, j < length l1 -> R (nth j l1 d1) (nth j l2 d2).
Proof.
  induction 1; simpl; intros j Hj; [lia|]. destruct j; auto. apply IHForall2. lia.
Qed.

Lemma Forall2_len {A B} (R : A -> B -> Prop) l1 l2 : Forall2 R l1 l2 -> length l1 = length l2.
Proof. induction 1; simpl; auto. Qed.

Lemma Forall2_map_same {A B} (R : B -> B -> Prop) (g h : A -> B) l :
  (forall a, In a l -> R (g a) (h a)) -> Forall2 R (map g l) (map h l).
Proof. induction l; simpl; intros H; constructor; auto. Qed.

Lemma Forall2_map2 {A B} (R : B -> B -> Prop) (g h : A -> B) (Q : A -> A -> Prop) l1 l2 :
  (forall a a', Q a a' -> R (g a) (h a')) -> Forall2 Q l1 l2 -> Forall2 R (map g l1) (map h l2).
Proof. intros H; induction 1; simpl; constructor; auto. Qed.

(* ================================================================ the soundness proof *)
Section Proofs.
Variable S : Type.
Variable eqS : S -> S -> Prop.
Variable zeroS : S.
Variable addS : S -> S -> S.
Hypothesis eqS_equiv : Equivalence eqS.
Hypothesis addS_proper : forall a a' b b', eqS a a' -> eqS b b' -> eqS (addS a b) (addS a' b').
Hypothesis addS_0_l : forall s, eqS (addS zeroS s) s.

Notation sumS := (sumS S zeroS addS).
Notation gate := (gate S zeroS).
Notation zipadd := (zipadd S addS).
Notation node := (node S).
Notation respects := (respects S eqS).

Local Instance eqS_Equivalence : Equivalence eqS := eqS_equiv.

Definition Inv (a : list bool) (tp te : list S) : Prop :=
  length tp = length a /\
  (forall c, c < length a -> nth c a true = false -> eqS (nth c tp zeroS) zeroS) /\
  Forall2 eqS te (select a tp).

(* dead channels are zero, as a Forall2 *)
Definition dead (b : bool) (s : S) : Prop := b = false -> eqS s zeroS.

Lemma dead_iff a tp :
  Forall2 dead a tp <->
  (length tp = length a /\
   forall c, c < length a -> nth c a true = false -> eqS (nth c tp zeroS) zeroS).
Proof.
  split.
  - induction 1; simpl.
    + split; auto. intros; lia.
    + destruct IHForall2 as [HL HD]. split; [lia|]. intros [|c] Hc Hn; auto. apply HD; auto; lia.
  - revert tp; induction a; intros [|s tp] [HL HD]; simpl in *; try discriminate; constructor.
    + intros Hb. apply (HD 0); auto; lia.
    + apply IHa. split; [lia|]. intros c Hc Hn. apply (HD (Datatypes.S c)); auto; lia.
Qed.

Lemma Inv_iff a tp te : Inv a tp te <-> Forall2 dead a tp /\ Forall2 eqS te (select a tp).
Proof. unfold Inv. rewrite dead_iff. tauto. Qed.

(* reading an exported tensor: channel j of te is channel (kept a)[j] of tp *)
Lemma Inv_nth a tp te :
  Inv a tp te ->
  length te = length (kept a) /\
  forall j, j < length (kept a) -> eqS (nth j te zeroS) (nth (nth j (kept a) 0) tp zeroS).
Proof.
  intros (HL & _ & HF). rewrite (select_as_kept zeroS) in HF by auto.
  split.
  - rewrite (Forall2_len _ _ _ HF), map_length. reflexivity.
  - intros j Hj.
    assert (Hj' : j < length te) by (rewrite (Forall2_len _ _ _ HF), map_length; auto).
    pose proof (Forall2_nth _ _ _ zeroS zeroS HF j Hj') as H.
    rewrite (nth_indep (map (fun j => nth j tp zeroS) (kept a)) zeroS (nth 0 tp zeroS)) in H
      by (rewrite map_length; auto).
    rewrite (map_nth (fun j => nth j tp zeroS) (kept a) 0 j) in H.
    exact H.
Qed.
Lemma Forall2_eqS_refl l : Forall2 eqS l l.
Proof. induction l; constructor; auto. reflexivity. Qed.

(* ---------------------------------------------------------------- sums *)
Lemma sumS_ext (g h : nat -> S) l :
  (forall j, In j l -> eqS (g j) (h j)) -> eqS (sumS (map g l)) (sumS (map h l)).
Proof. induction l; simpl; intros H; [reflexivity|]. apply addS_proper; auto. Qed.

Lemma sumS_Forall2 l1 l2 : Forall2 eqS l1 l2 -> eqS (sumS l1) (sumS l2).
Proof. induction 1; simpl; [reflexivity|]. apply addS_proper; auto. Qed.

(* terms that are zero can be dropped from a sum *)
Lemma sumS_filter (p : nat -> bool) (g : nat -> S) l :
  (forall j, In j l -> p j = false -> eqS (g j) zeroS) ->
  eqS (sumS (map g l)) (sumS (map g (filter p l))).
Proof.
  induction l; simpl; intros H; [reflexivity|].
  destruct (p a) eqn:E; simpl.
  - apply addS_proper; [reflexivity|auto].
  - transitivity (addS zeroS (sumS (map g l))).
    + apply addS_proper; [auto|reflexivity].
    + etransitivity; [apply addS_0_l|auto].
Qed.

Lemma sumS_kept (g : nat -> S) a n :
  length a = n -> (forall j, j < n -> nth j a true = false -> eqS (g j) zeroS) ->
  eqS (sumS (map g (seq 0 n))) (sumS (map g (kept a))).
Proof.
  intros <- H. unfold kept. apply sumS_filter. intros j Hj Hd. apply in_seq in Hj.
  apply H; [lia|]. rewrite (nth_indep a true false) by lia. exact Hd.
Qed.

(* ---------------------------------------------------------------- one step lemma per node kind *)
Lemma step_input x : Inv (repeat true (length x)) x x.
Proof.
  apply Inv_iff. split.
  - induction x; simpl; constructor; auto. intro; discriminate.
  - rewrite select_all_true. apply Forall2_eqS_refl.
Qed.

Lemma step_full a xp xe cin cout (T : nat -> nat -> S -> S) (b : nat -> S) (post : nat -> S -> S) m :
  Inv a xp xe -> length m = cout -> length a = cin ->
  (forall co ci, eqS (T co ci zeroS) zeroS) ->
  (forall co ci, respects (T co ci)) -> (forall co, respects (post co)) ->
  Inv m
    (map (fun co => gate (nth co m false)
            (post co (addS (b co) (sumS (map (fun ci => T co ci (nth ci xp zeroS)) (seq 0 cin))))))
         (seq 0 cout))
    (map (fun co => post co (addS (b co)
            (sumS (map (fun j => T co (nth j (kept a) 0) (nth j xe zeroS)) (seq 0 (length (kept a)))))))
         (kept m)).
Proof.
  intros HI Hm Ha HT0 HT Hp. subst cout. split; [|split].
  - rewrite map_length, seq_length; auto.
  - intros c Hc Hn. rewrite nth_map_seq by auto.
    rewrite (nth_indep m true false) in Hn by auto. rewrite Hn. reflexivity.
  - rewrite select_map, select_seq. apply Forall2_map_same. intros co Hco.
    apply kept_In in Hco as [_ Hco]. rewrite Hco. simpl.
    apply Hp. apply addS_proper; [reflexivity|]. symmetry.
    etransitivity.
    + apply (sumS_kept _ a cin Ha). intros j Hj Hd. destruct HI as (HL & HD & _).
      etransitivity; [apply HT, HD; auto; lia|apply HT0].
    + rewrite (map_as_seq _ 0 (kept a)). apply sumS_ext. intros j Hj. apply in_seq in Hj.
      apply HT. symmetry. apply (proj2 (Inv_nth _ _ _ HI)). lia.
Qed.

Lemma step_dw m xp xe c (T : nat -> S -> S) (b : nat -> S) (post : nat -> S -> S) :
  Inv m xp xe -> length m = c ->
  (forall co, respects (T co)) -> (forall co, respects (post co)) ->
  Inv m
    (map (fun co => gate (nth co m false) (post co (addS (b co) (T co (nth co xp zeroS))))) (seq 0 c))
    (map (fun i => let co := nth i (kept m) 0 in post co (addS (b co) (T co (nth i xe zeroS))))
         (seq 0 (length (kept m)))).
Proof.
  intros HI Hm HT Hp. subst c. split; [|split].
  - rewrite map_length, seq_length; auto.
  - intros c Hc Hn. rewrite nth_map_seq by auto.
    rewrite (nth_indep m true false) in Hn by auto. rewrite Hn. reflexivity.
  - rewrite select_map, select_seq, (map_as_seq _ 0 (kept m)). apply Forall2_map_same.
    intros i Hi. apply in_seq in Hi. cbv zeta.
    assert (Hin : In (nth i (kept m) 0) (kept m)) by (apply nth_In; lia).
    apply kept_In in Hin as [_ Hin]. rewrite Hin. simpl.
    apply Hp. apply addS_proper; [reflexivity|]. apply HT.
    apply (proj2 (Inv_nth _ _ _ HI)). lia.
Qed.

Lemma step_chan a xp xe (f : S -> S) :
  Inv a xp xe -> eqS (f zeroS) zeroS -> respects f -> Inv a (map f xp) (map f xe).
Proof.
  rewrite !Inv_iff. intros [HD HF] H0 Hf. split.
  - clear HF. induction HD; simpl; constructor; auto.
    intros Hb. etransitivity; [apply Hf, H, Hb|apply H0].
  - rewrite select_map. eapply Forall2_map2; [|exact HF]. auto.
Qed.

Lemma dead_expand1 b s mult (f : nat -> S -> S) st :
  (forall p, eqS (f p zeroS) zeroS) -> (forall p, respects (f p)) -> dead b s ->
  Forall2 dead (repeat b mult) (map (fun p => f p s) (seq st mult)).
Proof.
  intros H0 Hf H. revert st. induction mult; intros st; simpl; constructor; auto.
  intros Hb. etransitivity; [apply Hf, H, Hb|apply H0].
Qed.

Lemma step_expand a xp xe mult (f : nat -> S -> S) :
  Inv a xp xe -> (forall p, eqS (f p zeroS) zeroS) -> (forall p, respects (f p)) ->
  Inv (flat_map (fun b : bool => repeat b mult) a)
      (flat_map (expand1 S mult f) xp) (flat_map (expand1 S mult f) xe).
Proof.
  rewrite !Inv_iff. intros [HD HF] H0 Hf. split.
  - clear HF. induction HD; simpl; [constructor|]. apply Forall2_app; auto.
    apply dead_expand1; auto.
  - rewrite select_expand by (intros; unfold expand1; rewrite map_length, seq_length; auto).
    clear HD. induction HF; simpl; [constructor|]. apply Forall2_app; auto.
    unfold expand1. apply Forall2_map_same. intros p _. apply Hf; auto.
Qed.

Lemma select_zipadd A pa pb :
  length pa = length A -> length pb = length A ->
  select A (zipadd pa pb) = zipadd (select A pa) (select A pb).
Proof.
  revert pa pb; induction A; intros [|x pa] [|y pb] Ha Hb; simpl in *; try discriminate; auto.
  destruct a; simpl; rewrite IHA by lia; auto.
Qed.

Lemma dead_zipadd A pa pb :
  Forall2 dead A pa -> Forall2 dead A pb -> Forall2 dead A (zipadd pa pb).
Proof.
  intros Ha; revert pb. induction Ha as [|b x A pa Hbx Ha IH]; intros pb Hb;
    inversion Hb as [|b' y A' pb' Hby Hb']; subst; simpl; constructor; auto.
  intros E. etransitivity; [apply addS_proper; [apply Hbx|apply Hby]; exact E|apply addS_0_l].
Qed.

Lemma Forall2_zipadd ea sa eb sb :
  Forall2 eqS ea sa -> Forall2 eqS eb sb -> Forall2 eqS (zipadd ea eb) (zipadd sa sb).
Proof.
  intros Ha; revert eb sb. induction Ha; intros eb sb Hb; destruct Hb; simpl; constructor; auto.
Qed.

Lemma step_add A pa ea pb eb :
  Inv A pa ea -> Inv A pb eb -> Inv A (zipadd pa pb) (zipadd ea eb).
Proof.
  rewrite !Inv_iff. intros [HDa HFa] [HDb HFb]. split.
  - apply dead_zipadd; auto.
  - rewrite select_zipadd by (symmetry; eapply Forall2_len; eauto).
    apply Forall2_zipadd; auto.
Qed.

Lemma Inv_nil : Inv [] [] [].
Proof. apply Inv_iff. split; constructor. Qed.

Lemma Inv_app a1 p1 e1 a2 p2 e2 :
  Inv a1 p1 e1 -> Inv a2 p2 e2 -> Inv (a1 ++ a2) (p1 ++ p2) (e1 ++ e2).
Proof.
  rewrite !Inv_iff. intros [HD1 HF1] [HD2 HF2]. split.
  - apply Forall2_app; auto.
  - rewrite select_app by (eapply Forall2_len; eauto). apply Forall2_app; auto.
Qed.

Lemma step_cat (al : list (list bool)) (P E : list (list S)) srcs :
  Forall (fun s => Inv (nth s al []) (nth s P []) (nth s E [])) srcs ->
  Inv (flat_map (fun s => nth s al []) srcs) (flat_map (fun s => nth s P []) srcs)
      (flat_map (fun s => nth s E []) srcs).
Proof. induction 1; simpl; [apply Inv_nil|apply Inv_app; auto]. Qed.

(* ---------------------------------------------------------------- whole network *)
Definition Good (al : list (list bool)) (P E : list (list S)) : Prop :=
  length P = length al /\ length E = length al /\
  forall i, i < length al -> Inv (nth i al []) (nth i P []) (nth i E []).

Lemma node_sound n x al P E nd :
  length x = n -> Good al P E -> wf_node S eqS zeroS n al nd ->
  Inv (alive_node S al nd) (pit_node S zeroS addS x P nd) (exp_node S zeroS addS x al E nd).
Proof.
  intros Hx (HP & HE & HI) Hwf. destruct nd; simpl in *.
  - subst c n. apply step_input.
  - destruct Hwf as (Hs & Hm & Ha & HT0 & HT & Hp). apply step_full; auto.
  - destruct Hwf as (Hs & Hm & Hc & HT & Hp). apply step_dw; auto. subst m. auto.
  - destruct Hwf as (Hs & H0 & Hf). apply step_chan; auto.
  - destruct Hwf as (Hs & H0 & Hf). apply step_expand; auto.
  - destruct Hwf as (Ha & Hb & Hab). apply step_add; auto. rewrite Hab. auto.
  - apply step_cat. eapply Forall_impl; [|exact Hwf]. simpl. auto.
Qed.

Lemma Good_snoc al P E a p e : Good al P E -> Inv a p e -> Good (al ++ [a]) (P ++ [p]) (E ++ [e]).
Proof.
  intros (HP & HE & HI) Hi. unfold Good. rewrite !app_length. simpl. split; [lia|split; [lia|]].
  intros i Hlt. destruct (Nat.eq_dec i (length al)) as [->|Hne].
  - rewrite nth_middle. rewrite <- HP at 1. rewrite nth_middle. rewrite <- HE. rewrite nth_middle.
    exact Hi.
  - rewrite !app_nth1 by lia. apply HI. lia.
Qed.

Lemma run_sound n x net : length x = n -> forall al P E,
  Good al P E -> wf_acc S eqS zeroS n al net ->
  Good (alive_acc S al net) (pit_acc S zeroS addS x P net) (exp_acc S zeroS addS x al E net) /\
  length (alive_acc S al net) = length al + length net.
Proof.
  intros Hx. induction net as [|nd net IH]; simpl; intros al P E HG Hwf.
  - split; auto.
  - destruct Hwf as [Hnd Hwf].
    destruct (IH _ _ _ (Good_snoc _ _ _ _ _ _ HG (node_sound _ _ _ _ _ _ Hx HG Hnd)) Hwf) as [H1 H2].
    split; auto. rewrite H2, app_length. simpl. lia.
Qed.

Theorem export_sound : forall n net x, wf S eqS zeroS n net -> length x = n ->
  let al := alive_net S net in
  let P := eval_pit S zeroS addS net x in
  let E := eval_exp S zeroS addS net x in
  length al = length net /\ length P = length net /\ length E = length net /\
  forall i, i < length net -> Inv (nth i al []) (nth i P []) (nth i E []).
Proof.
  intros n net x Hwf Hx. cbv zeta. unfold alive_net, eval_pit, eval_exp.
  assert (G0 : Good [] [] []).
  { split; [reflexivity|split; [reflexivity|]]. simpl. intros i Hi. inversion Hi. }
  destruct (run_sound n x net Hx [] [] [] G0 Hwf) as [(HP & HE & HI) HL]. simpl in HL.
  rewrite HP, HE, HL. split; [|split; [|split]]; auto. intros i Hi. apply HI. lia.
Qed.

(* frozen output layers: all channels alive => the two networks give the same tensor *)
Corollary export_sound_output : forall n net x, wf S eqS zeroS n net -> length x = n ->
  let al := alive_net S net in
  let P := eval_pit S zeroS addS net x in
  let E := eval_exp S zeroS addS net x in
  forall i, i < length net -> Forall (fun b => b = true) (nth i al []) ->
  Forall2 eqS (nth i E []) (nth i P []).
Proof.
  intros n net x Hwf Hx al P E i Hi Hall.
  destruct (export_sound n net x Hwf Hx) as (_ & _ & _ & HI).
  destruct (HI i Hi) as (HL & _ & HF). fold al P E in HL, HF.
  rewrite select_forall_true in HF; auto.
Qed.
End Proofs.

Print Assumptions export_sound.

(* ================================================================ concrete instance: integer signals *)
Definition eqZ (f g : Z -> Z) : Prop := forall t, f t = g t.
Definition zeroZ : Z -> Z := fun _ => 0%Z.
Definition addZ (f g : Z -> Z) : Z -> Z := fun t => (f t + g t)%Z.

Lemma eqZ_equiv : Equivalence eqZ.
Proof.
  split; unfold eqZ.
  - intros f t; reflexivity.
  - intros f g H t; symmetry; auto.
  - intros f g h H1 H2 t; rewrite H1; auto.
Qed.

Lemma addZ_proper : forall a a' b b', eqZ a a' -> eqZ b b' -> eqZ (addZ a b) (addZ a' b').
Proof. unfold eqZ, addZ. intros a a' b b' H1 H2 t. rewrite H1, H2. reflexivity. Qed.

Lemma addZ_0_l : forall s, eqZ (addZ zeroZ s) s.
Proof. unfold eqZ, addZ, zeroZ. intros s t. reflexivity. Qed.

Theorem export_sound_Zsignal : forall n net x, wf (Z -> Z) eqZ zeroZ n net -> length x = n ->
  let al := alive_net (Z -> Z) net in
  let P := eval_pit (Z -> Z) zeroZ addZ net x in
  let E := eval_exp (Z -> Z) zeroZ addZ net x in
  length al = length net /\ length P = length net /\ length E = length net /\
  forall i, i < length net -> Inv (Z -> Z) eqZ zeroZ (nth i al []) (nth i P []) (nth i E []).
Proof. exact (export_sound (Z -> Z) eqZ zeroZ addZ eqZ_equiv addZ_proper addZ_0_l). Qed.

Corollary export_sound_output_Zsignal : forall n net x, wf (Z -> Z) eqZ zeroZ n net -> length x = n ->
  let al := alive_net (Z -> Z) net in
  let P := eval_pit (Z -> Z) zeroZ addZ net x in
  let E := eval_exp (Z -> Z) zeroZ addZ net x in
  forall i, i < length net -> Forall (fun b => b = true) (nth i al []) ->
  Forall2 eqZ (nth i E []) (nth i P []).
Proof. exact (export_sound_output (Z -> Z) eqZ zeroZ addZ eqZ_equiv addZ_proper addZ_0_l). Qed.

Print Assumptions export_sound_Zsignal.
Print Assumptions export_sound_output_Zsignal.

(* ================================================================ networks of concrete PIT layers *)
Require Plinio.Proofs.Conv.
Module PC := Plinio.Proofs.Conv.
Require Import Plinio.Model.Masks.

Lemma Forall2_map_seq {A} (Rel : A -> A -> Prop) (F G : nat -> A) n :
  (forall i, i < n -> Rel (F i) (G i)) -> Forall2 Rel (map F (seq 0 n)) (map G (seq 0 n)).
Proof.
  intro H. assert (K : forall l, (forall i, In i l -> i < n) -> Forall2 Rel (map F l) (map G l)).
  { induction l as [|a l IH]; intro Hl; [constructor|]. cbn. constructor; [apply H, Hl; left; reflexivity|apply IH; intros i Hi; apply Hl; right; exact Hi]. }
  apply K. intros i Hi. apply in_seq in Hi. lia.
Qed.
Lemma Forall2_select {A} (Rel : A -> A -> Prop) m l l' : Forall2 Rel l l' -> Forall2 Rel (select m l) (select m l').
Proof.
  intro H. revert m. induction H as [|x y l l' Hxy Hl IH]; intros [|b m]; cbn; try constructor.
  destruct b; [constructor; [exact Hxy|apply IH]|apply IH].
Qed.

Section ConcreteProofs.
Variable R : Type.
Variables (r0 r1 : R) (radd rmul : R -> R -> R).
Hypothesis HL : PC.laws r0 r1 radd rmul.

Let Hadd0 : forall x, radd r0 x = x := proj1 HL.
Let Hm0l : forall x, rmul r0 x = r0 := proj1 (proj2 HL).
Let Hm0r : forall x, rmul x r0 = r0 := proj1 (proj2 (proj2 HL)).
Let Hm1l : forall x, rmul r1 x = x := proj1 (proj2 (proj2 (proj2 HL))).
Let Hm1r : forall x, rmul x r1 = x := proj2 (proj2 (proj2 (proj2 HL))).

Notation SR := (SR R).
Notation eqR := (eqR R).
Notation zeroR := (zeroR R r0).
Notation addR := (addR R radd).
Notation InvR := (Inv SR eqR zeroR).
Notation GoodR := (Good SR eqR zeroR).

Lemma eqR_equiv : Equivalence eqR.
Proof. split; [intros f i; reflexivity|intros f g H i; symmetry; apply H|intros f g h H1 H2 i; rewrite H1; apply H2]. Qed.
Lemma addR_proper : forall a a' b b', eqR a a' -> eqR b b' -> eqR (addR a b) (addR a' b').
Proof. intros a a' b b' Ha Hb i. unfold PitNet.addR. rewrite Ha, Hb. reflexivity. Qed.
Lemma addR_0_l : forall s, eqR (addR zeroR s) s.
Proof. intros s i. unfold PitNet.addR, PitNet.zeroR. apply Hadd0. Qed.

Lemma Forall2_eqR_refl l : Forall2 eqR l l.
Proof. induction l; constructor; auto. intro; reflexivity. Qed.
Lemma Forall2_eqR_sym l l' : Forall2 eqR l l' -> Forall2 eqR l' l.
Proof. induction 1; constructor; auto. intro i; symmetry; auto. Qed.
Lemma Forall2_eqR_trans l1 l2 l3 : Forall2 eqR l1 l2 -> Forall2 eqR l2 l3 -> Forall2 eqR l1 l3.
Proof.
  intro H. revert l3. induction H as [|x y l l' Hxy Hl IH]; intros l3 H3; inversion H3; subst; constructor.
  - intro i. rewrite Hxy. auto.
  - apply IH. assumption.
Qed.

Lemma Inv_proper a tp tp' te te' : Forall2 eqR tp' tp -> Forall2 eqR te' te -> InvR a tp' te' -> InvR a tp te.
Proof.
  intros Hp He (HL1 & HD & HF). pose proof (Forall2_len _ _ _ Hp) as Hlen. split; [lia|split].
  - intros c Hc Hd i. specialize (HD c Hc Hd i).
    pose proof (Forall2_nth eqR tp' tp zeroR zeroR Hp c ltac:(lia)) as E. rewrite <- E. exact HD.
  - eapply Forall2_eqR_trans; [apply Forall2_eqR_sym; exact He|].
    eapply Forall2_eqR_trans; [exact HF|]. apply Forall2_select. exact Hp.
Qed.

Lemma sumR_at (l : list SR) i : sumS SR zeroR addR l i = rsum r0 radd (map (fun f => f i) l).
Proof. induction l as [|f l IH]; [reflexivity|]. cbn [sumS fold_right map rsum]. change (radd (f i) (sumS SR zeroR addR l i) = radd (f i) (rsum r0 radd (map (fun f => f i) l))). rewrite IH. reflexivity. Qed.

Lemma bias_at (b : option (list R)) co (acc : SR) i :
  addR (bconst R r0 b co) acc i = addbias r0 radd b co (acc i).
Proof. unfold PitNet.addR, bconst, of0, addbias. destruct b; [reflexivity|apply Hadd0]. Qed.

Lemma taps_xzero wk K d (x : Z -> R) u : (forall v, x v = r0) -> taps r0 radd rmul wk K d x u = r0.
Proof. intro H. unfold taps. apply (PC.rsum_zero R r0 radd Hadd0). intros j _. rewrite H. apply Hm0r. Qed.
Lemma taps_xext wk K d (x x' : Z -> R) u : (forall v, x v = x' v) -> taps r0 radd rmul wk K d x u = taps r0 radd rmul wk K d x' u.
Proof. intro H. unfold taps. apply f_equal. apply map_ext. intro j. rewrite H. reflexivity. Qed.
Lemma taps2_xext wk kh kw d (x x' : Z -> Z -> R) u v : (forall a b, x a b = x' a b) -> taps2 r0 radd rmul wk kh kw d x u v = taps2 r0 radd rmul wk kh kw d x' u v.
Proof. intro H. unfold taps2. apply f_equal. apply map_ext. intro a. apply f_equal. apply map_ext. intro b. rewrite H. reflexivity. Qed.

(* ---- the per-channel operators are zero-preserving and extensional *)
Lemma T1_zero w tm K d s co wi : eqR (T1 R r0 r1 radd rmul w tm K d s co wi zeroR) zeroR.
Proof. intro i. unfold T1, of1. apply taps_xzero. intro v. unfold padl, clip, as1. destruct (_ <? _)%Z; reflexivity. Qed.
Lemma T1_resp w tm K d s co wi : respects SR eqR (T1 R r0 r1 radd rmul w tm K d s co wi).
Proof. intros sg sg' H i. unfold T1, of1. apply taps_xext. intro v. unfold padl, clip, as1. destruct (_ <? _)%Z; [reflexivity|apply H]. Qed.
Lemma T2_zero w kh kw d s ph pw hin win co wi : eqR (T2 R r0 radd rmul w kh kw d s ph pw hin win co wi zeroR) zeroR.
Proof. intro i. unfold T2, of2. apply (PC.taps2_zero R r0 radd rmul Hadd0 Hm0r). intros a b. unfold clip2. destruct (_ && _)%bool; reflexivity. Qed.
Lemma T2_resp w kh kw d s ph pw hin win co wi : respects SR eqR (T2 R r0 radd rmul w kh kw d s ph pw hin win co wi).
Proof. intros sg sg' H i. unfold T2, of2. apply taps2_xext. intros a b. unfold clip2, as2. destruct (_ && _)%bool; [apply H|reflexivity]. Qed.
Lemma T0_zero w co ci : eqR (T0 R r0 rmul w co ci zeroR) zeroR.
Proof. intro i. unfold T0, of0, as0. apply Hm0r. Qed.
Lemma T0_resp w co ci : respects SR eqR (T0 R r0 rmul w co ci).
Proof. intros sg sg' H i. unfold T0, of0, as0. rewrite H. reflexivity. Qed.
Lemma postbn_resp bn co : respects SR eqR (postbn R r0 radd rmul bn co).
Proof. intros sg sg' H i. unfold postbn. rewrite H. reflexivity. Qed.

Lemma calive_node_of al nd : alive_node SR al (node_of R r0 r1 radd rmul nd) = calive_node R al nd.
Proof. destruct nd as [c|src l m|src f|src mult f|a b|srcs]; try reflexivity. destruct l as [fold dw ? ? ? ? ? ? ? ? ? ?|fold dw ? ? ? ? ? ? ? ? ? ?|fold ? ? ? ?]; try destruct dw; reflexivity. Qed.

Lemma cwf_node_wf n al nd : cwf_node R r0 n al nd -> wf_node SR eqR zeroR n al (node_of R r0 r1 radd rmul nd).
Proof.
  destruct nd as [c|src l m|src f|src mult f|a b|srcs]; cbn; auto.
  intros [Hs Hw]. destruct l as [fold dw w b bn cin K d s tm K' sp|fold dw w b bn cin kh kw d s ph pw hin win|fold w b bn cin]; cbn in Hw |- *.
  - destruct Hw as (_ & _ & _ & _ & _ & Hmin). destruct dw; cbn.
    + repeat split; auto using T1_resp, postbn_resp. all: try (intro; apply T1_resp).
    + repeat split; auto using T1_zero, T1_resp, postbn_resp.
  - destruct Hw as (_ & _ & _ & Hmin). destruct dw; cbn.
    + repeat split; auto using T2_resp, postbn_resp. all: try (intro; apply T2_resp).
    + repeat split; auto using T2_zero, T2_resp, postbn_resp.
  - destruct Hw as (_ & _ & _ & Hmin). repeat split; auto using T0_zero, T0_resp, postbn_resp.
Qed.

(* ---- one evaluation step of the abstract node IS the concrete layer of Model/Conv.v : masked (PIT) side *)
Notation P1 := (T1 R r0 r1 radd rmul).
Notation P2 := (T2 R r0 radd rmul).
Notation P0 := (T0 R r0 rmul).
Notation bcst := (bconst R r0).
Notation pbn := (postbn R r0 radd rmul).
Notation gateR := (gate SR zeroR).
Notation sumR := (sumS SR zeroR addR).

Lemma pit1_spec (fold dw : bool) (w : w3 R) (b : option (list R)) (bn : option (list R * list R)) cin K d s tm (m : list bool) (xs : list SR) co :
  length m = length w -> PC.bias_ok R b (length m) ->
  eqR (gateR (nth co m false) (pbn (if fold then None else bn) co
         (addR (bcst b co) (if dw then P1 w tm K d s co 0 (nth co xs zeroR)
                            else sumR (map (fun ci => P1 w tm K d s co ci (nth ci xs zeroR)) (seq 0 cin))))))
      (of1 R (fun t => pit_conv1d_at r0 r1 radd rmul true fold dw w b bn cin K (Z.of_nat d) (Z.of_nat s) m tm
                         (fun ci => padl ((K - 1) * d) (clip R r0 (as1 R (nth ci xs zeroR)))) co t)).
Proof.
  intros Hlen Hb i. unfold of1.
  assert (Core : (addR (bcst b co) (if dw then P1 w tm K d s co 0 (nth co xs zeroR)
                            else sumR (map (fun ci => P1 w tm K d s co ci (nth ci xs zeroR)) (seq 0 cin)))) i
                 = conv1d_at r0 radd rmul dw (mask_w3_time r0 r1 rmul tm w) b cin K (Z.of_nat d) (Z.of_nat s)
                     (fun ci => padl ((K - 1) * d) (clip R r0 (as1 R (nth ci xs zeroR)))) co (nth 0 i 0%Z)).
  { rewrite bias_at. unfold conv1d_at. f_equal. destruct dw; [reflexivity|]. rewrite sumR_at, map_map. reflexivity. }
  destruct fold.
  - destruct (nth co m false) eqn:E; cbn [gate].
    + rewrite (PC.fold_alive_conv1d R r0 r1 radd rmul Hm0l Hm1r) by assumption. unfold postbn. cbn [bn_at]. exact Core.
    + rewrite (PC.dead_out_zero_conv1d_fold R r0 r1 radd rmul Hadd0 Hm0l Hm0r) by assumption. reflexivity.
  - unfold pit_conv1d_at. destruct (nth co m false) eqn:E; cbn [gate Conv.bit].
    + rewrite Hm1r. unfold postbn. rewrite Core. reflexivity.
    + rewrite Hm0r. reflexivity.
Qed.

Lemma pit2_spec (fold dw : bool) (w : w4 R) (b : option (list R)) (bn : option (list R * list R)) cin kh kw d s ph pw hin win (m : list bool) (xs : list SR) co :
  length m = length w -> PC.bias_ok R b (length m) ->
  eqR (gateR (nth co m false) (pbn (if fold then None else bn) co
         (addR (bcst b co) (if dw then P2 w kh kw d s ph pw hin win co 0 (nth co xs zeroR)
                            else sumR (map (fun ci => P2 w kh kw d s ph pw hin win co ci (nth ci xs zeroR)) (seq 0 cin))))))
      (of2 R (fun h v => pit_conv2d_at r0 r1 radd rmul true fold dw w b bn cin kh kw (Z.of_nat d) (Z.of_nat s) (Z.of_nat ph) (Z.of_nat pw) m
                         (fun ci => clip2 R r0 hin win (as2 R (nth ci xs zeroR))) co h v)).
Proof.
  intros Hlen Hb i. unfold of2.
  assert (Core : (addR (bcst b co) (if dw then P2 w kh kw d s ph pw hin win co 0 (nth co xs zeroR)
                            else sumR (map (fun ci => P2 w kh kw d s ph pw hin win co ci (nth ci xs zeroR)) (seq 0 cin)))) i
                 = conv2d_at r0 radd rmul dw w b cin kh kw (Z.of_nat d) (Z.of_nat s) (Z.of_nat ph) (Z.of_nat pw)
                     (fun ci => clip2 R r0 hin win (as2 R (nth ci xs zeroR))) co (nth 0 i 0%Z) (nth 1 i 0%Z)).
  { rewrite bias_at. unfold conv2d_at. f_equal. destruct dw; [reflexivity|]. rewrite sumR_at, map_map. reflexivity. }
  destruct fold.
  - destruct (nth co m false) eqn:E; cbn [gate].
    + rewrite (PC.fold_alive_conv2d R r0 r1 radd rmul Hm0l Hm1r) by assumption. unfold postbn. cbn [bn_at]. exact Core.
    + rewrite (PC.dead_out_zero_conv2d_fold R r0 r1 radd rmul Hadd0 Hm0l Hm0r) by assumption. reflexivity.
  - unfold pit_conv2d_at. destruct (nth co m false) eqn:E; cbn [gate Conv.bit].
    + rewrite Hm1r. unfold postbn. rewrite Core. reflexivity.
    + rewrite Hm0r. reflexivity.
Qed.

Lemma pit0_spec (fold : bool) (w : list (list R)) (b : option (list R)) (bn : option (list R * list R)) cin (m : list bool) (xs : list SR) co :
  length m = length w -> PC.bias_ok R b (length m) ->
  eqR (gateR (nth co m false) (pbn (if fold then None else bn) co
         (addR (bcst b co) (sumR (map (fun ci => P0 w co ci (nth ci xs zeroR)) (seq 0 cin))))))
      (of0 R (pit_linear_at r0 r1 radd rmul true fold w b bn cin m (fun ci => as0 R (nth ci xs zeroR)) co)).
Proof.
  intros Hlen Hb i. unfold of0.
  assert (Core : (addR (bcst b co) (sumR (map (fun ci => P0 w co ci (nth ci xs zeroR)) (seq 0 cin)))) i
                 = linear_at r0 radd rmul w b cin (fun ci => as0 R (nth ci xs zeroR)) co).
  { rewrite bias_at. unfold linear_at. f_equal. rewrite sumR_at, map_map. reflexivity. }
  destruct fold.
  - destruct (nth co m false) eqn:E; cbn [gate].
    + rewrite (PC.fold_alive_linear R r0 r1 radd rmul Hm0l Hm1r) by assumption. unfold postbn. cbn [bn_at]. exact Core.
    + rewrite (PC.dead_out_zero_linear_fold R r0 r1 radd rmul Hadd0 Hm0l Hm0r) by assumption. reflexivity.
  - unfold pit_linear_at. destruct (nth co m false) eqn:E; cbn [gate Conv.bit].
    + rewrite Hm1r. unfold postbn. rewrite Core. reflexivity.
    + rewrite Hm0r. reflexivity.
Qed.

Theorem cpit_node_spec n x al acc nd : cwf_node R r0 n al nd ->
  Forall2 eqR (pit_node SR zeroR addR x acc (node_of R r0 r1 radd rmul nd)) (cpit_node R r0 r1 radd rmul x acc nd).
Proof.
  destruct nd as [c|src l m|src f|src mult f|a b|srcs]; cbn; try (intros; apply Forall2_eqR_refl).
  intros [Hs Hw]. destruct l as [fold dw w b bn cin K d s tm K' sp|fold dw w b bn cin kh kw d s ph pw hin win|fold w b bn cin]; cbn in Hw |- *.
  - destruct Hw as ((Hlw & _) & Hb & _). rewrite Hlw. destruct dw; cbn; apply Forall2_map_seq; intros co Hco.
    + apply (pit1_spec fold true w b bn cin K d s tm m (nth src acc []) co); auto.
    + apply (pit1_spec fold false w b bn cin K d s tm m (nth src acc []) co); auto.
  - destruct Hw as ((Hlw & _) & Hb & _). rewrite Hlw. destruct dw; cbn; apply Forall2_map_seq; intros co Hco.
    + apply (pit2_spec fold true w b bn cin kh kw d s ph pw hin win m (nth src acc []) co); auto.
    + apply (pit2_spec fold false w b bn cin kh kw d s ph pw hin win m (nth src acc []) co); auto.
  - destruct Hw as ((Hlw & _) & Hb & _). rewrite Hlw. apply Forall2_map_seq; intros co Hco.
    apply (pit0_spec fold w b bn cin m (nth src acc []) co); auto.
Qed.


(* ---- exported side: the abstract exported node IS the exported plain layer of Model/Conv.v *)
Lemma bnsel (fold : bool) (bn : option (list R * list R)) (m : list bool) i y : cbn_ok R bn (length m) -> i < count_true m ->
  bn_at r0 radd rmul (if fold then None else slice_bn m bn) i y = bn_at r0 radd rmul (if fold then None else bn) (nth i (kept m) 0) y.
Proof. intros Hbn Hi. destruct fold; [reflexivity|]. apply PC.bn_slice_commutes; auto. Qed.

Lemma exp1_full_spec (fold : bool) (w : w3 R) (b : option (list R)) (bn : option (list R * list R)) cin K d s tm K' sp (m min : list bool) (xs' : list SR) i :
  cshape3 R w (length m) cin K -> cbias_ok R b (length m) -> cbn_ok R bn (length m) -> length tm = K ->
  kept_lags K tm = export_lags K' sp -> length min = cin -> i < count_true m ->
  eqR (pbn (if fold then None else bn) (nth i (kept m) 0)
         (addR (bcst b (nth i (kept m) 0)) (sumR (map (fun j => P1 w tm K d s (nth i (kept m) 0) (nth j (kept min) 0) (nth j xs' zeroR)) (seq 0 (length (kept min)))))))
      (of1 R (fun t => bn_at r0 radd rmul (if fold then None else slice_bn m bn) i
                 (conv1d_at r0 radd rmul false (export_w3 false m min tm w) (export_bias m b) (count_true min) K' (Z.of_nat (sp * d)) (Z.of_nat s)
                    (fun j => padl ((K' - 1) * (sp * d)) (clip R r0 (as1 R (nth j xs' zeroR)))) i t))).
Proof.
  intros (Hlw & Hc & Hk) Hb Hbn Htm Hl Hmin Hi idx. unfold of1, postbn. rewrite bnsel by assumption. f_equal.
  assert (Hi' : i < length (kept m)) by (rewrite PC.kept_length; exact Hi).
  destruct (PC.kept_nth_alive m i Hi') as [_ Hco]. set (co := nth i (kept m) 0) in *.
  rewrite bias_at. unfold conv1d_at. rewrite PC.addbias_slice by (auto). fold co. f_equal.
  rewrite sumR_at, map_map, PC.kept_length. apply f_equal. apply PC.map_seq_ext. intros j Hj.
  assert (Hj' : j < length (kept min)) by (rewrite PC.kept_length; exact Hj).
  destruct (PC.kept_nth_alive min j Hj') as [_ Hcj]. rewrite Hmin in Hcj.
  unfold T1, of1. rewrite PC.w3at_time'.
  rewrite (PC.w3at_export_full R tm m min w i j (length m) cin) by auto. fold co.
  rewrite (PC.nth_map_in (select tm) _ j [] []) by (rewrite PC.select_length; [exact Hj|rewrite Hc by exact Hco; lia]).
  rewrite (PC.select_nth min (nth co w []) [] j) by (try exact Hj; rewrite Hc by exact Hco; lia).
  apply (PC.taps_export_eq R r0 r1 radd rmul Hadd0 Hm0l Hm0r Hm1l); auto; try apply (Hk co _ Hco Hcj).
Qed.

Lemma exp1_dw_spec (fold : bool) (w : w3 R) (b : option (list R)) (bn : option (list R * list R)) K d s tm K' sp (m min : list bool) (xs' : list SR) i :
  cshape3 R w (length m) 1 K -> cbias_ok R b (length m) -> cbn_ok R bn (length m) -> length tm = K ->
  kept_lags K tm = export_lags K' sp -> i < count_true m ->
  eqR (pbn (if fold then None else bn) (nth i (kept m) 0)
         (addR (bcst b (nth i (kept m) 0)) (P1 w tm K d s (nth i (kept m) 0) 0 (nth i xs' zeroR))))
      (of1 R (fun t => bn_at r0 radd rmul (if fold then None else slice_bn m bn) i
                 (conv1d_at r0 radd rmul true (export_w3 true m min tm w) (export_bias m b) (count_true min) K' (Z.of_nat (sp * d)) (Z.of_nat s)
                    (fun j => padl ((K' - 1) * (sp * d)) (clip R r0 (as1 R (nth j xs' zeroR)))) i t))).
Proof.
  intros (Hlw & Hc & Hk) Hb Hbn Htm Hl Hi idx. unfold of1, postbn. rewrite bnsel by assumption. f_equal.
  assert (Hi' : i < length (kept m)) by (rewrite PC.kept_length; exact Hi).
  destruct (PC.kept_nth_alive m i Hi') as [_ Hco]. set (co := nth i (kept m) 0) in *.
  rewrite bias_at. unfold conv1d_at. rewrite PC.addbias_slice by (auto). fold co. f_equal.
  unfold T1, of1. rewrite PC.w3at_time'. rewrite (PC.w3at_export_dw R tm m min w i (length m)) by auto. fold co.
  apply (PC.taps_export_eq R r0 r1 radd rmul Hadd0 Hm0l Hm0r Hm1l); auto; try (apply (Hk co 0 Hco); lia).
Qed.

Lemma exp2_full_spec (fold : bool) (w : w4 R) (b : option (list R)) (bn : option (list R * list R)) cin kh kw d s ph pw hin win (m min : list bool) (xs' : list SR) i :
  cshape2 w (length m) cin -> cbias_ok R b (length m) -> cbn_ok R bn (length m) -> length min = cin -> i < count_true m ->
  eqR (pbn (if fold then None else bn) (nth i (kept m) 0)
         (addR (bcst b (nth i (kept m) 0)) (sumR (map (fun j => P2 w kh kw d s ph pw hin win (nth i (kept m) 0) (nth j (kept min) 0) (nth j xs' zeroR)) (seq 0 (length (kept min)))))))
      (of2 R (fun h v => bn_at r0 radd rmul (if fold then None else slice_bn m bn) i
                 (conv2d_at r0 radd rmul false (export_w4 false m min w) (export_bias m b) (count_true min) kh kw (Z.of_nat d) (Z.of_nat s) (Z.of_nat ph) (Z.of_nat pw)
                    (fun j => clip2 R r0 hin win (as2 R (nth j xs' zeroR))) i h v))).
Proof.
  intros (Hlw & Hc) Hb Hbn Hmin Hi idx. unfold of2, postbn. rewrite bnsel by assumption. f_equal.
  assert (Hi' : i < length (kept m)) by (rewrite PC.kept_length; exact Hi).
  destruct (PC.kept_nth_alive m i Hi') as [_ Hco]. set (co := nth i (kept m) 0) in *.
  rewrite bias_at. unfold conv2d_at. rewrite PC.addbias_slice by (auto). fold co. f_equal.
  rewrite sumR_at, map_map, PC.kept_length. apply f_equal. apply PC.map_seq_ext. intros j Hj.
  unfold T2, of2. rewrite (PC.w4at_export_full R m min w i j (length m) cin) by (auto; split; auto). fold co.
  rewrite map_id. rewrite (PC.select_nth min (nth co w []) [] j) by (try exact Hj; rewrite Hc by exact Hco; lia). reflexivity.
Qed.

Lemma exp2_dw_spec (fold : bool) (w : w4 R) (b : option (list R)) (bn : option (list R * list R)) kh kw d s ph pw hin win (m min : list bool) (xs' : list SR) i :
  cshape2 w (length m) 1 -> cbias_ok R b (length m) -> cbn_ok R bn (length m) -> i < count_true m ->
  eqR (pbn (if fold then None else bn) (nth i (kept m) 0)
         (addR (bcst b (nth i (kept m) 0)) (P2 w kh kw d s ph pw hin win (nth i (kept m) 0) 0 (nth i xs' zeroR))))
      (of2 R (fun h v => bn_at r0 radd rmul (if fold then None else slice_bn m bn) i
                 (conv2d_at r0 radd rmul true (export_w4 true m min w) (export_bias m b) (count_true min) kh kw (Z.of_nat d) (Z.of_nat s) (Z.of_nat ph) (Z.of_nat pw)
                    (fun j => clip2 R r0 hin win (as2 R (nth j xs' zeroR))) i h v))).
Proof.
  intros (Hlw & Hc) Hb Hbn Hi idx. unfold of2, postbn. rewrite bnsel by assumption. f_equal.
  assert (Hi' : i < length (kept m)) by (rewrite PC.kept_length; exact Hi).
  destruct (PC.kept_nth_alive m i Hi') as [_ Hco]. set (co := nth i (kept m) 0) in *.
  rewrite bias_at. unfold conv2d_at. rewrite PC.addbias_slice by (auto). fold co. f_equal.
  unfold T2, of2, w4at, export_w4. rewrite (PC.nth_map_in _ (select m w) i [] []) by (rewrite PC.select_length; lia).
  rewrite (PC.select_nth m w [] i) by lia. reflexivity.
Qed.

Lemma exp0_spec (fold : bool) (w : list (list R)) (b : option (list R)) (bn : option (list R * list R)) cin (m min : list bool) (xs' : list SR) i :
  cshape2 w (length m) cin -> cbias_ok R b (length m) -> cbn_ok R bn (length m) -> length min = cin -> i < count_true m ->
  eqR (pbn (if fold then None else bn) (nth i (kept m) 0)
         (addR (bcst b (nth i (kept m) 0)) (sumR (map (fun j => P0 w (nth i (kept m) 0) (nth j (kept min) 0) (nth j xs' zeroR)) (seq 0 (length (kept min)))))))
      (of0 R (bn_at r0 radd rmul (if fold then None else slice_bn m bn) i
                 (linear_at r0 radd rmul (export_w2 m min w) (export_bias m b) (count_true min) (fun j => as0 R (nth j xs' zeroR)) i))).
Proof.
  intros (Hlw & Hc) Hb Hbn Hmin Hi idx. unfold of0, postbn. rewrite bnsel by assumption. f_equal.
  assert (Hi' : i < length (kept m)) by (rewrite PC.kept_length; exact Hi).
  destruct (PC.kept_nth_alive m i Hi') as [_ Hco]. set (co := nth i (kept m) 0) in *.
  rewrite bias_at. unfold linear_at. rewrite PC.addbias_slice by (auto). fold co. f_equal.
  rewrite sumR_at, map_map, PC.kept_length. apply f_equal. apply PC.map_seq_ext. intros j Hj.
  unfold T0, of0, export_w2. rewrite (PC.nth_map_in _ (select m w) i [] []) by (rewrite PC.select_length; lia).
  rewrite (PC.select_nth m w [] i) by lia. fold co.
  rewrite (PC.select_nth min (nth co w []) r0 j) by (try exact Hj; rewrite Hc by exact Hco; lia). reflexivity.
Qed.

Theorem cexp_node_spec n x al acc' nd : cwf_node R r0 n al nd ->
  Forall2 eqR (exp_node SR zeroR addR x al acc' (node_of R r0 r1 radd rmul nd)) (cexp_node R r0 radd rmul x al acc' nd).
Proof.
  destruct nd as [c|src l m|src f|src mult f|a b|srcs]; cbn; try (intros; apply Forall2_eqR_refl).
  intros [Hs Hw]. destruct l as [fold dw w b bn cin K d s tm K' sp|fold dw w b bn cin kh kw d s ph pw hin win|fold w b bn cin]; cbn in Hw |- *.
  - destruct Hw as (Hsh & Hb & Hbn & Htm & Hl & Hmin). destruct dw; cbn.
    + rewrite (PC.kept_length m). apply Forall2_map_seq; intros i Hi. apply exp1_dw_spec; auto.
    + rewrite (PC.map_by_position _ (kept m)), (PC.kept_length m). apply Forall2_map_seq; intros i Hi. eapply exp1_full_spec; eauto.
  - destruct Hw as (Hsh & Hb & Hbn & Hmin). destruct dw; cbn.
    + rewrite (PC.kept_length m). apply Forall2_map_seq; intros i Hi. apply exp2_dw_spec; auto.
    + rewrite (PC.map_by_position _ (kept m)), (PC.kept_length m). apply Forall2_map_seq; intros i Hi. eapply exp2_full_spec; eauto.
  - destruct Hw as (Hsh & Hb & Hbn & Hmin).
    rewrite (PC.map_by_position _ (kept m)), (PC.kept_length m). apply Forall2_map_seq; intros i Hi. eapply exp0_spec; eauto.
Qed.

(* ---- network level for concrete layers *)
Lemma cnode_sound n x al P E nd : length x = n -> GoodR al P E -> cwf_node R r0 n al nd ->
  InvR (calive_node R al nd) (cpit_node R r0 r1 radd rmul x P nd) (cexp_node R r0 radd rmul x al E nd).
Proof.
  intros Hx HG Hwf. rewrite <- (calive_node_of al nd).
  eapply Inv_proper; [apply (cpit_node_spec n x al P nd Hwf)|apply (cexp_node_spec n x al E nd Hwf)|].
  apply (node_sound SR eqR zeroR addR eqR_equiv addR_proper addR_0_l n x al P E); auto. apply cwf_node_wf. exact Hwf.
Qed.

Lemma crun_sound n x net : length x = n -> forall al P E, GoodR al P E -> cwf_acc R r0 n al net ->
  GoodR (calive_acc R al net) (cpit_acc R r0 r1 radd rmul x P net) (cexp_acc R r0 radd rmul x al E net) /\
  length (calive_acc R al net) = length al + length net.
Proof.
  intros Hx. induction net as [|nd net IH]; simpl; intros al P E HG Hwf.
  - split; auto.
  - destruct Hwf as [Hnd Hwf].
    destruct (IH _ _ _ (Good_snoc SR eqR zeroR _ _ _ _ _ _ HG (cnode_sound _ _ _ _ _ _ Hx HG Hnd)) Hwf) as [H1 H2].
    split; auto. rewrite H2, app_length. simpl. lia.
Qed.

Theorem export_sound_concrete : forall n net x, cwf R r0 n net -> length x = n ->
  let al := calive_net R net in
  let P := ceval_pit R r0 r1 radd rmul net x in
  let E := ceval_exp R r0 radd rmul net x in
  length al = length net /\ length P = length net /\ length E = length net /\
  forall i, i < length net -> InvR (nth i al []) (nth i P []) (nth i E []).
Proof.
  intros n net x Hwf Hx. cbv zeta. unfold calive_net, ceval_pit, ceval_exp.
  assert (G0 : GoodR [] [] []).
  { split; [reflexivity|split; [reflexivity|]]. simpl. intros i Hi. inversion Hi. }
  destruct (crun_sound n x net Hx [] [] [] G0 Hwf) as [(HP & HE & HI) HLn]. simpl in HLn.
  rewrite HP, HE, HLn. split; [|split; [|split]]; auto. intros i Hi. apply HI. lia.
Qed.

Corollary export_sound_concrete_output : forall n net x, cwf R r0 n net -> length x = n ->
  forall i, i < length net -> Forall (fun b => b = true) (nth i (calive_net R net) []) ->
  Forall2 eqR (nth i (ceval_exp R r0 radd rmul net x) []) (nth i (ceval_pit R r0 r1 radd rmul net x) []).
Proof.
  intros n net x Hwf Hx i Hi Hall.
  destruct (export_sound_concrete n net x Hwf Hx) as (_ & _ & _ & HI).
  destruct (HI i Hi) as (HLn & _ & HF). rewrite select_forall_true in HF; auto.
Qed.

End ConcreteProofs.

(* ================================================================ run_net (lists) computes ceval_pit / ceval_exp (functions) *)
Notation SZ := (SR Z).
Notation zeroZR := (zeroR Z 0%Z).

Definition agree1 (n : nat) (x : list (list Z)) (l : list SZ) : Prop :=
  Forall2 (fun c s => length c = n /\ forall tt, tt < n -> s [Z.of_nat tt] = nth tt c 0%Z) x l.
Definition agree0 (x : list Z) (l : list SZ) : Prop := Forall2 (fun v s => forall i, s i = v) x l.
Definition agree2 (H W : nat) (x : list (list (list Z))) (l : list SZ) : Prop :=
  Forall2 (fun c s => length c = H /\ (forall hh, hh < H -> length (nth hh c []) = W) /\
                      forall hh vv, hh < H -> vv < W -> s [Z.of_nat hh; Z.of_nat vv] = nth vv (nth hh c []) 0%Z) x l.
Definition agree2c (x : list (list (list Z))) (l : list SZ) : Prop := agree2 (tdimh (TS2 x)) (tdimw (TS2 x)) x l.

(* same as PitNet.agree, with the common channel length made explicit *)
Definition agreeT (t : tens) (l : list SZ) : Prop :=
  match t with TS1 x => exists n, agree1 n x l | TS0 x => agree0 x l | TS2 x => agree2c x l | TErr => False end.

Lemma Forall2_map_seq2 {A B} (Rel : A -> B -> Prop) (F : nat -> A) (G : nat -> B) n :
  (forall i, i < n -> Rel (F i) (G i)) -> Forall2 Rel (map F (seq 0 n)) (map G (seq 0 n)).
Proof.
  intro H. assert (K : forall l, (forall i, In i l -> i < n) -> Forall2 Rel (map F l) (map G l)).
  { induction l as [|a l IH]; intro Hl; [constructor|]. cbn. constructor; [apply H, Hl; left; reflexivity|apply IH; intros i Hi; apply Hl; right; exact Hi]. }
  apply K. intros i Hi. apply in_seq in Hi. lia.
Qed.

Lemma agree1_first n x l : agree1 n x l -> x <> [] -> length (nth 0 x []) = n.
Proof. intros H Hne. destruct H as [|c s x l [Hc _] _]; [congruence|exact Hc]. Qed.

(* ---- 2-D maps *)
Lemma agree2_canon H W x l : agree2 H W x l -> agree2c x l.
Proof.
  intro Hag. unfold agree2c. destruct Hag as [|c s x l (Hc & Hr & Hv) Hrest]; [constructor|].
  cbn [tdimh tdimw nth]. destruct H as [|H].
  - assert (E : c = []) by (destruct c; [reflexivity|discriminate]). subst c. cbn [length nth].
    constructor; [repeat split; intros; lia|]. clear - Hrest. induction Hrest as [|c s x l (Hc & _ & _) _ IH]; constructor; auto.
    repeat split; auto; intros; lia.
  - rewrite Hc, (Hr 0) by lia. constructor; [repeat split; assumption|exact Hrest].
Qed.

Lemma sig2_read H W c (s : SZ) h v : length c = H -> (forall hh, hh < H -> length (nth hh c []) = W) ->
  (forall hh vv, hh < H -> vv < W -> s [Z.of_nat hh; Z.of_nat vv] = nth vv (nth hh c []) 0%Z) ->
  sig2 0%Z c h v = clip2 Z 0%Z H W (as2 Z s) h v.
Proof.
  intros Hc Hr Hv. unfold sig2, clip2, as2, sig1.
  destruct (h <? 0)%Z eqn:Eh.
  - apply Z.ltb_lt in Eh. replace (0 <=? h)%Z with false by (symmetry; apply Z.leb_gt; lia). reflexivity.
  - apply Z.ltb_ge in Eh. replace (0 <=? h)%Z with true by (symmetry; apply Z.leb_le; lia). cbn [andb].
    destruct (Nat.lt_ge_cases (Z.to_nat h) H) as [Hh|Hh].
    + replace (h <? Z.of_nat H)%Z with true by (symmetry; apply Z.ltb_lt; lia). cbn [andb].
      destruct (v <? 0)%Z eqn:Ev.
      * apply Z.ltb_lt in Ev. replace (0 <=? v)%Z with false by (symmetry; apply Z.leb_gt; lia). reflexivity.
      * apply Z.ltb_ge in Ev. replace (0 <=? v)%Z with true by (symmetry; apply Z.leb_le; lia). cbn [andb].
        destruct (Nat.lt_ge_cases (Z.to_nat v) W) as [Hw|Hw].
        -- replace (v <? Z.of_nat W)%Z with true by (symmetry; apply Z.ltb_lt; lia).
           rewrite <- (Hv (Z.to_nat h) (Z.to_nat v) Hh Hw). rewrite !Z2Nat.id by lia. reflexivity.
        -- replace (v <? Z.of_nat W)%Z with false by (symmetry; apply Z.ltb_ge; lia).
           apply nth_overflow. rewrite (Hr _ Hh). exact Hw.
    + replace (h <? Z.of_nat H)%Z with false by (symmetry; apply Z.ltb_ge; lia). cbn [andb].
      rewrite (nth_overflow c) by lia. destruct (v <? 0)%Z; [reflexivity|]. destruct (Z.to_nat v); reflexivity.
Qed.

Lemma read2 v l ci h w' : agree2c v l ->
  chans2 0%Z v ci h w' = clip2 Z 0%Z (tdimh (TS2 v)) (tdimw (TS2 v)) (as2 Z (nth ci l zeroZR)) h w'.
Proof.
  intro Hag. unfold agree2c in Hag. pose proof (Forall2_len _ _ _ Hag) as Hlen. unfold chans2.
  destruct (Nat.lt_ge_cases ci (length v)) as [Hci|Hci].
  - pose proof (Forall2_nth _ v l [] zeroZR Hag ci Hci) as (Hc & Hr & Hv). apply sig2_read; assumption.
  - rewrite (nth_overflow v) by exact Hci. assert (Hl2 : length l <= ci) by (unfold SR in *; lia).
    rewrite (nth_overflow l zeroZR Hl2). unfold sig2, clip2, as2, zeroR, sig1.
    destruct (h <? 0)%Z; [destruct (_ && _)%bool; reflexivity|]. rewrite (nth_overflow []) by (cbn; lia).
    destruct (w' <? 0)%Z; [destruct (_ && _)%bool; reflexivity|]. rewrite (nth_overflow []) by (cbn; lia). destruct (_ && _)%bool; reflexivity.
Qed.

Definition ext2 (F : (nat -> Z -> Z -> Z) -> nat -> Z -> Z -> Z) : Prop :=
  forall X X' co h v, (forall ci a b, X ci a b = X' ci a b) -> F X co h v = F X' co h v.

Lemma layer2_agree F C Ho Wo v l : ext2 F -> agree2c v l ->
  agree2c (map (fun co => map (fun h => map (fun w' => F (chans2 0%Z v) co (Z.of_nat h) (Z.of_nat w')) (seq 0 Wo)) (seq 0 Ho)) (seq 0 C))
          (map (fun co => of2 Z (fun h w' => F (fun ci => clip2 Z 0%Z (tdimh (TS2 v)) (tdimw (TS2 v)) (as2 Z (nth ci l zeroZR))) co h w')) (seq 0 C)).
Proof.
  intros Hext Hag. apply (agree2_canon Ho Wo). apply Forall2_map_seq2. intros co Hco.
  split; [rewrite map_length, seq_length; reflexivity|]. split.
  - intros hh Hh. rewrite (PC.nth_map_seq0 _ Ho hh [] Hh). rewrite map_length, seq_length. reflexivity.
  - intros hh vv Hh Hv. rewrite (PC.nth_map_seq0 _ Ho hh [] Hh). rewrite (PC.nth_map_seq0 _ Wo vv 0%Z Hv).
    unfold of2. cbn [nth]. apply Hext. intros ci a b. symmetry. apply read2. exact Hag.
Qed.

Lemma taps2_ext wk kh kw d (x x' : Z -> Z -> Z) u v : (forall a b, x a b = x' a b) ->
  taps2 0%Z Z.add Z.mul wk kh kw d x u v = taps2 0%Z Z.add Z.mul wk kh kw d x' u v.
Proof. intro H. unfold taps2. apply f_equal. apply map_ext. intro a. apply f_equal. apply map_ext. intro b. rewrite H. reflexivity. Qed.
Lemma conv2d_ext dw w b cin kh kw d s ph pw : ext2 (fun X co h v => conv2d_at 0%Z Z.add Z.mul dw w b cin kh kw d s ph pw X co h v).
Proof.
  intros X X' co h v H. unfold conv2d_at. f_equal. destruct dw.
  - apply taps2_ext. apply H.
  - apply f_equal. apply map_ext. intro ci. apply taps2_ext. apply H.
Qed.
Lemma pit_conv2d_ext fold dw w b bn cin kh kw d s ph pw m :
  ext2 (fun X co h v => pit_conv2d_at 0%Z 1%Z Z.add Z.mul true fold dw w b bn cin kh kw d s ph pw m X co h v).
Proof.
  intros X X' co h v H. unfold pit_conv2d_at. destruct fold.
  - apply (conv2d_ext dw _ _ cin kh kw d s ph pw X X' co h v H).
  - f_equal. f_equal. apply (conv2d_ext dw _ _ cin kh kw d s ph pw X X' co h v H).
Qed.

Lemma conv2_pit_agree fold dw w b cin kh kw d s ph pw m v l : agree2c v l ->
  agree2c (pit_conv2d_l fold dw w b cin kh kw d s ph pw m v)
          (clayer_pit Z 0%Z 1%Z Z.add Z.mul (L2 Z fold dw w b None cin kh kw d s ph pw (tdimh (TS2 v)) (tdimw (TS2 v))) m l).
Proof.
  intro Hag. unfold pit_conv2d_l, clayer_pit. cbv zeta.
  apply (layer2_agree (fun X co h v0 => pit_conv2d_at 0%Z 1%Z Z.add Z.mul true fold dw w b None cin kh kw (Z.of_nat d) (Z.of_nat s) (Z.of_nat ph) (Z.of_nat pw) m X co h v0));
    auto using pit_conv2d_ext.
Qed.

Lemma conv2_exp_agree fold dw (w : list (list (list (list Z)))) b cin kh kw d s ph pw (m a : list bool) v l : length w = length m -> agree2c v l ->
  agree2c (Zconv2d dw (export_w4 dw m a w) (export_bias m b) (count_true a) kh kw d s ph pw v)
          (clayer_exp Z 0%Z Z.add Z.mul (L2 Z fold dw w b None cin kh kw d s ph pw (tdimh (TS2 v)) (tdimw (TS2 v))) m a l).
Proof.
  intros Hlw Hag. unfold Zconv2d, conv2d, clayer_exp. cbv zeta.
  assert (HC : length (export_w4 dw m a w) = count_true m).
  { unfold export_w4. rewrite map_length. apply PC.select_length. exact Hlw. }
  rewrite HC.
  destruct fold; cbn [slice_bn option_map bn_at];
    apply (layer2_agree (fun X co h v0 => conv2d_at 0%Z Z.add Z.mul dw (export_w4 dw m a w) (export_bias m b) (count_true a) kh kw (Z.of_nat d) (Z.of_nat s) (Z.of_nat ph) (Z.of_nat pw) X co h v0));
    auto using conv2d_ext.
Qed.

(* ---- reading a causally padded list tensor = reading the shifted, clipped channel function *)
Lemma sig1_nil u : sig1 0%Z [] u = 0%Z.
Proof. unfold sig1. destruct (u <? 0)%Z; [reflexivity|]. destruct (Z.to_nat u); reflexivity. Qed.

Lemma read1 n v l P ci un : agree1 n v l -> (ci < length v -> un < P + n) ->
  chans1 0%Z (Zpad1d P v) ci (Z.of_nat un) = padl P (clip Z 0%Z (as1 Z (nth ci l zeroZR))) (Z.of_nat un).
Proof.
  intros Hag Hb. pose proof (Forall2_len _ _ _ Hag) as Hlen.
  unfold chans1, Zpad1d, pad1d, padl, clip, as1.
  destruct (Nat.lt_ge_cases ci (length v)) as [Hci|Hci].
  - specialize (Hb Hci). rewrite (PC.nth_map_in _ v ci [] []) by exact Hci.
    pose proof (Forall2_nth _ v l [] zeroZR Hag ci Hci) as [Hc Hv]. cbn beta in Hc, Hv.
    unfold sig1. replace (Z.of_nat un <? 0)%Z with false by (symmetry; apply Z.ltb_ge; lia). rewrite Nat2Z.id.
    destruct (Nat.lt_ge_cases un P) as [Hu|Hu].
    + rewrite app_nth1 by (rewrite repeat_length; exact Hu). rewrite nth_repeat.
      replace (Z.of_nat un - Z.of_nat P <? 0)%Z with true by (symmetry; apply Z.ltb_lt; lia). reflexivity.
    + rewrite app_nth2 by (rewrite repeat_length; exact Hu). rewrite repeat_length.
      replace (Z.of_nat un - Z.of_nat P <? 0)%Z with false by (symmetry; apply Z.ltb_ge; lia).
      replace (Z.of_nat un - Z.of_nat P)%Z with (Z.of_nat (un - P)) by lia.
      rewrite Hv by lia. reflexivity.
  - rewrite (nth_overflow (map _ v)) by (rewrite map_length; exact Hci). rewrite sig1_nil.
    assert (Hl2 : length l <= ci) by (unfold SR in *; lia).
    rewrite (nth_overflow l zeroZR Hl2). destruct (_ <? _)%Z; reflexivity.
Qed.

(* ---- a generic causal 1-D layer: output (co, t) only reads the inputs at times s*t + j*d, j < K *)
Definition local1 (F : (nat -> Z -> Z) -> nat -> Z -> Z) (K d s : nat) : Prop :=
  forall X X' co t, (forall ci j, j < K -> X ci (Z.of_nat s * t + Z.of_nat j * Z.of_nat d)%Z = X' ci (Z.of_nat s * t + Z.of_nat j * Z.of_nat d)%Z) -> F X co t = F X' co t.

Lemma out_len_bound n K d s tt : 1 <= s -> tt < out_len ((K - 1) * d + n) K d s -> 1 <= n /\ s * tt <= n - 1.
Proof.
  intros Hs H. unfold out_len in H. rewrite (Nat.mul_comm d (K - 1)) in H.
  destruct (_ <? _) eqn:E; [lia|]. apply Nat.ltb_ge in E. split; [lia|].
  replace ((K - 1) * d + n - (K - 1) * d - 1) with (n - 1) in H by lia.
  assert (tt <= (n - 1) / s) by lia.
  transitivity (s * ((n - 1) / s)); [apply Nat.mul_le_mono_l; assumption|apply Nat.mul_div_le; lia].
Qed.

Lemma layer1_agree (F : (nat -> Z -> Z) -> nat -> Z -> Z) K d s C n v l : local1 F K d s -> 1 <= s -> agree1 n v l ->
  agreeT (TS1 (map (fun co => map (fun t => F (chans1 0%Z (Zpad1d ((K - 1) * d) v)) co (Z.of_nat t))
                             (seq 0 (out_len (length (nth 0 (Zpad1d ((K - 1) * d) v) [])) K d s))) (seq 0 C)))
         (map (fun co => of1 Z (fun t => F (fun ci => padl ((K - 1) * d) (clip Z 0%Z (as1 Z (nth ci l zeroZR)))) co t)) (seq 0 C)).
Proof.
  intros Hloc Hs Hag. set (P := (K - 1) * d). set (no := out_len (length (nth 0 (Zpad1d P v) [])) K d s).
  exists no. apply Forall2_map_seq2. intros co Hco. split; [rewrite map_length, seq_length; reflexivity|].
  intros tt Htt. rewrite (PC.nth_map_seq0 _ no tt 0%Z Htt). unfold of1. cbn [nth].
  apply Hloc. intros ci j Hj.
  replace (Z.of_nat s * Z.of_nat tt + Z.of_nat j * Z.of_nat d)%Z with (Z.of_nat (s * tt + j * d)) by lia.
  symmetry. apply (read1 n v l P ci (s * tt + j * d) Hag). intro Hci.
  assert (Hne : v <> []) by (intro E; subst v; cbn in Hci; lia).
  assert (HL : length (nth 0 (Zpad1d P v) []) = P + n).
  { unfold Zpad1d, pad1d. rewrite (PC.nth_map_in _ v 0 [] []) by (destruct v; [congruence|cbn; lia]).
    rewrite app_length, repeat_length, (agree1_first n v l Hag Hne). reflexivity. }
  unfold no in Htt. rewrite HL in Htt. destruct (out_len_bound n K d s tt Hs Htt) as [Hn Hb].
  assert (j * d <= P) by (unfold P; apply Nat.mul_le_mono_r; lia). lia.
Qed.

(* the concrete 1-D layers are local *)
Lemma taps_local wk K d (x x' : Z -> Z) u : (forall j, j < K -> x (u + Z.of_nat j * d)%Z = x' (u + Z.of_nat j * d)%Z) ->
  taps 0%Z Z.add Z.mul wk K d x u = taps 0%Z Z.add Z.mul wk K d x' u.
Proof. intro H. unfold taps. apply f_equal. apply map_ext_in. intros j Hj. apply in_seq in Hj. rewrite H by lia. reflexivity. Qed.
Lemma conv1d_local dw w b cin K d s : local1 (fun X co t => conv1d_at 0%Z Z.add Z.mul dw w b cin K (Z.of_nat d) (Z.of_nat s) X co t) K d s.
Proof.
  intros X X' co t H. unfold conv1d_at. f_equal. destruct dw.
  - apply taps_local. intros j Hj. apply H. exact Hj.
  - apply f_equal. apply map_ext. intro ci. apply taps_local. intros j Hj. apply H. exact Hj.
Qed.
Lemma pit_conv1d_local fold dw w b bn cin K d s m tm :
  local1 (fun X co t => pit_conv1d_at 0%Z 1%Z Z.add Z.mul true fold dw w b bn cin K (Z.of_nat d) (Z.of_nat s) m tm X co t) K d s.
Proof.
  intros X X' co t H. unfold pit_conv1d_at. destruct fold.
  - apply (conv1d_local dw _ _ cin K d s X X' co t H).
  - f_equal. f_equal. apply (conv1d_local dw _ _ cin K d s X X' co t H).
Qed.

(* ---- invariant between the list-level run and the concrete (function-level) network *)
Definition xdef : xstate := (TErr, TErr, []).
Definition Inv3 (st : xstate) (al : list bool) (P E : list SZ) : Prop :=
  let '(p, e, a) := st in a = al /\ agreeT p P /\ agreeT e E.
Definition GoodX (acc : list xstate) (cal : list (list bool)) (cP cE : list (list SZ)) : Prop :=
  length cal = length acc /\ length cP = length acc /\ length cE = length acc /\
  forall i, i < length acc -> Inv3 (nth i acc xdef) (nth i cal []) (nth i cP []) (nth i cE []).

Definition is1 (t : tens) : Prop := match t with TS1 _ => True | _ => False end.
Definition is0 (t : tens) : Prop := match t with TS0 _ => True | _ => False end.
Definition same_shape (t1 t2 : tens) : Prop :=
  match t1, t2 with
  | TS1 x, TS1 y => length x = length y /\ tmult t1 = tmult t2
  | TS2 x, TS2 y => tdimh t1 = tdimh t2 /\ tdimw t1 = tdimw t2
  | TS0 _, TS0 _ => True | _, _ => False end.
Definition cat_ok (t0 t : tens) : Prop :=
  match t0, t with
  | TS1 x, TS1 y => x <> [] /\ y <> [] /\ tmult t0 = tmult t
  | TS2 x, TS2 y => x <> [] /\ y <> [] /\ tdimh t0 = tdimh t /\ tdimw t0 = tdimw t
  | TS0 _, TS0 _ => True | _, _ => False end.

(* well-formed node of the executable evaluator: every constructor of Conv.xnode is covered (1-D and 2-D input, Conv1d with its
   causal pad, Conv2d, both full/depthwise, Linear, ReLU/ReLU6, identity, max pooling 1-D/2-D, stand-alone pad, flatten, add, concat) *)
Definition is2 (t : tens) : Prop := match t with TS2 _ => True | _ => False end.
Definition xwf_node (x : tens) (acc : list xstate) (nd : xnode) : Prop :=
  match nd with
  | XIn => (exists v n, x = TS1 v /\ Forall (fun c => length c = n) v) \/
           (exists v H W, x = TS2 v /\ Forall (fun c => length c = H /\ Forall (fun r => length r = W) c) v)
  | XId src => src < length acc
  | XAct src _ => src < length acc
  | XPad src P P' => src < length acc /\ P' = P /\ let '(p, e, _) := xget acc src in is1 p /\ is1 e
  | XMaxPool src k => src < length acc /\ 1 <= k /\ let '(p, e, _) := xget acc src in
      (is1 p /\ is1 e) \/ (is2 p /\ is2 e /\ tdimh e = tdimh p /\ tdimw e = tdimw p)
  | XConv1 src fold dw w b cin K d s m tm K' d' =>
      src < length acc /\ 1 <= s /\ d' = (d' / d) * d /\
      let '(p, e, a) := xget acc src in is1 p /\ is1 e /\ clayer_wf Z (L1 Z fold dw w b None cin K d s tm K' (d' / d)) m a
  | XConv2 src fold dw w b cin kh kw d s ph pw m =>
      src < length acc /\
      let '(p, e, a) := xget acc src in is2 p /\ is2 e /\ tdimh e = tdimh p /\ tdimw e = tdimw p /\
        clayer_wf Z (L2 Z fold dw w b None cin kh kw d s ph pw (tdimh p) (tdimw p)) m a
  | XLin src fold w b cin m =>
      src < length acc /\ let '(p, e, a) := xget acc src in is0 p /\ is0 e /\ clayer_wf Z (L0 Z fold w b None cin) m a
  | XFlatten src => src < length acc /\ let '(p, e, _) := xget acc src in
      (is1 p /\ is1 e /\ tmult e = tmult p) \/ (is2 p /\ is2 e /\ tdimh e = tdimh p /\ tdimw e = tdimw p)
  | XAdd i j => i < length acc /\ j < length acc /\
      let '(p1, e1, a1) := xget acc i in let '(p2, e2, a2) := xget acc j in a1 = a2 /\ same_shape p1 p2 /\ same_shape e1 e2
  | XCat srcs => srcs <> [] /\ Forall (fun j => j < length acc /\
      let '(p0, e0, _) := xget acc (hd 0 srcs) in let '(p, e, _) := xget acc j in cat_ok p0 p /\ cat_ok e0 e) srcs
  end.

Lemma GoodX_get acc cal cP cE src : GoodX acc cal cP cE -> src < length acc ->
  Inv3 (xget acc src) (nth src cal []) (nth src cP []) (nth src cE []).
Proof. intros (_ & _ & _ & H) Hs. apply H. exact Hs. Qed.

Lemma Forall2_map_self {A B} (Rel : A -> B -> Prop) (g : A -> B) l : Forall (fun a => Rel a (g a)) l -> Forall2 Rel l (map g l).
Proof. induction 1; cbn; constructor; auto. Qed.

Lemma agree_in v n : Forall (fun c => length c = n) v -> agree1 n v (emb (TS1 v)).
Proof.
  intro H. unfold agree1, emb. apply Forall2_map_self. eapply Forall_impl; [|exact H]. intros c Hc. split; [exact Hc|].
  intros tt Htt. unfold of1, sig1. cbn [nth]. replace (Z.of_nat tt <? 0)%Z with false by (symmetry; apply Z.ltb_ge; lia).
  rewrite Nat2Z.id. reflexivity.
Qed.


Lemma linear_local w b cin (X X' : nat -> Z) co : (forall ci, ci < cin -> X ci = X' ci) ->
  linear_at 0%Z Z.add Z.mul w b cin X co = linear_at 0%Z Z.add Z.mul w b cin X' co.
Proof. intro H. unfold linear_at. f_equal. apply f_equal. apply map_ext_in. intros ci Hci. apply in_seq in Hci. rewrite H by lia. reflexivity. Qed.
Lemma pit_linear_local fold w b bn cin m (X X' : nat -> Z) co : (forall ci, ci < cin -> X ci = X' ci) ->
  pit_linear_at 0%Z 1%Z Z.add Z.mul true fold w b bn cin m X co = pit_linear_at 0%Z 1%Z Z.add Z.mul true fold w b bn cin m X' co.
Proof. intro H. unfold pit_linear_at. destruct fold; [apply linear_local; exact H|]. f_equal. f_equal. apply linear_local; exact H. Qed.

Lemma read0 v l ci : agree0 v l -> nth ci v 0%Z = as0 Z (nth ci l zeroZR).
Proof.
  intro H. unfold as0. revert ci. induction H as [|c s x l Hv _ IH]; intro ci; destruct ci; cbn; auto.
Qed.

(* ---- the two tensors computed by one step of run_net agree with the concrete layer functions *)
Lemma conv1_pit_agree fold dw w b cin K d s m tm K' sp n v l : 1 <= s -> agree1 n v l ->
  agreeT (TS1 (pit_conv1d_l fold dw w b cin K d s m tm (Zpad1d ((K - 1) * d) v)))
         (clayer_pit Z 0%Z 1%Z Z.add Z.mul (L1 Z fold dw w b None cin K d s tm K' sp) m l).
Proof.
  intros Hs Hag. unfold pit_conv1d_l, clayer_pit.
  apply (layer1_agree (fun X co t => pit_conv1d_at 0%Z 1%Z Z.add Z.mul true fold dw w b None cin K (Z.of_nat d) (Z.of_nat s) m tm X co t) K d s (length w) n v l);
    auto using pit_conv1d_local.
Qed.

Lemma conv1_exp_agree fold dw (w : list (list (list Z))) b cin K d s (m a : list bool) tm K' sp n v l : 1 <= s -> length w = length m -> agree1 n v l ->
  agreeT (TS1 (Zconv1d dw (export_w3 dw m a tm w) (export_bias m b) (count_true a) K' (sp * d) s (Zpad1d ((K' - 1) * (sp * d)) v)))
         (clayer_exp Z 0%Z Z.add Z.mul (L1 Z fold dw w b None cin K d s tm K' sp) m a l).
Proof.
  intros Hs Hlw Hag. unfold Zconv1d, conv1d, clayer_exp.
  assert (HC : length (export_w3 dw m a tm w) = count_true m).
  { unfold export_w3. rewrite map_length. apply PC.select_length. exact Hlw. }
  rewrite HC.
  assert (G : agreeT (TS1 (map (fun co => map (fun t => conv1d_at 0%Z Z.add Z.mul dw (export_w3 dw m a tm w) (export_bias m b) (count_true a) K' (Z.of_nat (sp * d)) (Z.of_nat s)
                                   (chans1 0%Z (Zpad1d ((K' - 1) * (sp * d)) v)) co (Z.of_nat t))
                                   (seq 0 (out_len (length (nth 0 (Zpad1d ((K' - 1) * (sp * d)) v) [])) K' (sp * d) s))) (seq 0 (count_true m))))
            (map (fun co => of1 Z (fun t => conv1d_at 0%Z Z.add Z.mul dw (export_w3 dw m a tm w) (export_bias m b) (count_true a) K' (Z.of_nat (sp * d)) (Z.of_nat s)
                                   (fun ci => padl ((K' - 1) * (sp * d)) (clip Z 0%Z (as1 Z (nth ci l zeroZR)))) co t)) (seq 0 (count_true m)))).
  { apply (layer1_agree (fun X co t => conv1d_at 0%Z Z.add Z.mul dw (export_w3 dw m a tm w) (export_bias m b) (count_true a) K' (Z.of_nat (sp * d)) (Z.of_nat s) X co t)
                K' (sp * d) s (count_true m) n v l); auto using conv1d_local. }
  destruct fold; cbn [slice_bn option_map bn_at]; exact G.
Qed.


Lemma lin_pit_agree fold w b cin m v l : agree0 v l ->
  agreeT (TS0 (pit_linear_l fold w b cin m v)) (clayer_pit Z 0%Z 1%Z Z.add Z.mul (L0 Z fold w b None cin) m l).
Proof.
  intro Hag. unfold pit_linear_l, clayer_pit. cbn [agreeT]. unfold agree0. apply Forall2_map_seq2. intros co Hco i. unfold of0.
  apply pit_linear_local. intros ci _. symmetry. apply read0. exact Hag.
Qed.

Lemma lin_exp_agree fold (w : list (list Z)) b cin (m a : list bool) v l : length w = length m -> agree0 v l ->
  agreeT (TS0 (Zlinear (export_w2 m a w) (export_bias m b) (count_true a) v)) (clayer_exp Z 0%Z Z.add Z.mul (L0 Z fold w b None cin) m a l).
Proof.
  intros Hlw Hag. unfold Zlinear, linear, clayer_exp.
  assert (HC : length (export_w2 m a w) = count_true m).
  { unfold export_w2. rewrite map_length. apply PC.select_length. exact Hlw. }
  rewrite HC. cbn [agreeT]. unfold agree0. apply Forall2_map_seq2. intros co Hco i. unfold of0.
  destruct fold; cbn [slice_bn option_map bn_at]; apply linear_local; intros ci _; symmetry; apply read0; exact Hag.
Qed.

(* flatten of a 1-D tensor *)
Lemma list_as_seq (c : list Z) : c = map (fun q => nth q c 0%Z) (seq 0 (length c)).
Proof.
  apply (nth_ext _ _ 0%Z 0%Z); [rewrite map_length, seq_length; reflexivity|].
  intros q Hq. rewrite (PC.nth_map_seq0 _ (length c) q 0%Z Hq). reflexivity.
Qed.
Lemma flat_agree n v l : agree1 n v l ->
  agree0 (concat v) (flat_map (expand1 SZ n (fun q s => of0 Z (s [Z.of_nat q]))) l).
Proof.
  intros H. unfold agree0. induction H as [|c s x l [Hc Hv] _ IH]; cbn; [constructor|].
  apply Forall2_app; [|exact IH]. unfold expand1. rewrite (list_as_seq c) at 1. rewrite Hc.
  apply Forall2_map_seq2. intros q Hq i. unfold of0. apply Hv. exact Hq.
Qed.

Lemma zip_agree1 n x y l1 l2 : agree1 n x l1 -> agree1 n y l2 ->
  agree1 n (zip2 (zip2 Z.add) x y) (zipadd SZ (addR Z Z.add) l1 l2).
Proof.
  intro H. revert y l2. induction H as [|c s x l1 [Hc Hv] _ IH]; intros y l2 H2; [destruct H2; constructor|].
  destruct H2 as [|c2 s2 y l2 [Hc2 Hv2] H2]; cbn; constructor; [|apply IH; exact H2].
  assert (HL : length (zip2 Z.add c c2) = n).
  { clear - Hc Hc2. subst n. revert c2 Hc2. induction c as [|a c IH]; intros [|b c2] H; cbn in *; try lia. f_equal. apply IH. lia. }
  split; [exact HL|]. intros tt Htt. unfold addR. rewrite Hv, Hv2 by exact Htt.
  clear - Hc Hc2 Htt. subst n. revert c2 tt Hc2 Htt. induction c as [|a c IH]; intros [|b c2] tt H Htt; cbn in *; try lia.
  destruct tt; [reflexivity|]. apply IH; lia.
Qed.
Lemma zip_agree0 x y l1 l2 : agree0 x l1 -> agree0 y l2 -> agree0 (zip2 Z.add x y) (zipadd SZ (addR Z Z.add) l1 l2).
Proof.
  intro H. revert y l2. induction H as [|c s x l1 Hv _ IH]; intros y l2 H2; [destruct H2; constructor|].
  destruct H2 as [|c2 s2 y l2 Hv2 H2]; cbn; constructor; [|apply IH; exact H2].
  intro i. unfold addR. rewrite Hv, Hv2. reflexivity.
Qed.

Lemma agree1_mult n x l : agree1 n x l -> x <> [] -> tmult (TS1 x) = n.
Proof. intros H Hne. cbn. apply (agree1_first n x l H Hne). Qed.



(* ---- 2-D: input, activation, add, flatten *)
Lemma agree2_in H W v : Forall (fun c => length c = H /\ Forall (fun r => length r = W) c) v -> agree2 H W v (emb (TS2 v)).
Proof.
  intro Hf. unfold agree2, emb. apply Forall2_map_self. eapply Forall_impl; [|exact Hf]. intros c [Hc Hr].
  assert (Hrow : forall hh, hh < H -> length (nth hh c []) = W).
  { intros hh Hh. rewrite Forall_forall in Hr. apply Hr. apply nth_In. lia. }
  split; [exact Hc|]. split; [exact Hrow|]. intros hh vv Hh Hv. unfold of2, sig2, sig1. cbn [nth].
  replace (Z.of_nat hh <? 0)%Z with false by (symmetry; apply Z.ltb_ge; lia).
  replace (Z.of_nat vv <? 0)%Z with false by (symmetry; apply Z.ltb_ge; lia). rewrite !Nat2Z.id. reflexivity.
Qed.

Lemma nth_map_nil {A B} (g : list A -> list B) (c : list (list A)) hh : g [] = [] -> nth hh (map g c) [] = g (nth hh c []).
Proof. intro E. rewrite <- E at 1. apply map_nth. Qed.

Lemma act2_agree (f : Z -> Z) H W x l : agree2 H W x l -> agree2 H W (map (map (map f)) x) (map (actZ f) l).
Proof.
  intro Hag. unfold agree2 in *. induction Hag as [|c s x l (Hc & Hr & Hv) _ IH]; cbn; constructor; auto.
  split; [rewrite map_length; exact Hc|]. split.
  - intros hh Hh. rewrite (nth_map_nil (map f) c hh eq_refl), map_length. apply Hr. exact Hh.
  - intros hh vv Hh Hw. unfold actZ. rewrite Hv by assumption. rewrite (nth_map_nil (map f) c hh eq_refl).
    rewrite (PC.nth_map_in f _ vv 0%Z 0%Z) by (rewrite Hr; assumption). reflexivity.
Qed.

Lemma zip2_length {A} (f : A -> A -> A) a b : length a = length b -> length (zip2 f a b) = length a.
Proof. revert b. induction a as [|x a IH]; intros [|y b] H; cbn in *; try lia. f_equal. apply IH. lia. Qed.
Lemma zip2_nth {A} (f : A -> A -> A) a b i d da db : length a = length b -> i < length a ->
  nth i (zip2 f a b) d = f (nth i a da) (nth i b db).
Proof. revert b i. induction a as [|x a IH]; intros [|y b] i H Hi; cbn in *; try lia. destruct i; [reflexivity|]. apply IH; lia. Qed.

Lemma add2_agree H W x y l1 l2 : agree2 H W x l1 -> agree2 H W y l2 ->
  agree2 H W (zip2 (zip2 (zip2 Z.add)) x y) (zipadd SZ (addR Z Z.add) l1 l2).
Proof.
  intro H1. revert y l2. induction H1 as [|c s x l1 (Hc & Hr & Hv) _ IH]; intros y l2 H2; [destruct H2; constructor|].
  destruct H2 as [|c2 s2 y l2 (Hc2 & Hr2 & Hv2) H2]; cbn; constructor; [|apply IH; exact H2].
  assert (Hcc : length c = length c2) by lia.
  split; [rewrite zip2_length; assumption|]. split.
  - intros hh Hh. rewrite (zip2_nth _ c c2 hh [] [] []) by lia. rewrite zip2_length; rewrite ?Hr, ?Hr2; auto.
  - intros hh vv Hh Hw. unfold addR. rewrite Hv, Hv2 by assumption. rewrite (zip2_nth _ c c2 hh [] [] []) by lia.
    rewrite (zip2_nth _ _ _ vv 0%Z 0%Z 0%Z) by (rewrite ?Hr, ?Hr2; auto). reflexivity.
Qed.

Lemma seq_shiftn W n : seq W n = map (fun q => W + q) (seq 0 n).
Proof.
  revert W. induction n as [|n IH]; intro W; [reflexivity|]. cbn [seq map]. f_equal; [lia|].
  rewrite (IH (Datatypes.S W)), <- seq_shift, map_map. apply map_ext. intro; lia.
Qed.
Lemma concat_rect (c : list (list Z)) H W : length c = H -> (forall hh, hh < H -> length (nth hh c []) = W) ->
  concat c = map (fun q => nth (q mod W) (nth (q / W) c []) 0%Z) (seq 0 (H * W)).
Proof.
  revert H. induction c as [|r c IH]; intros H Hc Hr.
  - cbn in Hc. subst H. reflexivity.
  - destruct H as [|H]; [discriminate|]. cbn [concat]. change (Datatypes.S H * W) with (W + H * W). rewrite seq_app, map_app, Nat.add_0_l. f_equal.
    + pose proof (Hr 0 ltac:(lia)) as Hr0. cbn in Hr0. rewrite (list_as_seq r) at 1. rewrite Hr0. apply map_ext_in. intros q Hq. apply in_seq in Hq.
      rewrite Nat.div_small, Nat.mod_small by lia. reflexivity.
    + rewrite (IH H) by (cbn in Hc; try lia; intros hh Hh; apply (Hr (Datatypes.S hh)); lia).
      rewrite (seq_shiftn W (H * W)), map_map. apply map_ext_in. intros q Hq. apply in_seq in Hq.
      assert (W <> 0) by (intro; subst W; lia).
      replace (W + q) with (q + 1 * W) by lia. rewrite Nat.div_add, Nat.mod_add by assumption.
      replace (q / W + 1) with (Datatypes.S (q / W)) by lia. reflexivity.
Qed.

Lemma flat2_agree H W v l : agree2 H W v l ->
  agree0 (concat (map (@concat Z) v)) (flat_map (expand1 SZ (H * W) (fun q s => of0 Z (s [Z.of_nat (q / W); Z.of_nat (q mod W)]))) l).
Proof.
  intros Hag. unfold agree0. induction Hag as [|c s x l (Hc & Hr & Hv) _ IH]; cbn; [constructor|].
  apply Forall2_app; [|exact IH]. unfold expand1. rewrite (concat_rect c H W Hc Hr).
  apply Forall2_map_seq2. intros q Hq i. unfold of0.
  assert (W <> 0) by (intro; subst W; lia).
  apply Hv; [apply Nat.div_lt_upper_bound; [assumption|lia]|apply Nat.mod_upper_bound; assumption].
Qed.

(* ---- 1-D max pooling and stand-alone pad *)
Lemma skipn_add {A} a b (l : list A) : skipn a (skipn b l) = skipn (b + a) l.
Proof. revert l. induction b as [|b IH]; intro l; [reflexivity|]. destruct l; [destruct a; reflexivity|]. cbn. apply IH. Qed.
Lemma chunks_nth {A} fuel k (l : list A) tt : 1 <= k -> tt < fuel -> k * (tt + 1) <= length l ->
  nth tt (chunks fuel k l) [] = firstn k (skipn (k * tt) l).
Proof.
  intro Hk. revert l tt. induction fuel as [|f IH]; intros l tt Hf Hl; [lia|]. cbn [chunks].
  assert (E : (length l <? k) = false) by (apply Nat.ltb_ge; nia). rewrite E.
  destruct tt as [|tt]; [rewrite Nat.mul_0_r; reflexivity|]. cbn [nth].
  rewrite IH by (try lia; rewrite skipn_length; nia). rewrite skipn_add. f_equal. f_equal. lia.
Qed.
Lemma chunks_length {A} fuel k (l : list A) : 1 <= k -> length l / k <= fuel -> length (chunks fuel k l) = length l / k.
Proof.
  intro Hk. revert l. induction fuel as [|f IH]; intros l Hf; cbn [chunks]; [cbn; lia|].
  destruct (length l <? k) eqn:E.
  - apply Nat.ltb_lt in E. rewrite Nat.div_small by exact E. reflexivity.
  - apply Nat.ltb_ge in E. cbn [length].
    assert (D : length l / k = Datatypes.S ((length l - k) / k)).
    { replace (length l) with ((length l - k) + 1 * k) at 1 by lia. rewrite Nat.div_add by lia. lia. }
    rewrite IH by (rewrite skipn_length; lia). rewrite skipn_length. lia.
Qed.
Lemma nth_firstn_lt {A} k (l : list A) j d : j < k -> nth j (firstn k l) d = nth j l d.
Proof. revert l j. induction k as [|k IH]; intros l j H; [lia|]. destruct l; [destruct j; reflexivity|]. destruct j; [reflexivity|]. cbn. apply IH. lia. Qed.
Lemma nth_skipn_add {A} m (l : list A) j d : nth j (skipn m l) d = nth (m + j) l d.
Proof. revert l. induction m as [|m IH]; intro l; [reflexivity|]. destruct l; [destruct j; reflexivity|]. cbn. apply IH. Qed.
Lemma window_as_seq k m (c : list Z) : m + k <= length c -> firstn k (skipn m c) = map (fun j => nth (m + j) c 0%Z) (seq 0 k).
Proof.
  intro H. apply (nth_ext _ _ 0%Z 0%Z).
  - rewrite firstn_length, skipn_length, map_length, seq_length. lia.
  - intros j Hj. rewrite firstn_length, skipn_length in Hj. rewrite nth_firstn_lt by lia. rewrite nth_skipn_add.
    rewrite (PC.nth_map_seq0 _ k j 0%Z) by lia. reflexivity.
Qed.

Lemma pool1_agree k n v l : 1 <= k -> agree1 n v l -> agree1 (n / k) (map (maxpool1d k) v) (map (poolf1 k) l).
Proof.
  intros Hk Hag. unfold agree1 in *. induction Hag as [|c s x l [Hc Hv] _ IH]; cbn [map]; constructor; auto.
  assert (Hdiv : length c / k <= length c) by (apply Nat.div_le_upper_bound; nia).
  unfold maxpool1d. split; [rewrite map_length, chunks_length, Hc by (lia || assumption); reflexivity|].
  intros tt Htt.
  assert (Hb : k * (tt + 1) <= length c).
  { rewrite Hc. transitivity (k * (n / k)); [apply Nat.mul_le_mono_l; lia|apply Nat.mul_div_le; lia]. }
  rewrite (PC.nth_map_in zmax _ tt [] 0%Z) by (rewrite chunks_length, Hc by (lia || assumption); exact Htt).
  rewrite chunks_nth by (try lia; nia). rewrite window_as_seq by lia.
  unfold poolf1. cbn [nth]. f_equal. apply map_ext_in. intros j Hj. apply in_seq in Hj.
  replace (Z.of_nat k * Z.of_nat tt + Z.of_nat j)%Z with (Z.of_nat (k * tt + j)) by lia. apply Hv. nia.
Qed.

(* ---- 2-D max pooling *)
Lemma window_as_seqA {A} (d : A) k m (c : list A) : m + k <= length c -> firstn k (skipn m c) = map (fun j => nth (m + j) c d) (seq 0 k).
Proof.
  intro H. apply (nth_ext _ _ d d).
  - rewrite firstn_length, skipn_length, map_length, seq_length. lia.
  - intros j Hj. rewrite firstn_length, skipn_length in Hj. rewrite nth_firstn_lt by lia. rewrite nth_skipn_add.
    rewrite (PC.nth_map_seq0 _ k j d) by lia. reflexivity.
Qed.

Lemma pool2_channel k H W (c : list (list Z)) (s : SZ) : 1 <= k -> length c = H -> (forall hh, hh < H -> length (nth hh c []) = W) ->
  (forall hh vv, hh < H -> vv < W -> s [Z.of_nat hh; Z.of_nat vv] = nth vv (nth hh c []) 0%Z) ->
  let o := maxpool2d k c in
  length o = H / k /\ (forall hh, hh < H / k -> length (nth hh o []) = W / k) /\
  forall hh vv, hh < H / k -> vv < W / k -> poolf2 k s [Z.of_nat hh; Z.of_nat vv] = nth vv (nth hh o []) 0%Z.
Proof.
  intros Hk Hc Hr Hv. cbv zeta. unfold maxpool2d, pool2d.
  assert (HdH : length c / k <= length c) by (apply Nat.div_le_upper_bound; nia).
  assert (HdW : W / k <= W) by (apply Nat.div_le_upper_bound; nia).
  assert (Hlen : length (chunks (length c) k c) = H / k) by (rewrite chunks_length, Hc by (lia || assumption); reflexivity).
  (* the hh-th group of rows and its transpose *)
  assert (Grp : forall hh, hh < H / k ->
            nth hh (chunks (length c) k c) [] = map (fun r => nth (k * hh + r) c []) (seq 0 k) /\ k * (hh + 1) <= H).
  { intros hh Hh. assert (Hb : k * (hh + 1) <= H).
    { transitivity (k * (H / k)); [apply Nat.mul_le_mono_l; lia|apply Nat.mul_div_le; lia]. }
    split; [|exact Hb]. rewrite chunks_nth by (try lia; nia). apply window_as_seqA. lia. }
  assert (Tr : forall hh, hh < H / k ->
            transpose_k (map (fun r => nth (k * hh + r) c []) (seq 0 k))
            = map (fun j => map (fun r => nth j (nth (k * hh + r) c []) 0%Z) (seq 0 k)) (seq 0 W)).
  { intros hh Hh. destruct (Grp hh Hh) as [_ Hb]. destruct k as [|k']; [lia|]. unfold transpose_k. cbn [seq map].
    rewrite Nat.add_0_r, Hr by nia. apply map_ext. intro j. change (nth (Datatypes.S k' * hh + 0) c [] :: map (fun r => nth (Datatypes.S k' * hh + r) c []) (seq 1 k'))
      with (map (fun r => nth (Datatypes.S k' * hh + r) c []) (seq 0 (Datatypes.S k'))). rewrite map_map. reflexivity. }
  split; [rewrite map_length; exact Hlen|]. split.
  - intros hh Hh. rewrite (PC.nth_map_in _ (chunks (length c) k c) hh [] []) by lia.
    destruct (Grp hh Hh) as [-> _]. rewrite (Tr hh Hh), !map_length, seq_length, chunks_length; rewrite ?map_length, ?seq_length; auto.
  - intros hh vv Hh Hw. rewrite (PC.nth_map_in _ (chunks (length c) k c) hh [] []) by lia.
    destruct (Grp hh Hh) as [-> Hb]. rewrite (Tr hh Hh). rewrite map_length, seq_length.
    set (TT := map (fun j => map (fun r => nth j (nth (k * hh + r) c []) 0%Z) (seq 0 k)) (seq 0 W)).
    assert (HTT : length TT = W) by (unfold TT; rewrite map_length, seq_length; reflexivity).
    assert (Hbw : k * (vv + 1) <= W).
    { transitivity (k * (W / k)); [apply Nat.mul_le_mono_l; lia|apply Nat.mul_div_le; lia]. }
    rewrite (PC.nth_map_in _ (chunks W k TT) vv [] 0%Z) by (rewrite chunks_length; rewrite ?HTT; auto).
    rewrite chunks_nth by (try lia; rewrite ?HTT; nia). rewrite (window_as_seqA [] k (k * vv) TT) by (rewrite HTT; lia).
    unfold poolf2. cbn [nth]. f_equal. f_equal. apply map_ext_in. intros a Ha. apply in_seq in Ha.
    unfold TT. rewrite (PC.nth_map_seq0 _ W (k * vv + a) []) by nia. apply map_ext_in. intros r Hrr. apply in_seq in Hrr.
    replace (Z.of_nat k * Z.of_nat hh + Z.of_nat r)%Z with (Z.of_nat (k * hh + r)) by lia.
    replace (Z.of_nat k * Z.of_nat vv + Z.of_nat a)%Z with (Z.of_nat (k * vv + a)) by lia. apply Hv; nia.
Qed.

Lemma pool2_agree k H W v l : 1 <= k -> agree2 H W v l -> agree2 (H / k) (W / k) (map (maxpool2d k) v) (map (poolf2 k) l).
Proof.
  intros Hk Hag. unfold agree2 in *. induction Hag as [|c s x l (Hc & Hr & Hv) _ IH]; cbn [map]; constructor; auto.
  apply (pool2_channel k H W c s Hk Hc Hr Hv).
Qed.

Lemma pad_agree P n v l : agree1 n v l -> agree1 (P + n) (Zpad1d P v) (map (padf P) l).
Proof.
  intro Hag. unfold agree1, Zpad1d, pad1d in *. induction Hag as [|c s x l [Hc Hv] _ IH]; cbn [map]; constructor; auto.
  split; [rewrite app_length, repeat_length, Hc; reflexivity|]. intros tt Htt. unfold padf, of1, padl, clip, as1. cbn [nth].
  destruct (Nat.lt_ge_cases tt P) as [Hu|Hu].
  - rewrite app_nth1 by (rewrite repeat_length; exact Hu). rewrite nth_repeat.
    replace (Z.of_nat tt - Z.of_nat P <? 0)%Z with true by (symmetry; apply Z.ltb_lt; lia). reflexivity.
  - rewrite app_nth2 by (rewrite repeat_length; exact Hu). rewrite repeat_length.
    replace (Z.of_nat tt - Z.of_nat P <? 0)%Z with false by (symmetry; apply Z.ltb_ge; lia).
    replace (Z.of_nat tt - Z.of_nat P)%Z with (Z.of_nat (tt - P)) by lia. apply Hv. lia.
Qed.

Lemma agree_map_act (f : Z -> Z) t l : agreeT t l -> agreeT (tmap (map f) (map (map f)) f t) (map (actZ f) l).
Proof.
  destruct t as [x|x|x|]; cbn; try tauto.
  - intros [n H]. exists n. unfold agree1 in *. induction H as [|c s x l [Hc Hv] _ IH]; cbn; constructor; auto.
    split; [rewrite map_length; exact Hc|]. intros tt Htt. unfold actZ. rewrite Hv by exact Htt.
    rewrite (PC.nth_map_in f c tt 0%Z 0%Z) by lia. reflexivity.
  - intro H. apply (agree2_canon (tdimh (TS2 x)) (tdimw (TS2 x))). apply act2_agree. exact H.
  - intro H. unfold agree0 in *. induction H as [|c s x l Hv _ IH]; cbn; constructor; auto. intro i. unfold actZ. rewrite Hv. reflexivity.
Qed.

Lemma add_agree t1 t2 l1 l2 : same_shape t1 t2 -> agreeT t1 l1 -> agreeT t2 l2 -> agreeT (tadd t1 t2) (zipadd SZ (addR Z Z.add) l1 l2).
Proof.
  destruct t1 as [x|x|x|], t2 as [y|y|y|]; cbn [same_shape agreeT tadd]; try tauto.
  - intros [Hlen Hm] [n H1] [n2 H2]. destruct x as [|c x].
    + destruct y; [|discriminate]. exists n. inversion H1; inversion H2; subst. constructor.
    + assert (Hy : y <> []) by (destruct y; [discriminate|congruence]).
      pose proof (agree1_mult n (c :: x) l1 H1 ltac:(congruence)) as E1. pose proof (agree1_mult n2 y l2 H2 Hy) as E2.
      assert (E : n2 = n) by congruence. rewrite E in H2. exists n. apply zip_agree1; assumption.
  - intros [Eh Ew] H1 H2. unfold agree2c in *. rewrite <- Eh, <- Ew in H2.
    apply (agree2_canon (tdimh (TS2 x)) (tdimw (TS2 x))). apply add2_agree; assumption.
  - intros _ H1 H2. apply zip_agree0; assumption.
Qed.

Lemma cat_agree t1 t2 l1 l2 : cat_ok t1 t2 -> agreeT t1 l1 -> agreeT t2 l2 ->
  agreeT (tcat t1 t2) (l1 ++ l2) /\ (forall t3, cat_ok t1 t3 -> cat_ok (tcat t1 t2) t3).
Proof.
  destruct t1 as [x|x|x|], t2 as [y|y|y|]; cbn [cat_ok agreeT tcat]; try tauto.
  - intros (Hx & Hy & Hm) [n H1] [n2 H2].
    pose proof (agree1_mult n x l1 H1 Hx) as E1. pose proof (agree1_mult n2 y l2 H2 Hy) as E2.
    assert (E : n2 = n) by congruence. rewrite E in H2. split.
    + exists n. apply Forall2_app; assumption.
    + intros [z|z|z|]; cbn; try tauto. intros (_ & Hz & Hmz). split; [destruct x; [congruence|discriminate]|]. split; [exact Hz|].
      destruct x as [|c x]; [congruence|]. cbn in *. exact Hmz.
  - intros (Hx & Hy & Eh & Ew) H1 H2. unfold agree2c in *. rewrite <- Eh, <- Ew in H2. split.
    + apply (agree2_canon (tdimh (TS2 x)) (tdimw (TS2 x))). apply Forall2_app; assumption.
    + intros [z|z|z|]; cbn [cat_ok]; try tauto. intros (_ & Hz & Ehz & Ewz). destruct x as [|c x]; [congruence|]. cbn in *. repeat split; try assumption. discriminate.
  - intros _ H1 H2. split; [apply Forall2_app; assumption|]. intros [z|z|z|]; cbn; tauto.
Qed.

(* ---- channel concat: the fold of run_net against flat_map *)
Definition catstep (acc : list xstate) (st : xstate) (j : nat) : xstate :=
  let '(p, e, a) := st in let '(p2, e2, a2) := xget acc j in (tcat p p2, tcat e e2, a ++ a2).
Lemma cat_fold acc cal cP cE : GoodX acc cal cP cE -> forall rest st A0 P0 E0, Inv3 st A0 P0 E0 ->
  Forall (fun j => j < length acc /\ let '(p0, e0, _) := st in let '(p, e, _) := xget acc j in cat_ok p0 p /\ cat_ok e0 e) rest ->
  Inv3 (fold_left (catstep acc) rest st) (A0 ++ flat_map (fun s => nth s cal []) rest) (P0 ++ flat_map (fun s => nth s cP []) rest)
       (E0 ++ flat_map (fun s => nth s cE []) rest).
Proof.
  intros HG rest. induction rest as [|j rest IH]; intros st A0 P0 E0 HI HF.
  - cbn. rewrite !app_nil_r. exact HI.
  - inversion HF as [|? ? [Hj Hok] HF']; subst. cbn [fold_left flat_map]. rewrite !app_assoc.
    pose proof (GoodX_get _ _ _ _ j HG Hj) as HIj.
    destruct st as [[p e] a]. unfold catstep at 2. destruct (xget acc j) as [[p2 e2] a2]. destruct Hok as [Hp He].
    destruct HI as (Ha & Hpp & Hee). destruct HIj as (Ha2 & Hp2 & He2).
    destruct (cat_agree p p2 P0 _ Hp Hpp Hp2) as [Gp Tp]. destruct (cat_agree e e2 E0 _ He Hee He2) as [Ge Te].
    apply IH.
    + split; [subst; reflexivity|split; assumption].
    + eapply Forall_impl; [|exact HF']. cbn beta. intros k [Hk Hokk]. split; [exact Hk|].
      destruct (xget acc k) as [[pk ek] ak]. destruct Hokk as [H1 H2]. split; [apply Tp; exact H1|apply Te; exact H2].
Qed.

Lemma is1_inv t : is1 t -> exists v, t = TS1 v.
Proof. destruct t; cbn; try tauto. eauto. Qed.
Lemma is2_inv t : is2 t -> exists v, t = TS2 v.
Proof. destruct t; cbn; try tauto. eauto. Qed.
Lemma is0_inv t : is0 t -> exists v, t = TS0 v.
Proof. destruct t; cbn; try tauto. eauto. Qed.

(* ---- one step of run_net is one step of the concrete network *)
Lemma xstep_sound x acc cal cP cE nd : GoodX acc cal cP cE -> xwf_node x acc nd ->
  Inv3 (xstep x acc nd) (calive_node Z cal (xtr x acc nd))
       (cpit_node Z 0%Z 1%Z Z.add Z.mul (emb x) cP (xtr x acc nd)) (cexp_node Z 0%Z Z.add Z.mul (emb x) cal cE (xtr x acc nd)).
Proof.
  intros HG Hwf. destruct nd as [|src P P'|src fold dw w b cin K d s m tm K' d'|src fold dw w b cin kh kw d s ph pw m|src fold w b cin m|src six|src|src k|src|i j|srcs];
    cbn [xwf_node] in Hwf; try contradiction.
  - (* input *) destruct Hwf as [(v & n & -> & Hr)|(v & H & W & -> & Hr)].
    + cbn. split; [reflexivity|]. split; exists n; apply (agree_in v n Hr).
    + cbn [xstep xtr calive_node cpit_node cexp_node]. split; [reflexivity|]. split; apply (agree2_canon H W); apply agree2_in; exact Hr.
  - (* stand-alone pad *) destruct Hwf as (Hs & -> & Hw). pose proof (GoodX_get _ _ _ _ src HG Hs) as HI.
    cbn [xstep xtr]. destruct (xget acc src) as [[p e] a]. destruct Hw as (Hp & He). destruct HI as (Ha & Hpp & Hee).
    destruct (is1_inv p Hp) as [v ->]. destruct (is1_inv e He) as [v' ->]. destruct Hpp as [n Hpp]. destruct Hee as [n' Hee].
    cbn [calive_node cpit_node cexp_node]. split; [exact Ha|]. split; [exists (P + n)|exists (P + n')]; apply pad_agree; assumption.
  - (* conv1d *) destruct Hwf as (Hs & Hs1 & Hd & Hw). pose proof (GoodX_get _ _ _ _ src HG Hs) as HI.
    cbn [xstep xtr]. destruct (xget acc src) as [[p e] a]. destruct Hw as (Hp & He & Hlw). destruct HI as (Ha & Hpp & Hee).
    destruct (is1_inv p Hp) as [v ->]. destruct (is1_inv e He) as [v' ->]. destruct Hpp as [n Hpp]. destruct Hee as [n' Hee].
    remember (d' / d) as sp eqn:Esp. clear Esp. subst d' a. cbn [calive_node cpit_node cexp_node].
    split; [reflexivity|]. split.
    + apply (conv1_pit_agree fold dw w b cin K d s m tm K' sp n v _ Hs1 Hpp).
    + destruct Hlw as ((Hlw & _) & _). apply (conv1_exp_agree fold dw w b cin K d s m _ tm K' sp n' v' _ Hs1 Hlw Hee).
  - (* conv2d *) destruct Hwf as (Hs & Hw). pose proof (GoodX_get _ _ _ _ src HG Hs) as HI.
    cbn [xstep xtr]. destruct (xget acc src) as [[p e] a]. destruct Hw as (Hp & He & Eh & Ew & Hlw). destruct HI as (Ha & Hpp & Hee).
    destruct (is2_inv p Hp) as [v ->]. destruct (is2_inv e He) as [v' ->]. subst a. cbn [calive_node cpit_node cexp_node agreeT] in *.
    split; [reflexivity|]. split.
    + apply (conv2_pit_agree fold dw w b cin kh kw d s ph pw m v _ Hpp).
    + destruct Hlw as ((Hlw & _) & _). rewrite <- Eh, <- Ew. apply (conv2_exp_agree fold dw w b cin kh kw d s ph pw m _ v' _ Hlw Hee).
  - (* linear *) destruct Hwf as (Hs & Hw). pose proof (GoodX_get _ _ _ _ src HG Hs) as HI.
    cbn [xstep xtr]. destruct (xget acc src) as [[p e] a]. destruct Hw as (Hp & He & Hlw). destruct HI as (Ha & Hpp & Hee).
    destruct (is0_inv p Hp) as [v ->]. destruct (is0_inv e He) as [v' ->]. subst a. cbn [calive_node cpit_node cexp_node].
    split; [reflexivity|]. split.
    + apply (lin_pit_agree fold w b cin m v _ Hpp).
    + destruct Hlw as ((Hlw & _) & _). apply (lin_exp_agree fold w b cin m _ v' _ Hlw Hee).
  - (* activation *) pose proof (GoodX_get _ _ _ _ src HG Hwf) as HI. cbn [xstep xtr]. destruct (xget acc src) as [[p e] a].
    destruct HI as (Ha & Hpp & Hee). cbn [calive_node cpit_node cexp_node]. split; [exact Ha|]. split; apply agree_map_act; assumption.
  - (* identity *) pose proof (GoodX_get _ _ _ _ src HG Hwf) as HI. cbn [xstep xtr calive_node cpit_node cexp_node]. rewrite !map_id. exact HI.
  - (* max pooling *) destruct Hwf as (Hs & Hk & Hw). pose proof (GoodX_get _ _ _ _ src HG Hs) as HI.
    cbn [xstep xtr]. destruct (xget acc src) as [[p e] a]. destruct HI as (Ha & Hpp & Hee). destruct Hw as [(Hp & He)|(Hp & He & _ & _)].
    + destruct (is1_inv p Hp) as [v ->]. destruct (is1_inv e He) as [v' ->]. destruct Hpp as [n Hpp]. destruct Hee as [n' Hee].
      cbn [calive_node cpit_node cexp_node tmap]. split; [exact Ha|]. split; [exists (n / k)|exists (n' / k)]; apply pool1_agree; assumption.
    + destruct (is2_inv p Hp) as [v ->]. destruct (is2_inv e He) as [v' ->].
      cbn [calive_node cpit_node cexp_node tmap agreeT] in *. split; [exact Ha|]. unfold agree2c in Hpp, Hee.
      split; eapply agree2_canon; apply pool2_agree; eassumption.
  - (* flatten *) destruct Hwf as (Hs & Hw). pose proof (GoodX_get _ _ _ _ src HG Hs) as HI.
    cbn [xstep xtr]. destruct (xget acc src) as [[p e] a]. destruct HI as (Ha & Hpp & Hee).
    destruct Hw as [(Hp & He & Hm)|(Hp & He & Eh & Ew)].
    + destruct (is1_inv p Hp) as [v ->]. destruct (is1_inv e He) as [v' ->]. destruct Hpp as [n Hpp]. destruct Hee as [n' Hee].
      cbn [calive_node cpit_node cexp_node tflat]. split; [subst a; reflexivity|]. split; cbn [agreeT flat_idx].
      * destruct v as [|c v]; [inversion Hpp; constructor|]. rewrite (agree1_mult n (c :: v) _ Hpp) by congruence. apply flat_agree. exact Hpp.
      * destruct v' as [|c v']; [inversion Hee; constructor|]. rewrite <- Hm. rewrite (agree1_mult n' (c :: v') _ Hee) by congruence. apply flat_agree. exact Hee.
    + destruct (is2_inv p Hp) as [v ->]. destruct (is2_inv e He) as [v' ->].
      cbn [calive_node cpit_node cexp_node tflat]. split; [subst a; reflexivity|]. cbn [agreeT] in *. unfold agree2c in *. rewrite Eh, Ew in Hee.
      split; [exact (flat2_agree _ _ v _ Hpp)|exact (flat2_agree _ _ v' _ Hee)].
  - (* add *) destruct Hwf as (Hi & Hj & Hw). pose proof (GoodX_get _ _ _ _ i HG Hi) as HIi. pose proof (GoodX_get _ _ _ _ j HG Hj) as HIj.
    cbn [xstep xtr]. destruct (xget acc i) as [[p1 e1] a1]. destruct (xget acc j) as [[p2 e2] a2]. destruct Hw as (Ha & Sp & Se).
    destruct HIi as (Ha1 & Hp1 & He1). destruct HIj as (Ha2 & Hp2 & He2). cbn [calive_node cpit_node cexp_node].
    split; [exact Ha1|]. split; apply add_agree; assumption.
  - (* concat *) destruct Hwf as (Hne & HF). destruct srcs as [|s0 rest]; [congruence|]. cbn [hd] in HF.
    inversion HF as [|? ? [Hs0 _] HF']; subst. pose proof (GoodX_get _ _ _ _ s0 HG Hs0) as HI0.
    cbn [xstep xtr calive_node cpit_node cexp_node flat_map].
    change (fun (st : tens * tens * list bool) (j : nat) => let '(p, e, a) := st in let '(p2, e2, a2) := xget acc j in (tcat p p2, tcat e e2, a ++ a2)) with (catstep acc).
    apply (cat_fold acc cal cP cE HG rest (xget acc s0) _ _ _ HI0).
    destruct (xget acc s0) as [[p0 e0] a0]. exact HF'.
Qed.

(* ---- the translated network is well-formed in the sense of C01_export_sound_concrete *)
Lemma xtr_cwf x acc cal cP cE nd : GoodX acc cal cP cE -> xwf_node x acc nd -> cwf_node Z 0%Z (tchan x) cal (xtr x acc nd).
Proof.
  intros HG Hwf. pose proof HG as (Hl & _).
  destruct nd as [|src P P'|src fold dw w b cin K d s m tm K' d'|src fold dw w b cin kh kw d s ph pw m|src fold w b cin m|src six|src|src k|src|i j|srcs];
    cbn [xwf_node] in Hwf; try contradiction.
  - reflexivity.
  - (* pad *) destruct Hwf as (Hs & _ & _). cbn [xtr cwf_node]. split; [lia|]. split.
    + intro i. unfold padf, of1, padl, clip, as1. destruct (_ <? _)%Z; reflexivity.
    + intros s1 s2 H i. unfold padf, of1, padl, clip, as1. destruct (_ <? _)%Z; [reflexivity|apply H].
  - destruct Hwf as (Hs & Hs1 & Hd & Hw). pose proof (GoodX_get _ _ _ _ src HG Hs) as HI. cbn [xtr cwf_node].
    destruct (xget acc src) as [[p e] a]. destruct Hw as (_ & _ & Hlw). destruct HI as (Ha & _). subst a. split; [lia|exact Hlw].
  - (* conv2d *) destruct Hwf as (Hs & Hw). pose proof (GoodX_get _ _ _ _ src HG Hs) as HI. cbn [xtr].
    destruct (xget acc src) as [[p e] a]. cbn [cwf_node]. destruct Hw as (_ & _ & _ & _ & Hlw). destruct HI as (Ha & _). subst a. split; [lia|exact Hlw].
  - destruct Hwf as (Hs & Hw). pose proof (GoodX_get _ _ _ _ src HG Hs) as HI. cbn [xtr cwf_node].
    destruct (xget acc src) as [[p e] a]. destruct Hw as (_ & _ & Hlw). destruct HI as (Ha & _). subst a. split; [lia|exact Hlw].
  - cbn [xtr cwf_node]. split; [lia|]. split.
    + intro i. unfold actZ, zeroR. destruct six; reflexivity.
    + intros s1 s2 H i. unfold actZ. rewrite H. reflexivity.
  - cbn [xtr cwf_node]. split; [lia|]. split; [intro i; reflexivity|intros s1 s2 H; exact H].
  - (* max pooling *) destruct Hwf as (Hs & Hk & Hw). cbn [xtr]. destruct (xget acc src) as [[p e] a]. destruct Hw as [(Hp & _)|(Hp & _)].
    + destruct (is1_inv p Hp) as [v ->]. cbn [cwf_node]. split; [lia|]. split.
      * intro i. unfold poolf1, zeroR. apply PC.zmax_zero. apply Forall_forall. intros y Hy. apply in_map_iff in Hy. destruct Hy as [j [<- _]]. reflexivity.
      * intros s1 s2 H i. unfold poolf1. f_equal. apply map_ext. intro j. apply H.
    + destruct (is2_inv p Hp) as [v ->]. cbn [cwf_node]. split; [lia|]. split.
      * intro i. unfold poolf2, zeroR. apply PC.zmax_zero. apply Forall_forall. intros y Hy. apply in_concat in Hy. destruct Hy as [row [Hrow Hy]].
        apply in_map_iff in Hrow. destruct Hrow as [a0 [<- _]]. apply in_map_iff in Hy. destruct Hy as [r [<- _]]. reflexivity.
      * intros s1 s2 H i. unfold poolf2. f_equal. f_equal. apply map_ext. intro a0. apply map_ext. intro r. apply H.
  - destruct Hwf as (Hs & _). cbn [xtr]. destruct (xget acc src) as [[p e] a]. cbn [cwf_node]. split; [lia|]. split.
    + intros q i. reflexivity.
    + intros q s1 s2 H i. unfold of0. apply H.
  - destruct Hwf as (Hi & Hj & Hw). pose proof (GoodX_get _ _ _ _ i HG Hi) as HIi. pose proof (GoodX_get _ _ _ _ j HG Hj) as HIj.
    cbn [xtr cwf_node]. destruct (xget acc i) as [[p1 e1] a1]. destruct (xget acc j) as [[p2 e2] a2]. destruct Hw as (Ha & _).
    destruct HIi as (Ha1 & _). destruct HIj as (Ha2 & _). split; [lia|split; [lia|congruence]].
  - destruct Hwf as (_ & HF). cbn [xtr cwf_node]. eapply Forall_impl; [|exact HF]. cbn beta. intros k [Hk _]. lia.
Qed.

Fixpoint xwf_acc (x : tens) (acc : list xstate) (net : list xnode) : Prop :=
  match net with [] => True | nd :: rest => xwf_node x acc nd /\ xwf_acc x (acc ++ [xstep x acc nd]) rest end.
Definition xwf (net : list xnode) (x : tens) : Prop := xwf_acc x [] net.

Lemma GoodX_snoc acc cal cP cE st a p e : GoodX acc cal cP cE -> Inv3 st a p e -> GoodX (acc ++ [st]) (cal ++ [a]) (cP ++ [p]) (cE ++ [e]).
Proof.
  intros (H1 & H2 & H3 & HI) Hi. unfold GoodX. rewrite !app_length. cbn. split; [lia|split; [lia|split; [lia|]]].
  intros i Hlt. destruct (Nat.eq_dec i (length acc)) as [->|Hne].
  - rewrite nth_middle. rewrite <- H1 at 1. rewrite nth_middle. rewrite <- H2 at 1. rewrite nth_middle. rewrite <- H3. rewrite nth_middle. exact Hi.
  - rewrite !app_nth1 by lia. apply HI. lia.
Qed.

Lemma xrun_sound x net : forall acc cal cP cE, GoodX acc cal cP cE -> xwf_acc x acc net ->
  GoodX (xrun x acc net) (calive_acc Z cal (xtr_run x acc net))
        (cpit_acc Z 0%Z 1%Z Z.add Z.mul (emb x) cP (xtr_run x acc net)) (cexp_acc Z 0%Z Z.add Z.mul (emb x) cal cE (xtr_run x acc net)) /\
  cwf_acc Z 0%Z (tchan x) cal (xtr_run x acc net) /\ length (xrun x acc net) = length acc + length net /\ length (xtr_run x acc net) = length net.
Proof.
  induction net as [|nd net IH]; cbn; intros acc cal cP cE HG Hwf.
  - split; [exact HG|]. split; [exact I|]. split; [lia|reflexivity].
  - destruct Hwf as [Hnd Hwf].
    destruct (IH _ _ _ _ (GoodX_snoc _ _ _ _ _ _ _ _ HG (xstep_sound x acc cal cP cE nd HG Hnd)) Hwf) as (G & W & L1 & L2).
    split; [exact G|]. split; [split; [apply (xtr_cwf x acc cal cP cE nd HG Hnd)|exact W]|]. rewrite L1, L2, app_length. cbn. lia.
Qed.

Lemma emb_length x : (exists v, x = TS1 v) -> length (emb x) = tchan x.
Proof. intros [v ->]. cbn. apply map_length. Qed.

(* run_net computes, node by node, the alive masks and (on every valid index) the tensors of the searched network ceval_pit
   and of the exported network ceval_exp of the concrete network xtr_net net x, which is well-formed (cwf) *)
Theorem run_net_sound : forall net x, xwf net x ->
  let st := run_net net x in let cn := xtr_net net x in
  cwf Z 0%Z (tchan x) cn /\ length st = length net /\ length cn = length net /\
  forall i, i < length net ->
    Inv3 (nth i st xdef) (nth i (calive_net Z cn) []) (nth i (ceval_pit Z 0%Z 1%Z Z.add Z.mul cn (emb x)) [])
         (nth i (ceval_exp Z 0%Z Z.add Z.mul cn (emb x)) []).
Proof.
  intros net x Hwf. cbv zeta. unfold run_net, xtr_net, calive_net, ceval_pit, ceval_exp, cwf.
  assert (G0 : GoodX [] [] [] []) by (repeat split; cbn; intros i Hi; inversion Hi).
  destruct (xrun_sound x net [] [] [] [] G0 Hwf) as ((_ & _ & _ & HI) & W & L1 & L2). cbn in L1.
  split; [exact W|]. split; [exact L1|]. split; [exact L2|]. intros i Hi. apply HI. lia.
Qed.
