(* Proofs about Model/Train.v   (C11) *)
From Coq Require Import ZArith QArith List Bool Lia Permutation.
Import ListNotations.
Require Import Plinio.Base.Qx Plinio.Model.Train.

(* ---------------------------------------------------------------- lists *)
Lemma memb_In x l : memb x l = true <-> In x l.
Proof. unfold memb. rewrite existsb_exists. split.
  - intros [y [H E]]. apply Nat.eqb_eq in E. subst. exact H.
  - intro H. exists x. split; [exact H|apply Nat.eqb_refl]. Qed.
Lemma memb_false x l : memb x l = false <-> ~ In x l.
Proof. rewrite <- memb_In. destruct (memb x l); split; intro H; congruence. Qed.

Lemma dedup_spec : forall l seen, NoDup (dedup seen l) /\ (forall x, In x (dedup seen l) <-> In x l /\ ~ In x seen).
Proof. induction l as [|a l IH]; intro seen; cbn [dedup].
  - split; [constructor|]. intro x. cbn. tauto.
  - destruct (memb a seen) eqn:E.
    + destruct (IH seen) as [N S]. split; [exact N|]. intro x. rewrite S. apply memb_In in E. cbn. split.
      * intros [H1 H2]. tauto.
      * intros [[H1|H1] H2]; [subst; contradiction|tauto].
    + destruct (IH (a :: seen)) as [N S]. apply memb_false in E. split.
      * constructor; [|exact N]. rewrite S. cbn. tauto.
      * intro x. cbn [In]. rewrite S. cbn [In]. split.
        -- intros [H|[H1 H2]]; [subst; tauto|tauto].
        -- intros [[H|H] H2]; [left; exact H|]. destruct (Nat.eq_dec a x); [left; assumption|right; tauto]. Qed.

Lemma NoDup_filter {A} (f : A -> bool) l : NoDup l -> NoDup (filter f l).
Proof. induction 1; cbn; [constructor|]. destruct (f x); [constructor|]; try assumption. rewrite filter_In. tauto. Qed.

Lemma NoDup_map_inj {A B} (f : A -> B) : forall l a b, NoDup (map f l) -> In a l -> In b l -> f a = f b -> a = b.
Proof. induction l as [|x l IH]; intros a b N Ha Hb E; [destruct Ha|]. cbn in N. inversion N as [|? ? Hn N']; subst.
  destruct Ha as [Ha|Ha], Hb as [Hb|Hb]; subst.
  - reflexivity.
  - exfalso. apply Hn. rewrite E. apply in_map. exact Hb.
  - exfalso. apply Hn. rewrite <- E. apply in_map. exact Ha.
  - eapply IH; eassumption. Qed.

Lemma NoDup_map_filter {A B} (f : A -> B) (p : A -> bool) l : NoDup (map f l) -> NoDup (map f (filter p l)).
Proof. induction l as [|x l IH]; cbn; intro N; [constructor|]. inversion N as [|? ? Hn N']; subst.
  destruct (p x); cbn; [constructor|]; auto. intro H. apply Hn. apply in_map_iff in H. destruct H as [y [E Hy]].
  apply filter_In in Hy. rewrite <- E. apply in_map. tauto. Qed.

Lemma NoDup_app_disj {A} (a b : list A) : NoDup a -> NoDup b -> (forall x, In x a -> In x b -> False) -> NoDup (a ++ b).
Proof. induction 1 as [|x a Hx Na IH]; cbn; intros Nb D; [exact Nb|]. constructor.
  - rewrite in_app_iff. intros [H|H]; [contradiction|]. eapply D; [left; reflexivity|exact H].
  - apply IH; [exact Nb|]. intros y H1 H2. eapply D; [right; exact H1|exact H2]. Qed.

Lemma Forall2_map_r {A} (R : A -> A -> Prop) (f : A -> A) l : (forall a, In a l -> R a (f a)) -> Forall2 R l (map f l).
Proof. induction l; cbn; intro H; constructor; auto. Qed.

(* ---------------------------------------------------------------- the static part of a state *)
Definition sk (t : ptensor) := (p_id t, p_frozen t, p_reads t, p_via t).
Definition lk (l : layer) := (l_feat l, l_rf l, l_dil l, l_sel l, l_other l).
Definition same_static (a b : tstate) : Prop := map sk (tens a) = map sk (tens b) /\ map lk (layers a) = map lk (layers b).

Lemma sk_set_rg ids b ts : map sk (set_rg ids b ts) = map sk ts.
Proof. unfold set_rg. rewrite map_map. apply map_ext. intro t. destruct (memb (p_id t) ids); reflexivity. Qed.
Lemma sk_set_rg_nf ids b ts : map sk (set_rg_nf ids b ts) = map sk ts.
Proof. unfold set_rg_nf. rewrite map_map. apply map_ext. intro t. destruct (memb (p_id t) ids && negb (p_frozen t)); reflexivity. Qed.
Lemma lk_with_disc b ls : map lk (map (fun l => with_disc l b) ls) = map lk ls.
Proof. rewrite map_map. apply map_ext. intro l. reflexivity. Qed.

Lemma step_static v0 st o : same_static (fst (step v0 st o)) st.
Proof. destruct o; unfold same_static, step, train, with_tens; cbn [fst tens layers]; split;
  rewrite ?sk_set_rg, ?sk_set_rg_nf, ?lk_with_disc; reflexivity. Qed.

Lemma same_static_refl a : same_static a a. Proof. split; reflexivity. Qed.
Lemma same_static_trans a b c : same_static a b -> same_static b c -> same_static a c.
Proof. intros [H1 H2] [H3 H4]. split; congruence. Qed.

Lemma run_static v0 : forall ops st, same_static (run v0 ops st) st.
Proof. induction ops as [|o ops IH]; intro st; [apply same_static_refl|]. cbn [run fold_left].
  eapply same_static_trans; [apply IH|apply step_static]. Qed.

Lemma sk_ids ts ts' : map sk ts = map sk ts' -> map p_id ts = map p_id ts'.
Proof. intro H. assert (E : forall l, map p_id l = map (fun q => fst (fst (fst q))) (map sk l)) by (intro l; rewrite map_map; reflexivity).
  rewrite (E ts), (E ts'), H. reflexivity. Qed.

Lemma sk_filter_ids (p : ptensor -> bool) (q : nat * bool * bool * option nat -> bool) :
  (forall t, p t = q (sk t)) -> forall ts ts', map sk ts = map sk ts' -> map p_id (filter p ts) = map p_id (filter p ts').
Proof. intros Hp. induction ts as [|t ts IH]; intros [|t' ts'] H; cbn [map] in H; try discriminate; [reflexivity|].
  assert (H1 : sk t = sk t') by congruence. assert (H2 : map sk ts = map sk ts') by congruence.
  cbn [filter]. rewrite (Hp t), (Hp t'), H1. destruct (q (sk t')); cbn [map]; [f_equal|]; auto.
  unfold sk in H1. congruence. Qed.

Lemma static_param_ids v0 a b : same_static a b -> param_ids v0 a = param_ids v0 b.
Proof. intros [H _]. unfold param_ids. apply (sk_filter_ids _ (fun q => v0 || negb (snd (fst (fst q))))); [|exact H].
  intro t. reflexivity. Qed.
Lemma static_frozen_ids a b : same_static a b -> frozen_ids a = frozen_ids b.
Proof. intros [H _]. unfold frozen_ids. apply (sk_filter_ids _ (fun q => snd (fst (fst q)))); [|exact H]. intro t. reflexivity. Qed.
Lemma lk_layer_ids ls ls' : map lk ls = map lk ls' -> flat_map layer_ids ls = flat_map layer_ids ls'.
Proof. revert ls'. induction ls as [|l ls IH]; intros [|l' ls'] H; cbn [map] in H; try discriminate; [reflexivity|].
  assert (H1 : lk l = lk l') by congruence. assert (H2 : map lk ls = map lk ls') by congruence.
  cbn [flat_map]. rewrite (IH _ H2). f_equal. unfold lk in H1. unfold layer_ids. congruence. Qed.
Lemma lk_sw_ids (sel : layer -> option nat) (q : _ -> option nat) : (forall l, sel l = q (lk l)) ->
  forall ls ls', map lk ls = map lk ls' -> flat_map (fun l => oid (sel l)) ls = flat_map (fun l => oid (sel l)) ls'.
Proof. intro Hq. induction ls as [|l ls IH]; intros [|l' ls'] H; cbn [map] in H; try discriminate; [reflexivity|].
  assert (H1 : lk l = lk l') by congruence. assert (H2 : map lk ls = map lk ls') by congruence.
  cbn [flat_map]. rewrite (IH _ H2), (Hq l), (Hq l'), H1. reflexivity. Qed.
Lemma static_nas_ids v0 a b : same_static a b -> nas_ids v0 a = nas_ids v0 b.
Proof. intro H. unfold nas_ids. rewrite (static_param_ids v0 a b H). destruct H as [_ H]. rewrite (lk_layer_ids _ _ H). reflexivity. Qed.
Lemma static_net_ids v0 a b : same_static a b -> net_ids v0 a = net_ids v0 b.
Proof. intro H. unfold net_ids. rewrite (static_param_ids v0 a b H), (static_nas_ids v0 a b H). reflexivity. Qed.

(* ---------------------------------------------------------------- partition *)
Definition partition_ok (v0 : bool) (st : tstate) : Prop :=
  NoDup (nas_ids v0 st) /\ NoDup (net_ids v0 st) /\
  (forall i, In i (nas_ids v0 st) -> In i (net_ids v0 st) -> False) /\
  (forall i, In i (param_ids v0 st) <-> In i (nas_ids v0 st) \/ In i (net_ids v0 st)) /\
  Permutation (nas_ids v0 st ++ net_ids v0 st) (param_ids v0 st).

Lemma nas_in v0 st i : In i (nas_ids v0 st) <-> In i (flat_map layer_ids (layers st)) /\ In i (param_ids v0 st).
Proof. unfold nas_ids. cbv zeta. destruct (dedup_spec (filter (fun i => memb i (param_ids v0 st)) (flat_map layer_ids (layers st))) []) as [_ S].
  rewrite S, filter_In, memb_In. cbn. tauto. Qed.
Lemma net_in v0 st i : In i (net_ids v0 st) <-> In i (param_ids v0 st) /\ ~ In i (nas_ids v0 st).
Proof. unfold net_ids. cbv zeta. rewrite filter_In, negb_true_iff, memb_false. tauto. Qed.

Lemma partition_one v0 st : NoDup (map p_id (tens st)) -> partition_ok v0 st.
Proof. intro N.
  assert (Np : NoDup (param_ids v0 st)) by (apply NoDup_map_filter; exact N).
  assert (Nn : NoDup (nas_ids v0 st)) by (apply dedup_spec).
  assert (Ne : NoDup (net_ids v0 st)) by (apply NoDup_filter; exact Np).
  assert (D : forall i, In i (nas_ids v0 st) -> In i (net_ids v0 st) -> False) by (intros i H1 H2; apply net_in in H2; tauto).
  assert (U : forall i, In i (param_ids v0 st) <-> In i (nas_ids v0 st) \/ In i (net_ids v0 st)).
  { intro i. rewrite net_in, nas_in. destruct (in_dec Nat.eq_dec i (flat_map layer_ids (layers st))); tauto. }
  repeat split; try assumption; try apply U.
  apply NoDup_Permutation; [|exact Np|].
  - apply NoDup_app_disj; assumption.
  - intro i. rewrite in_app_iff. symmetry. apply U. Qed.

Theorem partition_static : forall v0 ops st, NoDup (map p_id (tens st)) ->
  let st' := run v0 ops st in
  nas_ids v0 st' = nas_ids v0 st /\ net_ids v0 st' = net_ids v0 st /\ param_ids v0 st' = param_ids v0 st /\
  partition_ok v0 st'.
Proof. intros v0 ops st N st'. pose proof (run_static v0 ops st) as S. fold st' in S.
  split; [apply static_nas_ids; exact S|]. split; [apply static_net_ids; exact S|]. split; [apply static_param_ids; exact S|].
  apply partition_one. destruct S as [S _]. rewrite (sk_ids _ _ S). exact N. Qed.

(* ---------------------------------------------------------------- invariant of the repaired model *)
Definition inv (st : tstate) : Prop :=
  NoDup (map p_id (tens st)) /\
  (forall t, In t (tens st) -> p_frozen t = true -> p_rg t = false) /\
  (forall s, In s (samplers st) -> wf_sampler s = true).

Lemma nodupb_NoDup l : nodupb l = true -> NoDup l.
Proof. induction l as [|x l IH]; cbn; intro H; [constructor|]. apply andb_true_iff in H. destruct H as [H1 H2].
  constructor; [|auto]. apply negb_true_iff in H1. apply memb_false in H1. exact H1. Qed.

Lemma wfb_inv st : wfb st = true -> inv st.
Proof. unfold wfb. intro H. apply andb_true_iff in H. destruct H as [H H3]. apply andb_true_iff in H. destruct H as [H1 H2].
  split; [apply nodupb_NoDup; exact H1|]. split.
  - intros t Ht Hf. rewrite forallb_forall in H2. specialize (H2 t Ht). rewrite Hf in H2. cbn in H2. apply negb_true_iff in H2. exact H2.
  - intros s Hs. rewrite forallb_forall in H3. auto. Qed.

Lemma frozen_not_param ts t : NoDup (map p_id ts) -> In t ts -> p_frozen t = true ->
  ~ In (p_id t) (map p_id (filter (is_param false) ts)).
Proof. intros N Ht Hf H. apply in_map_iff in H. destruct H as [t2 [E H2]]. apply filter_In in H2. destruct H2 as [H2 P].
  assert (t2 = t) by (eapply NoDup_map_inj; eassumption). subst t2. unfold is_param in P. rewrite Hf in P. discriminate. Qed.

Lemma frozen_not_nas st t : NoDup (map p_id (tens st)) -> In t (tens st) -> p_frozen t = true ->
  memb (p_id t) (nas_ids false st) = false /\ memb (p_id t) (net_ids false st) = false.
Proof. intros N Ht Hf. pose proof (frozen_not_param _ _ N Ht Hf) as H. fold (param_ids false st) in H.
  split; apply memb_false; intro H'; [apply nas_in in H'|apply net_in in H']; tauto. Qed.

Lemma in_set_rg ids b ts t' : In t' (set_rg ids b ts) -> exists t, In t ts /\ t' = (if memb (p_id t) ids then with_rg t b else t).
Proof. unfold set_rg. intro H. apply in_map_iff in H. destruct H as [t [E H]]. exists t. split; auto. Qed.
Lemma in_set_rg_nf ids b ts t' : In t' (set_rg_nf ids b ts) ->
  exists t, In t ts /\ t' = (if memb (p_id t) ids && negb (p_frozen t) then with_rg t b else t).
Proof. unfold set_rg_nf. intro H. apply in_map_iff in H. destruct H as [t [E H]]. exists t. split; auto. Qed.

(* the tensors after train_*: every tensor of the old state, with requires_grad rewritten by group *)
Lemma in_train v0 bn bt st t' : In t' (tens (train v0 bn bt st)) ->
  exists t, In t (tens st) /\ p_id t' = p_id t /\ p_frozen t' = p_frozen t /\
    p_rg t' = if memb (p_id t) (net_ids v0 st) then bt else if memb (p_id t) (nas_ids v0 st) then bn else p_rg t.
Proof. unfold train, with_tens. cbn [tens]. intro H. apply in_set_rg in H. destruct H as [t1 [H1 E1]].
  apply in_set_rg in H1. destruct H1 as [t [H E]]. exists t. split; [exact H|]. subst t1 t'.
  destruct (memb (p_id t) (nas_ids v0 st)) eqn:A; cbn [p_id with_rg]; destruct (memb (p_id t) (net_ids v0 st)) eqn:B; cbn; auto. Qed.

Lemma upd_wf t h g d s : wf_sampler s = true -> wf_sampler (upd_sampler false t h g d s) = true.
Proof. unfold upd_sampler, wf_sampler. intro H. destruct (s_upd s); cbn [negb]; [|exact H].
  destruct (s_comb s) eqn:C; cbn [s_comb s_kind s_dis s_gum orb]; [reflexivity|].
  destruct (oget d (s_dis s)), (oget g (s_gum s)); reflexivity. Qed.

Lemma step_inv st o : inv st -> inv (fst (step false st o)).
Proof. intros [N [F W]]. pose proof (step_static false st o) as S.
  split; [destruct S as [S _]; rewrite (sk_ids _ _ S); exact N|]. split.
  - destruct o; cbn [step fst]; try exact F.
    1-3: (intros t' H' Hf; apply in_train in H'; destruct H' as [t [Ht [_ [E2 E3]]]]; rewrite E2 in Hf;
          destruct (frozen_not_nas st t N Ht Hf) as [A B]; rewrite A, B in E3; rewrite E3; auto).
    1-4: (cbn [tens]; intros t' H' Hf; apply in_set_rg_nf in H'; destruct H' as [t [Ht E]]; subst t';
          destruct (p_frozen t) eqn:Ft; [rewrite andb_false_r in *; auto|];
          destruct (memb (p_id t) _ && negb false); cbn in Hf; congruence).
  - destruct o; cbn [step fst train with_tens samplers]; try exact W.
    intros s Hs. apply in_map_iff in Hs. destruct Hs as [s0 [E H0]]. subst s. apply upd_wf. auto. Qed.

Lemma run_inv : forall ops st, inv st -> inv (run false ops st).
Proof. induction ops as [|o ops IH]; intros st I; [exact I|]. cbn [run fold_left]. apply IH. apply step_inv. exact I. Qed.

(* ---------------------------------------------------------------- train_* make exactly the named group trainable *)
Theorem train_x_exact : forall ops st, inv st ->
  let s1 := run false ops st in
  (forall t, In t (tens (fst (step false s1 TNasOnly))) -> p_rg t = memb (p_id t) (nas_ids false st)) /\
  (forall t, In t (tens (fst (step false s1 TNetOnly))) -> p_rg t = memb (p_id t) (net_ids false st)) /\
  (forall t, In t (tens (fst (step false s1 TNetAndNas))) -> p_rg t = memb (p_id t) (param_ids false st)).
Proof. intros ops st I s1. pose proof (run_inv ops st I) as [N [F _]]. fold s1 in N, F.
  pose proof (run_static false ops st) as S. fold s1 in S.
  rewrite <- (static_nas_ids false _ _ S), <- (static_net_ids false _ _ S), <- (static_param_ids false _ _ S).
  pose proof (partition_one false s1 N) as [_ [_ [D [U _]]]].
  assert (K : forall t, In t (tens s1) ->
     (p_frozen t = true /\ p_rg t = false /\ memb (p_id t) (nas_ids false s1) = false /\ memb (p_id t) (net_ids false s1) = false /\ memb (p_id t) (param_ids false s1) = false)
     \/ (memb (p_id t) (param_ids false s1) = true /\ memb (p_id t) (net_ids false s1) = negb (memb (p_id t) (nas_ids false s1)))).
  { intros t Ht. destruct (p_frozen t) eqn:Ft.
    - left. destruct (frozen_not_nas s1 t N Ht Ft) as [A B]. repeat split; auto. apply memb_false. apply frozen_not_param; assumption.
    - right. assert (P : In (p_id t) (param_ids false s1)).
      { unfold param_ids. apply in_map. apply filter_In. split; [exact Ht|]. unfold is_param. rewrite Ft. reflexivity. }
      split; [apply memb_In; exact P|]. destruct (memb (p_id t) (nas_ids false s1)) eqn:A; cbn [negb].
      + apply memb_false. intro B. apply memb_In in A. eapply D; eassumption.
      + apply memb_In. apply memb_false in A. apply U in P. tauto. }
  repeat split; intros t' H'; cbn [step fst] in H'; apply in_train in H'; destruct H' as [t [Ht [E1 [_ E3]]]];
    rewrite E1, E3; destruct (K t Ht) as [[_ [R [A [B C]]]]|[C B]]; rewrite ?A, ?B, ?C, ?R; try reflexivity;
    destruct (memb (p_id t) (nas_ids false s1)); reflexivity. Qed.

(* ---------------------------------------------------------------- frozen masks *)
Theorem frozen_never_trainable : forall ops st, inv st ->
  forall t, In t (tens (run false ops st)) -> p_frozen t = true -> p_rg t = false.
Proof. intros ops st I. apply (run_inv ops st I). Qed.

Lemma fb_no_frozen st : inv st -> forall i, In i (frozen_ids st) -> ~ In (i, true) (fb_obs st).
Proof. intros [N [F _]] i Hi H. unfold fb_obs in H. apply in_map_iff in H. destruct H as [t [E Ht]]. injection E as E1 E2.
  unfold frozen_ids in Hi. apply in_map_iff in Hi. destruct Hi as [t2 [E3 H2]]. apply filter_In in H2. destruct H2 as [H2 Ff].
  assert (t2 = t) by (eapply NoDup_map_inj; try eassumption; congruence). subst t2.
  unfold grad_reaches in E2. rewrite (F t Ht Ff) in E2. discriminate. Qed.

Theorem frozen_never_gets_grad : forall ops st, inv st ->
  forall o, In o (trace false ops st) -> forall i, In i (frozen_ids st) -> ~ In (i, true) o.
Proof. induction ops as [|op ops IH]; intros st I o Ho i Hi; [destruct Ho|]. cbn [trace] in Ho. destruct Ho as [Ho|Ho].
  - subst o. destruct op; cbn [step snd]; try (intros []). apply fb_no_frozen; assumption.
  - apply (IH (fst (step false st op))); try assumption; [apply step_inv; exact I|].
    rewrite (static_frozen_ids _ _ (step_static false st op)). exact Hi. Qed.

(* the switches: the named masks of the non-frozen maskers follow the switch, everything else stays *)
Definition sw_sel (k : nat) : layer -> option nat := match k with O => l_feat | S O => l_rf | S (S O) => l_dil | _ => l_sel end.
Definition sw_op (k : nat) (b : bool) : top := match k with O => TSetFeat b | S O => TSetRf b | S (S O) => TSetDil b | _ => TSetSel b end.

Theorem switch_exact : forall v0 ops st k b,
  let s1 := run v0 ops st in
  Forall2 (fun t t' => p_id t' = p_id t /\ p_frozen t' = p_frozen t /\
                      p_rg t' = if memb (p_id t) (sw_ids (sw_sel k) st) && negb (p_frozen t) then b else p_rg t)
          (tens s1) (tens (fst (step v0 s1 (sw_op k b)))).
Proof. intros v0 ops st k b s1. pose proof (run_static v0 ops st) as [_ S]. fold s1 in S.
  assert (E : sw_ids (sw_sel k) st = sw_ids (sw_sel k) s1).
  { unfold sw_ids. symmetry. destruct k as [|[|[|k]]]; cbn [sw_sel].
    - apply (lk_sw_ids l_feat (fun q => fst (fst (fst (fst q))))); [reflexivity|exact S].
    - apply (lk_sw_ids l_rf (fun q => snd (fst (fst (fst q))))); [reflexivity|exact S].
    - apply (lk_sw_ids l_dil (fun q => snd (fst (fst q)))); [reflexivity|exact S].
    - apply (lk_sw_ids l_sel (fun q => snd (fst q))); [reflexivity|exact S]. }
  rewrite E. destruct k as [|[|[|k]]]; cbn [sw_op sw_sel step fst tens]; unfold set_rg_nf; apply Forall2_map_r; intros t _;
    destruct (memb (p_id t) _ && negb (p_frozen t)); auto. Qed.

(* ---------------------------------------------------------------- sampling options *)
Definition unspecified_kept (t : option Q) (h g d : option bool) (a b : sampler) : Prop :=
  (t = None -> s_temp b = s_temp a) /\ (h = None -> s_hard b = s_hard a) /\
  (g = None -> s_gum b = s_gum a) /\ (d = None -> s_dis b = s_dis a) /\
  (g = None -> d = None -> s_kind b = s_kind a) /\ s_upd b = s_upd a /\ s_comb b = s_comb a.

Definition specified_set (t : option Q) (h g d : option bool) (a b : sampler) : Prop :=
  s_upd a = true ->
  (forall x, t = Some x -> s_temp b = x) /\ (forall x, h = Some x -> s_hard b = x) /\
  (s_comb a = false -> (forall x, g = Some x -> s_gum b = x) /\ (forall x, d = Some x -> s_dis b = x) /\
                       s_kind b = choose (s_dis b) (s_gum b)).

Lemma wf_sampler_kind s : wf_sampler s = true -> s_comb s = false -> s_kind s = choose (s_dis s) (s_gum s).
Proof. unfold wf_sampler. intros H C. rewrite C in H. cbn [orb] in H.
  destruct (s_kind s), (choose (s_dis s) (s_gum s)); congruence. Qed.

Theorem options_partial_update : forall ops st t h g d, inv st ->
  let s1 := run false ops st in
  Forall2 (fun a b => unspecified_kept t h g d a b /\ specified_set t h g d a b)
          (samplers s1) (samplers (fst (step false s1 (TUpdate t h g d)))).
Proof. intros ops st t h g d I s1. pose proof (run_inv ops st I) as [_ [_ W]]. fold s1 in W.
  cbn [step fst samplers]. apply Forall2_map_r. intros a Ha. specialize (W a Ha).
  unfold unspecified_kept, specified_set, upd_sampler. destruct (s_upd a) eqn:U; cbn [negb].
  - destruct (s_comb a) eqn:C; cbn [s_temp s_hard s_gum s_dis s_kind s_upd s_comb].
    + repeat split; intros; subst; cbn [oget]; try reflexivity; try congruence.
    + repeat split; intros; subst; cbn [oget]; try reflexivity; try congruence.
      symmetry. apply wf_sampler_kind; assumption.
  - repeat split; intros; try reflexivity; try congruence. Qed.

(* only update_softmax_options touches the sampling options; it touches nothing else *)
Theorem options_only_changed_by_update : forall v0 st o,
  (match o with TUpdate _ _ _ _ => True | _ => samplers (fst (step v0 st o)) = samplers st end) /\
  (match o with TUpdate _ _ _ _ => tens (fst (step v0 st o)) = tens st /\ layers (fst (step v0 st o)) = layers st
                                   /\ view v0 (fst (step v0 st o)) = (fst (view v0 st), map sampler_view (samplers (fst (step v0 st o))))
              | _ => True end).
Proof. intros v0 st o. destruct o; cbn [step fst train with_tens samplers tens layers]; repeat split; reflexivity. Qed.

(* forward + backward is an observer *)
Theorem fwdbwd_is_observer : forall v0 st, fst (step v0 st TFwdBwd) = st.
Proof. reflexivity. Qed.

(* ---------------------------------------------------------------- the pinned upstream behaviour (v0 = true) *)
Definition ex_tens : list ptensor :=
  [ {| p_id := 0; p_frozen := false; p_reads := true; p_via := None; p_rg := true |};     (* conv weight *)
    {| p_id := 1; p_frozen := false; p_reads := true; p_via := None; p_rg := true |};     (* alpha, shared by two layers *)
    {| p_id := 2; p_frozen := true; p_reads := true; p_via := None; p_rg := false |};     (* beta of a strided conv *)
    {| p_id := 3; p_frozen := true; p_reads := false; p_via := None; p_rg := false |};    (* alpha of the output layer *)
    {| p_id := 4; p_frozen := false; p_reads := true; p_via := Some 0; p_rg := true |} ]%nat. (* alpha of a quantizer *)
Definition ex_layers : list layer :=
  [ {| l_feat := Some 1; l_rf := Some 2; l_dil := None; l_sel := None; l_other := []; l_disc := false |};
    {| l_feat := Some 1; l_rf := None; l_dil := None; l_sel := None; l_other := [4]; l_disc := false |};
    {| l_feat := Some 3; l_rf := None; l_dil := None; l_sel := None; l_other := []; l_disc := false |} ]%nat.
Definition ex_sampler : sampler :=
  {| s_temp := 1; s_hard := false; s_gum := true; s_dis := false; s_kind := KGs; s_upd := true; s_comb := false |}.
Definition ex_state : tstate :=
  {| tens := ex_tens; layers := ex_layers; samplers := [ex_sampler];
     tr_feat := true; tr_rf := true; tr_dil := true; tr_sel := true; discrete := false |}.

Lemma ex_state_wf : wfb ex_state = true. Proof. vm_compute. reflexivity. Qed.

Theorem frozen_never_trainable_refuted : exists ops st t, wfb st = true /\
  In t (tens (run true ops st)) /\ p_frozen t = true /\ p_rg t = true.
Proof. exists [TNasOnly], ex_state, {| p_id := 2; p_frozen := true; p_reads := true; p_via := None; p_rg := true |}.
  split; [apply ex_state_wf|]. split; [vm_compute; tauto|]. split; reflexivity. Qed.

Theorem frozen_never_gets_grad_refuted : exists ops st o i, wfb st = true /\
  In o (trace true ops st) /\ In i (frozen_ids st) /\ In (i, true) o.
Proof. exists [TNetAndNas; TFwdBwd], ex_state, (fb_obs (run true [TNetAndNas] ex_state)), 2%nat.
  split; [apply ex_state_wf|]. split; [vm_compute; tauto|]. split; vm_compute; tauto. Qed.

Theorem options_partial_update_refuted : exists st x, wfb st = true /\
  Exists (fun ab => s_kind (fst ab) = KGs /\ s_kind (snd ab) = KSm)
         (combine (samplers st) (samplers (fst (step true st (TUpdate (Some x) None None None))))).
Proof. exists ex_state, (1 # 2). split; [apply ex_state_wf|]. vm_compute. constructor. split; reflexivity. Qed.

(* a frozen features masker reads a constant buffer: no gradient even upstream *)
Theorem frozen_feature_no_grad_upstream : forall st t, In t (tens st) -> p_reads t = false -> grad_reaches st t = false.
Proof. intros st t _ H. unfold grad_reaches. rewrite H. rewrite andb_false_r. reflexivity. Qed.

(* ---------------------------------------------------------------- the statements of Props/C11.v (checkable premise wfb) *)
Lemma c11_partition : forall v0 ops st, wfb st = true ->
  let st' := run v0 ops st in
  nas_ids v0 st' = nas_ids v0 st /\ net_ids v0 st' = net_ids v0 st /\ param_ids v0 st' = param_ids v0 st /\
  partition_ok v0 st'.
Proof. intros v0 ops st W. apply partition_static. apply (wfb_inv st W). Qed.
Lemma c11_train : forall ops st, wfb st = true ->
  let s1 := run false ops st in
  (forall t, In t (tens (fst (step false s1 TNasOnly))) -> p_rg t = memb (p_id t) (nas_ids false st)) /\
  (forall t, In t (tens (fst (step false s1 TNetOnly))) -> p_rg t = memb (p_id t) (net_ids false st)) /\
  (forall t, In t (tens (fst (step false s1 TNetAndNas))) -> p_rg t = memb (p_id t) (param_ids false st)).
Proof. intros ops st W. apply train_x_exact. apply wfb_inv; exact W. Qed.
Lemma c11_frozen_rg : forall ops st, wfb st = true ->
  forall t, In t (tens (run false ops st)) -> p_frozen t = true -> p_rg t = false.
Proof. intros ops st W. apply frozen_never_trainable. apply wfb_inv; exact W. Qed.
Lemma c11_frozen_grad : forall ops st, wfb st = true ->
  forall o, In o (trace false ops st) -> forall i, In i (frozen_ids st) -> ~ In (i, true) o.
Proof. intros ops st W. apply frozen_never_gets_grad. apply wfb_inv; exact W. Qed.
Lemma c11_options : forall ops st t h g d, wfb st = true ->
  let s1 := run false ops st in
  Forall2 (fun a b => unspecified_kept t h g d a b /\ specified_set t h g d a b)
          (samplers s1) (samplers (fst (step false s1 (TUpdate t h g d)))).
Proof. intros ops st t h g d W. apply options_partial_update. apply wfb_inv; exact W. Qed.
