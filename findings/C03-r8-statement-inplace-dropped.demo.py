"""(ii) statement-level in-place op (result unused) in a winning branch / outside the blocks (unchanged tree)"""
import torch, torch.nn as nn, warnings
warnings.filterwarnings('ignore')
from plinio.methods import SuperNet
from plinio.methods.supernet import SuperNetModule
torch.manual_seed(0)
class Br(nn.Module):
    def __init__(s):
        super().__init__(); s.c = nn.Conv2d(4, 4, 3, padding=1)
    def forward(s, x):
        y = s.c(x)
        y.clamp_(min=0)               # in-place op written as a statement
        return y
class Net(nn.Module):
    def __init__(s, where):
        super().__init__()
        s.where = where
        s.stem = nn.Conv2d(3, 4, 3, padding=1)
        s.blk = SuperNetModule([Br() if where == 'branch' else nn.Conv2d(4, 4, 3, padding=1), nn.Conv2d(4, 4, 1)])
        s.head = nn.Conv2d(4, 2, 1)
    def forward(s, x):
        t = s.stem(x)
        if s.where == 'fixed':
            t.clamp_(min=0)           # outside the choice blocks
        return s.head(s.blk(t))
x = torch.randn(2, 3, 6, 6)
for where in ('branch', 'fixed'):
    sn = SuperNet(Net(where), input_shape=(3, 6, 6)); sn.eval(); sn.update_softmax_options(hard=True)
    with torch.no_grad():
        sn.seed.blk.sn_combiner.alpha.copy_(torch.tensor([1.0, 0.0]))
        y = sn(x); e = sn.export().eval(); ye = e(x)
    print(where, ': max |exported - hard SuperNet| =', float((y - ye).abs().max()), '| clamp_ in exported graph:', any('clamp_' in str(n.target) for n in e.graph.nodes),
          '| clamp_ in SuperNet graph:', any('clamp_' in str(n.target) for n in sn.seed.graph.nodes))
