"""C01 — second tie, by translation (DESIGN.md §13.T).

translator/export2coq.py reads the source of PITConv1d / PITConv2d / PITLinear .forward, .export, .in_features_opt and of
PITBatchNorm1d / 2d .export of the tree under test and writes coq/Gen/ExportGen.v; the mask quantities those methods read are
the functions of coq/Gen/MasksGen.v (translator/masks2coq.py, C08's tie), which is regenerated here too (through
c08_gen.regenerate) because Gen/ExportGen.v and Proofs/ExportGen.v import it.  Proofs/ExportGen.v proves the generated
functions equal to Model/Conv.v, Props/C01.v states the C01_generated_* theorems.  This module is what vlib/c01.py needs:

    gen_rejected = c01_gen.regenerate(ctx)            # BEFORE ctx.build(); None, or why a translator refused the source
    ...
    gvals = ctx.coq_eval_sharded('glayers', c01_gen.IMPORTS, '', [c01_gen.layer_gen_expr(L) for _, _, L in refs], shard=120)
    mism += c01_gen.differences(refs, vals, gvals)    # the generated export next to the hand model, same layers
    ...
    gl = ctx.coq_eval_sharded('glcases', c01_gen.IMPORTS, '', [c01_gen.layer_case_gen_expr(c) for c in lays], shard=100)
    mism += c01_gen.case_differences(lays, vals, gl)  # the generated forward next to run_pit_conv1d and to PITConv1d.forward
    ...
    c01_gen.report(ctx, gen_rejected, built)          # 'translator-rejected ... no-failing-input-found'
"""
import os
from .common import COQ, REPO, write_if_changed, Fraction, Nat, coq, some
from translator import export2coq
from . import c08_gen

GEN_V = os.path.join(COQ, 'Gen', 'ExportGen.v')
IMPORTS = ['Plinio.Base.Tensor', 'Plinio.Model.Masks', 'Plinio.Model.Conv', 'Plinio.Gen.MasksGen', 'Plinio.Gen.ExportGen']
TRANSLATOR = 'translator/export2coq.py'
SOURCE = 'plinio/methods/pit/nn/{conv1d,conv2d,linear}.py (forward, export, in_features_opt), plinio/methods/pit/nn/batchnorm_{1d,2d}.py (export)'


def regenerate(ctx=None, repo=None):
    """translate the tree under test into Gen/MasksGen.v (C08's translator) and Gen/ExportGen.v (written only when changed).
    -> None, or the reason why a translator refused the source (the generated file then fails on purpose)"""
    rej8 = c08_gen.regenerate(None, repo)
    try:
        text, rej = export2coq.translate_repo(repo or REPO), None
    except (export2coq.Reject, SyntaxError, OSError, RecursionError) as e:
        rej = '%s: %s' % (type(e).__name__, e)
        text = ('(* %s REFUSED %s of the tree under test:\n   %s\n   no model of the current code exists; this file fails on purpose. *)\n'
                'Definition translator_rejected : True := 0.\n' % (TRANSLATOR, SOURCE, rej.replace('*)', '* )').replace('(*', '( *')))
    write_if_changed(GEN_V, text)
    if rej is None and rej8:
        rej = 'translator/masks2coq.py: ' + rej8
    if ctx is not None and rej:
        ctx.notes.append('generated model: the translator refused the source: ' + rej)
    return rej


def status(rej, built):
    """the `generated_model` entry of the evidence file"""
    return {'file': 'coq/Gen/ExportGen.v (+ coq/Gen/MasksGen.v for the mask quantities)', 'translator': TRANSLATOR + ' (+ translator/masks2coq.py)', 'source': SOURCE,
            'status': 'refused: ' + rej if rej else
            'regenerated; forward = pit_conv*_at / pit_linear_at, export = export_w*, export_bias, hyper-parameters, pad (k\'-1)*d\', BatchNorm width of the hand model; '
            'layer-level sentences re-established for the generated functions (C01_generated_*)' if built else 'regenerated; obligations do not check'}


def _fr(l):
    return [Fraction(x) for x in l]


def layer_gen_expr(L):
    """the layer `L` of vlib/c01.py:layer_expr exported by the GENERATED export (same observations, same ids)"""
    from . import c01
    ids = c01.ids_tensor(L['ids']['w0'], L['wshape'])
    mout, min_ = coq(L['mout']), coq(L['min'])
    bias = 'None' if 'b0' not in L['ids'] else coq(some([L['ids']['b0'] + i for i in range(L['wshape'][0])]))
    if L['type'] == 'PITConv1d':
        return 'run_export1_gen %s %s %s %s %s %s %s %s %s %s %s %s' % (coq(L['dw']), coq(L['frozen_t']), coq(L['has_bn']), coq(L['fold']), coq(Nat(L['K'])), coq(Nat(L['d0'])),
                                                                      coq(_fr(L['beta'])), coq(_fr(L['gamma'])), mout, min_, coq(ids), bias)
    if L['type'] == 'PITConv2d':
        return 'run_export2_gen %s %s %s %s %s %s %s' % (coq(L['dw']), coq(L['has_bn']), coq(L['fold']), mout, min_, coq(ids), bias)
    return 'run_export0_gen %s %s %s %s %s %s' % (coq(L['has_bn']), coq(L['fold']), mout, min_, coq(ids), bias)


def _opt(v):
    return None if v is None else (v[1] if isinstance(v, tuple) else v)


def differences(refs, vals, gvals, limit=3):
    """[(case, [differences])] : the generated export against the hand model's prediction (vals: values of c01.layer_expr) for
    the same layers.  Conv1d: the whole tuple; Conv2d / Linear: weight ids, bias ids, in / out, and groups / exported BatchNorm
    width against what the hand model's compare_layer expects"""
    if len(gvals) != len(refs):
        return [({'generated model': '%d values for %d layers' % (len(gvals), len(refs))}, ['number of values'])]
    bad = []
    for (o, nm, L), v, g in zip(refs, vals, gvals):
        d = []
        if L['type'] == 'PITConv1d':
            if g != v:
                d.append('generated export %r, hand model %r' % (str(g)[:300], str(v)[:300]))
        else:
            (w, b, hp), (gw, gb, ghp) = v, g
            cin, cout = hp
            exp_bn = cout if (L['has_bn'] and not L['fold']) else None
            want = (cin, cout, cin if L['dw'] else 1, exp_bn) if L['type'] == 'PITConv2d' else (cin, cout, exp_bn)
            got = tuple(list(ghp[:-1]) + [_opt(ghp[-1])])
            if gw != w or gb != b or got != want:
                d.append('generated export (w, b, hp) = %r, hand model %r with hp %r' % (str(g)[:300], str(v)[:300], want))
        if d:
            bad.append(({'job': o['job'], 'arch': o['arch'], 'layer': nm, 'generated_model': layer_gen_expr(L)[:400], 'n_layers_differing': None}, d))
    for c, _ in bad:
        c['n_layers_differing'] = len(bad)
    return bad[:limit]


def layer_case_gen_expr(c):
    """PITConv1d.forward of the direct layer case `c` of vlib/c01.py:layer_case_exprs through the GENERATED forward"""
    j = c['job']
    b = 'None' if c['b'] is None else coq(some(c['b']))
    bn = 'None' if c['bn'] is None else coq(some((c['bn'][0], c['bn'][1])))
    return 'run_pit_conv1d_gen %s %s %s %s %s %s %s %s %s %s %s %s %s %s' % (
        coq(j['fold']), coq(j['dw']), coq(c['w']), b, bn, coq(Nat(c['cin'])), coq(Nat(j['K'])), coq(Nat(j['d0'])), coq(Nat(j['stride'])),
        coq(c['frozen']), coq(_fr(c['alpha'])), coq(_fr(c['beta'])), coq(_fr(c['gamma'])), coq(c['x']))


def case_differences(lays, vals, gvals, limit=3):
    """the generated forward against run_pit_conv1d of the hand model (first component of the values of layer_case_exprs) and
    against the implementation's PITConv1d.forward"""
    if len(gvals) != len(lays):
        return [({'generated model': '%d values for %d layer cases' % (len(gvals), len(lays))}, ['number of values'])]
    bad = []
    for c, v, g in zip(lays, vals, gvals):
        d = []
        if g != v[0]:
            d.append('generated forward %r, hand model %r' % (str(g)[:300], str(v[0])[:300]))
        if c.get('y_is_int') and g != c['y']:
            d.append('generated forward %r, PITConv1d.forward %r' % (str(g)[:300], str(c['y'])[:300]))
        if d:
            bad.append(({'layer_job': c['job'], 'generated_model': layer_case_gen_expr(c)[:400]}, d))
    return bad[:limit]


def report(ctx, rej, built):
    """translator-rejected wording for the final verdict; True if a violation was filed"""
    if built or ctx.violations or not rej:
        return False
    ctx.violation('translator-rejected', {'translator': TRANSLATOR, 'source': SOURCE, 'reason': rej, 'theorems': [o[0] for o in ctx.obligations if not o[1]]},
                  'the source of the PIT layers\' forward / export is outside the subset the translator accepts (%s): no generated model, the C01_generated_* theorems are not established' % rej[:300],
                  no_input=True)
    return True
