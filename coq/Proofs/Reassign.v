From Coq Require Import QArith ZArith List Bool Arith Lia Permutation.
Import ListNotations.
Require Import Plinio.Base.Qx Plinio.Model.Reassign.
Local Open Scope nat_scope.

(* ------------------------------------------------------------------ list lemmas *)
Definition total_of (v : vec) : nat := fold_right Nat.add 0 v.
Definition upper (k : nat) (v : vec) : nat := total_of (skipn k v).

Lemma length_set_nth {A} n (x : A) l : length (set_nth n x l) = length l.
Proof.
  unfold set_nth. rewrite app_length, firstn_length.
  destruct (skipn n l) as [|y t] eqn:E.
  - assert (length (skipn n l) = 0) by (rewrite E; reflexivity). rewrite skipn_length in H. cbn. lia.
  - assert (length (skipn n l) = S (length t)) by (rewrite E; reflexivity). rewrite skipn_length in H. cbn. lia.
Qed.

Lemma set_nth_split {A} n (x d : A) l : n < length l ->
  l = firstn n l ++ nth n l d :: skipn (S n) l /\ set_nth n x l = firstn n l ++ x :: skipn (S n) l.
Proof.
  revert l. induction n as [|n IH]; intros l Hn; destruct l as [|y t]; cbn in Hn; try lia.
  - split; reflexivity.
  - destruct (IH t) as [E1 E2]; [lia|]. unfold set_nth in *.
    change (firstn (S n) (y :: t)) with (y :: firstn n t).
    change (skipn (S n) (y :: t)) with (skipn n t).
    change (skipn (S (S n)) (y :: t)) with (skipn (S n) t).
    change (nth (S n) (y :: t) d) with (nth n t d).
    split; [cbn [app]; f_equal; exact E1|]. cbn [app]. f_equal. exact E2.
Qed.

Lemma total_app u v : total_of (u ++ v) = total_of u + total_of v.
Proof. unfold total_of. induction u as [|x u IH]; cbn; [reflexivity|]. rewrite IH. lia. Qed.

Lemma total_set_nth n x v : n < length v -> total_of (set_nth n x v) + nth n v 0 = total_of v + x.
Proof.
  intro Hn. destruct (set_nth_split n x 0 v Hn) as [E1 E2]. rewrite E2.
  remember (firstn n v) as a. remember (skipn (S n) v) as b. remember (nth n v 0) as y.
  assert (Ev : total_of v = total_of (a ++ y :: b)) by (rewrite <- E1; reflexivity).
  rewrite Ev, !total_app. unfold total_of. cbn [fold_right]. lia.
Qed.

Lemma nth_set_nth_same n x v : n < length v -> nth n (set_nth n x v) 0 = x.
Proof.
  intro Hn. destruct (set_nth_split n x 0 v Hn) as [_ E2]. rewrite E2.
  assert (La : length (firstn n v) = n) by (rewrite firstn_length; lia).
  rewrite app_nth2 by lia. rewrite La. replace (n - n) with 0 by lia. reflexivity.
Qed.
Lemma nth_set_nth_other n m x v : n <> m -> nth m (set_nth n x v) 0 = nth m v 0.
Proof.
  intro Hne. destruct (Nat.lt_ge_cases n (length v)) as [Hn|Hn].
  - destruct (set_nth_split n x 0 v Hn) as [E1 E2]. rewrite E2.
    assert (La : length (firstn n v) = n) by (rewrite firstn_length; lia).
    remember (firstn n v) as a. remember (skipn (S n) v) as b. remember (nth n v 0) as y.
    assert (Ev : nth m v 0 = nth m (a ++ y :: b) 0) by (rewrite <- E1; reflexivity).
    rewrite Ev. destruct (Nat.lt_ge_cases m n) as [Hm|Hm].
    + rewrite !app_nth1 by lia. reflexivity.
    + rewrite !app_nth2 by lia. rewrite La.
      replace (m - n) with (S (m - n - 1)) by lia. reflexivity.
  - unfold set_nth. rewrite skipn_all2 by lia. rewrite app_nil_r, firstn_all2 by lia. reflexivity.
Qed.

Lemma move_total i j v : i <> j -> i < length v -> j < length v -> 0 < nth i v 0 -> total_of (move i j v) = total_of v.
Proof.
  intros Hij Hi Hj Hp. unfold move.
  pose proof (total_set_nth i (pred (nth i v 0)) v Hi) as H1.
  assert (Hk : nth j (set_nth i (pred (nth i v 0)) v) 0 = nth j v 0) by (apply nth_set_nth_other; exact Hij).
  set (v1 := set_nth i (pred (nth i v 0)) v) in *.
  assert (Hj1 : j < length v1) by (unfold v1; rewrite length_set_nth; exact Hj).
  pose proof (total_set_nth j (S (nth j v 0)) v1 Hj1) as H2. lia.
Qed.

Lemma move_length i j v : length (move i j v) = length v.
Proof. unfold move. rewrite !length_set_nth. reflexivity. Qed.


(* ------------------------------------------------------------------ searches: any cost function *)
Section Search.
Variable cost : vec -> Q.

(* the configuration kept by a search never costs more than the one it started from *)
Lemma drain_cost : forall fuel i j tmp best,
  (cost (snd (drain cost fuel i j tmp best)) <= cost best)%Q.
Proof.
  induction fuel as [|f IH]; intros i j tmp best; cbn [drain snd].
  - apply Qle_refl.
  - destruct (Nat.ltb 0 (nth i tmp 0)); [|apply Qle_refl].
    eapply Qle_trans; [apply IH|].
    destruct (qlt_bool (cost (move i j tmp)) (cost best)) eqn:E; [|apply Qle_refl].
    apply qlt_bool_iff in E. apply Qlt_le_weak. exact E.
Qed.

Lemma search1_cost : forall skip init best, (cost (search1 cost skip init best) <= cost best)%Q.
Proof.
  intros skip init. unfold search1. generalize (pairs (length init) skip) as ps.
  induction ps as [|ij ps IH]; intro best; cbn [fold_left]; [apply Qle_refl|].
  eapply Qle_trans; [apply IH|apply drain_cost].
Qed.

Definition step2 (tb : vec * vec) (ij : nat * nat) : vec * vec :=
  drain cost (nth (fst ij) (fst tb) 0) (fst ij) (snd ij) (fst tb) (snd tb).

Lemma fold_step2_cost : forall ps tmp best, (cost (snd (fold_left step2 ps (tmp, best))) <= cost best)%Q.
Proof.
  induction ps as [|ij ps IH]; intros tmp best; cbn [fold_left snd]; [apply Qle_refl|].
  destruct (step2 (tmp, best) ij) as [tmp' best'] eqn:E.
  eapply Qle_trans; [apply IH|].
  replace best' with (snd (step2 (tmp, best) ij)) by (rewrite E; reflexivity).
  unfold step2. cbn [fst snd]. apply drain_cost.
Qed.

Lemma search2_cost : forall skip init best, (cost (search2 cost skip init best) <= cost best)%Q.
Proof. intros. unfold search2. apply (fold_step2_cost (pairs (length init) skip) init best). Qed.

Theorem refine_cost_le : forall skip init, (cost (refine cost skip init) <= cost init)%Q.
Proof.
  intros. unfold refine. eapply Qle_trans; [apply search2_cost|apply search1_cost].
Qed.

(* every configuration a search visits is reached from the start by moving channels to HIGHER
   precisions only: i < j in every move *)
Inductive up : vec -> vec -> Prop :=
| up_refl v : up v v
| up_move v w i j : up v w -> i < j -> j < length w -> 0 < nth i w 0 -> up v (move i j w).

Lemma up_trans u v w : up u v -> up v w -> up u w.
Proof. intros H1 H2. induction H2 as [|v w i j H IH Hij Hj Hp]; [exact H1|]. apply up_move; [apply IH; exact H1|exact Hij|exact Hj|exact Hp]. Qed.

Lemma up_length v w : up v w -> length w = length v.
Proof. induction 1; [reflexivity|]. rewrite move_length. assumption. Qed.

Lemma drain_up : forall fuel i j tmp best v0, i < j -> j < length v0 -> up v0 tmp -> up v0 best ->
  up v0 (fst (drain cost fuel i j tmp best)) /\ up v0 (snd (drain cost fuel i j tmp best)).
Proof.
  induction fuel as [|f IH]; intros i j tmp best v0 Hij Hj Ht Hb; cbn [drain fst snd].
  - split; assumption.
  - destruct (Nat.ltb 0 (nth i tmp 0)) eqn:E; [|split; assumption].
    apply Nat.ltb_lt in E.
    assert (Hm : up v0 (move i j tmp)).
    { apply up_move; [exact Ht|exact Hij|rewrite (up_length _ _ Ht); exact Hj|exact E]. }
    apply IH; [exact Hij|exact Hj|exact Hm|]. destruct (qlt_bool _ _); assumption.
Qed.

Lemma pairs_lt n skip ij : In ij (pairs n skip) -> fst ij < snd ij /\ snd ij < n.
Proof.
  unfold pairs. intro H. apply in_flat_map in H as [i [Hi H]]. apply in_seq in Hi.
  destruct (skip i); [destruct H|]. apply in_map_iff in H as [j [E Hj]]. subst. cbn. apply in_seq in Hj. lia.
Qed.

Lemma pairs_noskip n skip ij : In ij (pairs n skip) -> skip (fst ij) = false.
Proof.
  unfold pairs. intro H. apply in_flat_map in H as [i [_ H]].
  destruct (skip i) eqn:E; [destruct H|]. apply in_map_iff in H as [j [E' Hj]]. subst. exact E.
Qed.

Lemma search1_up : forall skip init best, up init best -> up init (search1 cost skip init best).
Proof.
  intros skip init. unfold search1.
  assert (Hall : forall ij, In ij (pairs (length init) skip) -> fst ij < snd ij /\ snd ij < length init) by (intros; eapply pairs_lt; eassumption).
  revert Hall. generalize (pairs (length init) skip) as ps.
  induction ps as [|ij ps IH]; intros Hall best Hb; cbn [fold_left]; [exact Hb|].
  apply IH; [intros; apply Hall; right; assumption|].
  apply drain_up; [apply Hall; left; reflexivity|apply Hall; left; reflexivity|apply up_refl|exact Hb].
Qed.

Lemma fold_step2_up : forall ps v0 tmp best, (forall ij, In ij ps -> fst ij < snd ij /\ snd ij < length v0) -> up v0 tmp -> up v0 best ->
  up v0 (snd (fold_left step2 ps (tmp, best))).
Proof.
  induction ps as [|ij ps IH]; intros v0 tmp best Hall Ht Hb; cbn [fold_left snd]; [exact Hb|].
  destruct (drain_up (nth (fst ij) tmp 0) (fst ij) (snd ij) tmp best v0) as [H1 H2];
    [apply Hall; left; reflexivity|apply Hall; left; reflexivity|exact Ht|exact Hb|].
  unfold step2 at 2. cbn [fst snd].
  destruct (drain cost (nth (fst ij) tmp 0) (fst ij) (snd ij) tmp best) as [tmp' best'].
  cbn [fst snd] in *. apply IH; [intros; apply Hall; right; assumption|exact H1|exact H2].
Qed.

Lemma search2_up : forall skip init best, up init best -> up init (search2 cost skip init best).
Proof.
  intros skip init best Hb. unfold search2.
  apply (fold_step2_up (pairs (length init) skip) init init best); [intros; eapply pairs_lt; eassumption|apply up_refl|exact Hb].
Qed.

Theorem refine_up : forall skip init, up init (refine cost skip init).
Proof. intros. unfold refine. apply search2_up, search1_up, up_refl. Qed.
End Search.



(* what "up" means for the counts: the total is preserved and, for every threshold k, the number of
   channels at precisions >= k never decreases (no count is ever moved to a lower precision) *)
Lemma skipn_set_nth_lt k n x (v : vec) : n < k -> skipn k (set_nth n x v) = skipn k v.
Proof.
  revert n v. induction k as [|k IH]; intros n v Hn; [lia|].
  destruct v as [|y t]; [unfold set_nth; destruct n; reflexivity|].
  destruct n as [|n]; [reflexivity|].
  unfold set_nth. change (firstn (S n) (y :: t)) with (y :: firstn n t). change (skipn (S n) (y :: t)) with (skipn n t).
  cbn [app skipn]. apply (IH n t). lia.
Qed.
Lemma skipn_set_nth_ge k n x (v : vec) : k <= n -> skipn k (set_nth n x v) = set_nth (n - k) x (skipn k v).
Proof.
  revert n v. induction k as [|k IH]; intros n v Hn; [rewrite Nat.sub_0_r; reflexivity|].
  destruct n as [|n]; [lia|]. destruct v as [|y t].
  - unfold set_nth. rewrite !skipn_nil, !firstn_nil. reflexivity.
  - unfold set_nth at 1. change (firstn (S n) (y :: t)) with (y :: firstn n t). change (skipn (S n) (y :: t)) with (skipn n t).
    cbn [app skipn]. change (S n - S k) with (n - k). apply (IH n t). lia.
Qed.
Lemma nth_skipn k m (v : vec) : nth m (skipn k v) 0 = nth (k + m) v 0.
Proof. revert v. induction k as [|k IH]; intro v; [reflexivity|]. destruct v as [|y t]; [destruct m; reflexivity|]. apply IH. Qed.

Lemma upper_move k i j v : i < j -> j < length v -> 0 < nth i v 0 -> upper k v <= upper k (move i j v).
Proof.
  intros Hij Hj Hp. unfold upper, move.
  set (v1 := set_nth i (pred (nth i v 0)) v).
  assert (L1 : length v1 = length v) by (unfold v1; apply length_set_nth).
  destruct (Nat.lt_ge_cases j k) as [Hjk|Hjk].
  - rewrite skipn_set_nth_lt by lia. unfold v1. rewrite skipn_set_nth_lt by lia. lia.
  - rewrite skipn_set_nth_ge by lia.
    assert (Hlen : j - k < length (skipn k v1)) by (rewrite skipn_length; lia).
    pose proof (total_set_nth (j - k) (S (nth j v 0)) (skipn k v1) Hlen) as H2.
    rewrite nth_skipn in H2. replace (k + (j - k)) with j in H2 by lia.
    assert (Hk : nth j v1 0 = nth j v 0) by (unfold v1; apply nth_set_nth_other; lia). rewrite Hk in H2.
    destruct (Nat.lt_ge_cases i k) as [Hik|Hik].
    + unfold v1 in *. rewrite skipn_set_nth_lt in * by lia. lia.
    + unfold v1 in H2 |- *. rewrite (skipn_set_nth_ge k i) in * by lia.
      assert (Hlen2 : i - k < length (skipn k v)) by (rewrite skipn_length; lia).
      pose proof (total_set_nth (i - k) (pred (nth i v 0)) (skipn k v) Hlen2) as H1.
      rewrite nth_skipn in H1. replace (k + (i - k)) with i in H1 by lia. lia.
Qed.

Theorem up_total v w : up v w -> total_of w = total_of v.
Proof.
  induction 1 as [|v w i j H IH Hij Hj Hp]; [reflexivity|].
  rewrite move_total; [exact IH|lia|lia|exact Hj|exact Hp].
Qed.

Theorem up_upper v w : up v w -> forall k, upper k v <= upper k w.
Proof.
  induction 1 as [|v w i j H IH Hij Hj Hp]; intro k; [lia|].
  eapply Nat.le_trans; [apply IH|]. apply upper_move; assumption.
Qed.

(* ------------------------------------------------------------------ reassignment: bounded exhaustive sweep
   over the ABSTRACT inputs (current precision of every channel, one ranking of the channels per
   precision, target counts): a superset of what any score matrix can induce. *)
Fixpoint inserts (x : nat) (l : list nat) : list (list nat) :=
  match l with [] => [[x]] | y :: t => (x :: l) :: map (cons y) (inserts x t) end.
Fixpoint perms (l : list nat) : list (list nat) :=
  match l with [] => [[]] | x :: t => flat_map (inserts x) (perms t) end.
Fixpoint lists {A} (n : nat) (vals : list A) : list (list A) :=
  match n with 0 => [[]] | S k => flat_map (fun t => map (fun v => v :: t) vals) (lists k vals) end.
Fixpoint compositions (parts total : nat) : list (list nat) :=
  match parts with
  | 0 => if Nat.eqb total 0 then [[]] else []
  | S k => flat_map (fun x => map (cons x) (compositions k (total - x))) (seq 0 (S total))
  end.
Definition sweep (f : list nat -> list (list nat) -> list nat -> assignment) (P C : nat) : bool :=
  forallb (fun cur => forallb (fun orders => forallb (fun best =>
     reassign_ok (f cur orders best) best) (compositions P C))
     (lists P (perms (seq 0 C)))) (lists C (seq 0 P)).
Definition small_sizes : list (nat * nat) :=
  [(1,1); (1,2); (1,3); (1,4); (2,1); (2,2); (2,3); (2,4); (3,1); (3,2); (3,3); (4,1); (4,2); (4,3)].

(* the bounded sweep that used to be proved here (sweep reassign_abs on small_sizes, by vm_compute) is superseded by
   the general theorem reassign_total of Proofs/ReassignGen.v; `sweep` stays as an executable sanity definition *)

(* the pinned upstream algorithm fails already on 2 precisions x 2 channels *)
Lemma reassign_v0_refuted : exists scores best,
  fold_right Nat.add 0 best = ncols scores /\ reassign_ok (reassign_v0 scores best) best = false.
Proof. exists [[0; 3]; [1; 2]]%Q, [1; 1]. split; vm_compute; reflexivity. Qed.
