(* C19 — Regularizers are non-negative penalties that vanish when constraints hold.
   Statements only (proofs: Proofs/Duccio.v; model: Model/Duccio.v).  All quantities are arbitrary
   rationals: every strength, cost, target, every (also fractional) epoch and schedule length. *)
From Coq Require Import QArith List ZArith.
Import ListNotations.
Require Import Plinio.Base.Qx Plinio.Model.Duccio Plinio.Proofs.Duccio Plinio.Gen.DuccioGen Plinio.Proofs.DuccioGen.
Open Scope Q_scope.

(* metrics are triples (final strength, cost, target) *)
Theorem C19_duccio_nonneg : forall ms e n, 0 < n -> 0 <= e ->
  Forall (fun m => 0 <= fst (fst m)) ms -> 0 <= duccio ms e n.
Proof. exact duccio_nonneg. Qed.

Theorem C19_duccio_zero_iff : forall ms e n, 0 < n -> 0 <= e ->
  Forall (fun m => 0 < fst (fst m)) ms ->
  (duccio ms e n == 0 <-> Forall (fun m => snd (fst m) <= snd m) ms).
Proof. exact duccio_zero_iff. Qed.

Theorem C19_duccio_mono_excess : forall ms ms' e n, 0 < n -> 0 <= e ->
  Forall (fun m => 0 <= fst (fst m)) ms -> costs_le ms ms' -> duccio ms e n <= duccio ms' e n.
Proof. exact duccio_mono_excess. Qed.

Theorem C19_duccio_grows_with_excess : forall ms1 ms2 s c c' t e n, 0 < n -> 0 <= e -> 0 < s ->
  t <= c -> c < c' -> duccio (ms1 ++ (s, c, t) :: ms2) e n < duccio (ms1 ++ (s, c', t) :: ms2) e n.
Proof. exact duccio_strict_excess. Qed.

Theorem C19_eff_mono_epoch : forall s e e' n, 0 <= s -> 0 < n -> e <= e' -> eff s e n <= eff s e' n.
Proof. exact eff_mono_epoch. Qed.

Theorem C19_eff_at_0 : forall s n, 0 <= s -> 0 < n -> eff s 0 n == s / 100.
Proof. exact eff_at_0. Qed.

Theorem C19_eff_from_half : forall s e n, 0 <= s -> 0 < n -> n / 2 <= e -> eff s e n == s.
Proof. exact eff_from_half. Qed.

Theorem C19_eff_le_final : forall s e n, eff s e n <= s.
Proof. exact eff_le_final. Qed.

Theorem C19_derive_above : forall task c t, 0 < task -> t < c ->
  0 < derive task c t /\ derive task c t * (c - t) == task.
Proof. exact derive_above. Qed.

Theorem C19_derive_not_above : forall task c t, c <= t -> derive task c t = 0.
Proof. exact derive_not_above. Qed.

Theorem C19_base_linear : forall s c, base s c == s * c.
Proof. exact base_linear. Qed.


(* ---- the model GENERATED from the source of DUCCIO.__call__ / BaseRegularizer.__call__ of the tree under test
        (Gen/DuccioGen.v, rewritten by translator/duccio2coq.py on every run) ---- *)
(* it computes the hand-written model ... *)
Theorem C19_generated_duccio_is_model : forall ms e n, duccio_gen ms e n == duccio ms e n.
Proof. exact duccio_gen_eq. Qed.
Theorem C19_generated_derive_is_model : forall task c t, derive_gen task c t == derive task c t.
Proof. exact derive_gen_eq. Qed.
Theorem C19_generated_base_is_model : forall s c, base_gen s c == base s c.
Proof. exact base_gen_eq. Qed.

(* ... and no division it performs on an evaluated path has a zero divisor: the lazily derived strength for EVERY
   task loss, cost and target (at the target too), the schedule for every schedule length other than zero.
   (Coq's x / 0 = 0 would otherwise hide the inf / nan of the float division.) *)
Theorem C19_generated_derive_defined : forall task c t, derive_ok task c t = true.
Proof. exact derive_gen_defined. Qed.
Theorem C19_generated_step_defined : forall e n acc m, ~ n == 0 -> step_ok e n acc m = true.
Proof. exact step_gen_defined. Qed.
Theorem C19_generated_base_defined : forall s c, base_ok s c = true.
Proof. exact base_gen_defined. Qed.

(* hence the sentences of the property hold of the code as it is now *)
Theorem C19_generated_duccio_nonneg : forall ms e n, 0 < n -> 0 <= e ->
  Forall (fun m => 0 <= fst (fst m)) ms -> 0 <= duccio_gen ms e n.
Proof. exact gen_duccio_nonneg. Qed.
Theorem C19_generated_duccio_zero_iff : forall ms e n, 0 < n -> 0 <= e ->
  Forall (fun m => 0 < fst (fst m)) ms ->
  (duccio_gen ms e n == 0 <-> Forall (fun m => snd (fst m) <= snd m) ms).
Proof. exact gen_duccio_zero_iff. Qed.
Theorem C19_generated_derive_above : forall task c t, 0 < task -> t < c ->
  0 < derive_gen task c t /\ derive_gen task c t * (c - t) == task.
Proof. exact gen_derive_above. Qed.
Theorem C19_generated_derive_not_above : forall task c t, c <= t -> derive_gen task c t == 0.
Proof. exact gen_derive_not_above. Qed.

(* the pinned upstream lazy initialisation divides by cost - target = 0 *)
Theorem C19_upstream_derive_refuted : exists task c t, 0 < task /\ derive_v0 task c t = Inf.
Proof. exact derive_v0_at_target_refuted. Qed.

Example C19_example :
  let ms := [(3#2, 120, 100); (1#4, 80, 100); (2, 100, 100)] in
  Forall (fun m => 0 < fst (fst m)) ms /\ duccio ms 3 10 == (eff (3#2) 3 10) * 20 /\ ~ duccio ms 3 10 == 0.
Proof.
  cbn zeta. split; [repeat constructor; cbn; reflexivity|]. split; vm_compute; [reflexivity|discriminate].
Qed.

(* A metric whose target is +inf (it can never be penalised) contributes nothing and leaves every other
   metric with its own strength: the penalty is the one of the regularizer without that metric. *)
Theorem C19_infinite_target_is_dropped : forall ms e n, duccio_opt ms e n == duccio (finite_part ms) e n.
Proof. exact duccio_opt_finite_part. Qed.

Print Assumptions C19_duccio_nonneg.
Print Assumptions C19_duccio_zero_iff.
Print Assumptions C19_duccio_mono_excess.
Print Assumptions C19_duccio_grows_with_excess.
Print Assumptions C19_eff_mono_epoch.
Print Assumptions C19_eff_at_0.
Print Assumptions C19_eff_from_half.
Print Assumptions C19_eff_le_final.
Print Assumptions C19_derive_above.
Print Assumptions C19_derive_not_above.
Print Assumptions C19_base_linear.
Print Assumptions C19_upstream_derive_refuted.
Print Assumptions C19_infinite_target_is_dropped.
Print Assumptions C19_generated_duccio_is_model.
Print Assumptions C19_generated_derive_is_model.
Print Assumptions C19_generated_base_is_model.
Print Assumptions C19_generated_derive_defined.
Print Assumptions C19_generated_step_defined.
Print Assumptions C19_generated_base_defined.
Print Assumptions C19_generated_duccio_nonneg.
Print Assumptions C19_generated_duccio_zero_iff.
Print Assumptions C19_generated_derive_above.
Print Assumptions C19_generated_derive_not_above.
