(* Rational helpers shared by the models: min/max as booleans tests (computable), floor, ceiling,
   round-half-even, and the constant-division normalisation tactic for lra. *)
From Coq Require Import QArith Qround ZArith Lia Lqa.
Local Open Scope Q_scope.

Definition qmin (a b : Q) : Q := if Qle_bool a b then a else b.
Definition qmax (a b : Q) : Q := if Qle_bool a b then b else a.
Definition qabs (a : Q) : Q := if Qle_bool 0 a then a else - a.

Lemma qmin_cases a b : (a <= b /\ qmin a b = a) \/ (b < a /\ qmin a b = b).
Proof. unfold qmin. destruct (Qle_bool a b) eqn:E.
  - left. split; [apply Qle_bool_iff; exact E|reflexivity].
  - right. split; [|reflexivity]. apply Qnot_le_lt. intro H. apply Qle_bool_iff in H. congruence. Qed.
Lemma qmax_cases a b : (a <= b /\ qmax a b = b) \/ (b < a /\ qmax a b = a).
Proof. unfold qmax. destruct (Qle_bool a b) eqn:E.
  - left. split; [apply Qle_bool_iff; exact E|reflexivity].
  - right. split; [|reflexivity]. apply Qnot_le_lt. intro H. apply Qle_bool_iff in H. congruence. Qed.
Lemma qabs_cases a : (0 <= a /\ qabs a = a) \/ (a < 0 /\ qabs a = - a).
Proof. unfold qabs. destruct (Qle_bool 0 a) eqn:E.
  - left. split; [apply Qle_bool_iff; exact E|reflexivity].
  - right. split; [|reflexivity]. apply Qnot_le_lt. intro H. apply Qle_bool_iff in H. congruence. Qed.

Definition qlt_bool (a b : Q) : bool := negb (Qle_bool b a).
Lemma qlt_bool_iff a b : qlt_bool a b = true <-> a < b.
Proof. unfold qlt_bool. rewrite negb_true_iff. split.
  - intro H. apply Qnot_le_lt. intro H'. apply Qle_bool_iff in H'. congruence.
  - intro H. destruct (Qle_bool b a) eqn:E; [|reflexivity]. apply Qle_bool_iff in E. apply Qlt_not_le in H. contradiction. Qed.

(* printable form of a rational: reduced numerator / denominator *)
Definition qpair (q : Q) : Z * Z := let r := Qred q in (Qnum r, Zpos (Qden r)).
