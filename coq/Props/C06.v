(* C06 — SuperNet cost is the coefficient-weighted mix of branch costs.
   Statements only (proofs: Proofs/SuperNet.v; model: Model/SuperNet.v).  Quantifiers: every network of the
   IR, every per-layer cost function `cost : module -> call site -> Q` (any sign), shared and per-invocation
   metrics, full_cost on/off, every coefficient assignment (probability vectors where stated), every winner
   assignment. *)
From Coq Require Import QArith List ZArith.
Import ListNotations.
Require Import Plinio.Base.Qx Plinio.Model.SuperNet Plinio.Proofs.SuperNet.
Require Import Plinio.Gen.SnCostGen Plinio.Proofs.SnCostGen Plinio.Proofs.SnCostFwdGen.

(* the cost is the sum over the combiners of the coefficient-weighted branch costs ... *)
Theorem C06_sn_cost_is_weighted_mix : forall cost shared th nt,
  sn_cost cost shared false th nt ==
  qsum (map (fun e => match e with ECombiner b brs => dot (th b) (map (branch_cost cost) brs) | ELayer _ _ => 0 end) (target_list shared nt)).
Proof. exact sn_cost_is_weighted_mix. Qed.

(* ... plus, with full_cost, the cost of the layers outside the choice blocks *)
Theorem C06_sn_cost_full_adds_fixed : forall cost shared th nt,
  sn_cost cost shared true th nt == sn_cost cost shared false th nt + fixed_cost cost shared nt.
Proof. exact sn_cost_full_adds_fixed. Qed.

(* for probability vectors it lies between the cheapest and the most expensive selection ... *)
Theorem C06_sn_cost_convex : forall cost shared full th nt, blocks_consistent nt -> coeffs_ok th nt ->
  sn_cost cost shared full (hard_sel nt (cheapest cost nt)) nt <= sn_cost cost shared full th nt /\
  sn_cost cost shared full th nt <= sn_cost cost shared full (hard_sel nt (dearest cost nt)) nt.
Proof. exact sn_cost_convex. Qed.

(* ... which are the minimum and the maximum over ALL selections *)
Theorem C06_sn_cost_selection_bounds : forall cost shared full nt win, blocks_consistent nt -> winners_ok win nt ->
  sn_cost cost shared full (hard_sel nt (cheapest cost nt)) nt <= sn_cost cost shared full (hard_sel nt win) nt /\
  sn_cost cost shared full (hard_sel nt win) nt <= sn_cost cost shared full (hard_sel nt (dearest cost nt)) nt.
Proof. exact sn_cost_selection_bounds. Qed.

(* affine in the coefficient vector of each block *)
Theorem C06_sn_cost_affine : forall cost shared full th nt b lam u v, length u = length v ->
  sn_cost cost shared full (upd th b (lin lam u v)) nt ==
  lam * sn_cost cost shared full (upd th b u) nt + (1 - lam) * sn_cost cost shared full (upd th b v) nt.
Proof. exact sn_cost_affine. Qed.

(* hard selection: the cost is the same metric computed from scratch on the exported network.
   Guards: site_independent (every module has the same output shape at each of its call sites -- see the
   refuted statement below and KNOWN_FINDINGS), names_ok / blocks_disjoint (a module belongs to one block or
   to none, and its name says so), winners_nodup (per-invocation metrics: no module reused inside a branch). *)
Theorem C06_sn_cost_hard_eq_export_cost_shared : forall cost inb full win nt e,
  site_independent cost -> blocks_consistent nt -> names_ok inb nt -> blocks_disjoint nt ->
  sn_export win nt = Some e ->
  sn_cost cost true full (hard_sel nt win) nt == plain_cost cost true full inb (fixed_layers e).
Proof. exact sn_cost_hard_eq_export_cost_shared. Qed.

Theorem C06_sn_cost_hard_eq_export_cost_per_call : forall cost inb full win nt e,
  site_independent cost -> blocks_consistent nt -> names_ok inb nt -> winners_nodup win nt ->
  sn_export win nt = Some e ->
  sn_cost cost false full (hard_sel nt win) nt == plain_cost cost false full inb (fixed_layers e).
Proof. exact sn_cost_hard_eq_export_cost_per_call. Qed.

(* full statement (no site_independent guard) is violated by the code as it is: a block invoked twice at
   different resolutions is charged twice the per-invocation cost of its first call site *)
Theorem C06_sn_cost_site_dependent_refuted : exists cost inb win nt e,
  blocks_consistent nt /\ names_ok inb nt /\ winners_nodup win nt /\ sn_export win nt = Some e /\
  ~ sn_cost cost false false (hard_sel nt win) nt == plain_cost cost false false inb (fixed_layers e).
Proof. exact sn_cost_site_dependent_refuted. Qed.

(* a concrete non-trivial instance: two blocks, one used twice, soft coefficients *)
Example C06_example :
  let cost := fun (i : Z) (_ : nat) => inject_Z (i * i) in
  let nt := [NFixed (Mod 9); NChoice 0 [[Mod 1]; [Mod 2; Mod 3]]; NChoice 1 [[Mod 4]; [Mod 5; Fn 0]; [Mod 6]]; NChoice 0 [[Mod 1]; [Mod 2; Mod 3]]] in
  let th := fun b : Z => if Z.eqb b 0 then [1#4; 3#4] else [1#2; 1#4; 1#4] in
  blocks_consistent nt /\ coeffs_ok th nt /\
  sn_cost cost true false th nt == 10 + (93#4) /\ sn_cost cost false true th nt == 20 + (93#4) + 81 /\
  sn_cost cost true false (hard_sel nt (cheapest cost nt)) nt == 17 /\ sn_cost cost true false (hard_sel nt (dearest cost nt)) nt == 49.
Proof.
  cbn zeta. split; [|split].
  - intros b brs brs' [H|[H|[H|[H|[]]]]] [H'|[H'|[H'|[H'|[]]]]]; congruence.
  - intros b brs [H|[H|[H|[H|[]]]]]; try discriminate; injection H as <- <-; cbn;
      (split; [split; [repeat constructor; discriminate|reflexivity]|reflexivity]).
  - vm_compute. repeat split; reflexivity.
Qed.

(* ---- generalised branch bodies (expressions with binary ops, residuals): the cost depends on the leaf layers of the
   bodies only (g_cost = sn_cost of g_flatten, which commutes with export: C03_g_flatten_export) *)
Theorem C06_g_cost_is_weighted_mix : forall cost shared th g,
  g_cost cost shared false th g ==
  qsum (map (fun e => match e with ECombiner b brs => dot (th b) (map (branch_cost cost) brs) | ELayer _ _ => 0 end) (target_list shared (g_flatten g))).
Proof. exact g_cost_is_weighted_mix. Qed.

Theorem C06_g_cost_full_adds_fixed : forall cost shared th g,
  g_cost cost shared true th g == g_cost cost shared false th g + fixed_cost cost shared (g_flatten g).
Proof. exact g_cost_full_adds_fixed. Qed.

Theorem C06_g_cost_convex : forall cost shared full th g, g_blocks_consistent g -> g_coeffs_ok th g ->
  g_cost cost shared full (g_hard_sel g (cheapest cost (g_flatten g))) g <= g_cost cost shared full th g /\
  g_cost cost shared full th g <= g_cost cost shared full (g_hard_sel g (dearest cost (g_flatten g))) g.
Proof. exact g_cost_convex. Qed.

Theorem C06_g_cost_selection_bounds : forall cost shared full g win, g_blocks_consistent g -> g_winners_ok win g ->
  g_cost cost shared full (g_hard_sel g (cheapest cost (g_flatten g))) g <= g_cost cost shared full (g_hard_sel g win) g /\
  g_cost cost shared full (g_hard_sel g win) g <= g_cost cost shared full (g_hard_sel g (dearest cost (g_flatten g))) g.
Proof. exact g_cost_selection_bounds. Qed.

Theorem C06_g_cost_affine : forall cost shared full th g b lam u v, length u = length v ->
  g_cost cost shared full (upd th b (lin lam u v)) g ==
  lam * g_cost cost shared full (upd th b u) g + (1 - lam) * g_cost cost shared full (upd th b v) g.
Proof. exact g_cost_affine. Qed.

Theorem C06_g_cost_hard_eq_export_cost_shared : forall cost inb full win g e,
  site_independent cost -> g_blocks_consistent g -> names_ok inb (g_flatten g) -> blocks_disjoint (g_flatten g) ->
  g_export win g = Some e ->
  g_cost cost true full (g_hard_sel g win) g == g_plain_cost cost true full inb e.
Proof. exact g_cost_hard_eq_export_cost_shared. Qed.

Theorem C06_g_cost_hard_eq_export_cost_per_call : forall cost inb full win g e,
  site_independent cost -> g_blocks_consistent g -> names_ok inb (g_flatten g) -> winners_nodup win (g_flatten g) ->
  g_export win g = Some e ->
  g_cost cost false full (g_hard_sel g win) g == g_plain_cost cost false full inb e.
Proof. exact g_cost_hard_eq_export_cost_per_call. Qed.

(* ---- the same sentences about the model GENERATED from the source of the tree under test (Gen/SnCostGen.v, rewritten by
   translator/sncost2coq.py on every run: SuperNetCombiner.get_cost / best_layer_index, SuperNet._get_single_cost /
   _single_cost_fn_map / __init__ / cost_specification.setter, DNAS.get_cost / cost / _create_cost_fn_map / __init__;
   equalities with the hand model: Proofs/SnCostGen.v).  `live nt cs0 full0 ops` is the object the generated constructor builds
   from what convert() returns for the network `nt`, cost specification `cs0` (one CostSpec or a dictionary), full_cost
   `full0`, after the later assignments `ops` to full_cost / cost_specification; `theta` is theta_alpha of every combiner at
   the time of the call; `costv` the value of any cost function on any layer / call site; `resolve` which specification a
   name designates; `cost_of costv c` the per-layer costs under specification c. *)
Theorem C06_generated_get_cost_eq : forall costv theta nt cs0 full0 ops name c, cs_wf cs0 -> Forall op_wf ops ->
  resolve (last_spec cs0 ops) name = Some c ->
  exists v, dnas_get_cost_gen costv theta (live nt cs0 full0 ops) name = Some v /\
            v == sn_cost (cost_of costv c) (sp_shared c) (last_full full0 ops) theta nt.
Proof. exact gen_get_cost_eq. Qed.

Theorem C06_generated_get_cost_raises : forall costv theta nt cs0 full0 ops name, cs_wf cs0 -> Forall op_wf ops ->
  resolve (last_spec cs0 ops) name = None -> dnas_get_cost_gen costv theta (live nt cs0 full0 ops) name = None.
Proof. exact gen_get_cost_raises. Qed.

Theorem C06_generated_cost_property : forall costv theta self, dnas_cost_gen costv theta self = dnas_get_cost_gen costv theta self None.
Proof. exact gen_cost_property. Qed.

(* one combiner: the coefficient-weighted sum of the costs of the unique layers of its branches at their first call site *)
Theorem C06_generated_combiner_cost : forall costv theta b brs c self, sn_ulm self = guniq (gleaves [NChoice b brs]) ->
  comb_get_cost_gen costv theta (comb_of b brs) c (sn_single_cost_fn_map_gen self c) == block_cost (cost_of costv c) (theta b) brs.
Proof. exact comb_get_cost_gen_eq. Qed.

Theorem C06_generated_best_layer_index : forall alpha, comb_best_layer_index_gen alpha = best_layer_index alpha.
Proof. exact comb_best_layer_index_gen_eq. Qed.

(* sentence 1: the coefficient-weighted mix of the branch costs, plus (with full_cost as it is NOW) the fixed layers *)
Theorem C06_generated_cost_is_weighted_mix : forall costv theta nt cs0 full0 ops name c, cs_wf cs0 -> Forall op_wf ops ->
  resolve (last_spec cs0 ops) name = Some c ->
  let cost := cost_of costv c in
  exists v, dnas_get_cost_gen costv theta (live nt cs0 full0 ops) name = Some v /\
    v == qsum (map (fun e => match e with ECombiner b brs => dot (theta b) (map (branch_cost cost) brs) | ELayer _ _ => 0 end)
                   (target_list (sp_shared c) nt))
         + (if last_full full0 ops then fixed_cost cost (sp_shared c) nt else 0).
Proof. exact gen_cost_is_weighted_mix. Qed.

(* sentence 2: between the cheapest and the most expensive selection *)
Theorem C06_generated_cost_convex : forall costv theta nt cs0 full0 ops name c, cs_wf cs0 -> Forall op_wf ops ->
  resolve (last_spec cs0 ops) name = Some c -> blocks_consistent nt -> coeffs_ok theta nt ->
  let cost := cost_of costv c in let self := live nt cs0 full0 ops in
  exists lo v hi,
    dnas_get_cost_gen costv (hard_sel nt (cheapest cost nt)) self name = Some lo /\
    dnas_get_cost_gen costv theta self name = Some v /\
    dnas_get_cost_gen costv (hard_sel nt (dearest cost nt)) self name = Some hi /\ lo <= v /\ v <= hi.
Proof. exact gen_cost_convex. Qed.

Theorem C06_generated_cost_selection_bounds : forall costv win nt cs0 full0 ops name c, cs_wf cs0 -> Forall op_wf ops ->
  resolve (last_spec cs0 ops) name = Some c -> blocks_consistent nt -> winners_ok win nt ->
  let cost := cost_of costv c in let self := live nt cs0 full0 ops in
  exists lo v hi,
    dnas_get_cost_gen costv (hard_sel nt (cheapest cost nt)) self name = Some lo /\
    dnas_get_cost_gen costv (hard_sel nt win) self name = Some v /\
    dnas_get_cost_gen costv (hard_sel nt (dearest cost nt)) self name = Some hi /\ lo <= v /\ v <= hi.
Proof. exact gen_cost_selection_bounds. Qed.

(* sentence 3: one-hot coefficients at the branches export() keeps (generated best_layer_index of every combiner) *)
Theorem C06_generated_cost_hard_eq_export : forall costv alpha inb nt e cs0 full0 ops name c, cs_wf cs0 -> Forall op_wf ops ->
  resolve (last_spec cs0 ops) name = Some c ->
  let cost := cost_of costv c in let win := fun b => comb_best_layer_index_gen (alpha b) in
  site_independent cost -> blocks_consistent nt -> names_ok inb nt ->
  (if sp_shared c then blocks_disjoint nt else winners_nodup win nt) ->
  sn_export win nt = Some e ->
  exists v, dnas_get_cost_gen costv (hard_sel nt win) (live nt cs0 full0 ops) name = Some v /\
            v == plain_cost cost (sp_shared c) (last_full full0 ops) inb (fixed_layers e).
Proof. exact gen_cost_hard_eq_export. Qed.

(* ... and with the coefficients PRODUCED by the generated forward pass of every combiner (Gen/SamplerGen.v, C10's translator)
   under hard selection without noise (hard_softmax set; eval mode or the plain soft-max sampler), for exp any positive
   strictly increasing g *)
Theorem C06_generated_forward_hard_cost_eq_export : forall (g : Q -> Q), (forall x, 0 < g x) -> (forall x y, x < y -> g x < g y) ->
  forall costv st noise inb nt e cs0 full0 ops name c, cs_wf cs0 -> Forall op_wf ops ->
  resolve (last_spec cs0 ops) name = Some c ->
  let cost := cost_of costv c in let win := fun b => comb_best_layer_index_gen (alpha_of st b) in
  hard_det st nt -> site_independent cost -> blocks_consistent nt -> names_ok inb nt ->
  (if sp_shared c then blocks_disjoint nt else winners_nodup win nt) ->
  sn_export win nt = Some e ->
  exists v, dnas_get_cost_gen costv (theta_after g st noise) (live nt cs0 full0 ops) name = Some v /\
            v == plain_cost cost (sp_shared c) (last_full full0 ops) inb (fixed_layers e).
Proof. exact gen_forward_hard_cost_eq_export. Qed.

(* the open finding (KNOWN_FINDINGS hard-cost-differs-from-exported:block-invoked-at-different-resolutions) is a behaviour of
   the generated code too *)
Theorem C06_generated_cost_site_dependent_refuted : exists costv inb win nt e c v,
  blocks_consistent nt /\ names_ok inb nt /\ winners_nodup win nt /\ sn_export win nt = Some e /\ sp_shared c = false /\
  dnas_get_cost_gen costv (hard_sel nt win) (live nt (CSingle c) false []) None = Some v /\
  ~ v == plain_cost (cost_of costv c) false false inb (fixed_layers e).
Proof. exact gen_cost_site_dependent_refuted. Qed.


Print Assumptions C06_sn_cost_is_weighted_mix.
Print Assumptions C06_sn_cost_full_adds_fixed.
Print Assumptions C06_sn_cost_convex.
Print Assumptions C06_sn_cost_selection_bounds.
Print Assumptions C06_sn_cost_affine.
Print Assumptions C06_sn_cost_hard_eq_export_cost_shared.
Print Assumptions C06_sn_cost_hard_eq_export_cost_per_call.
Print Assumptions C06_sn_cost_site_dependent_refuted.
Print Assumptions C06_g_cost_is_weighted_mix.
Print Assumptions C06_g_cost_full_adds_fixed.
Print Assumptions C06_g_cost_convex.
Print Assumptions C06_g_cost_selection_bounds.
Print Assumptions C06_g_cost_affine.
Print Assumptions C06_g_cost_hard_eq_export_cost_shared.
Print Assumptions C06_g_cost_hard_eq_export_cost_per_call.
Print Assumptions C06_generated_get_cost_eq.
Print Assumptions C06_generated_get_cost_raises.
Print Assumptions C06_generated_cost_property.
Print Assumptions C06_generated_combiner_cost.
Print Assumptions C06_generated_best_layer_index.
Print Assumptions C06_generated_cost_is_weighted_mix.
Print Assumptions C06_generated_cost_convex.
Print Assumptions C06_generated_cost_selection_bounds.
Print Assumptions C06_generated_cost_hard_eq_export.
Print Assumptions C06_generated_forward_hard_cost_eq_export.
Print Assumptions C06_generated_cost_site_dependent_refuted.
