(* Proofs about Model/MpsNet.v (C02). *)
From Coq Require Import List Arith Bool QArith Lia.
Import ListNotations.
Require Import Plinio.Base.Qx Plinio.Model.MpsNet.

(* ------------------------------------------------------------------ one-hot mixtures *)
Section Mix.
  Variable V : Type.
  Variable S : Type.
  Variables (s0 s1 : S) (vzero : V).
  Variable vadd : V -> V -> V.
  Variable smul : S -> V -> V.
  Hypothesis smul0 : forall v, smul s0 v = vzero.
  Hypothesis smul1 : forall v, smul s1 v = v.
  Hypothesis add0l : forall v, vadd vzero v = v.
  Hypothesis add0r : forall v, vadd v vzero = v.

  Let step := fun (acc : V) (tf : S * V) => vadd acc (smul (fst tf) (snd tf)).
  Let coef (k : nat) := fun i => if Nat.eqb i k then s1 else s0.

  Lemma mix_all_zero : forall fs k a acc, (k < a)%nat \/ (a + length fs <= k)%nat ->
    fold_left step (combine (map (coef k) (seq a (length fs))) fs) acc = acc.
  Proof.
    induction fs as [|f r IH]; intros k a acc H; simpl; [reflexivity|].
    rewrite IH by (simpl in H; lia).
    unfold step, coef; simpl. destruct (Nat.eqb_spec a k); [simpl in H; lia|].
    rewrite smul0. apply add0r.
  Qed.

  Lemma mix_hit : forall fs k a, (a <= k)%nat -> (k < a + length fs)%nat ->
    fold_left step (combine (map (coef k) (seq a (length fs))) fs) vzero = nth (k - a) fs vzero.
  Proof.
    induction fs as [|f r IH]; intros k a Ha Hk; simpl in *; [lia|].
    unfold step at 2, coef at 2; simpl. destruct (Nat.eqb_spec a k) as [E|E].
    - subst. rewrite smul1, add0l. rewrite mix_all_zero by lia. rewrite Nat.sub_diag. reflexivity.
    - rewrite smul0, add0l. rewrite IH by lia. replace (k - a)%nat with (Datatypes.S (k - Datatypes.S a)) by lia. reflexivity.
  Qed.

  Theorem onehot_mix : forall fs k, (k < length fs)%nat ->
    mix V S vzero vadd smul (onehot s0 s1 k (length fs)) fs = nth k fs vzero.
  Proof.
    intros fs k H. unfold mix, onehot. change (fun acc tf => vadd acc (smul (fst tf) (snd tf))) with step.
    change (fun i => if Nat.eqb i k then s1 else s0) with (coef k).
    rewrite mix_hit by lia. rewrite Nat.sub_0_r. reflexivity.
  Qed.

  (* ---------------------------------------------------------------- export soundness *)
  Variable qlen : qid -> nat.
  Variable qfun : qid -> nat -> V -> V.
  Variable qscale : qid -> nat -> V.
  Variable convf : nat -> V -> V -> V -> V.
  Variable weight : nat -> V.
  Variable bias : nat -> V.
  Variable biasq : nat -> V -> V -> V -> V.
  Variable propf : nat -> V -> V.
  Variable addf : V -> V -> V.

  Lemma mix_onehot_map : forall (g : nat -> V) n k, (k < n)%nat ->
    mix V S vzero vadd smul (onehot s0 s1 k n) (map g (seq 0 n)) = g k.
  Proof.
    intros g n k H.
    assert (L : length (map g (seq 0 n)) = n) by (rewrite map_length, seq_length; reflexivity).
    rewrite <- L at 1. rewrite onehot_mix by lia.
    rewrite (nth_indep _ vzero (g 0%nat)) by lia. rewrite map_nth. rewrite seq_nth by lia. reflexivity.
  Qed.

  Section Sound.
    Variable theta : qid -> list S.
    Variable selq : qid -> nat.
    Hypothesis Hsel : forall q, (selq q < qlen q)%nat /\ theta q = onehot s0 s1 (selq q) (qlen q).

    Lemma mixq_sel : forall q x, mixq V S vzero vadd smul qlen qfun theta q x = qfun q (selq q) x.
    Proof. intros q x. unfold mixq. destruct (Hsel q) as [H1 H2]. rewrite H2.
      apply (mix_onehot_map (fun k => qfun q k x)). exact H1. Qed.
    Lemma effscale_sel : forall q, effscale V S vzero vadd smul qlen qscale theta q = qscale q (selq q).
    Proof. intros q. unfold effscale. destruct (Hsel q) as [H1 H2]. rewrite H2.
      apply (mix_onehot_map (qscale q)). exact H1. Qed.

    Lemma node_sound : forall fixed shared net x vs i nd,
      mps_node V S vzero vadd smul qlen qfun qscale convf weight bias biasq propf addf fixed shared net theta x vs i nd
      = exp_node V vzero qfun qscale convf weight bias biasq propf addf fixed shared net selq x vs i nd.
    Proof. intros. destruct nd; unfold mps_node, exp_node; rewrite ?mixq_sel, ?effscale_sel; reflexivity. Qed.

    Lemma run_nodes_ext : forall (f g : list V -> nat -> node -> V), (forall vs i nd, f vs i nd = g vs i nd) ->
      forall rest vs, run_nodes V f vs rest = run_nodes V g vs rest.
    Proof. intros f g H. induction rest; intros; simpl; [reflexivity|]. rewrite H. apply IHrest. Qed.

    Theorem export_sound_mps : forall fixed shared net x,
      eval_mps V S vzero vadd smul qlen qfun qscale convf weight bias biasq propf addf fixed shared net theta x
      = eval_exp V vzero qfun qscale convf weight bias biasq propf addf fixed shared net selq x.
    Proof. intros. unfold eval_mps, eval_exp. apply run_nodes_ext. intros. apply node_sound. Qed.
  End Sound.
End Mix.

(* ------------------------------------------------------------------ arg-max *)
Lemma argmax_aux_lt : forall l best bi i, (bi < i)%nat -> (argmax_aux best bi i l < i + length l)%nat.
Proof. induction l; intros; simpl; [lia|]. destruct (qlt_bool best a).
  - specialize (IHl a i (Datatypes.S i)). lia.
  - specialize (IHl best bi (Datatypes.S i)). lia. Qed.
Lemma argmax_lt : forall l, l <> [] -> (argmax l < length l)%nat.
Proof. destruct l; [congruence|]. intros _. unfold argmax. pose proof (argmax_aux_lt l q 0%nat 1%nat). simpl. lia. Qed.


(* ------------------------------------------------------------------ sharing partition *)
Lemma wf_from_snoc : forall l a nd, wf_from a (l ++ [nd]) = wf_from a l && node_ok (a + length l) nd.
Proof. induction l as [|x r IH]; intros a nd; simpl.
  - rewrite Nat.add_0_r, andb_true_r. reflexivity.
  - rewrite IH. rewrite <- Nat.add_succ_comm. rewrite andb_assoc. reflexivity. Qed.

Lemma wf_from_nth : forall l a j nd, wf_from a l = true -> nth_error l j = Some nd -> node_ok (a + j) nd = true.
Proof. induction l as [|x r IH]; intros a j nd H E; [destruct j; discriminate|].
  simpl in H. apply andb_true_iff in H. destruct H as [H1 H2]. destruct j; simpl in E.
  - inversion E; subst. rewrite Nat.add_0_r. exact H1.
  - rewrite <- Nat.add_succ_comm. eapply IH; eauto. Qed.
Lemma wf_nth : forall net j nd, wf net = true -> nth_error net j = Some nd -> node_ok j nd = true.
Proof. intros. apply (wf_from_nth net 0%nat j nd); assumption. Qed.

Lemma rename_length : forall a b l, length (rename a b l) = length l.
Proof. intros. apply map_length. Qed.
Lemma cstep_length : forall cls nd, length (cstep cls nd) = Datatypes.S (length cls).
Proof. intros. destruct nd; simpl; rewrite app_length, ?rename_length; simpl; lia. Qed.
Lemma classes_snoc : forall net nd, classes (net ++ [nd]) = cstep (classes net) nd.
Proof. intros. unfold classes. rewrite fold_left_app. reflexivity. Qed.
Lemma classes_length : forall net, length (classes net) = length net.
Proof. induction net using rev_ind; [reflexivity|]. rewrite classes_snoc, cstep_length, app_length, IHnet. simpl. lia. Qed.

(* class of an old node after one more node has been processed: renamed consistently *)
Lemma cstep_old : forall cls nd, exists f : nat -> nat, forall j, (j < length cls)%nat ->
  nth j (cstep cls nd) 0%nat = f (nth j cls 0%nat).
Proof.
  intros cls nd. destruct nd; simpl;
    try (exists (fun c => c); intros j Hj; rewrite app_nth1 by lia; reflexivity).
  set (g := fun c => if Nat.eqb c (nth b cls 0%nat) then nth a cls 0%nat else c).
  exists g. intros j Hj.
  rewrite app_nth1 by (rewrite rename_length; lia).
  change (nth j (map g cls) 0%nat = g (nth j cls 0%nat)).
  rewrite (nth_indep (map g cls) 0%nat (g 0%nat)) by (rewrite map_length; lia).
  apply map_nth.
Qed.

(* every edge of the sharing graph joins two nodes of the same class *)
Definition edge_inv (net : list node) : Prop := forall i nd, nth_error net i = Some nd ->
  match nd with
  | NDw s _ | NProp s | NFlat s _ => cls_of net i = cls_of net s
  | NAdd a b => cls_of net i = cls_of net a /\ cls_of net i = cls_of net b
  | _ => True
  end.

Lemma edge_inv_holds : forall net, wf net = true -> edge_inv net.
Proof.
  induction net as [|nd net IH] using rev_ind; intros Hwf i nd' E; [destruct i; discriminate|].
  unfold wf in Hwf. rewrite wf_from_snoc in Hwf. apply andb_true_iff in Hwf. destruct Hwf as [Hw Hok]. simpl in Hok.
  specialize (IH Hw).
  pose proof (classes_length net) as HL.
  destruct (cstep_old (classes net) nd) as [f Hf].
  assert (Hold : forall j, (j < length net)%nat -> cls_of (net ++ [nd]) j = f (cls_of net j)).
  { intros j Hj. unfold cls_of. rewrite classes_snoc. apply Hf. lia. }
  destruct (Nat.lt_ge_cases i (length net)) as [Hi|Hi].
  - rewrite nth_error_app1 in E by exact Hi. specialize (IH i nd' E).
    pose proof (wf_nth net i nd' Hw E) as Hn.
    destruct nd'; simpl in Hn; try exact I;
      try (apply Nat.ltb_lt in Hn; rewrite !Hold by lia; f_equal; exact IH).
    apply andb_true_iff in Hn. destruct Hn as [Ha Hb]. apply Nat.ltb_lt in Ha, Hb.
    destruct IH as [I1 I2]. rewrite !Hold by lia. split; f_equal; assumption.
  - assert (i = length net).
    { assert (i < length (net ++ [nd]))%nat by (apply nth_error_Some; congruence). rewrite app_length in H. simpl in H. lia. }
    subst i. rewrite nth_error_app2 in E by lia. rewrite Nat.sub_diag in E. simpl in E. inversion E; subst nd'. clear E.
    assert (Hnew : forall x, cls_of (net ++ [nd]) (length net) = x <-> nth (length net) (cstep (classes net) nd) 0%nat = x).
    { intros. unfold cls_of. rewrite classes_snoc. reflexivity. }
    destruct nd; simpl in Hok; try exact I.
    + apply Nat.ltb_lt in Hok. apply Hnew. simpl. rewrite app_nth2 by lia. rewrite HL, Nat.sub_diag. simpl.
      symmetry. unfold cls_of. rewrite classes_snoc. simpl. rewrite app_nth1 by lia. reflexivity.
    + apply Nat.ltb_lt in Hok. apply Hnew. simpl. rewrite app_nth2 by lia. rewrite HL, Nat.sub_diag. simpl.
      symmetry. unfold cls_of. rewrite classes_snoc. simpl. rewrite app_nth1 by lia. reflexivity.
    + apply Nat.ltb_lt in Hok. apply Hnew. simpl. rewrite app_nth2 by lia. rewrite HL, Nat.sub_diag. simpl.
      symmetry. unfold cls_of. rewrite classes_snoc. simpl. rewrite app_nth1 by lia. reflexivity.
    + apply andb_true_iff in Hok. destruct Hok as [Ha Hb]. apply Nat.ltb_lt in Ha, Hb.
      assert (Hn : cls_of (net ++ [NAdd a b]) (length net) = nth a (classes net) 0%nat).
      { apply Hnew. simpl. rewrite app_nth2 by (rewrite rename_length; lia). rewrite rename_length, HL, Nat.sub_diag. reflexivity. }
      rewrite Hn. unfold cls_of. rewrite classes_snoc. simpl.
      rewrite !app_nth1 by (rewrite rename_length; lia). unfold rename.
      set (g := fun c => if Nat.eqb c (nth b (classes net) 0%nat) then nth a (classes net) 0%nat else c).
      rewrite !(nth_indep (map g (classes net)) 0%nat (g 0%nat)) by (rewrite map_length; lia).
      rewrite !map_nth. unfold g. rewrite Nat.eqb_refl. split; [|reflexivity].
      destruct (Nat.eqb_spec (nth a (classes net) 0%nat) (nth b (classes net) 0%nat)); reflexivity.
Qed.

Lemma cls_defprod : forall net, wf net = true -> forall f i, cls_of net i = cls_of net (defprod net f i).
Proof.
  intros net Hwf. pose proof (edge_inv_holds net Hwf) as EI.
  induction f; intros i; simpl; [reflexivity|].
  destruct (nth_error net i) as [nd|] eqn:E; [|reflexivity].
  specialize (EI i nd E). destruct nd; try reflexivity; try (rewrite EI; apply IHf).
  destruct EI as [EI _]. rewrite EI. apply IHf.
Qed.

(* "the tensor at node s was last quantized by the MPS layer p" *)
Inductive produces (net : list node) (p : nat) : nat -> Prop :=
| prod_here : forall nd, nth_error net p = Some nd -> is_mps nd = true -> produces net p p
| prod_prop : forall s s', nth_error net s = Some (NProp s') -> produces net p s' -> produces net p s
| prod_flat : forall s s' m, nth_error net s = Some (NFlat s' m) -> produces net p s' -> produces net p s.

Lemma tq_produces : forall net p s, wf net = true -> produces net p s -> forall f, (s < f)%nat -> tq net f s = p.
Proof.
  intros net p s Hwf H. induction H; intros f Hf; (destruct f; [lia|]); simpl.
  - rewrite H. destruct nd; simpl in H0; try discriminate; reflexivity.
  - rewrite H. pose proof (wf_nth _ _ _ Hwf H) as Hn. simpl in Hn. apply Nat.ltb_lt in Hn. apply IHproduces. lia.
  - rewrite H. pose proof (wf_nth _ _ _ Hwf H) as Hn. simpl in Hn. apply Nat.ltb_lt in Hn. apply IHproduces. lia.
Qed.

Lemma defprod_produces_in : forall net p s c, wf net = true -> produces net p s -> nth_error net p = Some (NIn c) ->
  forall f, (s < f)%nat -> defprod net f s = p.
Proof.
  intros net p s c Hwf H Hp. induction H; intros f Hf; (destruct f; [lia|]); simpl.
  - rewrite Hp. reflexivity.
  - rewrite H. pose proof (wf_nth _ _ _ Hwf H) as Hn. simpl in Hn. apply Nat.ltb_lt in Hn. apply IHproduces; lia.
  - rewrite H. pose proof (wf_nth _ _ _ Hwf H) as Hn. simpl in Hn. apply Nat.ltb_lt in Hn. apply IHproduces; lia.
Qed.

Lemma cls_produces : forall net p s, wf net = true -> produces net p s -> cls_of net s = cls_of net p.
Proof.
  intros net p s Hwf H. pose proof (edge_inv_holds net Hwf) as EI. induction H; [reflexivity| |].
  - specialize (EI _ _ H). simpl in EI. rewrite EI. exact IHproduces.
  - specialize (EI _ _ H). simpl in EI. rewrite EI. exact IHproduces.
Qed.

(* repaired wiring: a layer's input quantizer IS the output quantizer object of the MPS layer that
   last quantized the tensor it consumes *)
Theorem in_qtz_is_producer_out : forall net i nd s p, wf net = true ->
  nth_error net i = Some nd -> is_mps nd = true -> first_src nd = Some s -> produces net p s ->
  in_qid true net i = out_qid net p.
Proof.
  intros net i nd s p Hwf E Hm Hs Hp. unfold in_qid. rewrite E, Hs, Hm. unfold in_producer.
  rewrite (tq_produces net p s Hwf Hp) by lia. reflexivity.
Qed.

(* unchanged wiring (walk to the features-defining producer) reaches the same object thanks to the
   sharing partition, unless it runs into the network input past a depthwise convolution / an add *)
Theorem in_qtz_old_wiring_guarded : forall net i nd s p, wf net = true ->
  nth_error net i = Some nd -> is_mps nd = true -> first_src nd = Some s -> produces net p s ->
  ((exists c, nth_error net p = Some (NIn c)) \/
   (exists nd', nth_error net (defprod net (Datatypes.S s) s) = Some nd' /\ (forall c, nd' <> NIn c))) ->
  in_qid false net i = out_qid net p.
Proof.
  intros net i nd s p Hwf E Hm Hs Hp G. unfold in_qid. rewrite E, Hs, Hm. unfold in_producer.
  destruct G as [[c Hc]|[nd' [Hd Hn]]].
  - rewrite (defprod_produces_in net p s c Hwf Hp Hc) by lia. reflexivity.
  - unfold out_qid at 1. rewrite Hd.
    assert (C1 : cls_of net (defprod net (Datatypes.S s) s) = cls_of net p).
    { rewrite <- cls_defprod by exact Hwf. apply cls_produces; assumption. }
    assert (Pn : exists ndp, nth_error net p = Some ndp /\ is_mps ndp = true).
    { clear - Hp. induction Hp; eauto. }
    destruct Pn as [ndp [Ep Mp]].
    assert (Pnin : forall c, ndp <> NIn c).
    { intros c Hc. subst ndp. rewrite (defprod_produces_in net p s c Hwf Hp Ep) in Hd by lia.
      rewrite Ep in Hd. inversion Hd. subst nd'. apply (Hn c). reflexivity. }
    unfold out_qid. rewrite Ep. rewrite C1.
    destruct nd'; try (exfalso; eapply Hn; reflexivity); destruct ndp; try (exfalso; eapply Pnin; reflexivity); reflexivity.
Qed.

Theorem in_qtz_old_wiring_refuted : exists net i nd s p, wf net = true /\
  nth_error net i = Some nd /\ is_layer nd = true /\ first_src nd = Some s /\ produces net p s /\
  in_qid false net i <> out_qid net p.
Proof.
  exists [NIn 3; NDw 0 3; NProp 1; NConv 2 3 4; NFlat 3 1; NLin 4 4 2], 3%nat, (NConv 2 3 4), 2%nat, 1%nat.
  repeat split; try reflexivity.
  - eapply prod_prop; [reflexivity|]. eapply prod_here; reflexivity.
  - vm_compute. discriminate.
Qed.

(* width-sharing groups: add and depthwise share the output quantizer of their operands' group *)
Theorem add_shares_out_qtz : forall net i a b, wf net = true -> nth_error net i = Some (NAdd a b) ->
  cls_of net i = cls_of net a /\ cls_of net i = cls_of net b.
Proof. intros net i a b Hwf E. exact (edge_inv_holds net Hwf i _ E). Qed.
Theorem dw_shares_out_qtz : forall net i s c, wf net = true -> nth_error net i = Some (NDw s c) ->
  cls_of net i = cls_of net s.
Proof. intros net i s c Hwf E. exact (edge_inv_holds net Hwf i _ E). Qed.

(* ------------------------------------------------------------------ export carries what summary reports *)
Theorem export_layer_uses_selected : forall alpha precs fixed shared net i,
  export_precs precs (export_of alpha fixed shared net i) = summary_of alpha precs fixed shared net i.
Proof. intros. reflexivity. Qed.

(* input precision of an exported layer = output precision selected for the producer of its tensor *)
Theorem export_in_precision_is_producer_out : forall alpha precs shared net i nd s p, wf net = true ->
  nth_error net i = Some nd -> is_mps nd = true -> first_src nd = Some s -> produces net p s ->
  fst (fst (summary_of alpha precs true shared net i)) = snd (fst (summary_of alpha precs true shared net p)).
Proof.
  intros. unfold summary_of. simpl. rewrite (in_qtz_is_producer_out net i nd s p); auto.
Qed.

(* eval-mode coefficients are the one-hot at the arg-max of the raw coefficients (the sampler's
   postcondition, property C10) => the MPS network computes what the exported network computes *)
Corollary export_sound_argmax : forall (V S : Type) (s0 s1 : S) (vzero : V) (vadd : V -> V -> V) (smul : S -> V -> V),
  (forall v, smul s0 v = vzero) -> (forall v, smul s1 v = v) -> (forall v, vadd vzero v = v) -> (forall v, vadd v vzero = v) ->
  forall qfun qscale convf weight bias biasq propf addf (alpha : qid -> list Q) (theta : qid -> list S),
  (forall q, alpha q <> [] /\ theta q = onehot s0 s1 (argmax (alpha q)) (length (alpha q))) ->
  forall fixed shared net x,
  eval_mps V S vzero vadd smul (fun q => length (alpha q)) qfun qscale convf weight bias biasq propf addf fixed shared net theta x
  = eval_exp V vzero qfun qscale convf weight bias biasq propf addf fixed shared net (sel alpha) x.
Proof.
  intros. apply (export_sound_mps V S s0 s1); auto.
  intros q. destruct (H3 q) as [A B]. split; [apply argmax_lt; exact A|exact B].
Qed.
