"""Translator: plinio/methods/mps/quant/quantizers/{pact_act.py, minmax_weight.py}  ->  coq/Gen/QuantGen.v   (C13)

Element-wise arithmetic of the activation and weight quantizers of the tree under test, read with `ast`:
  PACTActSTE.forward            -> aq_gen p clip x deq        (+ aq_ok)
  PACTAct.scale                 -> aq_scale_gen p clip        (+ aq_scale_ok)
  _min_max_quantize             -> wq_gen p ch_min ch_max x deq   (+ wq_ok)
  MinMaxWeight.scale            -> wq_scale_gen p ch_min ch_max   (+ wq_scale_ok)
  MinMaxSymSTE/MinMaxAsymSTE.forward must be `return _min_max_quantize(x, ch_min, ch_max, precision, dequantize)`,
  MinMaxWeight._compute_min_max_sym must be max|x| per channel and its negation, PACTAct.forward / MinMaxWeight.forward
  must hand precision, clip value / ranges and the dequantize flag to the STE functions unchanged (checked structurally).
Tensors are read one element at a time (a per-channel quantity such as ch_range stands for the value of the element's
channel; `.view(shape)` is the identity); float arithmetic is read as exact rational arithmetic (the property excludes
the inputs where float32 rounding decides a level; the differential run checks exactly those exclusions); a float
literal is read in decimal (1e-3 = 1/1000).  `*_ok` collects `divisor <> 0` for every division on an evaluated path.
Proofs/QuantGen.v proves the generated functions equal to the hand-written model (Model/Quant.v) and the divisions defined.

  qtz_bias.py: QuantizeBiasSTE.forward (the masked division: pattern-matched, the divided expression translated),
  RoundSTE.forward, QuantizerBias.forward / scale   -> bq_gen sb b deq   (+ bq_ok)

Fail closed: Reject on anything outside the subset below.
"""
import ast
import os
from fractions import Fraction


class Reject(Exception):
    pass


def _d(n):
    return ast.dump(n)[:220]


def conj(*xs):
    xs = [x for x in xs if x != 'true']
    if not xs:
        return 'true'
    out = xs[0]
    for x in xs[1:]:
        out = '(%s && %s)' % (out, x)
    return out


def _torch(n, names):
    return isinstance(n, ast.Call) and isinstance(n.func, ast.Attribute) and isinstance(n.func.value, ast.Name) and n.func.value.id == 'torch' and n.func.attr in names


def iexpr(n, env):
    """integer expression over the precision -> Z term"""
    if isinstance(n, ast.Constant) and isinstance(n.value, int) and not isinstance(n.value, bool):
        return '%d' % n.value if n.value >= 0 else '(%d)' % n.value
    if isinstance(n, ast.Name) and env.get(n.id) == '#p':
        return '(Z.of_nat p)'
    if isinstance(n, ast.Attribute) and isinstance(n.value, ast.Name) and n.value.id == 'self' and env.get('self.' + n.attr) == '#p':
        return '(Z.of_nat p)'
    if isinstance(n, ast.BinOp) and isinstance(n.op, (ast.Add, ast.Sub)):
        return '(%s %s %s)' % (iexpr(n.left, env), '+' if isinstance(n.op, ast.Add) else '-', iexpr(n.right, env))
    raise Reject('integer expression ' + _d(n))


def lit(v):
    if isinstance(v, bool) or not isinstance(v, (int, float)):
        raise Reject('constant %r' % (v,))
    f = Fraction(repr(v)) if isinstance(v, float) else Fraction(v)       # decimal reading of a float literal
    return '%d' % f.numerator if f.denominator == 1 and f >= 0 else '(%d # %d)' % (f.numerator, f.denominator)


def expr(n, env):
    """-> (Q term, definedness term)"""
    if isinstance(n, ast.Constant):
        return lit(n.value), 'true'
    if isinstance(n, ast.Name):
        v = env.get(n.id)
        if v is None or v.startswith('#'):
            raise Reject('name %s is not a rational here' % n.id)
        return v, 'true'
    if isinstance(n, ast.Attribute) and isinstance(n.value, ast.Name) and n.value.id == 'self':
        v = env.get('self.' + n.attr)
        if v is None or v.startswith('#'):
            raise Reject('self.%s is not a rational here' % n.attr)
        return v, 'true'
    # clip_val.data[0] / self.clip_val.data[0] : the scalar clipping value
    if isinstance(n, ast.Subscript) and isinstance(n.slice, ast.Constant) and n.slice.value == 0 and isinstance(n.value, ast.Attribute) and n.value.attr == 'data':
        return expr(n.value.value, env)
    if isinstance(n, ast.BinOp) and isinstance(n.op, ast.Pow) and isinstance(n.left, ast.Constant) and n.left.value == 2:
        return '(inject_Z (2 ^ %s))' % iexpr(n.right, env), 'true'
    if isinstance(n, ast.BinOp) and isinstance(n.op, (ast.Add, ast.Sub, ast.Mult, ast.Div)):
        (a, oa), (b, ob) = expr(n.left, env), expr(n.right, env)
        if isinstance(n.op, ast.Div):
            return '(%s / %s)' % (a, b), conj(oa, ob, '(negb (Qeq_bool %s 0))' % b)
        return '(%s %s %s)' % (a, {ast.Add: '+', ast.Sub: '-', ast.Mult: '*'}[type(n.op)], b), conj(oa, ob)
    if isinstance(n, ast.UnaryOp) and isinstance(n.op, ast.USub):
        a, oa = expr(n.operand, env)
        return '(- %s)' % a, oa
    if _torch(n, ('clamp', 'clip')):
        args = list(n.args)
        kw = {k.arg: k.value for k in n.keywords}
        if not args or len(args) > 3 or set(kw) - {'min', 'max'}:
            raise Reject('clamp ' + _d(n))
        a, oa = expr(args[0], env)
        lo = args[1] if len(args) > 1 else kw.get('min')
        hi = args[2] if len(args) > 2 else kw.get('max')
        if lo is not None:
            b, ob = expr(lo, env)
            a, oa = '(qmax %s %s)' % (a, b), conj(oa, ob)
        if hi is not None:
            b, ob = expr(hi, env)
            a, oa = '(qmin %s %s)' % (a, b), conj(oa, ob)
        return a, oa
    if _torch(n, ('floor',)) and len(n.args) == 1 and not n.keywords:
        a, oa = expr(n.args[0], env)
        return '(inject_Z (Qfloor %s))' % a, oa
    if _torch(n, ('round',)) and len(n.args) == 1 and not n.keywords:
        a, oa = expr(n.args[0], env)
        return '(inject_Z (rne %s))' % a, oa                       # torch.round: half to even
    if _torch(n, ('zeros',)):
        return '0', 'true'
    # X.view(shape): per-channel value seen from one element
    if isinstance(n, ast.Call) and isinstance(n.func, ast.Attribute) and n.func.attr == 'view' and len(n.args) == 1 and isinstance(n.args[0], ast.Name) and n.args[0].id == 'shape':
        return expr(n.func.value, env)
    raise Reject('expression ' + _d(n))


def btest(n, env):
    """statement-level test -> bool term"""
    if isinstance(n, ast.Name) and env.get(n.id) == '#deq':
        return 'deq'
    if isinstance(n, ast.Attribute) and isinstance(n.value, ast.Name) and n.value.id == 'self' and env.get('self.' + n.attr) == '#deq':
        return 'deq'
    if isinstance(n, ast.Compare) and len(n.ops) == 1 and isinstance(n.comparators[0], ast.Constant) and n.comparators[0].value == 0:
        try:
            i = iexpr(n.left, env)
        except Reject:
            i = None
        if i == '(Z.of_nat p)':
            if isinstance(n.ops[0], ast.NotEq):
                return '(negb (Nat.eqb p 0))'
            if isinstance(n.ops[0], ast.Eq):
                return '(Nat.eqb p 0)'
    raise Reject('test ' + _d(n))


def _strip(stmts):
    return [s for s in stmts if not (isinstance(s, ast.Expr) and isinstance(s.value, ast.Constant) and isinstance(s.value.value, str))]


def assigned(stmts):
    out = []
    for s in stmts:
        if isinstance(s, ast.Assign) and len(s.targets) == 1 and isinstance(s.targets[0], ast.Name):
            out.append(s.targets[0].id)
        elif isinstance(s, ast.If):
            out += assigned(s.body) + assigned(s.orelse)
        elif isinstance(s, ast.Expr) and isinstance(s.value, ast.Call) and isinstance(s.value.func, ast.Attribute) and s.value.func.attr == 'masked_fill_' \
                and isinstance(s.value.func.value, ast.Name):
            out.append(s.value.func.value.id)
    return out


def join_vars(ifstmt, rest, inner):
    """variables bound by the branches of an if that are read afterwards (inside a branch: all of them)"""
    vs = set(assigned(ifstmt.body) + assigned(ifstmt.orelse)) - {'shape'}
    if not inner:
        used = {x.id for r in rest for x in ast.walk(r) if isinstance(x, ast.Name) and isinstance(x.ctx, ast.Load)}
        vs &= used
    if not vs:
        raise Reject('an if statement binds nothing that is used afterwards')
    return sorted(vs)


def block(stmts, env, result, ind=1):
    """statements -> lets text; a function body ends with `return e` (result not None), a branch just binds variables"""
    pad = '  ' * ind
    val = ''
    env = dict(env)
    stmts = _strip(stmts)
    for k, s in enumerate(stmts):
        if isinstance(s, ast.Expr) and isinstance(s.value, ast.Call) and isinstance(s.value.func, ast.Attribute):
            f = s.value.func
            if f.attr == 'save_for_backward' and isinstance(f.value, ast.Name) and f.value.id == 'ctx':
                continue
            # X.masked_fill_(X.eq(c), v)
            if f.attr == 'masked_fill_' and isinstance(f.value, ast.Name) and len(s.value.args) == 2 and isinstance(s.value.args[0], ast.Call) \
                    and isinstance(s.value.args[0].func, ast.Attribute) and s.value.args[0].func.attr == 'eq' and isinstance(s.value.args[0].func.value, ast.Name) \
                    and s.value.args[0].func.value.id == f.value.id and len(s.value.args[0].args) == 1:
                x = f.value.id
                xv, _ = expr(ast.Name(id=x, ctx=ast.Load()), env)
                c, oc = expr(s.value.args[0].args[0], env)
                v, ov = expr(s.value.args[1], env)
                val += pad + 'let %s := (if Qeq_bool %s %s then %s else %s) in\n' % (x, xv, c, v, xv)
                env[x] = x
                continue
            raise Reject('statement ' + _d(s))
        if isinstance(s, ast.Assign) and len(s.targets) == 1 and isinstance(s.targets[0], ast.Name):
            nm = s.targets[0].id
            if nm == 'shape':
                continue                                              # only used by .view(shape)
            if nm in ('p', 'deq', 'x', 'clip', 'ch_min', 'ch_max'):
                raise Reject('re-binding of ' + nm)
            v, o = expr(s.value, env)
            val += pad + 'let %s := %s in\n' % (nm, v)
            env[nm] = nm
            continue
        if isinstance(s, ast.If):
            c = btest(s.test, env)
            vs = join_vars(s, stmts[k + 1:], result is None)
            for v in vs:
                if v not in env and not (v in assigned(s.body) and v in assigned(s.orelse)):
                    raise Reject('variable %s is assigned in one branch only and undefined before' % v)
            tup = '(%s)' % ', '.join(vs) if len(vs) > 1 else vs[0]
            pat = "'%s" % tup if len(vs) > 1 else tup
            va, vb = block(s.body, env, None, ind + 1), block(s.orelse, env, None, ind + 1)
            val += pad + 'let %s := (if %s then\n%s%s  %s\n%selse\n%s%s  %s) in\n' % (pat, c, va, pad, tup, pad, vb, pad, tup)
            for v in vs:
                env[v] = v
            continue
        if isinstance(s, ast.Return):
            if result is None:
                raise Reject('return inside a branch')
            v, o = expr(s.value, env)
            val += pad + v
            return val
        raise Reject('statement ' + _d(s))
    if result is not None:
        raise Reject('function does not end with a return')
    return val


def fn_def(name, params, stmts, env):
    val = block(stmts, env, 'ret')
    okbody = okwalk(_strip(stmts), env)
    return ('Definition %s %s : Q :=\n%s.\nDefinition %s %s : bool :=\n%s.\n' % (name, params, val, name.replace('_gen', '') + '_ok' if name.endswith('_gen') else name + '_ok', params, okbody))


def okwalk(stmts, env, ind=1, inner=False):
    """definedness of a statement list, as lets (same bindings as the value) ending in a conjunction"""
    pad = '  ' * ind
    env = dict(env)
    out, terms = '', []
    for k, s in enumerate(stmts):
        if isinstance(s, ast.Expr) and isinstance(s.value, ast.Call) and isinstance(s.value.func, ast.Attribute):
            f = s.value.func
            if f.attr == 'save_for_backward':
                continue
            x = f.value.id
            xv, _ = expr(ast.Name(id=x, ctx=ast.Load()), env)
            c, oc = expr(s.value.args[0].args[0], env)
            v, ov = expr(s.value.args[1], env)
            out += pad + 'let %s := (if Qeq_bool %s %s then %s else %s) in\n' % (x, xv, c, v, xv)
            terms += [oc, ov]
            env[x] = x
            continue
        if isinstance(s, ast.Assign):
            nm = s.targets[0].id
            if nm == 'shape':
                continue
            v, o = expr(s.value, env)
            terms.append(o)
            out += pad + 'let %s := %s in\n' % (nm, v)
            env[nm] = nm
            continue
        if isinstance(s, ast.If):
            c = btest(s.test, env)
            vs = join_vars(s, stmts[k + 1:], inner)
            tup = '(%s)' % ', '.join(vs) if len(vs) > 1 else vs[0]
            pat = "'%s" % tup if len(vs) > 1 else tup
            va, vb = block(s.body, env, None, ind + 1), block(s.orelse, env, None, ind + 1)
            oa, ob = okwalk(_strip(s.body), env, ind + 1, True), okwalk(_strip(s.orelse), env, ind + 1, True)
            terms.append('(if %s then\n%s\n%selse\n%s)' % (c, oa, pad, ob))
            out += pad + 'let %s := (if %s then\n%s%s  %s\n%selse\n%s%s  %s) in\n' % (pat, c, va, pad, tup, pad, vb, pad, tup)
            for v in vs:
                env[v] = v
            continue
        if isinstance(s, ast.Return):
            _, o = expr(s.value, env)
            terms.append(o)
            continue
    return out + pad + conj(*terms)


# --------------------------------------------------------------------------------------------- structural checks
def _find(tree, cls, fn=None):
    for n in tree.body:
        if isinstance(n, ast.ClassDef) and n.name == cls:
            if fn is None:
                return n
            for m in n.body:
                if isinstance(m, ast.FunctionDef) and m.name == fn:
                    return m
        if cls is None and isinstance(n, ast.FunctionDef) and n.name == fn:
            return n
    raise Reject('%s.%s not found' % (cls, fn))


def _args(fn):
    return [a.arg for a in fn.args.args]


def check_apply(fn, ste, expected):
    """forward(self, input) must be `input_q = STE.apply(<expected args>); return input_q` (or a direct return)"""
    body = _strip(fn.body)
    body = [s for s in body if not (isinstance(s, ast.Assign) and isinstance(s.targets[0], ast.Tuple) and _d(s.value).find('compute_min_max') >= 0)]
    call = None
    if len(body) == 1 and isinstance(body[0], ast.Return):
        call = body[0].value
    elif len(body) == 2 and isinstance(body[0], ast.Assign) and isinstance(body[1], ast.Return) and isinstance(body[1].value, ast.Name) \
            and isinstance(body[0].targets[0], ast.Name) and body[0].targets[0].id == body[1].value.id:
        call = body[0].value
    if call is None or not (isinstance(call, ast.Call) and isinstance(call.func, ast.Attribute) and call.func.attr == 'apply' and not call.keywords):
        raise Reject('%s: not a single STE.apply call' % fn.name)
    f = call.func.value
    fname = f.id if isinstance(f, ast.Name) else ('self.' + f.attr if isinstance(f, ast.Attribute) else None)
    if fname not in ste:
        raise Reject('forward applies %s' % fname)
    got = [ast.unparse(a) for a in call.args]
    if got != expected:
        raise Reject('forward hands %s to the STE function, expected %s' % (got, expected))


def translate_pact(src):
    tree = ast.parse(src)
    ste = _find(tree, 'PACTActSTE', 'forward')
    if _args(ste) != ['ctx', 'input', 'precision', 'clip_val', 'dequantize']:
        raise Reject('PACTActSTE.forward signature %s' % _args(ste))
    env = {'input': 'x', 'precision': '#p', 'clip_val': 'clip', 'dequantize': '#deq'}
    out = fn_def('aq_gen', '(p : nat) (clip x : Q) (deq : bool)', ste.body, env)
    check_apply(_find(tree, 'PACTAct', 'forward'), {'PACTActSTE'}, ['input', 'self.precision', 'self.clip_val', 'self.dequantize'])
    sc = _find(tree, 'PACTAct', 'scale')
    if not any(isinstance(d, ast.Name) and d.id == 'property' for d in sc.decorator_list):
        raise Reject('PACTAct.scale is not a property')
    out += fn_def('aq_scale_gen', '(p : nat) (clip : Q)', sc.body, {'self.precision': '#p', 'self.clip_val': 'clip'})
    init = _find(tree, 'PACTAct', '__init__')
    for s in _strip(init.body):
        if isinstance(s, ast.Expr) and isinstance(s.value, ast.Call) and 'super' in _d(s.value):
            continue
        if ast.unparse(s) == 'self.clip_val = nn.Parameter(torch.Tensor([init_clip_val]), requires_grad=True)':
            continue
        raise Reject('PACTAct.__init__: statement not in the subset: ' + ast.unparse(s)[:120])
    return out


def translate_minmax(src):
    tree = ast.parse(src)
    q = _find(tree, None, '_min_max_quantize')
    if _args(q) != ['x', 'ch_min', 'ch_max', 'precision', 'dequantize']:
        raise Reject('_min_max_quantize signature %s' % _args(q))
    env = {'x': 'x', 'ch_min': 'ch_min', 'ch_max': 'ch_max', 'precision': '#p', 'dequantize': '#deq'}
    out = fn_def('wq_gen', '(p : nat) (ch_min ch_max x : Q) (deq : bool)', q.body, env)
    for cls in ('MinMaxSymSTE', 'MinMaxAsymSTE'):
        f = _find(tree, cls, 'forward')
        b = _strip(f.body)
        if _args(f) != ['ctx', 'x', 'ch_min', 'ch_max', 'precision', 'dequantize'] or len(b) != 1 or not isinstance(b[0], ast.Return) \
                or ast.unparse(b[0].value) != '_min_max_quantize(x, ch_min, ch_max, precision, dequantize)':
            raise Reject('%s.forward is not `return _min_max_quantize(x, ch_min, ch_max, precision, dequantize)`' % cls)
    sc = _find(tree, 'MinMaxWeight', 'scale')
    out += fn_def('wq_scale_gen', '(p : nat) (ch_min ch_max : Q)', sc.body, {'self.precision': '#p', 'self.ch_min': 'ch_min', 'self.ch_max': 'ch_max'})
    fw = _find(tree, 'MinMaxWeight', 'forward')
    b = _strip(fw.body)
    if len(b) != 3 or ast.unparse(b[0]) != 'self.ch_min, self.ch_max = self.compute_min_max(input.detach())':
        raise Reject('MinMaxWeight.forward does not recompute the channel ranges from its input first')
    check_apply(ast.FunctionDef(name='forward', args=fw.args, body=b[1:], decorator_list=[]), {'self.qtz_func'},
                ['input', 'self.ch_min', 'self.ch_max', 'self.precision', 'self.dequantize'])
    sym = _find(tree, 'MinMaxWeight', '_compute_min_max_sym')
    want = ['ch_max, _ = input.view(input.size(0), -1).abs().max(1)', 'ch_min = -1 * ch_max', 'return (ch_min, ch_max)']
    if [ast.unparse(s) for s in _strip(sym.body)] != want:
        raise Reject('MinMaxWeight._compute_min_max_sym: %s' % [ast.unparse(s) for s in _strip(sym.body)])
    return out


def translate_bias(src):
    """qtz_bias.py: QuantizeBiasSTE.forward (masked division), RoundSTE.forward, QuantizerBias.forward / scale"""
    tree = ast.parse(src)
    ste = _find(tree, 'QuantizeBiasSTE', 'forward')
    b = _strip(ste.body)
    if _args(ste) != ['ctx', 'input', 's_b'] or len(b) != 4:
        raise Reject('QuantizeBiasSTE.forward: signature / number of statements')
    # mask = ~s_b.isclose(torch.zeros(1, device=...))  : |s_b| <= atol = 1e-8 counts as zero (rtol * |0| = 0)
    if ast.unparse(b[0]) != 'mask = ~s_b.isclose(torch.zeros(1, device=input.device))':
        raise Reject('QuantizeBiasSTE.forward: mask is not `~s_b.isclose(zeros)` with the default tolerances: ' + ast.unparse(b[0]))
    if ast.unparse(b[1]) != 'scaled_inp = torch.zeros(input.shape, device=input.device)' or ast.unparse(b[3]) != 'return scaled_inp':
        raise Reject('QuantizeBiasSTE.forward: the unmasked elements are not zero')
    st = b[2]
    if not (isinstance(st, ast.Assign) and ast.unparse(st.targets[0]) == 'scaled_inp[mask]'):
        raise Reject('QuantizeBiasSTE.forward: ' + ast.unparse(st))

    class _M(ast.NodeTransformer):          # t[mask] -> t (one selected element)
        def visit_Subscript(self, n):
            if isinstance(n.slice, ast.Name) and n.slice.id == 'mask' and isinstance(n.value, ast.Name):
                return n.value
            return self.generic_visit(n)
    v, o = expr(_M().visit(st.value), {'input': 'b', 's_b': 'sb'})
    rs = _find(tree, 'RoundSTE', 'forward')
    if [ast.unparse(x) for x in _strip(rs.body)] != ['return torch.round(x)']:
        raise Reject('RoundSTE.forward is not torch.round')
    fw = _find(tree, 'QuantizerBias', 'forward')
    fb = [ast.unparse(x) for x in _strip(fw.body)]
    if _args(fw) != ['self', 'input', 's_a', 's_w'] or fb[:3] != ['self._scale = s_a * s_w', 'scaled_inp = QuantizeBiasSTE.apply(input, self.scale)', 'output = RoundSTE.apply(scaled_inp)']:
        raise Reject('QuantizerBias.forward: %s' % fb[:3])
    sc = _find(tree, 'QuantizerBias', 'scale')
    if [ast.unparse(x) for x in _strip(sc.body)] != ['return self._scale']:
        raise Reject('QuantizerBias.scale does not return the product of the two scales')
    rest = _strip(fw.body)[3:]
    env = {'output': 'output', 'self.scale': 'sb', 'self.dequantize': '#deq'}
    val = block(rest, env, 'ret')
    okb = okwalk(rest, env)
    pre = "  let scaled_inp := (if Qle_bool (qabs sb) (1 # 100000000) then 0 else %s) in\n  let output := (inject_Z (rne scaled_inp)) in\n" % v
    return ('Definition bq_gen (sb b : Q) (deq : bool) : Q :=\n' + pre + val + '.\n'
            'Definition bq_ok (sb b : Q) (deq : bool) : bool :=\n' + pre + '  ((if Qle_bool (qabs sb) (1 # 100000000) then true else %s) && %s).\n' % (o, okb.strip()))


HEADER = '''(* GENERATED by translator/quant2coq.py from plinio/methods/mps/quant/quantizers/{pact_act,minmax_weight}.py of the
   tree under test -- do not edit.  One tensor element at a time, exact rational arithmetic, with definedness predicates. *)
From Coq Require Import QArith Qround ZArith List Bool.
Import ListNotations.
Require Import Plinio.Base.Qx Plinio.Base.Round.
Local Open Scope Q_scope.

'''
FOOTER = '''
(* correspondence helpers (same shape as run_aq / run_wq of Model/Quant.v; the channel range is the symmetric one) *)
Definition gen_chan_max (xs : list Q) : Q := fold_left (fun a x => qmax a (qabs x)) xs 0.
Definition run_aq_gen (p : nat) (clip : Q) (xs : list Q) : list Z * (Z * Z) :=
  (map (fun x => Qfloor (aq_gen p clip x false)) xs, qpair (aq_scale_gen p clip)).
Definition run_bq_gen (sb : Q) (bs : list Q) : list Z := map (fun b => Qfloor (bq_gen sb b false)) bs.
Definition run_wq_gen (p : nat) (xs : list Q) : list Z * (Z * Z) :=
  let m := gen_chan_max xs in (map (fun x => Qfloor (wq_gen p (- m) m x false)) xs, qpair (wq_scale_gen p (- m) m)).
'''


def translate_repo(repo):
    d = os.path.join(repo, 'plinio', 'methods', 'mps', 'quant', 'quantizers')
    return HEADER + translate_pact(open(os.path.join(d, 'pact_act.py')).read()) + '\n' + translate_minmax(open(os.path.join(d, 'minmax_weight.py')).read()) + '\n' + translate_bias(open(os.path.join(d, 'qtz_bias.py')).read()) + FOOTER


if __name__ == '__main__':
    import sys
    print(translate_repo(sys.argv[1] if len(sys.argv) > 1 else '/repo'))
