(* Model of plinio/methods/supernet  (C03 export, C06 cost).
   supernet.py  SuperNet._get_single_cost / export ;  nn/combiner.py  SuperNetCombiner.forward / get_cost /
   best_layer_index / sample_alpha_sm (hard) ;  graph.py  export_graph / link_combiners_to_branches.

   IR.  A network is a chain of nodes: fixed layers and choice blocks (SuperNetModule).  A leaf layer is a
   named nn.Module (Mod id: id indexes the table of qualified names kept by the harness) or a functional op
   (Fn code: F.relu, +, neg -- a call_function node of the fx graph, it has no qualified name and no cost).
   A branch is the sequence of leaf layers the tracer sees (nn.Sequential and user blocks are traced through).
   A block is identified by its name `bid`; the same block may occur several times in the chain (the
   SuperNetModule is invoked several times in forward): same branches, same combiner, same coefficients.

   The torch.fx surgery of export_graph (replace_all_uses_with / erase_node / eliminate_dead_code /
   delete_all_unused_submodules) is abstracted to its effect on this chain; the correspondence run compares
   the effect (node sequence of the exported graph, module tree, outputs) on every case.  *)
From Coq Require Import QArith List ZArith Bool Arith.
Import ListNotations.
Require Import Plinio.Base.Qx.

Inductive layer := Mod (id : Z) | Fn (code : Z).
Definition branch := list layer.
Inductive node := NFixed (l : layer) | NChoice (bid : Z) (brs : list branch).
Definition net := list node.

Definition layer_eqb (a b : layer) : bool :=
  match a, b with Mod x, Mod y => Z.eqb x y | Fn x, Fn y => Z.eqb x y | _, _ => false end.

(* ------------------------------------------------------------------ selection coefficients *)
(* torch.argmax: index of the FIRST maximal value.  argmax_from cur curv i xs: best index so far *)
Fixpoint argmax_from (best : nat) (bv : Q) (i : nat) (xs : list Q) : nat :=
  match xs with
  | [] => best
  | x :: r => if qlt_bool bv x then argmax_from i x (S i) r else argmax_from best bv (S i) r
  end.
Definition argmax (xs : list Q) : nat :=
  match xs with [] => 0%nat | x :: r => argmax_from 0 x 1 r end.

Definition zeros (n : nat) : list Q := repeat 0 n.
Fixpoint one_hot (k n : nat) : list Q :=
  match n with
  | O => []
  | S n' => match k with O => 1 :: zeros n' | S k' => 0 :: one_hot k' n' end
  end.

(* SuperNetCombiner.best_layer_index: argmax of the raw alpha ;
   sample_alpha_sm with hard_softmax: one_hot(argmax(softmax(alpha/T))) -- softmax is order preserving, so
   (outside float ties, which the harness avoids by keeping the alphas 1/16 apart) this is one_hot(argmax alpha) *)
Definition best_layer_index (alpha : list Q) : nat := argmax alpha.
Definition hard_theta (alpha : list Q) : list Q := one_hot (argmax alpha) (length alpha).

(* ------------------------------------------------------------------ evaluation (generic in the tensor type) *)
Section Eval.
  Context {T : Type}.
  Variable apply : layer -> T -> T.           (* semantics of a leaf layer *)
  Variable mix : list Q -> list T -> T.       (* SuperNetCombiner.forward: stack([theta_i * y_i]).sum(0) *)

  Definition run_branch (b : branch) (x : T) : T := fold_left (fun v l => apply l v) b x.

  Definition eval_node (theta : Z -> list Q) (n : node) (x : T) : T :=
    match n with
    | NFixed l => apply l x
    | NChoice b brs => mix (theta b) (map (fun br => run_branch br x) brs)
    end.

  (* SuperNet.forward = seed.forward *)
  Definition sn_eval (theta : Z -> list Q) (nt : net) (x : T) : T :=
    fold_left (fun v n => eval_node theta n v) nt x.
End Eval.

(* tensors for the theorems: a map from the flat element index to a rational; the combiner is the
   coefficient-weighted pointwise sum *)
Definition tensor := nat -> Q.
Fixpoint qmix (th : list Q) (ys : list tensor) : tensor :=
  match th, ys with
  | t :: th', y :: ys' => fun i => t * y i + qmix th' ys' i
  | _, _ => fun _ => 0
  end.

(* ------------------------------------------------------------------ export *)
(* decimal prefix test of the pinned upstream code:  'sn_branches.<w>' in str(target)  is true for the
   branch j whenever the decimal numeral of j starts with the numeral of w (1 vs 10, 11, 12) *)
Fixpoint dec_prefix_fuel (fuel w j : nat) : bool :=
  if Nat.eqb j w then true else
  match fuel with
  | O => false
  | S f => if Nat.ltb j 10 then false else dec_prefix_fuel f w (Nat.div j 10)
  end.
Definition dec_prefix (w j : nat) : bool := dec_prefix_fuel j w j.

Definition ends_in_module (b : branch) : bool :=
  match rev b with Mod _ :: _ => true | _ => false end.

(* upstream: the combiner is replaced by the FIRST input whose target name contains 'sn_branches.<w>'
   (only call_module nodes have such a name); no such input -> erase_node raises *)
Fixpoint legacy_pick (w j : nat) (brs : list branch) : option branch :=
  match brs with
  | [] => None
  | b :: r => if dec_prefix w j && ends_in_module b then Some b else legacy_pick w (S j) r
  end.

(* repaired code: the combiner is replaced by its input at position w *)
Definition pick (legacy : bool) (w : nat) (brs : list branch) : option branch :=
  if legacy then (if Nat.ltb w (length brs) then legacy_pick w 0 brs else None) else nth_error brs w.

Definition export_node (legacy : bool) (win : Z -> nat) (n : node) : option (list node) :=
  match n with
  | NFixed l => Some [NFixed l]
  | NChoice b brs => option_map (map NFixed) (pick legacy (win b) brs)
  end.

(* None = export() raises *)
Fixpoint sn_export_gen (legacy : bool) (win : Z -> nat) (nt : net) : option net :=
  match nt with
  | [] => Some []
  | n :: r => match export_node legacy win n, sn_export_gen legacy win r with
              | Some a, Some b => Some (a ++ b)
              | _, _ => None
              end
  end.
Definition sn_export := sn_export_gen false.
Definition sn_export_legacy := sn_export_gen true.

(* qualified names of the leaf modules of a network, in execution order / as the set of the module tree *)
Definition branch_mods (b : branch) : list Z :=
  flat_map (fun l => match l with Mod i => [i] | Fn _ => [] end) b.
Definition node_mods (n : node) : list Z :=
  match n with NFixed l => branch_mods [l] | NChoice _ brs => flat_map branch_mods brs end.
Definition net_mods (nt : net) : list Z := flat_map node_mods nt.
Definition fixed_layers (nt : net) : list layer :=
  flat_map (fun n => match n with NFixed l => [l] | NChoice _ _ => [] end) nt.
Definition is_plain (nt : net) : bool := forallb (fun n => match n with NFixed _ => true | _ => false end) nt.

(* ------------------------------------------------------------------ cost *)
Fixpoint zmem (x : Z) (l : list Z) : bool :=
  match l with [] => false | y :: r => Z.eqb x y || zmem x r end.
(* uniquify_leaf_modules: keep the first occurrence of every name *)
Fixpoint zuniq_acc (seen : list Z) (l : list Z) : list Z :=
  match l with
  | [] => []
  | x :: r => if zmem x seen then zuniq_acc seen r else x :: zuniq_acc (x :: seen) r
  end.
Definition zuniq := zuniq_acc [].

Fixpoint qsum (l : list Q) : Q := match l with [] => 0 | x :: r => x + qsum r end.
Fixpoint dot (th cs : list Q) : Q :=
  match th, cs with t :: th', c :: cs' => c * t + dot th' cs' | _, _ => 0 end.

Section Cost.
  (* cost_fn_map[name](vars(layer) + output shape): the value of the CostSpec's function for the leaf module
     `id` evaluated at the call site `site` (0 = first time the module is reached in forward) *)
  Variable cost : Z -> nat -> Q.

  (* SuperNetCombiner.get_cost: the unique leaf modules of every branch, each with the node (shape) of its
     FIRST call site, weighted by the sampled coefficient *)
  Definition branch_cost (b : branch) : Q := qsum (map (fun i => cost i 0) (zuniq (branch_mods b))).
  Definition block_cost (th : list Q) (brs : list branch) : Q := dot th (map branch_cost brs).

  (* one entry of SuperNet._leaf_modules: a combiner, or a layer outside the blocks (counted with full_cost).
     Layers inside branches are skipped at this level ('sn_branches' in the name). *)
  Inductive entry := ECombiner (bid : Z) (brs : list branch) | ELayer (id : Z) (site : nat).

  Definition count_before (x : Z) (l : list Z) : nat := length (filter (Z.eqb x) l).

  (* _leaf_modules in graph order (call sites); fixed functional ops are not modules *)
  Fixpoint entries_from (seen : list Z) (nt : net) : list entry :=
    match nt with
    | [] => []
    | NFixed (Mod i) :: r => ELayer i (count_before i seen) :: entries_from (i :: seen) r
    | NFixed (Fn _) :: r => entries_from seen r
    | NChoice b brs :: r => ECombiner b brs :: entries_from seen r
    end.
  Definition entries := entries_from [].

  Definition entry_key (e : entry) : Z * bool := match e with ECombiner b _ => (b, true) | ELayer i _ => (i, false) end.
  Definition key_eqb (a b : Z * bool) : bool := Z.eqb (fst a) (fst b) && Bool.eqb (snd a) (snd b).
  Fixpoint kmem (k : Z * bool) (l : list (Z * bool)) : bool :=
    match l with [] => false | y :: r => key_eqb k y || kmem k r end.
  Fixpoint euniq_acc (seen : list (Z * bool)) (l : list entry) : list entry :=
    match l with
    | [] => []
    | e :: r => if kmem (entry_key e) seen then euniq_acc seen r else e :: euniq_acc (entry_key e :: seen) r
    end.
  (* _unique_leaf_modules *)
  Definition euniq := euniq_acc [].

  Definition entry_cost (full : bool) (theta : Z -> list Q) (e : entry) : Q :=
    match e with
    | ECombiner b brs => block_cost (theta b) brs
    | ELayer i s => if full then cost i s else 0
    end.

  Definition target_list (shared : bool) (nt : net) : list entry :=
    if shared then euniq (entries nt) else entries nt.

  (* SuperNet._get_single_cost *)
  Definition sn_cost (shared full : bool) (theta : Z -> list Q) (nt : net) : Q :=
    qsum (map (entry_cost full theta) (target_list shared nt)).

  (* the same metric computed from scratch on a plain (exported) chain of layers: every leaf module at every
     call site (per-invocation metrics) or once, at its first call site (shared metrics).  `inb i` tells
     whether the qualified name of module i lies inside a choice block ('sn_branches' in the name): only those
     count without full_cost. *)
  Fixpoint calls_from (seen : list Z) (ls : list layer) : list (Z * nat) :=
    match ls with
    | [] => []
    | Mod i :: r => (i, count_before i seen) :: calls_from (i :: seen) r
    | Fn _ :: r => calls_from seen r
    end.
  Fixpoint cuniq_acc (seen : list Z) (l : list (Z * nat)) : list (Z * nat) :=
    match l with
    | [] => []
    | (i, s) :: r => if zmem i seen then cuniq_acc seen r else (i, s) :: cuniq_acc (i :: seen) r
    end.
  Definition call_cost (inb : Z -> bool) (full : bool) (c : Z * nat) : Q :=
    if inb (fst c) || full then cost (fst c) (snd c) else 0.
  Definition plain_cost (shared full : bool) (inb : Z -> bool) (ls : list layer) : Q :=
    let cs := calls_from [] ls in
    qsum (map (call_cost inb full) (if shared then cuniq_acc [] cs else cs)).
End Cost.

(* selections: cheapest / most expensive branch of a block *)
Fixpoint argbest (le : Q -> Q -> bool) (xs : list Q) : nat :=
  match xs with
  | [] => 0%nat
  | x :: r => match r with
              | [] => 0%nat
              | _ => let k := argbest le r in if le x (nth k r 0) then 0%nat else S k
              end
  end.
Definition argmin_q := argbest Qle_bool.
Definition argmax_q := argbest (fun a b => Qle_bool b a).

Fixpoint find_block (b : Z) (nt : net) : list branch :=
  match nt with
  | [] => []
  | NChoice b' brs :: r => if Z.eqb b b' then brs else find_block b r
  | _ :: r => find_block b r
  end.
Definition cheapest (cost : Z -> nat -> Q) (nt : net) (b : Z) : nat := argmin_q (map (branch_cost cost) (find_block b nt)).
Definition dearest (cost : Z -> nat -> Q) (nt : net) (b : Z) : nat := argmax_q (map (branch_cost cost) (find_block b nt)).
Definition hard_sel (nt : net) (win : Z -> nat) (b : Z) : list Q := one_hot (win b) (length (find_block b nt)).

(* ------------------------------------------------------------------ correspondence helpers *)
Definition lookup {A} (d : A) (tab : list (Z * A)) (k : Z) : A :=
  match find (fun p => Z.eqb (fst p) k) tab with Some p => snd p | None => d end.
Definition cost_of_table (tab : list (Z * list Q)) (i : Z) (s : nat) : Q := nth s (lookup [] tab i) 0.

Definition layer_code (l : layer) : Z * Z := match l with Mod i => (0%Z, i) | Fn c => (1%Z, c) end.
Definition net_codes (nt : net) : list (Z * Z) :=
  flat_map (fun n => match n with NFixed l => [layer_code l] | NChoice b _ => [(2%Z, b)] end) nt.

(* winners from the raw alphas, hard coefficients, exported chain (upstream and repaired), module set *)
Definition run_export (legacy : bool) (alphas : list (Z * list Q)) (nt : net)
  : list (Z * nat) * list (Z * list (Z * Z)) * option (list (Z * Z)) * option (list Z) :=
  let win := fun b => best_layer_index (lookup [] alphas b) in
  let e := sn_export_gen legacy win nt in
  (map (fun p => (fst p, win (fst p))) alphas,
   map (fun p => (fst p, map qpair (hard_theta (snd p)))) alphas,
   option_map net_codes e,
   option_map (fun x => zuniq (net_mods x)) e).

(* cost of the SuperNet for given sampled coefficients; cost of the exported network; cheapest / dearest selection *)
Definition run_cost (shared full : bool) (costs : list (Z * list Q)) (thetas : list (Z * list Q)) (nt : net)
  : (Z * Z) * (Z * Z) * (Z * Z) :=
  let c := cost_of_table costs in
  (qpair (sn_cost c shared full (lookup [] thetas) nt),
   qpair (sn_cost c shared full (hard_sel nt (cheapest c nt)) nt),
   qpair (sn_cost c shared full (hard_sel nt (dearest c nt)) nt)).

Definition block_mods (nt : net) : list Z :=
  flat_map (fun n => match n with NChoice _ brs => flat_map branch_mods brs | _ => [] end) nt.
Definition run_export_cost (shared full : bool) (costs : list (Z * list Q)) (alphas : list (Z * list Q)) (nt : net)
  : option ((Z * Z) * (Z * Z)) :=
  let c := cost_of_table costs in
  let win := fun b => best_layer_index (lookup [] alphas b) in
  let inb := fun i => zmem i (block_mods nt) in
  match sn_export win nt with
  | Some e => Some (qpair (plain_cost c shared full inb (fixed_layers e)), qpair (sn_cost c shared full (hard_sel nt win) nt))
  | None => None
  end.

(* ================================================================== generalised branch bodies
   A branch body is an expression over the input of the block: leaf layers applied to sub-expressions and BINARY
   functional ops (residual `x + body(x)`, add of two paths).  Unary functional ops stay `BApp (Fn c)`.  Bodies are
   trees: a sub-expression that contains modules is not shared (the generator only shares BIn).  Chain bodies
   (`list layer`) embed by `chain_body`.  A network is a chain of fixed layers, fixed bodies (what export leaves in
   place of a block) and choice blocks. *)
Inductive bexp := BIn | BApp (l : layer) (e : bexp) | BBin (op : Z) (e1 e2 : bexp).
Inductive gnode := GFixed (l : layer) | GBody (e : bexp) | GChoice (bid : Z) (brs : list bexp).
Definition gnet := list gnode.

Section GEval.
  Context {T : Type}.
  Variable apply : layer -> T -> T.
  Variable bin : Z -> T -> T -> T.            (* binary functional op (0 = add) *)
  Variable mix : list Q -> list T -> T.

  Fixpoint eval_body (e : bexp) (x : T) : T :=
    match e with
    | BIn => x
    | BApp l e' => apply l (eval_body e' x)
    | BBin op a b => bin op (eval_body a x) (eval_body b x)
    end.

  Definition g_eval_node (theta : Z -> list Q) (n : gnode) (x : T) : T :=
    match n with
    | GFixed l => apply l x
    | GBody e => eval_body e x
    | GChoice b brs => mix (theta b) (map (fun e => eval_body e x) brs)
    end.

  Definition g_eval (theta : Z -> list Q) (g : gnet) (x : T) : T :=
    fold_left (fun v n => g_eval_node theta n v) g x.
End GEval.

(* export: the combiner is replaced by the body of the winner (position-based, repaired code) *)
Definition g_export_node (win : Z -> nat) (n : gnode) : option (list gnode) :=
  match n with
  | GFixed l => Some [GFixed l]
  | GBody e => Some [GBody e]
  | GChoice b brs => option_map (fun e => [GBody e]) (nth_error brs (win b))
  end.
Fixpoint g_export (win : Z -> nat) (g : gnet) : option gnet :=
  match g with
  | [] => Some []
  | n :: r => match g_export_node win n, g_export win r with
              | Some a, Some b => Some (a ++ b)
              | _, _ => None
              end
  end.
Definition g_is_plain (g : gnet) : bool := forallb (fun n => match n with GChoice _ _ => false | _ => true end) g.

(* the leaf layers of a body in execution (trace) order; a binary op is a functional node Fn (100 + op) *)
Fixpoint body_layers (e : bexp) : list layer :=
  match e with
  | BIn => []
  | BApp l e' => body_layers e' ++ [l]
  | BBin op a b => body_layers a ++ body_layers b ++ [Fn (100 + op)]
  end.
(* what the name-based bookkeeping of the code sees: per block the leaf layers of every branch, per fixed body its layers *)
Definition g_flatten_node (n : gnode) : list node :=
  match n with
  | GFixed l => [NFixed l]
  | GBody e => map NFixed (body_layers e)
  | GChoice b brs => [NChoice b (map body_layers brs)]
  end.
Definition g_flatten (g : gnet) : net := flat_map g_flatten_node g.

Definition g_mods (g : gnet) : list Z := net_mods (g_flatten g).
(* SuperNet._get_single_cost depends on the leaf modules only *)
Definition g_cost (cost : Z -> nat -> Q) (shared full : bool) (theta : Z -> list Q) (g : gnet) : Q :=
  sn_cost cost shared full theta (g_flatten g).
Definition g_plain_cost (cost : Z -> nat -> Q) (shared full : bool) (inb : Z -> bool) (g : gnet) : Q :=
  plain_cost cost shared full inb (fixed_layers (g_flatten g)).

(* chain bodies *)
Definition chain_body (b : branch) : bexp := fold_left (fun e l => BApp l e) b BIn.
Definition embed_node (n : node) : gnode :=
  match n with NFixed l => GFixed l | NChoice b brs => GChoice b (map chain_body brs) end.
Definition embed (nt : net) : gnet := map embed_node nt.

(* correspondence helper: winners, hard coefficients, exported network (structured), module set *)
Definition run_gexport (alphas : list (Z * list Q)) (g : gnet)
  : list (Z * nat) * list (Z * list (Z * Z)) * option gnet * option (list Z) :=
  let win := fun b => best_layer_index (lookup [] alphas b) in
  let e := g_export win g in
  (map (fun p => (fst p, win (fst p))) alphas,
   map (fun p => (fst p, map qpair (hard_theta (snd p)))) alphas,
   e,
   option_map (fun x => zuniq (g_mods x)) e).
