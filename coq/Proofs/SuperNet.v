From Coq Require Import QArith List ZArith Bool Arith Lia Lqa.
Import ListNotations.
Require Import Plinio.Base.Qx Plinio.Model.SuperNet.

(* ============================================================ C03 *)
Definition teq (x y : tensor) : Prop := forall i, x i == y i.

Lemma teq_refl x : teq x x. Proof. intro; reflexivity. Qed.
Lemma teq_trans x y z : teq x y -> teq y z -> teq x z. Proof. intros H1 H2 i; rewrite (H1 i); apply H2. Qed.
Lemma teq_sym x y : teq x y -> teq y x. Proof. intros H i; symmetry; apply H. Qed.

Lemma qmix_zeros : forall n ys i, qmix (zeros n) ys i == 0.
Proof. induction n; intros [|y ys] i; cbn; try reflexivity. rewrite IHn. ring. Qed.

Lemma qmix_one_hot : forall ys k y, nth_error ys k = Some y -> teq (qmix (one_hot k (length ys)) ys) y.
Proof.
  induction ys as [|y0 ys IH]; intros [|k] y H i; cbn in *; try discriminate.
  - injection H as <-. rewrite qmix_zeros. ring.
  - rewrite (IH _ _ H i). ring.
Qed.

Lemma qmix_ext : forall th ys ys', Forall2 teq ys ys' -> teq (qmix th ys) (qmix th ys').
Proof.
  induction th as [|t th IH]; intros ys ys' H i; destruct H; cbn; try reflexivity.
  rewrite (H i), (IH _ _ H0 i). reflexivity.
Qed.

Section C03.
  Variable apply : layer -> tensor -> tensor.
  Hypothesis apply_ext : forall l x y, teq x y -> teq (apply l x) (apply l y).

  Lemma run_branch_ext : forall b x y, teq x y -> teq (run_branch apply b x) (run_branch apply b y).
  Proof. induction b; intros x y H; cbn; [exact H|]. apply IHb, apply_ext, H. Qed.

  Lemma eval_node_ext : forall th n x y, teq x y -> teq (eval_node apply qmix th n x) (eval_node apply qmix th n y).
  Proof.
    intros th [l|b brs] x y H; cbn; [apply apply_ext, H|]. apply qmix_ext.
    induction brs; cbn; constructor; [apply run_branch_ext, H|exact IHbrs].
  Qed.

  Lemma sn_eval_ext : forall th nt x y, teq x y -> teq (sn_eval apply qmix th nt x) (sn_eval apply qmix th nt y).
  Proof. induction nt; intros x y H; cbn; [exact H|]. apply IHnt, eval_node_ext, H. Qed.

  Lemma sn_eval_app : forall th a b x, sn_eval apply qmix th (a ++ b) x = sn_eval apply qmix th b (sn_eval apply qmix th a x).
  Proof. intros. unfold sn_eval. apply fold_left_app. Qed.

  Lemma sn_eval_plain : forall th br x, sn_eval apply qmix th (map NFixed br) x = run_branch apply br x.
  Proof. induction br; intro x; cbn; [reflexivity|]. apply IHbr. Qed.

  (* hard (one-hot) coefficients: the SuperNet computes what the exported network computes *)
  Theorem sn_hard_eq_export : forall nt win th th' e x,
    (forall b brs, In (NChoice b brs) nt -> th b = one_hot (win b) (length brs)) ->
    sn_export win nt = Some e ->
    teq (sn_eval apply qmix th nt x) (sn_eval apply qmix th' e x).
  Proof.
    induction nt as [|n nt IH]; intros win th th' e x Hth He.
    - injection He as <-. apply teq_refl.
    - unfold sn_export in *. cbn in He.
      destruct (export_node false win n) as [a|] eqn:Ea; [|discriminate].
      destruct (sn_export_gen false win nt) as [r|] eqn:Er; [|discriminate].
      injection He as <-. rewrite sn_eval_app. cbn [sn_eval fold_left].
      change (fold_left (fun v n0 => eval_node apply qmix th n0 v) nt) with (sn_eval apply qmix th nt).
      eapply teq_trans.
      2:{ apply (IH win th th' r); [intros; apply Hth; right; assumption|exact Er]. }
      apply sn_eval_ext.
      destruct n as [l|b brs]; cbn in Ea.
      + injection Ea as <-. cbn. apply teq_refl.
      + unfold pick in Ea. destruct (nth_error brs (win b)) as [br|] eqn:En; [|discriminate].
        injection Ea as <-. rewrite sn_eval_plain. cbn.
        rewrite (Hth b brs (or_introl eq_refl)).
        rewrite <- (map_length (fun br0 => run_branch apply br0 x) brs).
        apply qmix_one_hot. rewrite nth_error_map, En. reflexivity.
  Qed.
End C03.

(* ------------------------------------------------------------ structure of the exported network *)
Definition expand (win : Z -> nat) (n : node) : list layer :=
  match n with NFixed l => [l] | NChoice b brs => nth (win b) brs [] end.

Definition winners_ok (win : Z -> nat) (nt : net) : Prop :=
  forall b brs, In (NChoice b brs) nt -> (win b < length brs)%nat.

Lemma sn_export_some : forall nt win, winners_ok win nt ->
  sn_export win nt = Some (map NFixed (flat_map (expand win) nt)).
Proof.
  induction nt as [|n nt IH]; intros win H; [reflexivity|].
  unfold sn_export in *. cbn. rewrite IH by (intros b brs Hin; apply (H b brs); right; exact Hin).
  destruct n as [l|b brs]; cbn; [reflexivity|].
  unfold pick. destruct (nth_error brs (win b)) as [br|] eqn:E.
  - cbn. rewrite map_app. rewrite (nth_error_nth _ _ _ E). reflexivity.
  - apply nth_error_None in E. specialize (H b brs (or_introl eq_refl)). lia.
Qed.

Lemma sn_export_none : forall nt win, sn_export win nt <> None -> winners_ok win nt.
Proof.
  induction nt as [|n nt IH]; intros win H b brs Hin; [destruct Hin|].
  unfold sn_export in *. cbn in H.
  destruct (export_node false win n) as [a|] eqn:Ea; [|congruence].
  destruct (sn_export_gen false win nt) as [r|] eqn:Er; [|congruence].
  destruct Hin as [->|Hin].
  - cbn in Ea. unfold pick in Ea. destruct (nth_error brs (win b)) eqn:E; [|discriminate].
    apply nth_error_Some. congruence.
  - apply (IH win); [rewrite Er; discriminate|exact Hin].
Qed.

(* export() succeeds exactly when every winner index designates a branch (always true for an arg-max) *)
Theorem sn_export_succeeds_iff : forall nt win, sn_export win nt <> None <-> winners_ok win nt.
Proof. split; [apply sn_export_none|]. intro H. rewrite (sn_export_some _ _ H). discriminate. Qed.

Lemma fixed_layers_map : forall ls, fixed_layers (map NFixed ls) = ls.
Proof. induction ls; cbn; [reflexivity|]. f_equal. exact IHls. Qed.

(* the exported network is, in order, every fixed layer untouched and, in place of every choice block,
   exactly the layers of the winning branch *)
Theorem sn_export_tree : forall nt win e, sn_export win nt = Some e ->
  is_plain e = true /\ fixed_layers e = flat_map (expand win) nt /\
  (forall b brs, In (NChoice b brs) nt -> exists br, nth_error brs (win b) = Some br /\ expand win (NChoice b brs) = br).
Proof.
  intros nt win e He.
  assert (Hw : winners_ok win nt) by (apply sn_export_none; congruence).
  rewrite (sn_export_some _ _ Hw) in He. injection He as <-.
  split; [|split].
  - unfold is_plain. rewrite forallb_forall. intros n Hn. apply in_map_iff in Hn. destruct Hn as [l [<- _]]. reflexivity.
  - apply fixed_layers_map.
  - intros b brs Hin. specialize (Hw b brs Hin). destruct (nth_error brs (win b)) as [br|] eqn:E.
    + exists br. split; [reflexivity|]. cbn. apply nth_error_nth. exact E.
    + apply nth_error_None in E. lia.
Qed.

Lemma in_branch_mods : forall i b, In i (branch_mods b) <-> In (Mod i) b.
Proof.
  intros i b. unfold branch_mods. rewrite in_flat_map. split.
  - intros [l [Hl Hi]]. destruct l; cbn in Hi; [destruct Hi as [->|[]]; exact Hl|destruct Hi].
  - intro H. exists (Mod i). split; [exact H|left; reflexivity].
Qed.

Lemma net_mods_plain : forall ls, net_mods (map NFixed ls) = branch_mods ls.
Proof. induction ls as [|l ls IH]; cbn; [reflexivity|]. unfold net_mods in IH. rewrite IH. destruct l; cbn; reflexivity. Qed.

(* module tree: a module survives iff it is a fixed layer or belongs to the winning branch of some block *)
Theorem sn_export_modules : forall nt win e i, sn_export win nt = Some e ->
  (In i (net_mods e) <->
   In (NFixed (Mod i)) nt \/ exists b brs br, In (NChoice b brs) nt /\ nth_error brs (win b) = Some br /\ In (Mod i) br).
Proof.
  intros nt win e i He.
  assert (Hw : winners_ok win nt) by (apply sn_export_none; congruence).
  rewrite (sn_export_some _ _ Hw) in He. injection He as <-.
  rewrite net_mods_plain, in_branch_mods, in_flat_map. split.
  - intros [n [Hn Hi]]. destruct n as [l|b brs]; cbn in Hi.
    + destruct Hi as [->|[]]. left. exact Hn.
    + right. specialize (Hw b brs Hn). destruct (nth_error brs (win b)) as [br|] eqn:E.
      * exists b, brs, br. rewrite (nth_error_nth _ _ _ E) in Hi. auto.
      * apply nth_error_None in E. lia.
  - intros [H|[b [brs [br [Hn [E Hi]]]]]].
    + exists (NFixed (Mod i)). split; [exact H|left; reflexivity].
    + exists (NChoice b brs). split; [exact Hn|]. cbn. rewrite (nth_error_nth _ _ _ E). exact Hi.
Qed.

(* exporting an exported network changes nothing, whatever the winners *)
Theorem sn_export_idempotent : forall nt win win' e, sn_export win nt = Some e -> sn_export win' e = Some e.
Proof.
  intros nt win win' e He.
  assert (Hw : winners_ok win nt) by (apply sn_export_none; congruence).
  rewrite (sn_export_some _ _ Hw) in He. injection He as <-.
  generalize (flat_map (expand win) nt). induction l as [|l ls IH]; [reflexivity|].
  unfold sn_export in *. cbn. rewrite IH. reflexivity.
Qed.

(* the result depends on the winners of the blocks of the network only *)
Theorem sn_export_deterministic : forall nt win win',
  (forall b brs, In (NChoice b brs) nt -> win b = win' b) -> sn_export win nt = sn_export win' nt.
Proof.
  induction nt as [|n nt IH]; intros win win' H; [reflexivity|].
  unfold sn_export in *. cbn. rewrite (IH win win') by (intros; eapply H; right; eassumption).
  destruct n as [l|b brs]; [reflexivity|]. cbn. rewrite (H b brs (or_introl eq_refl)). reflexivity.
Qed.

(* upstream name matching: export raises although the winner exists / exports a branch that is not the winner *)
Lemma sn_export_legacy_raises_refuted : exists nt win, winners_ok win nt /\ sn_export_legacy win nt = None.
Proof.
  exists [NChoice 0 [[Mod 0]; [Mod 1; Fn 0]]], (fun _ => 1%nat). split.
  - intros b brs [H|[]]. injection H as <- <-. cbn. lia.
  - reflexivity.
Qed.

Definition twelve : list branch :=
  [[Mod 0]; [Mod 1; Fn 0]; [Mod 2]; [Mod 3]; [Mod 4]; [Mod 5]; [Mod 6]; [Mod 7]; [Mod 8]; [Mod 9]; [Mod 10]; [Mod 11]].
Lemma sn_export_legacy_wrong_branch_refuted : exists nt win e,
  sn_export_legacy win nt = Some e /\ sn_export win nt <> Some e.
Proof.
  exists [NChoice 0 twelve], (fun _ => 1%nat), [NFixed (Mod 10)]. split; [reflexivity|]. vm_compute. discriminate.
Qed.
