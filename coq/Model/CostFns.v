(* Hand model of the parts of plinio/cost that the translator does not cover (DESIGN.md §C16):
   the straight-through rounding helpers (gap8_latency.FloorSTE/_floor, diana_latency.FloorSTE/_floor/
   GateSTE/ComputeOxUnrollSTE, ne16_latency.FloorDivideSTE/DivAndCeilSTE/ModuloSTE) as functions on Q —
   what their `forward` computes on ANY rational, not only on integers —, plinio/cost/ne16_latency.py
   (Ne16PerfModel.latency with the default buffers, Ne16PerfModel_generalized, the three registered
   wrappers incl. the early `return 0.` and the division by w_theta_alpha) and
   plinio/cost/diana_latency.py (_analog_cycles, _digital_cycles, precision dispatch, linear as 1x1 conv).
   None = the Python function raises.  Environments are those of Base/Expr.v (V_cin, V_cout, ...). *)
From Coq Require Import QArith Qround ZArith List Bool.
Require Import Plinio.Base.Qx Plinio.Base.Expr.
Import ListNotations.
Local Open Scope Q_scope.

(* ---------------------------------------------------------------- rounding helpers *)
(* FloorSTE.forward(ch, N) = torch.floor((ch + N - 1) / N);  _floor = math.floor of the same *)
Definition floor_ste (ch n : Q) : Q := inject_Z (Qfloor ((ch + n - 1) / n)).
(* DivAndCeilSTE.forward(a, b) = ((a - 1) // b) + 1 *)
Definition div_and_ceil (a b : Q) : Q := inject_Z (Qfloor ((a - 1) / b)) + 1.
(* FloorDivideSTE.forward(ch, N) = torch.floor_divide(ch, N) *)
Definition floor_divide (a b : Q) : Q := inject_Z (Qfloor (a / b)).
(* ModuloSTE.forward(a, b) = a % b   (b > 0: a - b*floor(a/b)) *)
Definition modulo (a b : Q) : Q := a - b * inject_Z (Qfloor (a / b)).
(* GateSTE.forward(ch, th) = (ch >= th).float() *)
Definition gate (ch th : Q) : Q := if Qle_bool th ch then 1 else 0.
(* derivative that `backward` passes on for an incoming gradient g: identity for the four rounding
   helpers; GateSTE: 1/(g+1) on 0 < ch < th, 0 elsewhere *)
Definition ste_grad (g : Q) : Q := g.
Definition gate_grad (ch th g : Q) : Q := if Qle_bool ch 0 then 0 else if Qle_bool th ch then 0 else 1 / (g + 1).

(* ---------------------------------------------------------------- NE16 *)
(* which of is_1x1 / is_dw holds (is_3x3 is used by ops only); a (1,1) kernel with depthwise=True
   satisfies neither and is costed like a 3x3 non-depthwise job *)
Record ne16_kind := { is1x1 : bool; isdw : bool }.
Definition K3x3 := {| is1x1 := false; isdw := false |}.
Definition K1x1 := {| is1x1 := true; isdw := false |}.
Definition KDW := {| is1x1 := false; isdw := true |}.

Definition ne16_kind_of (kernel_is_3x3 kernel_is_1x1 depthwise : bool) : ne16_kind :=
  {| is1x1 := kernel_is_1x1 && negb depthwise; isdw := kernel_is_3x3 && depthwise |}.

(* INPUT_BUFFER_SHAPE = (5,5,16), OUTPUT_BUFFER_SHAPE = (3,3,32), FIFO 6, MEMORY_THROUGHPUT 256,
   INPUT/OUTPUT_BITWIDTH 8, nq_shift = nq_bias = False, nq_bits = 32, MULTIPLIER_COUNT 4 *)
Definition ne16_load (kd : ne16_kind) : Q :=
  if is1x1 kd then 10 + 3 * 3 * div_and_ceil (16 * 8) 256
  else 6 + 5 * 5 * div_and_ceil (16 * 8) 256.
Definition ne16_wo (kd : ne16_kind) (k : Q) : Q := if isdw kd then 6 + k else 6.
Definition ne16_mv (kd : ne16_kind) (wb k : Q) : Q := if is1x1 kd then 6 + k else 6 + k * wb.
Definition ne16_upd : Q := 2.
Definition ne16_nq (k : Q) : Q := 0 + (9 + div_and_ceil (k * floor_divide 32 8) 4) + 0.
Definition ne16_so : Q := 3 + 3 * 3 * div_and_ceil (32 * 8) 256 + 1.

Definition ne16_iter (kd : ne16_kind) (wb n_in k : Q) : Q :=
  if isdw kd then
    ne16_load kd + ne16_wo kd k + ne16_mv kd wb k + ne16_upd + ne16_nq k + ne16_so
  else
    n_in * (ne16_load kd + ne16_wo kd 0 + ne16_mv kd wb k + ne16_upd) + ne16_nq k + ne16_so.

(* n_out_body * iteration(k_out_body) + (iteration(k_out_rem) if k_out_rem != 0 else 0) *)
Definition body_rem (I : Q -> Q) (B Ko : Q) : Q :=
  floor_divide Ko B * I B + (if Qeq_bool (modulo Ko B) 0 then 0 else I (modulo Ko B)).

(* Ne16PerfModel.latency for layer = (H, W, Ko, Ki) *)
Definition ne16_lat (kd : ne16_kind) (wb H W Ko Ki : Q) : Q :=
  let kbody := if isdw kd then 16 else 32 in
  let n_in := div_and_ceil Ki 16 in
  let n_spatial := div_and_ceil H 3 * div_and_ceil W 3 in
  n_spatial * body_rem (ne16_iter kd wb n_in) kbody Ko.

(* Ne16PerfModel_generalized(...)[0] *)
Definition ne16_generalized (depthwise : bool) (wb k0 k1 H W Ko Ki : Q) : Q :=
  let n3 := floor_divide k0 3 * floor_divide k1 3 in
  let n1 := modulo k0 3 * k1 + modulo k1 3 * k0 - modulo k0 3 * modulo k1 3 in
  (if qlt_bool 0 n3 then ne16_lat (ne16_kind_of true false depthwise) wb H W Ko Ki * n3 else 0)
  + (if qlt_bool 0 n1 then ne16_lat (ne16_kind_of false true depthwise) wb H W Ko Ki * n1 else 0).

Definition keq (r : nat -> Q) (a b : Q) : bool := Qeq_bool (r V_k0) a && Qeq_bool (r V_k1) b.

Definition ne16_wrapper (depthwise : bool) (kernel_ok : bool) (k0 k1 H W : Q) (r : nat -> Q) : option Q :=
  if Qeq_bool (r V_wp) 0 || Qeq_bool (r V_theta) 0 then Some 0            (* return 0. before any assert *)
  else if negb (Qeq_bool (r V_ip) 8) then None                          (* assert in_precision == 8 *)
  else if negb kernel_ok then None                                      (* assert on the kernel shape *)
  else Some (ne16_generalized depthwise (r V_wp) k0 k1 H W (r V_theta * r V_cout) (r V_cin) / r V_theta).

Definition ne16_conv2d_generic (r : nat -> Q) : option Q :=
  ne16_wrapper false (keq r 3 3 || keq r 1 1) (r V_k0) (r V_k1) (r V_o2) (r V_o3) r.
Definition ne16_conv2d_dw (r : nat -> Q) : option Q :=
  ne16_wrapper true (keq r 3 3) (r V_k0) (r V_k1) (r V_o2) (r V_o3) r.
Definition ne16_linear (r : nat -> Q) : option Q :=
  ne16_wrapper false true 1 1 1 1 r.

(* ---------------------------------------------------------------- DIANA *)
(* ComputeOxUnrollSTE.forward: the last of [1,2,4,8] allowed by both masks, 1 always allowed *)
Definition ox_ok (ch_eff ch_in kx ky u : Q) : bool :=
  Qle_bool (u * ch_eff) 512 && Qle_bool ((u + kx - 1) * qmax 64 ch_in * ky) 1152.
Definition ox_unroll (ch_eff ch_in kx ky : Q) : Q :=
  if ox_ok ch_eff ch_in kx ky 8 then 8 else
  if ox_ok ch_eff ch_in kx ky 4 then 4 else
  if ox_ok ch_eff ch_in kx ky 2 then 2 else 1.

Definition diana_analog_cycles (ch_in ch_out kx ky ox oy : Q) : Q :=
  let u := ox_unroll ch_out ch_in kx ky in
  let cycles_comp := floor_ste ch_out 512 * floor_ste ch_in 128 * ox * oy / u in
  let cycles_weights := 4 * 2 * ch_in * kx * ky in
  let cycles_comp_norm := cycles_comp * 70 / (1000000000 / 260000000) in
  gate ch_out 1 * cycles_weights + cycles_comp_norm.

Definition diana_digital_cycles (ch_in ch_out groups kx ky ox oy : Q) : Q :=
  let cycles := floor_ste (ch_out / groups) 16 * ch_in * floor_ste ox 16 * oy * kx * ky in
  let cycles_load_store := ox * oy * (ch_out + ch_in) / 8 in
  gate ch_out 1 * cycles_load_store + cycles.

Definition diana_dispatch (wp ap ch_in ch_out groups kx ky ox oy : Q) : option Q :=
  if Qeq_bool wp 2 && Qeq_bool ap 8 then
    if Qeq_bool groups 1 then Some (diana_analog_cycles ch_in ch_out kx ky ox oy) else None
  else if Qeq_bool wp 8 && Qeq_bool ap 8 then Some (diana_digital_cycles ch_in ch_out groups kx ky ox oy)
  else None.

Definition diana_conv2d_generic (r : nat -> Q) : option Q :=
  diana_dispatch (r V_wp) (r V_ip) (r V_cin) (r V_cout) (r V_groups) (r V_k0) (r V_k1) (r V_o2) (r V_o3).
Definition diana_linear (r : nat -> Q) : option Q :=
  diana_dispatch (r V_wp) (r V_ip) (r V_cin) (r V_cout) 1 1 1 1 1.

(* ---------------------------------------------------------------- harness helpers *)
Definition model := (nat -> Q) -> option Q.

(* tol = 0: exact;  otherwise |impl - model| <= tol * max(1, |model|) *)
Definition agree (tol : Q) (m impl : option Q) : bool :=
  match m, impl with
  | None, None => true
  | Some a, Some b => if Qeq_bool tol 0 then Qeq_bool a b else Qle_bool (qabs (b - a)) (tol * qmax 1 (qabs a))
  | _, _ => false
  end.

Fixpoint bad_from (i : Z) (cs : list (model * list Q * option Q * Q)) : list Z :=
  match cs with
  | [] => []
  | (m, env, impl, tol) :: t =>
      if agree tol (m (env_of env)) impl then bad_from (i + 1) t else i :: bad_from (i + 1) t
  end.
Definition run_cases (cs : list (model * list Q * option Q * Q)) : Z * list Z := (Z.of_nat (length cs), bad_from 0 cs).

Definition show (o : option Q) : option (Z * Z) := match o with Some q => Some (qpair q) | None => None end.
