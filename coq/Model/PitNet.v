(* Network-level model of "export of a channel-pruned network".
   A network is a list of nodes; node i reads earlier nodes by absolute index.  Two evaluations:
     - pit : masked evaluation, pruned output channels of searchable layers are forced to zero;
     - exp : exported evaluation, pruned channels are physically removed (weights sliced).
   Channel values live in an abstract carrier S (think S = Z -> Z signals, equality pointwise).
   Definitions only, no lemmas. *)
From Coq Require Import ZArith List Arith Bool.
Import ListNotations.
Require Import Plinio.Model.Masks Plinio.Model.Conv.

Section Net.
Variable S : Type.
Variable eqS : S -> S -> Prop.
Variable zeroS : S.
Variable addS : S -> S -> S.

Definition sumS (l : list S) : S := fold_right addS zeroS l.
Definition gate (b : bool) (s : S) : S := if b then s else zeroS.

(* element-wise addition of two tensors *)
Fixpoint zipadd (l1 l2 : list S) : list S :=
  match l1, l2 with
  | a :: l1', b :: l2' => addS a b :: zipadd l1' l2'
  | _, _ => []
  end.

Inductive node :=
| NInput (c : nat)                                   (* network input, c channels, all alive *)
| NFull (src cin cout : nat) (T : nat -> nat -> S -> S) (b : nat -> S)
        (post : nat -> S -> S) (m : list bool)       (* searchable full layer, output mask m *)
| NDw (src c : nat) (T : nat -> S -> S) (b : nat -> S)
      (post : nat -> S -> S) (m : list bool)         (* depthwise layer *)
| NChan (src : nat) (f : S -> S)                     (* channel-wise op (relu, pool, pad, id) *)
| NExpand (src mult : nat) (f : nat -> S -> S)       (* flatten: channel s -> f 0 s .. f (mult-1) s *)
| NAdd (a b : nat)                                   (* element-wise add *)
| NCat (srcs : list nat).                            (* channel concatenation *)

(* one channel expanded to mult features *)
Definition expand1 (mult : nat) (f : nat -> S -> S) (s : S) : list S :=
  map (fun p => f p s) (seq 0 mult).

(* ------------------------------------------------------------ alive (not pruned) channel masks *)
Definition alive_node (al : list (list bool)) (nd : node) : list bool :=
  match nd with
  | NInput c => repeat true c
  | NFull _ _ _ _ _ _ m => m
  | NDw _ _ _ _ _ m => m
  | NChan src _ => nth src al []
  | NExpand src mult _ => flat_map (fun b => repeat b mult) (nth src al [])
  | NAdd a _ => nth a al []
  | NCat srcs => flat_map (fun s => nth s al []) srcs
  end.

(* ------------------------------------------------------------ masked (PIT) evaluation *)
Definition pit_node (x : list S) (acc : list (list S)) (nd : node) : list S :=
  match nd with
  | NInput _ => x
  | NFull src cin cout T b post m =>
      let xs := nth src acc [] in
      map (fun co => gate (nth co m false)
             (post co (addS (b co) (sumS (map (fun ci => T co ci (nth ci xs zeroS)) (seq 0 cin))))))
          (seq 0 cout)
  | NDw src c T b post m =>
      let xs := nth src acc [] in
      map (fun co => gate (nth co m false) (post co (addS (b co) (T co (nth co xs zeroS)))))
          (seq 0 c)
  | NChan src f => map f (nth src acc [])
  | NExpand src mult f => flat_map (expand1 mult f) (nth src acc [])
  | NAdd a b => zipadd (nth a acc []) (nth b acc [])
  | NCat srcs => flat_map (fun s => nth s acc []) srcs
  end.

(* ------------------------------------------------------------ exported evaluation *)
Definition exp_node (x : list S) (al : list (list bool)) (acc' : list (list S)) (nd : node) : list S :=
  match nd with
  | NInput _ => x
  | NFull src cin cout T b post m =>
      let ki := kept (nth src al []) in
      let xs' := nth src acc' [] in
      map (fun co => post co (addS (b co)
             (sumS (map (fun j => T co (nth j ki 0) (nth j xs' zeroS)) (seq 0 (length ki))))))
          (kept m)
  | NDw src c T b post m =>
      let km := kept m in
      let xs' := nth src acc' [] in
      map (fun i => let co := nth i km 0 in post co (addS (b co) (T co (nth i xs' zeroS))))
          (seq 0 (length km))
  | NChan src f => map f (nth src acc' [])
  | NExpand src mult f => flat_map (expand1 mult f) (nth src acc' [])
  | NAdd a b => zipadd (nth a acc' []) (nth b acc' [])
  | NCat srcs => flat_map (fun s => nth s acc' []) srcs
  end.

(* ------------------------------------------------------------ whole network, left to right *)
Fixpoint alive_acc (al : list (list bool)) (net : list node) : list (list bool) :=
  match net with
  | [] => al
  | nd :: rest => alive_acc (al ++ [alive_node al nd]) rest
  end.

Fixpoint pit_acc (x : list S) (acc : list (list S)) (net : list node) : list (list S) :=
  match net with
  | [] => acc
  | nd :: rest => pit_acc x (acc ++ [pit_node x acc nd]) rest
  end.

Fixpoint exp_acc (x : list S) (al : list (list bool)) (acc' : list (list S)) (net : list node)
  : list (list S) :=
  match net with
  | [] => acc'
  | nd :: rest => exp_acc x (al ++ [alive_node al nd]) (acc' ++ [exp_node x al acc' nd]) rest
  end.

Definition alive_net (net : list node) : list (list bool) := alive_acc [] net.
Definition eval_pit (net : list node) (x : list S) : list (list S) := pit_acc x [] net.
Definition eval_exp (net : list node) (x : list S) : list (list S) := exp_acc x [] [] net.

(* ------------------------------------------------------------ well-formedness (input independent) *)
Definition respects (f : S -> S) : Prop := forall s s', eqS s s' -> eqS (f s) (f s').

Definition wf_node (n : nat) (al : list (list bool)) (nd : node) : Prop :=
  match nd with
  | NInput c => c = n
  | NFull src cin cout T b post m =>
      src < length al /\ length m = cout /\ length (nth src al []) = cin /\
      (forall co ci, eqS (T co ci zeroS) zeroS) /\
      (forall co ci, respects (T co ci)) /\ (forall co, respects (post co))
  | NDw src c T b post m =>
      src < length al /\ m = nth src al [] /\ length m = c /\
      (forall co, respects (T co)) /\ (forall co, respects (post co))
  | NChan src f => src < length al /\ eqS (f zeroS) zeroS /\ respects f
  | NExpand src mult f =>
      src < length al /\ (forall p, eqS (f p zeroS) zeroS) /\ (forall p, respects (f p))
  | NAdd a b => a < length al /\ b < length al /\ nth a al [] = nth b al []
  | NCat srcs => Forall (fun s => s < length al) srcs
  end.

Fixpoint wf_acc (n : nat) (al : list (list bool)) (net : list node) : Prop :=
  match net with
  | [] => True
  | nd :: rest => wf_node n al nd /\ wf_acc n (al ++ [alive_node al nd]) rest
  end.

Definition wf (n : nat) (net : list node) : Prop := wf_acc n [] net.
End Net.


(* ================================================================ networks of CONCRETE PIT layers (Model/Conv.v)
   Channel values are functions of a multi-index (time / (row, column) / nothing) into the carrier R:
   a 1-D signal reads index [t], a 2-D map [h; v], a flattened feature []. *)
Section Concrete.
Variable R : Type.
Variables (r0 r1 : R) (radd rmul : R -> R -> R).

Definition SR := list Z -> R.
Definition eqR (f g : SR) : Prop := forall i, f i = g i.
Definition zeroR : SR := fun _ => r0.
Definition addR (f g : SR) : SR := fun i => radd (f i) (g i).
Definition as1 (s : SR) : Z -> R := fun t => s [t].
(* ConstantPad1d writes zeros: whatever a producer computes for negative times is never read *)
Definition clip (x : Z -> R) : Z -> R := fun t => if (t <? 0)%Z then r0 else x t.
Definition of1 (f : Z -> R) : SR := fun i => f (nth 0 i 0%Z).
Definition as2 (s : SR) : Z -> Z -> R := fun h v => s [h; v].
(* zero padding of a 2-D map of size H x W: whatever a producer computes outside the map is never read *)
Definition clip2 (H W : nat) (x : Z -> Z -> R) : Z -> Z -> R :=
  fun h v => if ((0 <=? h) && (h <? Z.of_nat H) && (0 <=? v) && (v <? Z.of_nat W))%Z then x h v else r0.
Definition of2 (f : Z -> Z -> R) : SR := fun i => f (nth 0 i 0%Z) (nth 1 i 0%Z).
Definition as0 (s : SR) : R := s [].
Definition of0 (r : R) : SR := fun _ => r.

(* a searchable layer with its search state: tm = binarized time mask, (K', sp) = exported kernel size and
   dilation factor (kernel_size_opt, dilation_opt / d); well-formedness demands kept_lags K tm = export_lags K' sp,
   which Masks.kept_taps_progression gives for every real (beta, gamma) and frozen_lags for frozen maskers *)
Inductive clayer :=
| L1 (fold dw : bool) (w : w3 R) (b : option (list R)) (bn : option (list R * list R)) (cin K d s : nat) (tm : list bool) (K' sp : nat)
| L2 (fold dw : bool) (w : w4 R) (b : option (list R)) (bn : option (list R * list R)) (cin kh kw d s ph pw hin win : nat)   (* hin x win = size of the input maps *)
| L0 (fold : bool) (w : list (list R)) (b : option (list R)) (bn : option (list R * list R)) (cin : nat).

Inductive cnode :=
| CInput (c : nat)
| CLayer (src : nat) (l : clayer) (m : list bool)        (* m = binarized output-feature mask *)
| CChan (src : nat) (f : SR -> SR)
| CExpand (src mult : nat) (f : nat -> SR -> SR)
| CAdd (a b : nat)
| CCat (srcs : list nat).

Definition cout_of (l : clayer) : nat :=
  match l with L1 _ _ w _ _ _ _ _ _ _ _ _ => length w | L2 _ _ w _ _ _ _ _ _ _ _ _ _ _ => length w | L0 _ w _ _ _ => length w end.

(* ---- what the CODE computes (Model/Conv.v): eval-mode forward of the PIT layer (repaired: maskbias = true) ... *)
Definition clayer_pit (l : clayer) (m : list bool) (xs : list SR) : list SR :=
  match l with
  | L1 fold dw w b bn cin K d s tm _ _ =>
      map (fun co => of1 (fun t => pit_conv1d_at r0 r1 radd rmul true fold dw w b bn cin K (Z.of_nat d) (Z.of_nat s) m tm
                                     (fun ci => padl ((K - 1) * d) (clip (as1 (nth ci xs zeroR)))) co t)) (seq 0 (length w))
  | L2 fold dw w b bn cin kh kw d s ph pw hin win =>
      map (fun co => of2 (fun h v => pit_conv2d_at r0 r1 radd rmul true fold dw w b bn cin kh kw (Z.of_nat d) (Z.of_nat s) (Z.of_nat ph) (Z.of_nat pw) m
                                     (fun ci => clip2 hin win (as2 (nth ci xs zeroR))) co h v)) (seq 0 (length w))
  | L0 fold w b bn cin =>
      map (fun co => of0 (pit_linear_at r0 r1 radd rmul true fold w b bn cin m (fun ci => as0 (nth ci xs zeroR)) co)) (seq 0 (length w))
  end.
(* ... and the exported plain layer (sliced parameters, new kernel size / dilation / padding, re-created BN) on the exported input *)
Definition clayer_exp (l : clayer) (m min : list bool) (xs' : list SR) : list SR :=
  match l with
  | L1 fold dw w b bn cin K d s tm K' sp =>
      map (fun i => of1 (fun t => bn_at r0 radd rmul (if fold then None else slice_bn m bn) i
                         (conv1d_at r0 radd rmul dw (export_w3 dw m min tm w) (export_bias m b) (count_true min) K' (Z.of_nat (sp * d)) (Z.of_nat s)
                            (fun j => padl ((K' - 1) * (sp * d)) (clip (as1 (nth j xs' zeroR)))) i t))) (seq 0 (count_true m))
  | L2 fold dw w b bn cin kh kw d s ph pw hin win =>
      map (fun i => of2 (fun h v => bn_at r0 radd rmul (if fold then None else slice_bn m bn) i
                         (conv2d_at r0 radd rmul dw (export_w4 dw m min w) (export_bias m b) (count_true min) kh kw (Z.of_nat d) (Z.of_nat s) (Z.of_nat ph) (Z.of_nat pw)
                            (fun j => clip2 hin win (as2 (nth j xs' zeroR))) i h v))) (seq 0 (count_true m))
  | L0 fold w b bn cin =>
      map (fun i => of0 (bn_at r0 radd rmul (if fold then None else slice_bn m bn) i
                         (linear_at r0 radd rmul (export_w2 m min w) (export_bias m b) (count_true min) (fun j => as0 (nth j xs' zeroR)) i))) (seq 0 (count_true m))
  end.

Definition calive_node (al : list (list bool)) (nd : cnode) : list bool :=
  match nd with
  | CInput c => repeat true c
  | CLayer _ _ m => m
  | CChan src _ => nth src al []
  | CExpand src mult _ => flat_map (fun b => repeat b mult) (nth src al [])
  | CAdd a _ => nth a al []
  | CCat srcs => flat_map (fun s => nth s al []) srcs
  end.
Definition cpit_node (x : list SR) (acc : list (list SR)) (nd : cnode) : list SR :=
  match nd with
  | CInput _ => x
  | CLayer src l m => clayer_pit l m (nth src acc [])
  | CChan src f => map f (nth src acc [])
  | CExpand src mult f => flat_map (expand1 SR mult f) (nth src acc [])
  | CAdd a b => zipadd SR addR (nth a acc []) (nth b acc [])
  | CCat srcs => flat_map (fun s => nth s acc []) srcs
  end.
Definition cexp_node (x : list SR) (al : list (list bool)) (acc' : list (list SR)) (nd : cnode) : list SR :=
  match nd with
  | CInput _ => x
  | CLayer src l m => clayer_exp l m (nth src al []) (nth src acc' [])
  | CChan src f => map f (nth src acc' [])
  | CExpand src mult f => flat_map (expand1 SR mult f) (nth src acc' [])
  | CAdd a b => zipadd SR addR (nth a acc' []) (nth b acc' [])
  | CCat srcs => flat_map (fun s => nth s acc' []) srcs
  end.
Fixpoint calive_acc (al : list (list bool)) (net : list cnode) : list (list bool) :=
  match net with [] => al | nd :: rest => calive_acc (al ++ [calive_node al nd]) rest end.
Fixpoint cpit_acc (x : list SR) (acc : list (list SR)) (net : list cnode) : list (list SR) :=
  match net with [] => acc | nd :: rest => cpit_acc x (acc ++ [cpit_node x acc nd]) rest end.
Fixpoint cexp_acc (x : list SR) (al : list (list bool)) (acc' : list (list SR)) (net : list cnode) : list (list SR) :=
  match net with [] => acc' | nd :: rest => cexp_acc x (al ++ [calive_node al nd]) (acc' ++ [cexp_node x al acc' nd]) rest end.
Definition calive_net (net : list cnode) := calive_acc [] net.
Definition ceval_pit (net : list cnode) (x : list SR) := cpit_acc x [] net.       (* the searched network, eval mode *)
Definition ceval_exp (net : list cnode) (x : list SR) := cexp_acc x [] [] net.    (* the exported network *)

(* shapes of the parameter tensors *)
Definition cshape3 (w : w3 R) (cout cin K : nat) : Prop :=
  length w = cout /\ (forall co, co < cout -> length (nth co w []) = cin) /\ (forall co ci, co < cout -> ci < cin -> length (w3at w co ci) = K).
Definition cshape2 {A} (w : list (list A)) (cout cin : nat) : Prop := length w = cout /\ (forall co, co < cout -> length (nth co w []) = cin).
Definition cbias_ok (b : option (list R)) (cout : nat) : Prop := forall bl, b = Some bl -> length bl = cout.
Definition cbn_ok (bn : option (list R * list R)) (cout : nat) : Prop := forall a sh, bn = Some (a, sh) -> length a = cout /\ length sh = cout.

Definition respectsR (f : SR -> SR) : Prop := forall s s', eqR s s' -> eqR (f s) (f s').
Definition clayer_wf (l : clayer) (m min : list bool) : Prop :=
  match l with
  | L1 fold dw w b bn cin K d s tm K' sp =>
      cshape3 w (length m) (if dw then 1 else cin) K /\ cbias_ok b (length m) /\ cbn_ok bn (length m) /\
      length tm = K /\ kept_lags K tm = export_lags K' sp /\ (if dw then m = min else length min = cin)
  | L2 fold dw w b bn cin kh kw d s ph pw hin win =>
      cshape2 w (length m) (if dw then 1 else cin) /\ cbias_ok b (length m) /\ cbn_ok bn (length m) /\ (if dw then m = min else length min = cin)
  | L0 fold w b bn cin =>
      cshape2 w (length m) cin /\ cbias_ok b (length m) /\ cbn_ok bn (length m) /\ length min = cin
  end.
Definition cwf_node (n : nat) (al : list (list bool)) (nd : cnode) : Prop :=
  match nd with
  | CInput c => c = n
  | CLayer src l m => src < length al /\ clayer_wf l m (nth src al [])
  | CChan src f => src < length al /\ eqR (f zeroR) zeroR /\ respectsR f
  | CExpand src mult f => src < length al /\ (forall p, eqR (f p zeroR) zeroR) /\ (forall p, respectsR (f p))
  | CAdd a b => a < length al /\ b < length al /\ nth a al [] = nth b al []
  | CCat srcs => Forall (fun s => s < length al) srcs
  end.
Fixpoint cwf_acc (n : nat) (al : list (list bool)) (net : list cnode) : Prop :=
  match net with [] => True | nd :: rest => cwf_node n al nd /\ cwf_acc n (al ++ [calive_node al nd]) rest end.
Definition cwf (n : nat) (net : list cnode) : Prop := cwf_acc n [] net.

(* ---- the same layers as abstract NFull / NDw nodes: per-channel operators *)
Definition bconst (b : option (list R)) (co : nat) : SR := of0 (match b with Some bl => nth co bl r0 | None => r0 end).
Definition postbn (bn : option (list R * list R)) (co : nat) (s : SR) : SR := fun i => bn_at r0 radd rmul bn co (s i).
Definition T1 (w : w3 R) (tm : list bool) (K d s : nat) (co wi : nat) (sg : SR) : SR :=
  of1 (fun t => taps r0 radd rmul (w3at (mask_w3_time r0 r1 rmul tm w) co wi) K (Z.of_nat d) (padl ((K - 1) * d) (clip (as1 sg))) (Z.of_nat s * t)%Z).
Definition T2 (w : w4 R) (kh kw d s ph pw hin win : nat) (co wi : nat) (sg : SR) : SR :=
  of2 (fun h v => taps2 r0 radd rmul (w4at w co wi) kh kw (Z.of_nat d) (clip2 hin win (as2 sg)) (Z.of_nat s * h - Z.of_nat ph)%Z (Z.of_nat s * v - Z.of_nat pw)%Z).
Definition T0 (w : list (list R)) (co ci : nat) (sg : SR) : SR := of0 (rmul (nth ci (nth co w []) r0) (as0 sg)).

Definition node_of (nd : cnode) : node SR :=
  match nd with
  | CInput c => NInput SR c
  | CLayer src (L1 fold dw w b bn cin K d s tm K' sp) m =>
      let post := postbn (if fold then None else bn) in
      if dw then NDw SR src (length m) (fun co => T1 w tm K d s co 0) (bconst b) post m
      else NFull SR src cin (length m) (T1 w tm K d s) (bconst b) post m
  | CLayer src (L2 fold dw w b bn cin kh kw d s ph pw hin win) m =>
      let post := postbn (if fold then None else bn) in
      if dw then NDw SR src (length m) (fun co => T2 w kh kw d s ph pw hin win co 0) (bconst b) post m
      else NFull SR src cin (length m) (T2 w kh kw d s ph pw hin win) (bconst b) post m
  | CLayer src (L0 fold w b bn cin) m => NFull SR src cin (length m) (T0 w) (bconst b) (postbn (if fold then None else bn)) m
  | CChan src f => NChan SR src f
  | CExpand src mult f => NExpand SR src mult f
  | CAdd a b => NAdd SR a b
  | CCat srcs => NCat SR srcs
  end.
End Concrete.

(* ================================================================ the executable evaluator Conv.run_net as a network of concrete layers (R = Z) *)
Definition actZ (f : Z -> Z) (s : SR Z) : SR Z := fun i => f (s i).
Definition flat_idx (t : tens) (q : nat) : list Z :=
  match t with
  | TS2 x => let W := length (nth 0 (nth 0 x []) []) in [Z.of_nat (q / W); Z.of_nat (q mod W)]
  | _ => [Z.of_nat q]
  end.
Definition tdimh (t : tens) : nat := match t with TS2 x => length (nth 0 x []) | _ => 0 end.
Definition tdimw (t : tens) : nat := match t with TS2 x => length (nth 0 (nth 0 x []) []) | _ => 0 end.
(* function-level max pooling (stride = window = k) and stand-alone causal pad *)
Definition poolf1 (k : nat) (s : SR Z) : SR Z :=
  fun i => zmax (map (fun j => s [(Z.of_nat k * nth 0 i 0 + Z.of_nat j)%Z]) (seq 0 k)).
Definition poolf2 (k : nat) (s : SR Z) : SR Z :=
  fun i => zmax (concat (map (fun a => map (fun r => s [(Z.of_nat k * nth 0 i 0 + Z.of_nat r)%Z; (Z.of_nat k * nth 1 i 0 + Z.of_nat a)%Z]) (seq 0 k)) (seq 0 k))).
Definition padf (P : nat) (s : SR Z) : SR Z := of1 Z (padl P (clip Z 0%Z (as1 Z s))).
Definition xtr (x : tens) (acc : list xstate) (nd : xnode) : cnode Z :=
  match nd with
  | XIn => CInput Z (tchan x)
  | XPad src P _ => CChan Z src (padf P)                         (* stand-alone pad (xwf: same amount after export) *)
  | XConv1 src fold dw w b cin K d s m tm K' d' => CLayer Z src (L1 Z fold dw w b None cin K d s tm K' (d' / d)) m
  | XConv2 src fold dw w b cin kh kw d s ph pw m => let '(p, _, _) := xget acc src in CLayer Z src (L2 Z fold dw w b None cin kh kw d s ph pw (tdimh p) (tdimw p)) m
  | XLin src fold w b cin m => CLayer Z src (L0 Z fold w b None cin) m
  | XAct src six => CChan Z src (actZ (if six then relu6 else relu))
  | XId src => CChan Z src (fun s => s)
  | XMaxPool src k => let '(p, _, _) := xget acc src in CChan Z src (match p with TS2 _ => poolf2 k | _ => poolf1 k end)
  | XFlatten src => let '(p, _, _) := xget acc src in CExpand Z src (tmult p) (fun q s => of0 Z (s (flat_idx p q)))
  | XAdd a b => CAdd Z a b
  | XCat srcs => CCat Z srcs
  end.
Fixpoint xtr_run (x : tens) (acc : list xstate) (net : list xnode) : list (cnode Z) :=
  match net with [] => [] | nd :: rest => xtr x acc nd :: xtr_run x (acc ++ [xstep x acc nd]) rest end.
Definition xtr_net (net : list xnode) (x : tens) : list (cnode Z) := xtr_run x [] net.
(* a list tensor as a list of channel functions *)
Definition emb (t : tens) : list (SR Z) :=
  match t with
  | TS1 x => map (fun c => of1 Z (sig1 0%Z c)) x
  | TS2 x => map (fun c => of2 Z (sig2 0%Z c)) x
  | TS0 x => map (of0 Z) x
  | TErr => []
  end.
(* a list tensor and a list of channel functions agree on every valid index (all channels of equal length) *)
Definition agree (t : tens) (l : list (SR Z)) : Prop :=
  match t with
  | TS1 x => let n := length (nth 0 x []) in
             Forall2 (fun c s => length c = n /\ forall tt, tt < n -> s [Z.of_nat tt] = nth tt c 0%Z) x l
  | TS0 x => Forall2 (fun v s => forall i, s i = v) x l
  | _ => False
  end.
