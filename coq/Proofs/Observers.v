(* Proofs about Model/Observers.v   (C18) *)
From Coq Require Import ZArith List Bool String Lia.
Import ListNotations.
Require Import Plinio.Model.Observers.
Local Open Scope Z_scope.

Definition veq (s1 s2 : state) : Prop := visible s1 = visible s2.

Lemma veq_refl s : veq s s. Proof. reflexivity. Qed.
Lemma veq_sym s1 s2 : veq s1 s2 -> veq s2 s1. Proof. unfold veq; congruence. Qed.
Lemma veq_trans s1 s2 s3 : veq s1 s2 -> veq s2 s3 -> veq s1 s3. Proof. unfold veq; congruence. Qed.

Lemma veq_inv s1 s2 : veq s1 s2 ->
  exists a b c d e e' f o tm g h p1 p2, s1 = mkSt a b c d e e' f o tm g h p1 /\ s2 = mkSt a b c d e e' f o tm g h p2.
Proof.
  destruct s1, s2; unfold veq, visible; cbn; intro H; inversion H; subst.
  repeat eexists.
Qed.

Ltac crush_step :=
  unfold fixed, upstream, step, export, summary, cost, get_cost, cost_of, set_spec, flip, set_opt, set_train, set_mode, write, backward, ov, train_step, forward, resample, sample, set_th_rng,
         bn_flag, drop_flag, samp_flag, veq, visible;
  cbn [pv bv tr_wrap tr_seed tr_leaf tr_sub th opt trn rng spec polluted fst snd restore_state fork_rng summary_pure keep_options];
  repeat match goal with
         | |- context [match ?x with _ => _ end] => destruct x eqn:?; cbn [pv bv tr_wrap tr_seed tr_leaf tr_sub th opt trn rng spec polluted fst snd]
         end;
  try (split; reflexivity); try reflexivity; try congruence.

(* the next state and the observation do not depend on [polluted] *)
Lemma step_congr v c o s1 s2 : veq s1 s2 ->
  veq (fst (step v c s1 o)) (fst (step v c s2 o)) /\ snd (step v c s1 o) = snd (step v c s2 o).
Proof.
  intro H. destruct (veq_inv _ _ H) as (a & b & c0 & d & e & e' & f & oo & tm & g & h & p1 & p2 & -> & ->). clear H.
  destruct v as [rs fr sp ko]. destruct o; crush_step.
Qed.

(* one observer call on the repaired tree leaves the visible state alone *)
Lemma observer_step_id c s o : is_observer o = true -> veq (fst (step fixed c s o)) s.
Proof.
  destruct s. destruct o; cbn [is_observer]; try discriminate; intros _; crush_step.
  all: unfold w_build; try (repeat f_equal; lia).
Qed.

(* ... and can at most set [polluted] *)
Lemma observer_step_polluted c s o : is_observer o = true ->
  polluted (fst (step fixed c s o)) = polluted s \/ polluted (fst (step fixed c s o)) = true /\ pollutes c = true.
Proof.
  destruct s as [a b c0 d e e' f oo tm g h p]. destruct o; cbn [is_observer]; try discriminate; intros _; crush_step; auto.
  all: destruct p, (pollutes c); cbn; auto.
Qed.

Lemma run_congr v c ops : forall s1 s2, veq s1 s2 -> veq (run v c s1 ops) (run v c s2 ops).
Proof.
  induction ops as [|o r IH]; intros s1 s2 H; cbn [run]; auto.
  apply IH. apply step_congr, H.
Qed.

Lemma trace_congr v c ops : forall s1 s2, veq s1 s2 -> trace v c s1 ops = trace v c s2 ops.
Proof.
  induction ops as [|o r IH]; intros s1 s2 H; cbn [trace]; auto.
  destruct (step_congr v c o s1 s2 H) as [Hs Ho].
  destruct (step v c s1 o) as [s1' o1], (step v c s2 o) as [s2' o2]; cbn [fst snd] in *. subst. f_equal. auto.
Qed.

Theorem observers_preserve c ops : forall s, forallb is_observer ops = true -> veq (run fixed c s ops) s.
Proof.
  induction ops as [|o r IH]; intros s H; cbn [run]. { apply veq_refl. }
  cbn [forallb] in H. apply andb_true_iff in H as [Ho Hr].
  eapply veq_trans; [apply IH, Hr|]. apply observer_step_id, Ho.
Qed.

(* every later observation is what it would have been *)
Theorem later_observation_same c ops s o : forallb is_observer ops = true ->
  snd (step fixed c (run fixed c s ops) o) = snd (step fixed c s o).
Proof. intro H. apply step_congr, observers_preserve, H. Qed.

(* the whole continuation (search steps, forwards, further observers) is what it would have been *)
Theorem continuation_same c ops rest s : forallb is_observer ops = true ->
  trace fixed c (run fixed c s ops) rest = trace fixed c s rest
  /\ veq (run fixed c (run fixed c s ops) rest) (run fixed c s rest).
Proof. intro H. split; [apply trace_congr|apply run_congr]; apply observers_preserve, H. Qed.

(* observers may be erased from ANY history (arbitrary interleaving with forwards, search steps and
   specification switches): same observations of the remaining operations, same final state *)
Lemma erase_gen c ops : forall s1 s2, veq s1 s2 ->
  trace_mut fixed c s1 ops = trace fixed c s2 (erase ops) /\ veq (run fixed c s1 ops) (run fixed c s2 (erase ops)).
Proof.
  induction ops as [|o r IH]; intros s1 s2 H; cbn [trace_mut erase filter run trace]. { auto. }
  destruct (is_observer o) eqn:Ho; cbn [negb].
  - fold (erase r). destruct (step fixed c s1 o) as [s1' o1] eqn:E. cbn [fst].
    apply IH. eapply veq_trans; [|exact H].
    replace s1' with (fst (step fixed c s1 o)) by (rewrite E; reflexivity). apply observer_step_id, Ho.
  - fold (erase r). cbn [run trace].
    destruct (step_congr fixed c o s1 s2 H) as [Hs Hob].
    destruct (step fixed c s1 o) as [s1' o1], (step fixed c s2 o) as [s2' o2]; cbn [fst snd] in *. subst.
    destruct (IH s1' s2' Hs) as [IH1 IH2]. split; [f_equal|]; assumption.
Qed.

Theorem erase_observers c ops s :
  trace_mut fixed c s ops = trace fixed c s (erase ops) /\ veq (run fixed c s ops) (run fixed c s (erase ops)).
Proof. apply erase_gen, veq_refl. Qed.

(* an observer called between backward() and optimizer.step(), followed by eval() and an inference: instance of the erasure *)
Lemma between_backward_and_step c s o : is_observer o = true ->
  trace_mut fixed c s [OBackward; o; OStep; OSetMode false; OForward] = trace fixed c s [OBackward; OStep; OSetMode false; OForward]
  /\ veq (run fixed c s [OBackward; o; OStep; OSetMode false; OForward]) (run fixed c s [OBackward; OStep; OSetMode false; OForward]).
Proof.
  intro H. pose proof (erase_observers c [OBackward; o; OStep; OSetMode false; OForward] s) as E.
  unfold erase in E. cbn [filter is_observer negb] in E. rewrite H in E. cbn [negb] in E. exact E.
Qed.

(* switching the specification and switching it back (observers in between) *)
Theorem set_spec_roundtrip c s sp ops : forallb is_observer ops = true ->
  veq (run fixed c s (OSetSpec sp :: ops ++ [OSetSpec (spec s)])) s.
Proof.
  intro H. cbn [run step fst set_spec].
  set (s1 := fst (set_spec s sp)).
  assert (R : forall a l x, run fixed c a (l ++ [x]) = fst (step fixed c (run fixed c a l) x)).
  { intros a l; revert a; induction l as [|y l IHl]; intros a x; cbn [run app]; auto. }
  rewrite R.
  pose proof (observers_preserve c ops s1 H) as P.
  eapply veq_trans; [apply step_congr, P|].
  destruct s; reflexivity.
Qed.

Corollary set_spec_roundtrip_costs c s sp ops o : forallb is_observer ops = true ->
  snd (step fixed c (run fixed c s (OSetSpec sp :: ops ++ [OSetSpec (spec s)])) o) = snd (step fixed c s o).
Proof. intro H. apply step_congr, set_spec_roundtrip, H. Qed.

(* exports from equal (visible) states are equal networks; repeated exports are identical *)
Theorem export_deterministic v c s1 s2 : veq s1 s2 -> snd (step v c s1 OExport) = snd (step v c s2 OExport).
Proof. intro H. apply step_congr, H. Qed.

Theorem export_repeatable c s ops : forallb is_observer ops = true ->
  snd (step fixed c (run fixed c s ops) OExport) = snd (step fixed c s OExport).
Proof. apply later_observation_same. Qed.

(* add_bn=False is accepted by PIT only and gives the same network (the option is dead code) *)
Lemma export_nobn_same c s : meth c = PIT -> snd (step fixed c s OExportNoBn) = snd (step fixed c s OExport).
Proof. intro H. cbn [step]. rewrite H. reflexivity. Qed.

(* ---- the pinned upstream revision violates the statement ---- *)
Definition cfg_pit := mkCfg PIT false true true true true true false false.
Definition cfg_mps_g := mkCfg MPS true false false true false false true true.
Definition cfg_sn_g := mkCfg SN true true true true true true false false.
Definition s_train := fst (step fixed cfg_sn_g (init cfg_sn_g true false SingleA) OForward).

(* export() leaves the seed in eval mode although the wrapper reports training *)
Lemma upstream_export_mode_refuted : exists c s,
  tr_wrap s = true /\ tr_seed s = true /\
  let s' := fst (step upstream c s OExport) in tr_wrap s' = true /\ tr_seed s' = false /\ tr_leaf s' = false.
Proof. exists cfg_pit, (init cfg_pit true false SingleA). cbn. auto. Qed.

(* restoring "the mode" with self.train(self.training) instead of every module's own flag: a BatchNorm frozen by
   the user (module.eval() while the wrapper trains) is put back in training mode by export(), its statistics
   start moving at the next forward *)
Lemma mode_only_restore_refuted : exists c s,
  let v := mkVer RMode true true true in
  tr_sub s = false /\ tr_sub (fst (step v c s OExport)) = true /\
  bv (run v c s [OExport; OForward]) <> bv (run v c s [OForward]).
Proof. exists cfg_pit, (init cfg_pit true true SingleA). cbn. repeat split; discriminate. Qed.

(* the cost after export() differs from the cost before it (MPS, training) *)
Lemma upstream_export_cost_refuted : exists c s,
  snd (step upstream c (fst (step upstream c s OExport)) OCost) <> snd (step upstream c s OCost).
Proof. exists cfg_mps_g, (fst (step upstream cfg_mps_g (init cfg_mps_g true false SingleA) OForward)). vm_compute. discriminate. Qed.

(* export() advances the global random stream *)
Lemma upstream_export_rng_refuted : exists c s, rng (fst (step upstream c s OExport)) <> rng s.
Proof. exists cfg_pit, (init cfg_pit false false SingleA). vm_compute. discriminate. Qed.

(* SuperNet summary() under Gumbel sampling in training: cost changes, random stream advances *)
Lemma upstream_summary_refuted : exists c s,
  snd (step upstream c (fst (step upstream c s OSummary)) OCost) <> snd (step upstream c s OCost)
  /\ rng (fst (step upstream c s OSummary)) <> rng s.
Proof. exists cfg_sn_g, s_train. split; vm_compute; discriminate. Qed.

(* export() that ends with update_softmax_options(disable_sampling=False): on a model frozen by the user with
   disable_sampling=True after some search steps, export() re-enables sampling; the next forward re-samples the
   coefficients, so the cost (and the output) differ from the run without the export *)
Definition frozen_prefix := [OForward; OTrainStep; OTrainStep; OSetOpt (Some true) None None None].
Lemma export_resetting_options_refuted : exists c s,
  let v := mkVer RAll true true false in
  o_disabled (opt s) = true /\ o_disabled (opt (fst (step v c s OExport))) = false /\
  snd (step v c (run v c s [OExport; OForward]) OCost) <> snd (step v c (run v c s [OForward]) OCost).
Proof.
  exists cfg_mps_g, (run fixed cfg_mps_g (init cfg_mps_g true false SingleA) frozen_prefix).
  vm_compute. repeat split; discriminate.
Qed.

(* each of the three repairs is needed on its own *)
Lemma each_fix_needed :
  (exists c s, ~ veq (fst (step (mkVer RNo true true true) c s OExport)) s) /\
  (exists c s, ~ veq (fst (step (mkVer RMode true true true) c s OExport)) s) /\
  (exists c s, ~ veq (fst (step (mkVer RAll false true true) c s OExport)) s) /\
  (exists c s, ~ veq (fst (step (mkVer RAll true false true) c s OSummary)) s).
Proof.
  split; [|split; [|split]].
  - exists cfg_pit, (init cfg_pit true false SingleA). vm_compute. discriminate.
  - exists cfg_pit, (init cfg_pit true true SingleA). vm_compute. discriminate.
  - exists cfg_pit, (init cfg_pit true false SingleA). vm_compute. discriminate.
  - exists cfg_sn_g, s_train. vm_compute. discriminate.
Qed.

(* non-vacuity: a history with forwards, a search step, specification switches and all observers *)
Definition ex_ops := [OForward; OCost; OSummary; OExport; OTrainStep; OSetSpec DictAB; OGetCost "b"%string; OGetCost "a"%string; OExport;
                      OFlip; OSetSpec SingleA; OForward; OSummary; OCost].
Lemma example_history :
  trace_mut fixed cfg_sn_g (init cfg_sn_g true false SingleA) ex_ops = trace fixed cfg_sn_g (init cfg_sn_g true false SingleA) (erase ex_ops)
  /\ List.length (erase ex_ops) = 6%nat
  /\ rng (run fixed cfg_sn_g (init cfg_sn_g true false SingleA) ex_ops) = 35
  /\ trace_mut upstream cfg_sn_g (init cfg_sn_g true false SingleA) ex_ops <> trace upstream cfg_sn_g (init cfg_sn_g true false SingleA) (erase ex_ops).
Proof. repeat split; vm_compute; try reflexivity; discriminate. Qed.
