From Coq Require Import QArith List ZArith Bool Arith Lia Lqa.
Import ListNotations.
Require Import Plinio.Base.Qx Plinio.Model.SuperNet.

(* ============================================================ C03 *)
Definition teq (x y : tensor) : Prop := forall i, x i == y i.

Lemma teq_refl x : teq x x. Proof. intro; reflexivity. Qed.
Lemma teq_trans x y z : teq x y -> teq y z -> teq x z. Proof. intros H1 H2 i; rewrite (H1 i); apply H2. Qed.
Lemma teq_sym x y : teq x y -> teq y x. Proof. intros H i; symmetry; apply H. Qed.

Lemma qmix_zeros : forall n ys i, qmix (zeros n) ys i == 0.
Proof. induction n; intros [|y ys] i; cbn; try reflexivity. rewrite IHn. ring. Qed.

Lemma qmix_one_hot : forall ys k y, nth_error ys k = Some y -> teq (qmix (one_hot k (length ys)) ys) y.
Proof.
  induction ys as [|y0 ys IH]; intros [|k] y H i; cbn in *; try discriminate.
  - injection H as <-. rewrite qmix_zeros. ring.
  - rewrite (IH _ _ H i). ring.
Qed.

Lemma qmix_ext : forall th ys ys', Forall2 teq ys ys' -> teq (qmix th ys) (qmix th ys').
Proof.
  induction th as [|t th IH]; intros ys ys' H i; destruct H; cbn; try reflexivity.
  rewrite (H i), (IH _ _ H0 i). reflexivity.
Qed.

Section C03.
  Variable apply : layer -> tensor -> tensor.
  Hypothesis apply_ext : forall l x y, teq x y -> teq (apply l x) (apply l y).

  Lemma run_branch_ext : forall b x y, teq x y -> teq (run_branch apply b x) (run_branch apply b y).
  Proof. induction b; intros x y H; cbn; [exact H|]. apply IHb, apply_ext, H. Qed.

  Lemma eval_node_ext : forall th n x y, teq x y -> teq (eval_node apply qmix th n x) (eval_node apply qmix th n y).
  Proof.
    intros th [l|b brs] x y H; cbn; [apply apply_ext, H|]. apply qmix_ext.
    induction brs; cbn; constructor; [apply run_branch_ext, H|exact IHbrs].
  Qed.

  Lemma sn_eval_ext : forall th nt x y, teq x y -> teq (sn_eval apply qmix th nt x) (sn_eval apply qmix th nt y).
  Proof. induction nt; intros x y H; cbn; [exact H|]. apply IHnt, eval_node_ext, H. Qed.

  Lemma sn_eval_app : forall th a b x, sn_eval apply qmix th (a ++ b) x = sn_eval apply qmix th b (sn_eval apply qmix th a x).
  Proof. intros. unfold sn_eval. apply fold_left_app. Qed.

  Lemma sn_eval_plain : forall th br x, sn_eval apply qmix th (map NFixed br) x = run_branch apply br x.
  Proof. induction br; intro x; cbn; [reflexivity|]. apply IHbr. Qed.

  (* hard (one-hot) coefficients: the SuperNet computes what the exported network computes *)
  Theorem sn_hard_eq_export : forall nt win th th' e x,
    (forall b brs, In (NChoice b brs) nt -> th b = one_hot (win b) (length brs)) ->
    sn_export win nt = Some e ->
    teq (sn_eval apply qmix th nt x) (sn_eval apply qmix th' e x).
  Proof.
    induction nt as [|n nt IH]; intros win th th' e x Hth He.
    - injection He as <-. apply teq_refl.
    - unfold sn_export in *. cbn in He.
      destruct (export_node false win n) as [a|] eqn:Ea; [|discriminate].
      destruct (sn_export_gen false win nt) as [r|] eqn:Er; [|discriminate].
      injection He as <-. rewrite sn_eval_app. cbn [sn_eval fold_left].
      change (fold_left (fun v n0 => eval_node apply qmix th n0 v) nt) with (sn_eval apply qmix th nt).
      eapply teq_trans.
      2:{ apply (IH win th th' r); [intros; apply Hth; right; assumption|exact Er]. }
      apply sn_eval_ext.
      destruct n as [l|b brs]; cbn in Ea.
      + injection Ea as <-. cbn. apply teq_refl.
      + unfold pick in Ea. destruct (nth_error brs (win b)) as [br|] eqn:En; [|discriminate].
        injection Ea as <-. rewrite sn_eval_plain. cbn.
        rewrite (Hth b brs (or_introl eq_refl)).
        rewrite <- (map_length (fun br0 => run_branch apply br0 x) brs).
        apply qmix_one_hot. rewrite nth_error_map, En. reflexivity.
  Qed.
End C03.

(* ------------------------------------------------------------ structure of the exported network *)
Definition expand (win : Z -> nat) (n : node) : list layer :=
  match n with NFixed l => [l] | NChoice b brs => nth (win b) brs [] end.

Definition winners_ok (win : Z -> nat) (nt : net) : Prop :=
  forall b brs, In (NChoice b brs) nt -> (win b < length brs)%nat.

Lemma sn_export_some : forall nt win, winners_ok win nt ->
  sn_export win nt = Some (map NFixed (flat_map (expand win) nt)).
Proof.
  induction nt as [|n nt IH]; intros win H; [reflexivity|].
  unfold sn_export in *. cbn. rewrite IH by (intros b brs Hin; apply (H b brs); right; exact Hin).
  destruct n as [l|b brs]; cbn; [reflexivity|].
  unfold pick. destruct (nth_error brs (win b)) as [br|] eqn:E.
  - cbn. rewrite map_app. rewrite (nth_error_nth _ _ _ E). reflexivity.
  - apply nth_error_None in E. specialize (H b brs (or_introl eq_refl)). lia.
Qed.

Lemma sn_export_none : forall nt win, sn_export win nt <> None -> winners_ok win nt.
Proof.
  induction nt as [|n nt IH]; intros win H b brs Hin; [destruct Hin|].
  unfold sn_export in *. cbn in H.
  destruct (export_node false win n) as [a|] eqn:Ea; [|congruence].
  destruct (sn_export_gen false win nt) as [r|] eqn:Er; [|congruence].
  destruct Hin as [->|Hin].
  - cbn in Ea. unfold pick in Ea. destruct (nth_error brs (win b)) eqn:E; [|discriminate].
    apply nth_error_Some. congruence.
  - apply (IH win); [rewrite Er; discriminate|exact Hin].
Qed.

(* export() succeeds exactly when every winner index designates a branch (always true for an arg-max) *)
Theorem sn_export_succeeds_iff : forall nt win, sn_export win nt <> None <-> winners_ok win nt.
Proof. split; [apply sn_export_none|]. intro H. rewrite (sn_export_some _ _ H). discriminate. Qed.

Lemma fixed_layers_map : forall ls, fixed_layers (map NFixed ls) = ls.
Proof. induction ls; cbn; [reflexivity|]. f_equal. exact IHls. Qed.

(* the exported network is, in order, every fixed layer untouched and, in place of every choice block,
   exactly the layers of the winning branch *)
Theorem sn_export_tree : forall nt win e, sn_export win nt = Some e ->
  is_plain e = true /\ fixed_layers e = flat_map (expand win) nt /\
  (forall b brs, In (NChoice b brs) nt -> exists br, nth_error brs (win b) = Some br /\ expand win (NChoice b brs) = br).
Proof.
  intros nt win e He.
  assert (Hw : winners_ok win nt) by (apply sn_export_none; congruence).
  rewrite (sn_export_some _ _ Hw) in He. injection He as <-.
  split; [|split].
  - unfold is_plain. rewrite forallb_forall. intros n Hn. apply in_map_iff in Hn. destruct Hn as [l [<- _]]. reflexivity.
  - apply fixed_layers_map.
  - intros b brs Hin. specialize (Hw b brs Hin). destruct (nth_error brs (win b)) as [br|] eqn:E.
    + exists br. split; [reflexivity|]. cbn. apply nth_error_nth. exact E.
    + apply nth_error_None in E. lia.
Qed.

Lemma in_branch_mods : forall i b, In i (branch_mods b) <-> In (Mod i) b.
Proof.
  intros i b. unfold branch_mods. rewrite in_flat_map. split.
  - intros [l [Hl Hi]]. destruct l; cbn in Hi; [destruct Hi as [->|[]]; exact Hl|destruct Hi].
  - intro H. exists (Mod i). split; [exact H|left; reflexivity].
Qed.

Lemma net_mods_plain : forall ls, net_mods (map NFixed ls) = branch_mods ls.
Proof. induction ls as [|l ls IH]; cbn; [reflexivity|]. unfold net_mods in IH. rewrite IH. destruct l; cbn; reflexivity. Qed.

(* module tree: a module survives iff it is a fixed layer or belongs to the winning branch of some block *)
Theorem sn_export_modules : forall nt win e i, sn_export win nt = Some e ->
  (In i (net_mods e) <->
   In (NFixed (Mod i)) nt \/ exists b brs br, In (NChoice b brs) nt /\ nth_error brs (win b) = Some br /\ In (Mod i) br).
Proof.
  intros nt win e i He.
  assert (Hw : winners_ok win nt) by (apply sn_export_none; congruence).
  rewrite (sn_export_some _ _ Hw) in He. injection He as <-.
  rewrite net_mods_plain, in_branch_mods, in_flat_map. split.
  - intros [n [Hn Hi]]. destruct n as [l|b brs]; cbn in Hi.
    + destruct Hi as [->|[]]. left. exact Hn.
    + right. specialize (Hw b brs Hn). destruct (nth_error brs (win b)) as [br|] eqn:E.
      * exists b, brs, br. rewrite (nth_error_nth _ _ _ E) in Hi. auto.
      * apply nth_error_None in E. lia.
  - intros [H|[b [brs [br [Hn [E Hi]]]]]].
    + exists (NFixed (Mod i)). split; [exact H|left; reflexivity].
    + exists (NChoice b brs). split; [exact Hn|]. cbn. rewrite (nth_error_nth _ _ _ E). exact Hi.
Qed.

(* exporting an exported network changes nothing, whatever the winners *)
Theorem sn_export_idempotent : forall nt win win' e, sn_export win nt = Some e -> sn_export win' e = Some e.
Proof.
  intros nt win win' e He.
  assert (Hw : winners_ok win nt) by (apply sn_export_none; congruence).
  rewrite (sn_export_some _ _ Hw) in He. injection He as <-.
  generalize (flat_map (expand win) nt). induction l as [|l ls IH]; [reflexivity|].
  unfold sn_export in *. cbn. rewrite IH. reflexivity.
Qed.

(* the result depends on the winners of the blocks of the network only *)
Theorem sn_export_deterministic : forall nt win win',
  (forall b brs, In (NChoice b brs) nt -> win b = win' b) -> sn_export win nt = sn_export win' nt.
Proof.
  induction nt as [|n nt IH]; intros win win' H; [reflexivity|].
  unfold sn_export in *. cbn. rewrite (IH win win') by (intros; eapply H; right; eassumption).
  destruct n as [l|b brs]; [reflexivity|]. cbn. rewrite (H b brs (or_introl eq_refl)). reflexivity.
Qed.

(* upstream name matching: export raises although the winner exists / exports a branch that is not the winner *)
Lemma sn_export_legacy_raises_refuted : exists nt win, winners_ok win nt /\ sn_export_legacy win nt = None.
Proof.
  exists [NChoice 0 [[Mod 0]; [Mod 1; Fn 0]]], (fun _ => 1%nat). split.
  - intros b brs [H|[]]. injection H as <- <-. cbn. lia.
  - reflexivity.
Qed.

Definition twelve : list branch :=
  [[Mod 0]; [Mod 1; Fn 0]; [Mod 2]; [Mod 3]; [Mod 4]; [Mod 5]; [Mod 6]; [Mod 7]; [Mod 8]; [Mod 9]; [Mod 10]; [Mod 11]].
Lemma sn_export_legacy_wrong_branch_refuted : exists nt win e,
  sn_export_legacy win nt = Some e /\ sn_export win nt <> Some e.
Proof.
  exists [NChoice 0 twelve], (fun _ => 1%nat), [NFixed (Mod 10)]. split; [reflexivity|]. vm_compute. discriminate.
Qed.
(* ============================================================ C06 *)
Lemma qsum_app : forall a b, qsum (a ++ b) == qsum a + qsum b.
Proof. induction a; intro b; cbn; [ring|]. rewrite IHa. ring. Qed.

Lemma qsum_le : forall {A} (f g : A -> Q) l, (forall x, In x l -> f x <= g x) -> qsum (map f l) <= qsum (map g l).
Proof.
  induction l; intro H; cbn; [lra|].
  assert (f a <= g a) by (apply H; left; reflexivity).
  assert (qsum (map f l) <= qsum (map g l)) by (apply IHl; intros; apply H; right; assumption). lra.
Qed.

Lemma qsum_eq : forall {A} (f g : A -> Q) l, (forall x, In x l -> f x == g x) -> qsum (map f l) == qsum (map g l).
Proof.
  induction l; intro H; cbn; [reflexivity|].
  rewrite (H a (or_introl eq_refl)), IHl by (intros; apply H; right; assumption). reflexivity.
Qed.

(* ---- dot product facts *)
Lemma dot_zeros : forall n cs, dot (zeros n) cs == 0.
Proof. induction n; intros [|c cs]; cbn; try reflexivity. rewrite IHn. ring. Qed.

Lemma dot_one_hot : forall cs k, (k < length cs)%nat -> dot (one_hot k (length cs)) cs == nth k cs 0.
Proof.
  induction cs as [|c cs IH]; intros [|k] H; cbn in *; try lia.
  - rewrite dot_zeros. ring.
  - rewrite IH by lia. ring.
Qed.

Definition nonneg (th : list Q) : Prop := Forall (fun t => 0 <= t) th.
Definition prob (th : list Q) : Prop := nonneg th /\ qsum th == 1.

Lemma dot_lower : forall th cs m, nonneg th -> length th = length cs -> (forall j, (j < length cs)%nat -> m <= nth j cs 0) ->
  m * qsum th <= dot th cs.
Proof.
  induction th as [|t th IH]; intros [|c cs] m Hn Hl Hm; cbn in *; try discriminate; [lra|].
  inversion Hn; subst.
  assert (m <= c) by (apply (Hm 0%nat); lia).
  assert (m * qsum th <= dot th cs) by (apply IH; [assumption|lia|intros j Hj; apply (Hm (S j)); lia]).
  nra.
Qed.

Lemma dot_upper : forall th cs m, nonneg th -> length th = length cs -> (forall j, (j < length cs)%nat -> nth j cs 0 <= m) ->
  dot th cs <= m * qsum th.
Proof.
  induction th as [|t th IH]; intros [|c cs] m Hn Hl Hm; cbn in *; try discriminate; [lra|].
  inversion Hn; subst.
  assert (c <= m) by (apply (Hm 0%nat); lia).
  assert (dot th cs <= m * qsum th) by (apply IH; [assumption|lia|intros j Hj; apply (Hm (S j)); lia]).
  nra.
Qed.

Lemma zeros_nonneg : forall n, nonneg (zeros n).
Proof. induction n; cbn; constructor; [lra|exact IHn]. Qed.
Lemma qsum_zeros : forall n, qsum (zeros n) == 0.
Proof. induction n; cbn; [reflexivity|]. rewrite IHn. ring. Qed.
Lemma length_zeros : forall n, length (zeros n) = n.
Proof. intro. apply repeat_length. Qed.
Lemma prob_one_hot : forall n k, (k < n)%nat -> prob (one_hot k n) /\ length (one_hot k n) = n.
Proof.
  induction n as [|n IH]; intros k Hk; [lia|]. destruct k as [|k]; cbn [one_hot].
  - split; [split|].
    + constructor; [lra|apply zeros_nonneg].
    + cbn [qsum]. rewrite qsum_zeros. ring.
    + cbn [length]. rewrite length_zeros. reflexivity.
  - destruct (IH k) as [[Hn Hs] Hl]; [lia|]. split; [split|].
    + constructor; [lra|exact Hn].
    + cbn [qsum]. rewrite Hs. ring.
    + cbn [length]. rewrite Hl. reflexivity.
Qed.

(* ---- argbest *)
Lemma argbest_lt : forall le xs, xs <> [] -> (argbest le xs < length xs)%nat.
Proof.
  induction xs as [|x r IH]; intro H; [congruence|]. cbn [argbest length].
  destruct r as [|y r']; [lia|].
  destruct (le x (nth (argbest le (y :: r')) (y :: r') 0)); [lia|].
  assert (argbest le (y :: r') < length (y :: r'))%nat by (apply IH; discriminate). lia.
Qed.

Lemma argmin_le : forall xs j, (j < length xs)%nat -> nth (argmin_q xs) xs 0 <= nth j xs 0.
Proof.
  unfold argmin_q. induction xs as [|x r IH]; intros j Hj; [cbn in Hj; lia|].
  cbn [argbest]. destruct r as [|y r']; [destruct j as [|j]; [cbn; lra|cbn in Hj; lia]|].
  set (k := argbest Qle_bool (y :: r')) in *.
  destruct (Qle_bool x (nth k (y :: r') 0)) eqn:E.
  - apply Qle_bool_iff in E. destruct j; [cbn; lra|].
    change (x <= nth j (y :: r') 0). eapply Qle_trans; [exact E|]. apply IH. cbn in *; lia.
  - assert (nth k (y :: r') 0 < x).
    { apply Qnot_le_lt. intro H. apply Qle_bool_iff in H. congruence. }
    change (nth k (y :: r') 0 <= nth j (x :: y :: r') 0).
    destruct j as [|j]; [change (nth k (y :: r') 0 <= x); apply Qlt_le_weak; exact H|].
    change (nth k (y :: r') 0 <= nth j (y :: r') 0). apply IH. cbn in Hj |- *; lia.
Qed.

Lemma argmax_ge : forall xs j, (j < length xs)%nat -> nth j xs 0 <= nth (argmax_q xs) xs 0.
Proof.
  unfold argmax_q. induction xs as [|x r IH]; intros j Hj; [cbn in Hj; lia|].
  cbn [argbest]. destruct r as [|y r']; [destruct j as [|j]; [cbn; lra|cbn in Hj; lia]|].
  set (k := argbest (fun a b => Qle_bool b a) (y :: r')) in *.
  destruct (Qle_bool (nth k (y :: r') 0) x) eqn:E.
  - apply Qle_bool_iff in E. destruct j; [cbn; lra|].
    change (nth j (y :: r') 0 <= x). eapply Qle_trans; [|exact E]. apply IH. cbn in *; lia.
  - assert (x < nth k (y :: r') 0).
    { apply Qnot_le_lt. intro H. apply Qle_bool_iff in H. congruence. }
    change (nth j (x :: y :: r') 0 <= nth k (y :: r') 0).
    destruct j as [|j]; [change (x <= nth k (y :: r') 0); apply Qlt_le_weak; exact H|].
    change (nth j (y :: r') 0 <= nth k (y :: r') 0). apply IH. cbn in Hj |- *; lia.
Qed.

(* ---- entries belong to the network *)
Lemma entries_from_in : forall nt seen b brs, In (ECombiner b brs) (entries_from seen nt) -> In (NChoice b brs) nt.
Proof.
  induction nt as [|n nt IH]; intros seen b brs H; [destruct H|].
  destruct n as [[i|c]|b' brs']; cbn in H.
  - destruct H as [H|H]; [discriminate|]. right. eapply IH, H.
  - right. eapply IH, H.
  - destruct H as [H|H]; [injection H as <- <-; left; reflexivity|]. right. eapply IH, H.
Qed.

Lemma euniq_acc_in : forall l seen e, In e (euniq_acc seen l) -> In e l.
Proof.
  induction l as [|a l IH]; intros seen e H; [destruct H|]. cbn in H.
  destruct (kmem (entry_key a) seen); [right; eapply IH, H|].
  destruct H as [->|H]; [left; reflexivity|right; eapply IH, H].
Qed.

Lemma target_in : forall shared nt b brs, In (ECombiner b brs) (target_list shared nt) -> In (NChoice b brs) nt.
Proof.
  intros [|] nt b brs H; unfold target_list in H.
  - apply (entries_from_in nt []). eapply euniq_acc_in, H.
  - apply (entries_from_in nt []), H.
Qed.

Definition blocks_consistent (nt : net) : Prop :=
  forall b brs brs', In (NChoice b brs) nt -> In (NChoice b brs') nt -> brs = brs'.

Lemma find_block_in : forall nt b brs, blocks_consistent nt -> In (NChoice b brs) nt -> find_block b nt = brs.
Proof.
  induction nt as [|n nt IH]; intros b brs Hc Hin; [destruct Hin|].
  destruct n as [l|b' brs']; cbn.
  - destruct Hin as [H|Hin]; [discriminate|]. apply IH; [|exact Hin].
    intros x y z H1 H2. apply (Hc x); right; assumption.
  - destruct (Z.eqb_spec b b') as [->|Hne].
    + apply (Hc b'); [left; reflexivity|exact Hin].
    + destruct Hin as [H|Hin]; [injection H as -> ->; congruence|]. apply IH; [|exact Hin].
      intros x y z H1 H2. apply (Hc x); right; assumption.
Qed.

Section C06.
  Variable cost : Z -> nat -> Q.

  Definition fixed_cost (shared : bool) (nt : net) : Q :=
    qsum (map (fun e => match e with ELayer i s => cost i s | ECombiner _ _ => 0 end) (target_list shared nt)).

  (* full_cost adds exactly the cost of the layers outside the choice blocks *)
  Theorem sn_cost_full_adds_fixed : forall shared th nt,
    sn_cost cost shared true th nt == sn_cost cost shared false th nt + fixed_cost shared nt.
  Proof.
    intros. unfold sn_cost, fixed_cost. induction (target_list shared nt) as [|e l IH]; cbn; [ring|].
    rewrite IH. destruct e; cbn; ring.
  Qed.

  (* without full_cost the cost is the sum over the combiners of the coefficient-weighted branch costs *)
  Theorem sn_cost_is_weighted_mix : forall shared th nt,
    sn_cost cost shared false th nt ==
    qsum (map (fun e => match e with ECombiner b brs => dot (th b) (map (branch_cost cost) brs) | ELayer _ _ => 0 end) (target_list shared nt)).
  Proof. intros. unfold sn_cost. apply qsum_eq. intros [b brs|i s] _; reflexivity. Qed.

  (* ---- affine in the coefficient vector of each block *)
  Definition upd (th : Z -> list Q) (b : Z) (v : list Q) : Z -> list Q := fun b' => if Z.eqb b' b then v else th b'.
  Fixpoint lin (lam : Q) (u v : list Q) : list Q :=
    match u, v with a :: u', c :: v' => (lam * a + (1 - lam) * c) :: lin lam u' v' | _, _ => [] end.

  Lemma dot_lin : forall lam u v cs, length u = length v -> dot (lin lam u v) cs == lam * dot u cs + (1 - lam) * dot v cs.
  Proof.
    induction u as [|a u IH]; intros [|c v] cs H; cbn in *; try discriminate; [destruct cs; ring|].
    destruct cs as [|k cs]; [ring|]. rewrite IH by lia. ring.
  Qed.

  Theorem sn_cost_affine : forall shared full th nt b lam u v, length u = length v ->
    sn_cost cost shared full (upd th b (lin lam u v)) nt ==
    lam * sn_cost cost shared full (upd th b u) nt + (1 - lam) * sn_cost cost shared full (upd th b v) nt.
  Proof.
    intros. unfold sn_cost. induction (target_list shared nt) as [|e l IH]; cbn; [ring|].
    rewrite IH. destruct e as [b' brs|i s]; cbn; [|ring].
    unfold block_cost, upd. destruct (Z.eqb b' b); [rewrite dot_lin by assumption|]; ring.
  Qed.

  (* ---- convexity: between the cheapest and the most expensive selection *)
  Lemma block_hard : forall brs k, (k < length brs)%nat ->
    block_cost cost (one_hot k (length brs)) brs == nth k (map (branch_cost cost) brs) 0.
  Proof. intros. unfold block_cost. rewrite <- (map_length (branch_cost cost) brs). apply dot_one_hot. rewrite map_length. assumption. Qed.

  Lemma entry_hard : forall full nt win b brs, blocks_consistent nt -> In (NChoice b brs) nt -> (win b < length brs)%nat ->
    entry_cost cost full (hard_sel nt win) (ECombiner b brs) == nth (win b) (map (branch_cost cost) brs) 0.
  Proof. intros. cbn. unfold hard_sel. rewrite (find_block_in nt b brs) by assumption. apply block_hard. assumption. Qed.

  Definition coeffs_ok (th : Z -> list Q) (nt : net) : Prop :=
    forall b brs, In (NChoice b brs) nt -> prob (th b) /\ length (th b) = length brs.

  Theorem sn_cost_convex : forall shared full th nt, blocks_consistent nt -> coeffs_ok th nt ->
    sn_cost cost shared full (hard_sel nt (cheapest cost nt)) nt <= sn_cost cost shared full th nt /\
    sn_cost cost shared full th nt <= sn_cost cost shared full (hard_sel nt (dearest cost nt)) nt.
  Proof.
    intros shared full th nt Hc Hth. unfold sn_cost. split; apply qsum_le; intros [b brs|i s] Hin; cbn [entry_cost]; try lra.
    - pose proof (target_in _ _ _ _ Hin) as Hn. destruct (Hth b brs Hn) as [[Hnn Hs] Hl].
      assert (Hne : brs <> []) by (intro; subst; destruct (th b); cbn in *; [lra|discriminate]).
      assert (Hk : (cheapest cost nt b < length brs)%nat).
      { unfold cheapest. rewrite (find_block_in nt b brs Hc Hn). unfold argmin_q.
        rewrite <- (map_length (branch_cost cost) brs). apply argbest_lt. destruct brs; [congruence|discriminate]. }
      change (entry_cost cost full (hard_sel nt (cheapest cost nt)) (ECombiner b brs) <= block_cost cost (th b) brs).
      rewrite (entry_hard full nt _ b brs Hc Hn Hk). unfold block_cost.
      set (cs := map (branch_cost cost) brs). set (m := nth (cheapest cost nt b) cs 0).
      assert (m * qsum (th b) <= dot (th b) cs).
      { apply dot_lower; [exact Hnn|unfold cs; rewrite map_length; exact Hl|].
        intros j Hj. unfold m, cheapest. rewrite (find_block_in nt b brs Hc Hn). apply argmin_le. exact Hj. }
      rewrite Hs in H. lra.
    - pose proof (target_in _ _ _ _ Hin) as Hn. destruct (Hth b brs Hn) as [[Hnn Hs] Hl].
      assert (Hne : brs <> []) by (intro; subst; destruct (th b); cbn in *; [lra|discriminate]).
      assert (Hk : (dearest cost nt b < length brs)%nat).
      { unfold dearest. rewrite (find_block_in nt b brs Hc Hn). unfold argmax_q.
        rewrite <- (map_length (branch_cost cost) brs). apply argbest_lt. destruct brs; [congruence|discriminate]. }
      change (block_cost cost (th b) brs <= entry_cost cost full (hard_sel nt (dearest cost nt)) (ECombiner b brs)).
      rewrite (entry_hard full nt _ b brs Hc Hn Hk). unfold block_cost.
      set (cs := map (branch_cost cost) brs). set (m := nth (dearest cost nt b) cs 0).
      assert (dot (th b) cs <= m * qsum (th b)).
      { apply dot_upper; [exact Hnn|unfold cs; rewrite map_length; exact Hl|].
        intros j Hj. unfold m, dearest. rewrite (find_block_in nt b brs Hc Hn). apply argmax_ge. exact Hj. }
      rewrite Hs in H. lra.
  Qed.

  (* the two bounds are the minimum and the maximum over all selections *)
  Theorem sn_cost_selection_bounds : forall shared full nt win, blocks_consistent nt -> winners_ok win nt ->
    sn_cost cost shared full (hard_sel nt (cheapest cost nt)) nt <= sn_cost cost shared full (hard_sel nt win) nt /\
    sn_cost cost shared full (hard_sel nt win) nt <= sn_cost cost shared full (hard_sel nt (dearest cost nt)) nt.
  Proof.
    intros shared full nt win Hc Hw. apply sn_cost_convex; [exact Hc|].
    intros b brs Hn. unfold hard_sel. rewrite (find_block_in nt b brs Hc Hn). specialize (Hw b brs Hn).
    destruct (prob_one_hot (length brs) (win b) Hw) as [Hp Hl]. split; assumption.
  Qed.
End C06.

(* ============================================================ C06: hard selection = cost of the exported network *)
Lemma zmem_iff : forall x l, zmem x l = true <-> In x l.
Proof.
  induction l as [|y l IH]; cbn; [split; [discriminate|tauto]|].
  rewrite orb_true_iff, IH. destruct (Z.eqb_spec x y); split; intros [H|H]; auto; try discriminate; left; congruence.
Qed.
Lemma zmem_false_iff : forall x l, zmem x l = false <-> ~ In x l.
Proof. intros. rewrite <- zmem_iff. destruct (zmem x l); split; congruence. Qed.
Lemma zmem_app : forall x a b, zmem x (a ++ b) = zmem x a || zmem x b.
Proof. induction a; intro b; cbn; [reflexivity|]. rewrite IHa. apply orb_assoc. Qed.

Lemma zuniq_acc_ext : forall l s1 s2, (forall x, zmem x s1 = zmem x s2) -> zuniq_acc s1 l = zuniq_acc s2 l.
Proof.
  induction l as [|x l IH]; intros s1 s2 H; cbn; [reflexivity|]. rewrite (H x).
  destruct (zmem x s2); [apply IH, H|]. f_equal. apply IH. intro y. cbn. rewrite (H y). reflexivity.
Qed.

Lemma zuniq_acc_app : forall a b s s', (forall y, zmem y s' = zmem y s || zmem y a) ->
  zuniq_acc s (a ++ b) = zuniq_acc s a ++ zuniq_acc s' b.
Proof.
  induction a as [|x a IH]; intros b s s' H; cbn.
  - apply zuniq_acc_ext. intro y. rewrite H. cbn. rewrite orb_false_r. reflexivity.
  - destruct (zmem x s) eqn:E.
    + apply IH. intro y. rewrite H. cbn. destruct (Z.eqb_spec y x) as [->|]; [rewrite E; reflexivity|reflexivity].
    + cbn. f_equal. apply IH. intro y. rewrite H. cbn. destruct (Z.eqb y x), (zmem y s); reflexivity.
Qed.

Lemma zuniq_acc_all_seen : forall a s, (forall i, In i a -> zmem i s = true) -> zuniq_acc s a = [].
Proof. induction a as [|x a IH]; intros s H; cbn; [reflexivity|]. rewrite (H x (or_introl eq_refl)). apply IH. intros; apply H; right; assumption. Qed.

Lemma zuniq_acc_none_seen : forall a t s, (forall i, In i a -> zmem i s = false) -> zuniq_acc (t ++ s) a = zuniq_acc t a.
Proof.
  induction a as [|x a IH]; intros t s H; cbn; [reflexivity|]. rewrite zmem_app, (H x (or_introl eq_refl)), orb_false_r.
  destruct (zmem x t); [apply IH; intros; apply H; right; assumption|]. f_equal.
  apply (IH (x :: t) s). intros; apply H; right; assumption.
Qed.

Lemma zuniq_nodup : forall a s, NoDup a -> (forall i, In i a -> zmem i s = false) -> zuniq_acc s a = a.
Proof.
  induction a as [|x a IH]; intros s Hn H; cbn; [reflexivity|]. rewrite (H x (or_introl eq_refl)). f_equal.
  inversion Hn; subst. apply IH; [assumption|]. intros i Hi. cbn. rewrite (H i (or_intror Hi)), orb_false_r.
  destruct (Z.eqb_spec i x); [subst; contradiction|reflexivity].
Qed.

Lemma key_eqb_iff : forall a b, key_eqb a b = true <-> a = b.
Proof.
  intros [x p] [y q]. unfold key_eqb. cbn. rewrite andb_true_iff, Z.eqb_eq, eqb_true_iff. split; [intros [-> ->]; reflexivity|intro H; injection H; auto].
Qed.

Lemma qsum_flat_map : forall {A} (f : Z -> Q) (X : A -> list Z) l, qsum (map f (flat_map X l)) == qsum (map (fun e => qsum (map f (X e))) l).
Proof. induction l; cbn; [reflexivity|]. rewrite map_app, qsum_app, IHl. reflexivity. Qed.

Lemma branch_mods_app : forall a b, branch_mods (a ++ b) = branch_mods a ++ branch_mods b.
Proof. intros. unfold branch_mods. apply flat_map_app. Qed.

Section Export_cost.
  Variable cost : Z -> nat -> Q.
  Variable inb : Z -> bool.
  Variable full : bool.
  Variable win : Z -> nat.
  Hypothesis site_indep : forall i s, cost i s == cost i 0.

  Let f (i : Z) : Q := if inb i || full then cost i 0 else 0.
  Let X (e : entry) : list Z := match e with ECombiner b brs => branch_mods (nth (win b) brs []) | ELayer i _ => [i] end.
  Let G (e : entry) : Q := qsum (map f (zuniq (X e))).

  Lemma calls_all : forall ls seen, qsum (map (call_cost cost inb full) (calls_from seen ls)) == qsum (map f (branch_mods ls)).
  Proof.
    induction ls as [|[i|c] ls IH]; intro seen; cbn; [reflexivity| |apply IH].
    rewrite IH. unfold call_cost, f. cbn. destruct (inb i || full); [rewrite site_indep|]; reflexivity.
  Qed.

  Lemma calls_uniq : forall ls seen seen', qsum (map (call_cost cost inb full) (cuniq_acc seen (calls_from seen' ls))) == qsum (map f (zuniq_acc seen (branch_mods ls))).
  Proof.
    induction ls as [|[i|c] ls IH]; intros seen seen'; cbn; [reflexivity| |apply IH].
    destruct (zmem i seen); [apply IH|]. cbn. rewrite IH. unfold call_cost, f. cbn.
    destruct (inb i || full); [rewrite site_indep|]; reflexivity.
  Qed.

  Lemma mods_entries : forall nt seen, branch_mods (flat_map (expand win) nt) = flat_map X (entries_from seen nt).
  Proof.
    induction nt as [|n nt IH]; intro seen; [reflexivity|]. cbn [flat_map]. rewrite branch_mods_app.
    destruct n as [[i|c]|b brs]; cbn; rewrite <- IH; reflexivity.
  Qed.

  Lemma entries_from_in_layer : forall nt seen i s, In (ELayer i s) (entries_from seen nt) -> In (NFixed (Mod i)) nt.
  Proof.
    induction nt as [|n nt IH]; intros seen i s H; [destruct H|].
    destruct n as [[j|c]|b' brs']; cbn in H.
    - destruct H as [H|H]; [injection H as -> _; left; reflexivity|right; eapply IH, H].
    - right. eapply IH, H.
    - destruct H as [H|H]; [discriminate|right; eapply IH, H].
  Qed.

  Variable nt : net.
  Hypothesis Hcons : blocks_consistent nt.
  Hypothesis Hwin : winners_ok win nt.
  Hypothesis Hinb_block : forall b brs br i, In (NChoice b brs) nt -> In br brs -> In i (branch_mods br) -> inb i = true.
  Hypothesis Hinb_fixed : forall i, In (NFixed (Mod i)) nt -> inb i = false.

  Lemma winner_in : forall b brs, In (NChoice b brs) nt -> In (nth (win b) brs []) brs.
  Proof. intros. apply nth_In. apply (Hwin b brs H). Qed.

  Lemma entry_G : forall e, In e (entries nt) ->
    entry_cost cost full (hard_sel nt win) e == G e.
  Proof.
    intros [b brs|i s] Hin.
    - pose proof (entries_from_in nt [] b brs Hin) as Hn.
      rewrite (entry_hard cost full nt win b brs Hcons Hn (Hwin b brs Hn)).
      change 0 with (branch_cost cost []). rewrite map_nth. unfold G, branch_cost. cbn [X].
      apply qsum_eq. intros i Hi. unfold f.
      rewrite (Hinb_block b brs (nth (win b) brs []) i Hn (winner_in b brs Hn)); [reflexivity|].
      unfold zuniq in Hi. clear - Hi. revert Hi. generalize (@nil Z).
      induction (branch_mods (nth (win b) brs [])) as [|x l IH]; intros sn Hi; [destruct Hi|]. cbn in Hi.
      destruct (zmem x sn); [right; eapply IH, Hi|]. destruct Hi as [->|Hi]; [left; reflexivity|right; eapply IH, Hi].
    - pose proof (entries_from_in_layer nt [] i s Hin) as Hn. unfold G. cbn. unfold f.
      rewrite (Hinb_fixed i Hn). cbn. destruct full; [rewrite site_indep|]; ring.
  Qed.

  (* shared metrics *)
  Lemma uniq_sum : forall L seenK seenI,
    (forall e e', In e L -> In e' L -> entry_key e = entry_key e' -> X e = X e') ->
    (forall e e' i, In e L -> In e' L -> entry_key e <> entry_key e' -> In i (X e) -> ~ In i (X e')) ->
    (forall e i, In e L -> kmem (entry_key e) seenK = true -> In i (X e) -> zmem i seenI = true) ->
    (forall e i, In e L -> kmem (entry_key e) seenK = false -> In i (X e) -> zmem i seenI = false) ->
    qsum (map G (euniq_acc seenK L)) == qsum (map f (zuniq_acc seenI (flat_map X L))).
  Proof.
    induction L as [|e r IH]; intros seenK seenI Hsame Hdis Ht Hf; [reflexivity|].
    cbn [euniq_acc flat_map]. destruct (kmem (entry_key e) seenK) eqn:E.
    - rewrite (zuniq_acc_app (X e) (flat_map X r) seenI seenI).
      2:{ intro y. destruct (zmem y (X e)) eqn:Ey; [|rewrite orb_false_r; reflexivity].
          apply zmem_iff in Ey. rewrite (Ht e y (or_introl eq_refl) E Ey). reflexivity. }
      rewrite zuniq_acc_all_seen by (intros i Hi; apply (Ht e i (or_introl eq_refl) E Hi)).
      cbn [app]. apply IH.
      + intros; apply Hsame; try right; assumption.
      + intros e1 e2 i H1 H2; apply Hdis; right; assumption.
      + intros e1 i H1; apply Ht; right; assumption.
      + intros e1 i H1; apply Hf; right; assumption.
    - rewrite (zuniq_acc_app (X e) (flat_map X r) seenI (X e ++ seenI)).
      2:{ intro y. rewrite zmem_app. apply orb_comm. }
      replace (zuniq_acc seenI (X e)) with (zuniq (X e)).
      2:{ symmetry. apply (zuniq_acc_none_seen (X e) [] seenI). intros i Hi. apply (Hf e i (or_introl eq_refl) E Hi). }
      cbn [map qsum]. rewrite map_app, qsum_app. fold (G e).
      rewrite (IH (entry_key e :: seenK) (X e ++ seenI)); [reflexivity| | | |].
      + intros; apply Hsame; try right; assumption.
      + intros e1 e2 i H1 H2; apply Hdis; right; assumption.
      + intros e1 i H1 Hk Hi. rewrite zmem_app. cbn in Hk. apply orb_true_iff in Hk. destruct Hk as [Hk|Hk].
        * apply key_eqb_iff in Hk. rewrite <- (Hsame e1 e (or_intror H1) (or_introl eq_refl) Hk).
          apply orb_true_iff. left. apply zmem_iff. exact Hi.
        * rewrite (Ht e1 i (or_intror H1) Hk Hi). apply orb_true_r.
      + intros e1 i H1 Hk Hi. rewrite zmem_app. cbn in Hk. apply orb_false_iff in Hk. destruct Hk as [Hk1 Hk2].
        rewrite (Hf e1 i (or_intror H1) Hk2 Hi), orb_false_r. apply zmem_false_iff.
        apply (Hdis e1 e i (or_intror H1) (or_introl eq_refl)); [|exact Hi].
        intro Heq. apply key_eqb_iff in Heq. congruence.
  Qed.

  Hypothesis Hdisjoint : forall b b' brs brs' br br' i, In (NChoice b brs) nt -> In (NChoice b' brs') nt -> b <> b' ->
    In br brs -> In br' brs' -> In i (branch_mods br) -> ~ In i (branch_mods br').

  Lemma hard_eq_export_cost_shared :
    sn_cost cost true full (hard_sel nt win) nt == plain_cost cost true full inb (flat_map (expand win) nt).
  Proof.
    unfold sn_cost, plain_cost, target_list, euniq.
    rewrite calls_uniq, (mods_entries nt []).
    transitivity (qsum (map G (euniq_acc [] (entries nt)))).
    { apply qsum_eq. intros e He. apply entry_G. eapply euniq_acc_in, He. }
    apply uniq_sum.
    - intros [b brs|i s] [b' brs'|i' s'] H1 H2 Hk; cbn in Hk; try discriminate; injection Hk as ->; [|reflexivity].
      cbn [X]. rewrite (Hcons b' brs brs'); [reflexivity| |]; eapply entries_from_in; eassumption.
    - intros [b brs|i s] [b' brs'|i' s'] j H1 H2 Hk Hj; cbn [X] in *.
      + pose proof (entries_from_in nt [] _ _ H1) as N1. pose proof (entries_from_in nt [] _ _ H2) as N2.
        apply (Hdisjoint b b' brs brs' (nth (win b) brs []) (nth (win b') brs' []) j N1 N2); [intro; subst; apply Hk; reflexivity|apply winner_in, N1|apply winner_in, N2|exact Hj].
      + pose proof (entries_from_in nt [] _ _ H1) as N1. pose proof (entries_from_in_layer nt [] _ _ H2) as N2.
        intros [<-|[]]. pose proof (Hinb_block b brs _ i' N1 (winner_in b brs N1) Hj) as A.
        pose proof (Hinb_fixed i' N2) as B. congruence.
      + pose proof (entries_from_in_layer nt [] _ _ H1) as N1. pose proof (entries_from_in nt [] _ _ H2) as N2.
        destruct Hj as [<-|[]]. intro Hj. pose proof (Hinb_block b' brs' _ i N2 (winner_in b' brs' N2) Hj) as A.
        pose proof (Hinb_fixed i N1) as B. congruence.
      + destruct Hj as [<-|[]]. intros [<-|[]]. apply Hk. reflexivity.
    - intros e i _ Hk. discriminate.
    - reflexivity.
  Qed.

  (* per-invocation metrics *)
  Hypothesis Hnodup : forall b brs, In (NChoice b brs) nt -> NoDup (branch_mods (nth (win b) brs [])).

  Lemma hard_eq_export_cost_per_call :
    sn_cost cost false full (hard_sel nt win) nt == plain_cost cost false full inb (flat_map (expand win) nt).
  Proof.
    unfold sn_cost, plain_cost, target_list. rewrite calls_all, (mods_entries nt []), qsum_flat_map.
    apply qsum_eq. intros e He. rewrite (entry_G e He). unfold G.
    assert (zuniq (X e) = X e); [|rewrite H; reflexivity].
    destruct e as [b brs|i s]; [|reflexivity]. cbn [X]. apply zuniq_nodup; [|reflexivity].
    apply Hnodup. apply (entries_from_in nt [] b brs He).
  Qed.
End Export_cost.

(* names: a module lies inside a choice block iff `inb` says so ('sn_branches' in its qualified name) *)
Definition names_ok (inb : Z -> bool) (nt : net) : Prop :=
  (forall b brs br i, In (NChoice b brs) nt -> In br brs -> In i (branch_mods br) -> inb i = true) /\
  (forall i, In (NFixed (Mod i)) nt -> inb i = false).
(* different blocks do not share modules *)
Definition blocks_disjoint (nt : net) : Prop :=
  forall b b' brs brs' br br' i, In (NChoice b brs) nt -> In (NChoice b' brs') nt -> b <> b' ->
    In br brs -> In br' brs' -> In i (branch_mods br) -> ~ In i (branch_mods br').
(* no module is used twice inside the winning branch *)
Definition winners_nodup (win : Z -> nat) (nt : net) : Prop :=
  forall b brs, In (NChoice b brs) nt -> NoDup (branch_mods (nth (win b) brs [])).
(* every module sees the same output shape at each of its call sites (always true for shape-independent metrics) *)
Definition site_independent (cost : Z -> nat -> Q) : Prop := forall i s, cost i s == cost i 0%nat.

Theorem sn_cost_hard_eq_export_cost_shared : forall cost inb full win nt e,
  site_independent cost -> blocks_consistent nt -> names_ok inb nt -> blocks_disjoint nt ->
  sn_export win nt = Some e ->
  sn_cost cost true full (hard_sel nt win) nt == plain_cost cost true full inb (fixed_layers e).
Proof.
  intros cost inb full win nt e Hs Hc [Hb Hf] Hd He.
  assert (Hw : winners_ok win nt) by (apply sn_export_none; congruence).
  destruct (sn_export_tree nt win e He) as [_ [-> _]].
  apply hard_eq_export_cost_shared; assumption.
Qed.

Theorem sn_cost_hard_eq_export_cost_per_call : forall cost inb full win nt e,
  site_independent cost -> blocks_consistent nt -> names_ok inb nt -> winners_nodup win nt ->
  sn_export win nt = Some e ->
  sn_cost cost false full (hard_sel nt win) nt == plain_cost cost false full inb (fixed_layers e).
Proof.
  intros cost inb full win nt e Hs Hc [Hb Hf] Hd He.
  assert (Hw : winners_ok win nt) by (apply sn_export_none; congruence).
  destruct (sn_export_tree nt win e He) as [_ [-> _]].
  apply hard_eq_export_cost_per_call; assumption.
Qed.

(* without call-site independence the statement fails: a block invoked at two resolutions is charged twice
   the cost of its FIRST call site (SuperNetCombiner.get_cost uses the node of the first invocation) *)
Lemma sn_cost_site_dependent_refuted : exists cost inb win nt e,
  blocks_consistent nt /\ names_ok inb nt /\ winners_nodup win nt /\ sn_export win nt = Some e /\
  ~ sn_cost cost false false (hard_sel nt win) nt == plain_cost cost false false inb (fixed_layers e).
Proof.
  exists (fun _ s => match s with O => 4 | _ => 1 end), (fun _ => true), (fun _ => 0%nat),
         [NChoice 0 [[Mod 0]; [Mod 1]]; NFixed (Fn 0); NChoice 0 [[Mod 0]; [Mod 1]]],
         [NFixed (Mod 0); NFixed (Fn 0); NFixed (Mod 0)].
  split; [|split; [|split; [|split]]].
  - intros b brs brs' [H|[H|[H|[]]]] [H'|[H'|[H'|[]]]]; congruence.
  - split; [reflexivity|]. intros i [H|[H|[H|[]]]]; discriminate.
  - intros b brs [H|[H|[H|[]]]]; try discriminate; injection H as <- <-; cbn; repeat constructor; intros [].
  - reflexivity.
  - vm_compute. discriminate.
Qed.


(* ============================================================ generalised bodies: C03 *)
Section GC03.
  Variable apply : layer -> tensor -> tensor.
  Variable bin : Z -> tensor -> tensor -> tensor.
  Hypothesis apply_ext : forall l x y, teq x y -> teq (apply l x) (apply l y).
  Hypothesis bin_ext : forall op x y x' y', teq x x' -> teq y y' -> teq (bin op x y) (bin op x' y').

  Lemma eval_body_ext : forall e x y, teq x y -> teq (eval_body apply bin e x) (eval_body apply bin e y).
  Proof. induction e; intros x y H; cbn; [exact H|apply apply_ext, IHe, H|apply bin_ext; [apply IHe1|apply IHe2]; exact H]. Qed.

  Lemma g_eval_node_ext : forall th n x y, teq x y -> teq (g_eval_node apply bin qmix th n x) (g_eval_node apply bin qmix th n y).
  Proof.
    intros th [l|e|b brs] x y H; cbn; [apply apply_ext, H|apply eval_body_ext, H|]. apply qmix_ext.
    induction brs; cbn; constructor; [apply eval_body_ext, H|exact IHbrs].
  Qed.

  Lemma g_eval_ext : forall th g x y, teq x y -> teq (g_eval apply bin qmix th g x) (g_eval apply bin qmix th g y).
  Proof. induction g; intros x y H; cbn; [exact H|]. apply IHg, g_eval_node_ext, H. Qed.

  Lemma g_eval_app : forall th a b x, g_eval apply bin qmix th (a ++ b) x = g_eval apply bin qmix th b (g_eval apply bin qmix th a x).
  Proof. intros. unfold g_eval. apply fold_left_app. Qed.

  (* hard (one-hot) coefficients: the SuperNet computes what the exported network computes, for bodies with
     binary ops (residuals) as well *)
  Theorem g_hard_eq_export : forall g win th th' e x,
    (forall b brs, In (GChoice b brs) g -> th b = one_hot (win b) (length brs)) ->
    g_export win g = Some e ->
    teq (g_eval apply bin qmix th g x) (g_eval apply bin qmix th' e x).
  Proof.
    induction g as [|n g IH]; intros win th th' e x Hth He.
    - injection He as <-. apply teq_refl.
    - cbn in He.
      destruct (g_export_node win n) as [a|] eqn:Ea; [|discriminate].
      destruct (g_export win g) as [r|] eqn:Er; [|discriminate].
      injection He as <-. rewrite g_eval_app. cbn [g_eval fold_left].
      change (fold_left (fun v n0 => g_eval_node apply bin qmix th n0 v) g) with (g_eval apply bin qmix th g).
      eapply teq_trans.
      2:{ apply (IH win th th' r); [intros; apply Hth; right; assumption|exact Er]. }
      apply g_eval_ext.
      destruct n as [l|e0|b brs]; cbn in Ea.
      + injection Ea as <-. cbn. apply teq_refl.
      + injection Ea as <-. cbn. apply teq_refl.
      + destruct (nth_error brs (win b)) as [br|] eqn:En; [|discriminate].
        injection Ea as <-. cbn.
        rewrite (Hth b brs (or_introl eq_refl)).
        rewrite <- (map_length (fun e0 => eval_body apply bin e0 x) brs).
        apply qmix_one_hot. rewrite nth_error_map, En. reflexivity.
  Qed.
End GC03.

(* ------------------------------------------------------------ structure *)
Definition g_expand (win : Z -> nat) (n : gnode) : list gnode :=
  match n with GChoice b brs => [GBody (nth (win b) brs BIn)] | _ => [n] end.
Definition g_winners_ok (win : Z -> nat) (g : gnet) : Prop :=
  forall b brs, In (GChoice b brs) g -> (win b < length brs)%nat.

Lemma g_export_some : forall g win, g_winners_ok win g -> g_export win g = Some (flat_map (g_expand win) g).
Proof.
  induction g as [|n g IH]; intros win H; [reflexivity|].
  cbn. rewrite IH by (intros b brs Hin; apply (H b brs); right; exact Hin).
  destruct n as [l|e|b brs]; cbn; try reflexivity.
  destruct (nth_error brs (win b)) as [br|] eqn:E.
  - cbn. rewrite (nth_error_nth _ _ _ E). reflexivity.
  - apply nth_error_None in E. specialize (H b brs (or_introl eq_refl)). lia.
Qed.

Lemma g_export_none : forall g win, g_export win g <> None -> g_winners_ok win g.
Proof.
  induction g as [|n g IH]; intros win H b brs Hin; [destruct Hin|].
  cbn in H.
  destruct (g_export_node win n) as [a|] eqn:Ea; [|congruence].
  destruct (g_export win g) as [r|] eqn:Er; [|congruence].
  destruct Hin as [->|Hin].
  - cbn in Ea. destruct (nth_error brs (win b)) eqn:E; [|discriminate]. apply nth_error_Some. congruence.
  - apply (IH win); [rewrite Er; discriminate|exact Hin].
Qed.

Theorem g_export_succeeds_iff : forall g win, g_export win g <> None <-> g_winners_ok win g.
Proof. split; [apply g_export_none|]. intro H. rewrite (g_export_some _ _ H). discriminate. Qed.

(* exported network: every fixed layer / fixed body untouched, in place of every block exactly the winner's body *)
Theorem g_export_tree : forall g win e, g_export win g = Some e ->
  g_is_plain e = true /\ e = flat_map (g_expand win) g /\
  (forall b brs, In (GChoice b brs) g -> exists br, nth_error brs (win b) = Some br /\ g_expand win (GChoice b brs) = [GBody br]).
Proof.
  intros g win e He.
  assert (Hw : g_winners_ok win g) by (apply g_export_none; congruence).
  rewrite (g_export_some _ _ Hw) in He. injection He as <-.
  split; [|split; [reflexivity|]].
  - unfold g_is_plain. rewrite forallb_forall. intros n Hn. apply in_flat_map in Hn. destruct Hn as [m [_ Hm]].
    destruct m; cbn in Hm; destruct Hm as [<-|[]]; reflexivity.
  - intros b brs Hin. specialize (Hw b brs Hin). destruct (nth_error brs (win b)) as [br|] eqn:E.
    + exists br. split; [reflexivity|]. cbn. rewrite (nth_error_nth _ _ _ E). reflexivity.
    + apply nth_error_None in E. lia.
Qed.

Theorem g_export_idempotent : forall g win win' e, g_export win g = Some e -> g_export win' e = Some e.
Proof.
  intros g win win' e He.
  destruct (g_export_tree g win e He) as [Hp _]. clear He. induction e as [|n e IH]; [reflexivity|].
  cbn in Hp. apply andb_true_iff in Hp. destruct Hp as [Hn Hp]. cbn. rewrite (IH Hp).
  destruct n; [reflexivity|reflexivity|discriminate].
Qed.

Theorem g_export_deterministic : forall g win win',
  (forall b brs, In (GChoice b brs) g -> win b = win' b) -> g_export win g = g_export win' g.
Proof.
  induction g as [|n g IH]; intros win win' H; [reflexivity|].
  cbn. rewrite (IH win win') by (intros; eapply H; right; eassumption).
  destruct n as [l|e|b brs]; [reflexivity|reflexivity|]. cbn. rewrite (H b brs (or_introl eq_refl)). reflexivity.
Qed.

(* ------------------------------------------------------------ flattening commutes with export *)
Lemma sn_export_gen_app : forall a b win, sn_export win (a ++ b) =
  match sn_export win a, sn_export win b with Some x, Some y => Some (x ++ y) | _, _ => None end.
Proof.
  induction a as [|n a IH]; intros b win.
  - cbn. destruct (sn_export win b); reflexivity.
  - unfold sn_export in *. cbn. rewrite IH.
    destruct (export_node false win n); [|reflexivity].
    destruct (sn_export_gen false win a); [|reflexivity].
    destruct (sn_export_gen false win b); [rewrite app_assoc; reflexivity|reflexivity].
Qed.

Lemma sn_export_plain : forall ls win, sn_export win (map NFixed ls) = Some (map NFixed ls).
Proof. induction ls; intro win; [reflexivity|]. unfold sn_export in *. cbn. rewrite IHls. reflexivity. Qed.

Theorem g_flatten_export : forall g win,
  sn_export win (g_flatten g) = option_map g_flatten (g_export win g).
Proof.
  induction g as [|n g IH]; intro win; [reflexivity|].
  unfold g_flatten in *. cbn [flat_map]. rewrite sn_export_gen_app, IH. cbn [g_export].
  destruct n as [l|e|b brs]; cbn [g_flatten_node g_export_node].
  - change [NFixed l] with (map NFixed [l]). rewrite sn_export_plain.
    destruct (g_export win g); reflexivity.
  - rewrite sn_export_plain. destruct (g_export win g); cbn; rewrite ?app_nil_r; reflexivity.
  - unfold sn_export. cbn. unfold pick. rewrite nth_error_map.
    destruct (nth_error brs (win b)); cbn; [|reflexivity].
    destruct (g_export win g); cbn; rewrite ?app_nil_r; reflexivity.
Qed.

(* module tree of the exported network *)
Lemma in_g_flatten_choice : forall g b brs, In (NChoice b brs) (g_flatten g) <->
  exists gbrs, In (GChoice b gbrs) g /\ brs = map body_layers gbrs.
Proof.
  intros g b brs. unfold g_flatten. rewrite in_flat_map. split.
  - intros [n [Hn Hi]]. destruct n as [l|e|b' gbrs]; cbn in Hi.
    + destruct Hi as [Hi|[]]; discriminate.
    + apply in_map_iff in Hi. destruct Hi as [l [Hl _]]. discriminate.
    + destruct Hi as [Hi|[]]. injection Hi as <- <-. exists gbrs. split; [exact Hn|reflexivity].
  - intros [gbrs [Hn ->]]. exists (GChoice b gbrs). split; [exact Hn|left; reflexivity].
Qed.

Lemma in_g_flatten_fixed : forall g l, In (NFixed l) (g_flatten g) <->
  In (GFixed l) g \/ exists e, In (GBody e) g /\ In l (body_layers e).
Proof.
  intros g l. unfold g_flatten. rewrite in_flat_map. split.
  - intros [n [Hn Hi]]. destruct n as [l'|e|b' gbrs]; cbn in Hi.
    + destruct Hi as [Hi|[]]. injection Hi as <-. left. exact Hn.
    + apply in_map_iff in Hi. destruct Hi as [l' [Hl Hi]]. injection Hl as <-. right. exists e. auto.
    + destruct Hi as [Hi|[]]; discriminate.
  - intros [H|[e [He Hl]]].
    + exists (GFixed l). split; [exact H|left; reflexivity].
    + exists (GBody e). split; [exact He|]. cbn. apply in_map. exact Hl.
Qed.

Theorem g_export_modules : forall g win e i, g_export win g = Some e ->
  (In i (g_mods e) <->
   In (GFixed (Mod i)) g \/ (exists b0, In (GBody b0) g /\ In (Mod i) (body_layers b0)) \/
   exists b brs br, In (GChoice b brs) g /\ nth_error brs (win b) = Some br /\ In (Mod i) (body_layers br)).
Proof.
  intros g win e i He. unfold g_mods.
  pose proof (g_flatten_export g win) as Hc. rewrite He in Hc. cbn in Hc.
  rewrite (sn_export_modules (g_flatten g) win (g_flatten e) i Hc). split.
  - intros [H|[b [brs [br [Hn [E Hi]]]]]].
    + apply in_g_flatten_fixed in H. destruct H as [H|H]; [left; exact H|right; left; exact H].
    + apply in_g_flatten_choice in Hn. destruct Hn as [gbrs [Hn ->]]. rewrite nth_error_map in E.
      destruct (nth_error gbrs (win b)) as [gbr|] eqn:E'; [|discriminate]. injection E as <-.
      right. right. exists b, gbrs, gbr. auto.
  - intros [H|[[b0 [Hb Hi]]|[b [brs [br [Hn [E Hi]]]]]]].
    + left. apply in_g_flatten_fixed. left. exact H.
    + left. apply in_g_flatten_fixed. right. exists b0. auto.
    + right. exists b, (map body_layers brs), (body_layers br). split; [|split].
      * apply in_g_flatten_choice. exists brs. auto.
      * rewrite nth_error_map, E. reflexivity.
      * exact Hi.
Qed.

(* ------------------------------------------------------------ chain bodies are an instance *)
Lemma body_layers_chain_aux : forall b e, body_layers (fold_left (fun e l => BApp l e) b e) = body_layers e ++ b.
Proof. induction b as [|l b IH]; intro e; cbn; [rewrite app_nil_r; reflexivity|]. rewrite IH. cbn. rewrite <- app_assoc. reflexivity. Qed.
Lemma body_layers_chain : forall b, body_layers (chain_body b) = b.
Proof. intro b. unfold chain_body. rewrite body_layers_chain_aux. reflexivity. Qed.

Lemma g_flatten_embed : forall nt, g_flatten (embed nt) = nt.
Proof.
  induction nt as [|n nt IH]; [reflexivity|]. unfold g_flatten, embed in *. cbn. rewrite IH.
  destruct n as [l|b brs]; cbn; [reflexivity|]. f_equal. f_equal. rewrite map_map.
  rewrite <- (map_id brs) at 2. apply map_ext. intro a. apply body_layers_chain.
Qed.

Section Embed.
  Context {T : Type}.
  Variable apply : layer -> T -> T.
  Variable bin : Z -> T -> T -> T.
  Variable mix : list Q -> list T -> T.

  Lemma eval_chain_aux : forall b e x, eval_body apply bin (fold_left (fun e l => BApp l e) b e) x = run_branch apply b (eval_body apply bin e x).
  Proof. induction b as [|l b IH]; intros e x; cbn; [reflexivity|]. rewrite IH. reflexivity. Qed.

  Lemma eval_chain_body : forall b x, eval_body apply bin (chain_body b) x = run_branch apply b x.
  Proof. intros. unfold chain_body. rewrite eval_chain_aux. reflexivity. Qed.

  (* the generalised evaluation of an embedded chain network IS sn_eval *)
  Theorem g_eval_embed : forall th nt x, g_eval apply bin mix th (embed nt) x = sn_eval apply mix th nt x.
  Proof.
    induction nt as [|n nt IH]; intro x; [reflexivity|]. cbn. unfold g_eval, sn_eval in IH. rewrite IH. f_equal.
    destruct n as [l|b brs]; cbn; [reflexivity|]. f_equal. rewrite map_map. apply map_ext. intro a. apply eval_chain_body.
  Qed.
End Embed.

(* ============================================================ generalised bodies: C06 (through the leaf layers) *)
Section GC06.
  Variable cost : Z -> nat -> Q.

  Theorem g_cost_is_weighted_mix : forall shared th g,
    g_cost cost shared false th g ==
    qsum (map (fun e => match e with ECombiner b brs => dot (th b) (map (branch_cost cost) brs) | ELayer _ _ => 0 end) (target_list shared (g_flatten g))).
  Proof. intros. apply sn_cost_is_weighted_mix. Qed.

  Theorem g_cost_full_adds_fixed : forall shared th g,
    g_cost cost shared true th g == g_cost cost shared false th g + fixed_cost cost shared (g_flatten g).
  Proof. intros. apply sn_cost_full_adds_fixed. Qed.

  Definition g_blocks_consistent (g : gnet) : Prop :=
    forall b brs brs', In (GChoice b brs) g -> In (GChoice b brs') g -> brs = brs'.
  Definition g_coeffs_ok (th : Z -> list Q) (g : gnet) : Prop :=
    forall b brs, In (GChoice b brs) g -> prob (th b) /\ length (th b) = length brs.

  Lemma g_consistent_flatten : forall g, g_blocks_consistent g -> blocks_consistent (g_flatten g).
  Proof.
    intros g H b brs brs' H1 H2. apply in_g_flatten_choice in H1. apply in_g_flatten_choice in H2.
    destruct H1 as [g1 [H1 ->]]. destruct H2 as [g2 [H2 ->]]. rewrite (H b g1 g2 H1 H2). reflexivity.
  Qed.
  Lemma g_coeffs_flatten : forall th g, g_coeffs_ok th g -> coeffs_ok th (g_flatten g).
  Proof.
    intros th g H b brs H1. apply in_g_flatten_choice in H1. destruct H1 as [g1 [H1 ->]].
    rewrite map_length. apply (H b g1 H1).
  Qed.
  Lemma g_winners_flatten : forall win g, g_winners_ok win g -> winners_ok win (g_flatten g).
  Proof.
    intros win g H b brs H1. apply in_g_flatten_choice in H1. destruct H1 as [g1 [H1 ->]].
    rewrite map_length. apply (H b g1 H1).
  Qed.

  Definition g_hard_sel (g : gnet) := hard_sel (g_flatten g).

  Theorem g_cost_convex : forall shared full th g, g_blocks_consistent g -> g_coeffs_ok th g ->
    g_cost cost shared full (g_hard_sel g (cheapest cost (g_flatten g))) g <= g_cost cost shared full th g /\
    g_cost cost shared full th g <= g_cost cost shared full (g_hard_sel g (dearest cost (g_flatten g))) g.
  Proof. intros. apply sn_cost_convex; [apply g_consistent_flatten|apply g_coeffs_flatten]; assumption. Qed.

  Theorem g_cost_selection_bounds : forall shared full g win, g_blocks_consistent g -> g_winners_ok win g ->
    g_cost cost shared full (g_hard_sel g (cheapest cost (g_flatten g))) g <= g_cost cost shared full (g_hard_sel g win) g /\
    g_cost cost shared full (g_hard_sel g win) g <= g_cost cost shared full (g_hard_sel g (dearest cost (g_flatten g))) g.
  Proof. intros. apply sn_cost_selection_bounds; [apply g_consistent_flatten|apply g_winners_flatten]; assumption. Qed.

  Theorem g_cost_affine : forall shared full th g b lam u v, length u = length v ->
    g_cost cost shared full (upd th b (lin lam u v)) g ==
    lam * g_cost cost shared full (upd th b u) g + (1 - lam) * g_cost cost shared full (upd th b v) g.
  Proof. intros. apply sn_cost_affine. assumption. Qed.

  (* hard selection = the metric computed from scratch on the exported network (guards on the leaf layers of the bodies) *)
  Theorem g_cost_hard_eq_export_cost_shared : forall inb full win g e,
    site_independent cost -> g_blocks_consistent g -> names_ok inb (g_flatten g) -> blocks_disjoint (g_flatten g) ->
    g_export win g = Some e ->
    g_cost cost true full (g_hard_sel g win) g == g_plain_cost cost true full inb e.
  Proof.
    intros inb full win g e Hs Hc Hn Hd He. unfold g_cost, g_plain_cost, g_hard_sel.
    apply sn_cost_hard_eq_export_cost_shared; try assumption; [apply g_consistent_flatten, Hc|].
    rewrite g_flatten_export, He. reflexivity.
  Qed.

  Theorem g_cost_hard_eq_export_cost_per_call : forall inb full win g e,
    site_independent cost -> g_blocks_consistent g -> names_ok inb (g_flatten g) -> winners_nodup win (g_flatten g) ->
    g_export win g = Some e ->
    g_cost cost false full (g_hard_sel g win) g == g_plain_cost cost false full inb e.
  Proof.
    intros inb full win g e Hs Hc Hn Hd He. unfold g_cost, g_plain_cost, g_hard_sel.
    apply sn_cost_hard_eq_export_cost_per_call; try assumption; [apply g_consistent_flatten, Hc|].
    rewrite g_flatten_export, He. reflexivity.
  Qed.
End GC06.
