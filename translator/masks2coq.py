"""Translator: the PIT maskers and the quantities PITConv1d / PITConv2d / PITLinear derive from them  ->  coq/Gen/MasksGen.v  (C08)

Reads, with `ast`, the SOURCE (tree under test) of
  plinio/methods/pit/nn/binarizer.py        PITBinarizer.forward                                   -> binarizer_forward_gen
  plinio/methods/pit/nn/features_masker.py  PITFeaturesMasker.__init__ (parameter, buffers), theta, _generate_keep_alive_mask   -> fm_*
                                            PITFrozenFeaturesMasker.__init__, theta                 -> ffm_*
  plinio/methods/pit/nn/timestep_masker.py  PITTimestepMasker.__init__, theta, _generate_keep_alive_mask, _generate_c_matrix    -> tm_*
                                            PITFrozenTimestepMasker (inherits theta)                -> ftm_*
  plinio/methods/pit/nn/dilation_masker.py  PITDilationMasker.__init__, theta, _generate_keep_alive_mask, _generate_c_matrix, _gamma_len -> dm_*
                                            PITFrozenDilationMasker (inherits theta)                -> fdm_*
  plinio/methods/pit/nn/conv1d.py           PITConv1d._features_mask, features_mask, out_features_opt, _time_mask, time_mask,
                                            kernel_size_opt, dilation_opt                           -> c1_*
  plinio/methods/pit/nn/conv2d.py, linear.py  _features_mask, features_mask, out_features_opt       -> c2_*, lin_*
and emits Gallina definitions that follow the code statement by statement over the vocabulary of coq/Base/Tensor.v
(vectors / matrices over Q as lists).  Every function that performs an operation that can fail gets a `*_ok` predicate
(element-wise operation on two vectors: equal lengths; matmul: every row as long as the vector; math.log: positive
argument).  Proofs/MasksGen.v proves the generated functions equal to the hand-written model Model/Masks.v for EVERY
kernel size and every parameter vector of the right length, and the `*_ok` predicates true there.

How the code is read (TRUSTED conventions)
  * a 1-D float tensor is a `list Q`, a 2-D one the list of its rows; float32 arithmetic is read as exact rational
    arithmetic (the differential run of vlib/c08.py compares the binarized results on adversarial values, 1e30 included);
    a float literal is read in decimal; torch.tensor(python list [, dtype=float32]) is the list itself (rows must have one
    length: they do, by construction of the comprehension);  cast(T, x) is x;  `with torch.no_grad():` is its body;
    a 1-tuple `(e,)` is read as e.
  * torch.abs / + - * between tensors of one shape / scalar (op) tensor / torch.mul are element-wise; torch.flip(v, (0,)) and
    torch.flipud reverse the first axis; torch.triu zeroes the entries below the diagonal; torch.transpose(m, 0, 1);
    torch.matmul(2-D, 1-D) is the matrix-vector product; torch.sum of a 1-D tensor; (x > t).float() is the 0/1 vector;
    int(x) of a 0-d tensor truncates towards zero; itertools.groupby over a 1-D tensor yields the maximal runs of equal
    elements; `[c] * n` is n copies (none for n <= 0: sizes are naturals with truncated subtraction, which is accepted in
    this position only); max(a, b); max(iterable, default=0).
  * math.ceil(math.log(n, 2)) is read as the exact ceil(log2 n) (Nat.log2_up); with floats this is false for n = 2^29,
    2^31, ... (math.log(2**29, 2) = 29.000000000000004) and true for every n < 2^20 (checked by enumeration).
  * object model of a masker: the `int` constructor parameters (c_<name>), the one nn.Parameter created in __init__ (a free
    vector: optimizers, load_state_dict and the check write arbitrary reals into it; its LENGTH is the one __init__ gives
    it, emitted as <short>_init_<param>), buffers registered in __init__ are constants equal to their initial value
    (nothing in the translated files writes them; load_state_dict of foreign values into `_keep_alive` / `_c_*` /
    `_fixed_alpha` is outside the model).  A Frozen subclass must call the base constructor with its own parameters, may
    move the parameter into a buffer of the same name (still a free vector), add buffers and override `theta`.
  * object model of a layer: a record `layer_self` of what the translated methods read: the `theta` of its three maskers,
    binarization_threshold, dilation[0], and the buffers _beta_norm / _gamma_norm (opaque: `_generate_norm_constants` is
    pinned by an AST digest, not translated; only the non-discrete branch of _time_mask reads them).  The footer (fixed
    text) builds the record the way autoimport / graph.py build the layer: maskers constructed with ONE positional
    argument (rf = kernel_size[0] for the two time-axis maskers), default keep_alive_channels and default
    binarization_threshold, both read from the signatures.
Fail closed: everything outside the subset raises Reject.  Structure checked: the classes of each module and their base
classes; the members of each masker class (an unknown member -> Reject; `trainable` getter / setter must be the plain
requires_grad accessors); no store to a tracked attribute of a layer outside __init__; where the translated quantities
are CONSUMED: `summary`, the construction / slicing / causal re-padding statements of `export`, the two mask statements
of `forward`, `k_eff` / `out_features_eff` (compared textually); every constructor call of a masker under plinio/.
"""
import ast
import glob
import hashlib
import os
from fractions import Fraction


class Reject(Exception):
    pass


def _u(n):
    return ast.unparse(n).replace('\n', ' ')[:170]


def _strip(stmts):
    return [s for s in stmts if not (isinstance(s, ast.Expr) and isinstance(s.value, ast.Constant) and isinstance(s.value.value, str))]


def digest(fn):
    """AST digest of a function, docstrings excluded (comments and layout are not in the AST)"""
    fn = ast.parse(ast.unparse(fn)).body[0]
    for x in ast.walk(fn):
        if isinstance(x, (ast.FunctionDef, ast.ClassDef)):
            x.body = _strip(x.body) or [ast.Pass()]
    return hashlib.sha256(ast.dump(fn).encode()).hexdigest()[:16]


COQTY = {'layer_self': 'layer_self', 'nat': 'nat', 'Z': 'Z', 'Q': 'Q', 'bool': 'bool', 'vec': 'vec', 'mat': 'mat', 'bvec': 'list bool'}
RESERVED = {'in', 'as', 'at', 'end', 'fix', 'fun', 'if', 'then', 'else', 'let', 'match', 'with', 'return', 'forall', 'exists', 'Type', 'Prop', 'Set', 'where', 'for', 'using'}


def cty(t):
    if isinstance(t, tuple) and t[0] == 'list':
        return 'list (%s)' % cty(t[1])
    if isinstance(t, tuple) and t[0] == 'pair':
        return '(%s * %s)' % (cty(t[1]), cty(t[2]))
    return COQTY[t]


def v_(name):
    if name in RESERVED or not name.isidentifier():
        raise Reject('local name %r' % name)
    return 'v_' + name if name != '_' else '_'


def qlit(v):
    if isinstance(v, bool) or not isinstance(v, (int, float)):
        raise Reject('constant %r' % (v,))
    f = Fraction(repr(v)) if isinstance(v, float) else Fraction(v)       # decimal reading of a float literal
    return '%d%%Q' % f.numerator if f.denominator == 1 and f >= 0 else '(%d # %d)%%Q' % (f.numerator, f.denominator)


def _is(n, dotted):
    return isinstance(n, (ast.Attribute, ast.Name)) and ast.unparse(n) == dotted


def _f32(kws):
    """keywords of a torch constructor: nothing, or dtype=torch.float32"""
    for k in kws:
        if not (k.arg == 'dtype' and _is(k.value, 'torch.float32')):
            raise Reject('keyword %s=%s of a tensor constructor' % (k.arg, _u(k.value)))


class Fn:
    """a generated function"""
    def __init__(self, name, params, ret, has_ok):
        self.name, self.params, self.ret, self.has_ok = name, params, ret, has_ok      # params: [(coq name, type)] after the prefix


class Scope:
    def __init__(self, cls, where):
        self.cls, self.where = cls, where
        self.nok = 0
        self.fresh = set()          # local python lists that may be appended to

    def okname(self):
        self.nok += 1
        return 'ok%d' % self.nok

    def rej(self, msg):
        raise Reject('%s: %s' % (self.where, msg))


# --------------------------------------------------------------------------------------------- expressions
def count_expr(n, env, sc):
    """the count of `[c] * n`: a natural; `a - b` is truncated subtraction (a negative count gives the empty list)"""
    if isinstance(n, ast.BinOp) and isinstance(n.op, ast.Sub):
        (a, ta, oa), (b, tb, ob) = E(n.left, env, sc), E(n.right, env, sc)
        if ta == 'nat' and tb == 'nat':
            return '(%s - %s)' % (a, b), oa + ob
        sc.rej('count %s' % _u(n))
    a, ta, oa = E(n, env, sc)
    if ta != 'nat':
        sc.rej('count %s is not an integer' % _u(n))
    return a, oa


def as_q(n, env, sc):
    """a scalar operand: numeric literal or a Q-typed expression"""
    if isinstance(n, ast.Constant):
        return qlit(n.value), []
    a, t, o = E(n, env, sc)
    if t != 'Q':
        sc.rej('%s is not a scalar' % _u(n))
    return a, o


QOP = {ast.Add: ('Qplus', '+'), ast.Sub: ('Qminus', '-'), ast.Mult: ('Qmult', '*')}


def elementwise(op, l, r, env, sc):
    """tensor (op) tensor, scalar (op) tensor, tensor (op) scalar"""
    lc, rc = isinstance(l, ast.Constant), isinstance(r, ast.Constant)
    if lc and rc:
        sc.rej('arithmetic between two literals')
    if lc:
        b, tb, ob = E(r, env, sc)
        if tb == 'vec':
            return '(map (fun x_ => (%s %s x_)%%Q) %s)' % (qlit(l.value), QOP[op][1], b), 'vec', ob
        sc.rej('literal (op) %s' % tb)
    a, ta, oa = E(l, env, sc)
    if rc:
        if ta == 'vec':
            return '(map (fun x_ => (x_ %s %s)%%Q) %s)' % (QOP[op][1], qlit(r.value), a), 'vec', oa
        sc.rej('%s (op) literal' % ta)
    b, tb, ob = E(r, env, sc)
    if ta == 'vec' and tb == 'vec':
        return '(vmap2 %s %s %s)' % (QOP[op][0], a, b), 'vec', oa + ob + ['same_len %s %s' % (a, b)]
    if ta == 'Q' and tb == 'vec':
        return '(map (fun x_ => (%s %s x_)%%Q) %s)' % (a, QOP[op][1], b), 'vec', oa + ob
    if ta == 'vec' and tb == 'Q':
        return '(map (fun x_ => (x_ %s %s)%%Q) %s)' % (QOP[op][1], b, a), 'vec', oa + ob
    return None


def E(n, env, sc):
    """-> (Coq text, type, [definedness terms])"""
    if isinstance(n, ast.Constant):
        if isinstance(n.value, bool):
            return ('true' if n.value else 'false'), 'bool', []
        if isinstance(n.value, int) and n.value >= 0:
            return '%d' % n.value, 'nat', []
        if isinstance(n.value, float):
            return qlit(n.value), 'Q', []
        sc.rej('constant %r' % (n.value,))
    if isinstance(n, ast.Name):
        if n.id in env:
            return env[n.id][0], env[n.id][1], []
        sc.rej('unknown name %s' % n.id)
    if isinstance(n, ast.Tuple) and len(n.elts) == 1:
        return E(n.elts[0], env, sc)
    if isinstance(n, ast.List):
        if not n.elts:
            return '[]', ('list', '?'), []
        if all(isinstance(e, ast.Constant) for e in n.elts):
            return '[%s]' % '; '.join(qlit(e.value) for e in n.elts), ('list', 'Q'), []
        sc.rej('list display %s' % _u(n))
    if isinstance(n, (ast.Attribute, ast.Subscript)) and not isinstance(n, ast.Call):
        r = sc.cls.read(n, env, sc)
        if r is not None:
            return r
        sc.rej('attribute / subscript not in the subset: %s' % _u(n))
    if isinstance(n, ast.IfExp):
        c, tc, oc = E(n.test, env, sc)
        if tc != 'bool':
            sc.rej('test of a conditional expression: %s' % _u(n.test))
        both = isinstance(n.body, ast.Constant) and isinstance(n.orelse, ast.Constant)
        if both and all(isinstance(x.value, float) for x in (n.body, n.orelse)):
            return '(if %s then %s else %s)' % (c, qlit(n.body.value), qlit(n.orelse.value)), 'Q', oc
        (a, ta, oa), (b, tb, ob) = E(n.body, env, sc), E(n.orelse, env, sc)
        if ta != tb or oa or ob:
            sc.rej('conditional expression %s' % _u(n))
        return '(if %s then %s else %s)' % (c, a, b), ta, oc
    if isinstance(n, ast.Compare) and len(n.ops) == 1:
        op, l, r = n.ops[0], n.left, n.comparators[0]
        a, ta, oa = E(l, env, sc)
        if ta == 'nat' and isinstance(op, (ast.Eq, ast.NotEq)):
            b, tb, ob = E(r, env, sc)
            if tb == 'nat':
                t = '(Nat.eqb %s %s)' % (a, b)
                return (t if isinstance(op, ast.Eq) else '(negb %s)' % t), 'bool', oa + ob
        if ta == 'Q' and isinstance(op, ast.Eq):
            b, ob = as_q(r, env, sc)
            return '(Qeq_bool %s %s)' % (a, b), 'bool', oa + ob
        if ta == 'vec' and isinstance(op, ast.Gt):
            b, ob = as_q(r, env, sc)
            return '(vgt %s %s)' % (a, b), 'bvec', oa + ob
        sc.rej('comparison %s' % _u(n))
    if isinstance(n, ast.BinOp):
        op, l, r = type(n.op), n.left, n.right
        if op is ast.Mult and isinstance(l, ast.List) and len(l.elts) == 1 and isinstance(l.elts[0], ast.Constant):
            c, oc = count_expr(r, env, sc)
            return '(repeat %s %s)' % (qlit(l.elts[0].value), c), ('list', 'Q'), oc
        if op is ast.Pow and isinstance(l, ast.Constant) and l.value == 2 and not isinstance(l.value, bool):
            b, tb, ob = E(r, env, sc)
            if tb == 'nat':
                return '(2 ^ %s)' % b, 'nat', ob
            sc.rej('exponent %s' % _u(r))
        if op in (ast.Add, ast.Sub, ast.Mult, ast.Mod):
            if not (isinstance(l, ast.Constant) and isinstance(l.value, float)) and not (isinstance(r, ast.Constant) and isinstance(r.value, float)):
                (a, ta, oa), (b, tb, ob) = E(l, env, sc), E(r, env, sc)
                if ta == 'nat' and tb == 'nat' and op is not ast.Sub:
                    return '(%s %s %s)' % (a, {ast.Add: '+', ast.Mult: '*', ast.Mod: 'mod'}[op], b), 'nat', oa + ob
                if op is ast.Add and isinstance(ta, tuple) and ta == tb and ta[0] == 'list':
                    return '(%s ++ %s)' % (a, b), ta, oa + ob
                if ta == 'nat' and tb == 'nat':
                    sc.rej('integer subtraction outside a repeat count: %s' % _u(n))
            if op in QOP:
                r_ = elementwise(op, l, r, env, sc)
                if r_ is not None:
                    return r_
        sc.rej('binary operation %s' % _u(n))
    if isinstance(n, ast.ListComp):
        g = comp_gen(n, env, sc)
        return '(map (fun %s => %s) %s)' % g[:3], ('list', g[3]), g[4]
    if isinstance(n, ast.Call):
        return call(n, env, sc)
    sc.rej('expression not in the subset: %s' % _u(n))


def comp_gen(n, env, sc):
    """[elt for x in iter] / (elt for x in iter [if c]) -> (pattern, elt text, iterated list text, elt type, oks)"""
    if len(n.generators) != 1 or n.generators[0].is_async:
        sc.rej('comprehension %s' % _u(n))
    g = n.generators[0]
    it, et, oi, env2, pat = iterate(g.target, g.iter, env, sc)
    if g.ifs:
        if len(g.ifs) != 1:
            sc.rej('comprehension with several conditions')
        c, tc, oc = E(g.ifs[0], env2, sc)
        if tc != 'bool' or oc:
            sc.rej('comprehension condition %s' % _u(g.ifs[0]))
        it = '(filter (fun %s => %s) %s)' % (pat, c, it)
    b, tb, ob = E(n.elt, env2, sc)
    if ob:
        sc.rej('an operation that can fail inside a comprehension: %s' % _u(n.elt))
    return pat, b, it, tb, oi


def iterate(target, it, env, sc):
    """-> (list text, element type, oks, env with the target bound, binder pattern)"""
    env2 = dict(env)
    if isinstance(it, ast.Call) and isinstance(it.func, ast.Name) and it.func.id == 'range' and len(it.args) == 1 and not it.keywords:
        a, ta, oa = E(it.args[0], env, sc)
        if ta != 'nat' or not isinstance(target, ast.Name):
            sc.rej('range(%s)' % _u(it.args[0]))
        env2[target.id] = (v_(target.id), 'nat')
        return '(seq 0 %s)' % a, 'nat', oa, env2, v_(target.id)
    if isinstance(it, ast.Call) and _is(it.func, 'itertools.groupby') and len(it.args) == 1 and not it.keywords:
        a, ta, oa = E(it.args[0], env, sc)
        if ta != 'vec' or not (isinstance(target, ast.Tuple) and len(target.elts) == 2 and all(isinstance(e, ast.Name) for e in target.elts)):
            sc.rej('itertools.groupby: %s' % _u(it))
        k, g = target.elts[0].id, target.elts[1].id
        env2[k], env2[g] = (v_(k), 'Q'), (v_(g), 'vec')
        return '(groupby %s)' % a, ('pair', 'Q', 'vec'), oa, env2, "'(%s, %s)" % (v_(k), v_(g))
    a, ta, oa = E(it, env, sc)
    if not isinstance(target, ast.Name):
        sc.rej('loop target %s' % _u(target))
    if ta == 'vec':
        env2[target.id] = (v_(target.id), 'Q')
        return a, 'Q', oa, env2, v_(target.id)
    sc.rej('iteration over %s: %s' % (ta, _u(it)))


def call(n, env, sc):
    f, args, kws = n.func, n.args, n.keywords
    kw = {k.arg: k.value for k in kws}
    if any(isinstance(a, ast.Starred) for a in args) or None in kw:
        sc.rej('* / ** arguments: %s' % _u(n))
    fu = ast.unparse(f) if isinstance(f, (ast.Name, ast.Attribute)) else None
    if fu == 'cast' and len(args) == 2 and not kws:
        return E(args[1], env, sc)
    if fu == 'torch.abs' and len(args) == 1 and not kws:
        a, ta, oa = E(args[0], env, sc)
        if ta == 'vec':
            return '(vabs %s)' % a, 'vec', oa
    if fu == 'torch.tensor' and len(args) == 1:
        _f32(kws)
        a, ta, oa = E(args[0], env, sc)
        if ta == ('list', 'Q'):
            return a, 'vec', oa
        if ta == ('list', ('list', 'Q')):
            return a, 'mat', oa
        sc.rej('torch.tensor of %s' % (ta,))
    if fu == 'torch.ones' and len(args) == 1:
        _f32(kws)
        s = args[0]
        dims = s.elts if isinstance(s, (ast.Tuple, ast.List)) else [s]
        ds = [E(d, env, sc) for d in dims]
        if any(t != 'nat' for _, t, _ in ds) or len(ds) not in (1, 2):
            sc.rej('torch.ones(%s)' % _u(s))
        oks = [o for _, _, oo in ds for o in oo]
        return ('(ones %s)' % ds[0][0], 'vec', oks) if len(ds) == 1 else ('(ones2 %s %s)' % (ds[0][0], ds[1][0]), 'mat', oks)
    if fu == 'torch.flip' and len(args) == 2 and not kws and ast.unparse(args[1]) in ('(0,)', '[0]'):
        a, ta, oa = E(args[0], env, sc)
        if ta == 'vec':
            return '(vflip %s)' % a, 'vec', oa
        if ta == 'mat':
            return '(flipud %s)' % a, 'mat', oa
    if fu == 'torch.flipud' and len(args) == 1 and not kws:
        a, ta, oa = E(args[0], env, sc)
        if ta == 'mat':
            return '(flipud %s)' % a, 'mat', oa
        if ta == 'vec':
            return '(vflip %s)' % a, 'vec', oa
    if fu == 'torch.triu' and len(args) == 1 and not kws:
        a, ta, oa = E(args[0], env, sc)
        if ta == 'mat':
            return '(triu %s)' % a, 'mat', oa
    if fu == 'torch.transpose' and len(args) == 3 and not kws and sorted(ast.unparse(x) for x in args[1:]) == ['0', '1']:
        a, ta, oa = E(args[0], env, sc)
        if ta == 'mat':
            return '(transpose %s)' % a, 'mat', oa
    if fu == 'torch.matmul' and len(args) == 2 and not kws:
        (a, ta, oa), (b, tb, ob) = E(args[0], env, sc), E(args[1], env, sc)
        if ta == 'mat' and tb == 'vec':
            return '(matvec %s %s)' % (a, b), 'vec', oa + ob + ['matvec_ok %s %s' % (a, b)]
    if fu == 'torch.mul' and len(args) == 2 and not kws:
        r_ = elementwise(ast.Mult, args[0], args[1], env, sc)
        if r_ is not None:
            return r_
    if fu == 'torch.sum' and len(args) == 1 and not kws:
        a, ta, oa = E(args[0], env, sc)
        if ta == 'vec':
            return '(tsum %s)' % a, 'Q', oa
    if fu == 'int' and len(args) == 1 and not kws:
        a, ta, oa = E(args[0], env, sc)
        if ta == 'Q':
            return '(qint %s)' % a, 'Z', oa
        if ta in ('nat', 'Z'):
            return a, ta, oa
    if fu == 'math.ceil' and len(args) == 1 and not kws and isinstance(args[0], ast.Call) and _is(args[0].func, 'math.log') \
            and len(args[0].args) == 2 and not args[0].keywords and isinstance(args[0].args[1], ast.Constant) and args[0].args[1].value == 2 \
            and not isinstance(args[0].args[1].value, (bool, float)):
        a, ta, oa = E(args[0].args[0], env, sc)
        if ta == 'nat':
            return '(Nat.log2_up %s)' % a, 'nat', oa + ['0 <? %s' % a]
    if fu == 'max' and len(args) == 2 and not kws:
        (a, ta, oa), (b, tb, ob) = E(args[0], env, sc), E(args[1], env, sc)
        if ta == 'nat' and tb == 'nat':
            return '(Nat.max %s %s)' % (a, b), 'nat', oa + ob
    if fu == 'max' and len(args) == 1 and set(kw) == {'default'} and isinstance(kw['default'], ast.Constant) and kw['default'].value == 0 \
            and not isinstance(kw['default'].value, (bool, float)) and isinstance(args[0], (ast.GeneratorExp, ast.ListComp)):
        pat, b, it, tb, oi = comp_gen(args[0], env, sc)
        if tb == 'nat':
            return '(max0 (map (fun %s => %s) %s))' % (pat, b, it), 'nat', oi
    if fu == 'sum' and len(args) == 1 and not kws and isinstance(args[0], (ast.GeneratorExp, ast.ListComp)):
        pat, b, it, tb, oi = comp_gen(args[0], env, sc)
        if tb == 'nat':
            return '(list_sum (map (fun %s => %s) %s))' % (pat, b, it), 'nat', oi
    if isinstance(f, ast.Attribute) and f.attr == 'float' and not args and not kws:
        a, ta, oa = E(f.value, env, sc)
        if ta == 'bvec':
            return '(bfloat %s)' % a, 'vec', oa
    r_ = sc.cls.call(n, env, sc)
    if r_ is not None:
        return r_
    sc.rej('call not in the subset: %s' % _u(n))


# --------------------------------------------------------------------------------------------- statements
def assigned(stmts):
    out = []
    for s in stmts:
        if isinstance(s, ast.Assign) and len(s.targets) == 1 and isinstance(s.targets[0], ast.Name):
            out.append(s.targets[0].id)
        elif isinstance(s, ast.AnnAssign) and isinstance(s.target, ast.Name):
            out.append(s.target.id)
        elif isinstance(s, ast.Expr) and isinstance(s.value, ast.Call) and isinstance(s.value.func, ast.Attribute) and s.value.func.attr == 'append' \
                and isinstance(s.value.func.value, ast.Name):
            out.append(s.value.func.value.id)
        elif isinstance(s, (ast.If, ast.For, ast.With)):
            out += assigned(s.body) + assigned(getattr(s, 'orelse', []))
    return out


def bind(items, x, val, env, sc):
    """let v_x := text, preceded by the lets of its definedness terms"""
    a, ta, oa = val
    for o in oa:
        items.append(('let', sc.okname(), o, 'k'))
    items.append(('let', v_(x), a, 'v'))
    env[x] = (v_(x), ta)


def block(stmts, env, sc, top):
    """-> (items, env, returned (text, type) | None).  items: ('let', pattern, text, 'v'|'k') | ('if', cond, vars, itemsA, itemsB, okname)"""
    items, env = [], dict(env)
    stmts = _strip(stmts)
    for k, s in enumerate(stmts):
        last = k == len(stmts) - 1
        if isinstance(s, ast.Pass):
            continue
        if isinstance(s, ast.Return):
            if not top or not last or s.value is None:
                sc.rej('return not at the end of the function: %s' % _u(s))
            a, ta, oa = E(s.value, env, sc)
            for o in oa:
                items.append(('let', sc.okname(), o, 'k'))
            return items, env, (a, ta)
        if isinstance(s, ast.With):
            if not (len(s.items) == 1 and s.items[0].optional_vars is None and ast.unparse(s.items[0].context_expr) == 'torch.no_grad()' and last and top):
                sc.rej('with statement: %s' % _u(s))
            sub, env, ret = block(s.body, env, sc, True)
            return items + sub, env, ret
        if isinstance(s, ast.Assign) and len(s.targets) == 1 and isinstance(s.targets[0], ast.Name):
            x = s.targets[0].id
            if isinstance(s.value, ast.Name) and isinstance(env.get(s.value.id, (None, None))[1], tuple):
                sc.rej('`%s` makes two names for one list' % _u(s))
            bind(items, x, E(s.value, env, sc), env, sc)
            sc.fresh.discard(x)
            if isinstance(s.value, (ast.List, ast.ListComp)):
                sc.fresh.add(x)
            continue
        if isinstance(s, ast.AnnAssign) and isinstance(s.target, ast.Name) and s.value is not None and s.simple:
            val = E(s.value, env, sc)
            want = {'torch.Tensor': 'vec', 'float': 'Q', 'int': 'nat', 'bool': 'bool'}.get(ast.unparse(s.annotation))
            if want is None or want != val[1]:
                sc.rej('annotated assignment %s (value of type %s)' % (_u(s), val[1]))
            bind(items, s.target.id, val, env, sc)
            continue
        if isinstance(s, ast.Expr) and isinstance(s.value, ast.Call) and isinstance(s.value.func, ast.Attribute) and s.value.func.attr == 'append' \
                and isinstance(s.value.func.value, ast.Name) and len(s.value.args) == 1 and not s.value.keywords:
            x = s.value.func.value.id
            if x not in sc.fresh or x not in env:
                sc.rej('.append on %s, which is not a list created in this function' % x)
            b, tb, ob = E(s.value.args[0], env, sc)
            lt = env[x][1]
            if lt != ('list', '?') and lt != ('list', tb):
                sc.rej('list %s holds %s, appended %s' % (x, lt, tb))
            for o in ob:
                items.append(('let', sc.okname(), o, 'k'))
            items.append(('let', v_(x), '%s ++ [%s]' % (v_(x), b), 'v'))
            env[x] = (v_(x), ('list', tb))
            continue
        if isinstance(s, ast.If):
            c, tc, oc = E(s.test.operand if isinstance(s.test, ast.UnaryOp) and isinstance(s.test.op, ast.Not) else s.test, env, sc)
            if tc != 'bool' or oc:
                sc.rej('test %s' % _u(s.test))
            neg = isinstance(s.test, ast.UnaryOp) and isinstance(s.test.op, ast.Not)
            vs = []
            for x in assigned(s.body) + assigned(s.orelse):
                if x not in vs:
                    vs.append(x)
            if not top:
                sc.rej('nested if')
            used = {x.id for r in stmts[k + 1:] for x in ast.walk(r) if isinstance(x, ast.Name) and isinstance(x.ctx, ast.Load)}
            vs = [x for x in vs if x in used]
            if not vs:
                sc.rej('an if statement that binds nothing that is used afterwards')
            for x in vs:
                if x not in env and not (x in assigned(s.body) and x in assigned(s.orelse)):
                    sc.rej('variable %s is assigned in one branch only and undefined before' % x)
            A, envA, rA = block(s.body, env, sc, False)
            B, envB, rB = block(s.orelse, env, sc, False)
            for x in vs:
                ta, tb = envA.get(x, env.get(x))[1], envB.get(x, env.get(x))[1]
                if ta != tb:
                    sc.rej('variable %s has type %s in one branch and %s in the other' % (x, ta, tb))
                env[x] = (v_(x), ta)
            if neg:
                A, B = B, A
            items.append(('if', c, [v_(x) for x in vs], A, B, sc.okname()))
            continue
        if isinstance(s, ast.For):
            if s.orelse or any(isinstance(x, (ast.Break, ast.Continue, ast.Return)) for x in ast.walk(s)):
                sc.rej('for/else, break, continue or return in a loop')
            it, et, oi, env2, pat = iterate(s.target, s.iter, env, sc)
            carried = []
            for x in assigned(s.body):
                if x in env and x not in carried:
                    carried.append(x)
            if isinstance(s.target, ast.Name) and s.target.id in assigned(s.body):
                sc.rej('the loop assigns its own variable')
            if not carried:
                sc.rej('a loop that changes nothing that is defined before it')
            body, env3, _ = block(s.body, env2, sc, False)
            if any(it_[0] != 'let' or it_[3] != 'v' for it_ in body):
                sc.rej('an operation that can fail (or an if) inside a loop')
            for x in carried:
                if env[x][1] == ('list', '?') and isinstance(env3[x][1], tuple):
                    env[x] = (env[x][0], env3[x][1])             # element type learnt from the first append
                elif env3[x][1] != env[x][1]:
                    sc.rej('%s changes type in a loop' % x)
            for o in oi:
                items.append(('let', sc.okname(), o, 'k'))
            names = [v_(x) for x in carried]
            btxt, _ = render(body, 'v', 2)
            items.append(('let', pat_(names), 'fold_left (fun %s %s =>\n%s      %s) %s %s' % (pat_(names), pat, btxt.replace('\n  ', '\n    '), tup_(names), it, tup_(names)), 'v'))
            continue
        sc.rej('statement not in the subset: %s' % _u(s))
    return items, env, None


def pat_(names):
    return names[0] if len(names) == 1 else "'(%s)" % ', '.join(names)


def tup_(names):
    return names[0] if len(names) == 1 else '(%s)' % ', '.join(names)


def conj(xs):
    return ' && '.join(xs) if xs else 'true'


def has_k(items):
    return any((it[0] == 'let' and it[3] == 'k') or (it[0] == 'if' and (has_k(it[3]) or has_k(it[4]))) for it in items)


def render(items, mode, ind):
    """-> (text of the lets, names of the definedness booleans in scope)"""
    pad = '  ' * ind
    out, oks = '', []
    for it in items:
        if it[0] == 'let':
            _, p, txt, tag = it
            if tag == 'k' and mode != 'k':
                continue
            out += pad + 'let %s := %s in\n' % (p, txt)
            if tag == 'k':
                oks.append(p)
        else:
            _, c, vs, A, B, okn = it
            ta, oa = render(A, mode, ind + 1)
            tb, ob = render(B, mode, ind + 1)
            if mode == 'k' and (oa or ob):
                out += pad + 'let %s := (if %s then\n%s%s  %s\n%selse\n%s%s  %s) in\n' % (
                    pat_(vs + [okn]), c, ta, pad, tup_(vs + ['(%s)' % conj(oa)]), pad, tb, pad, tup_(vs + ['(%s)' % conj(ob)]))
                oks.append(okn)
            else:
                out += pad + 'let %s := (if %s then\n%s%s  %s\n%selse\n%s%s  %s) in\n' % (pat_(vs), c, ta, pad, tup_(vs), pad, tb, pad, tup_(vs))
    return out, oks


def emit_fn(name, params, stmts, env, sc):
    """translate a function body -> (Fn, text)"""
    items, _, ret = block(stmts, env, sc, True)
    if ret is None:
        sc.rej('the function does not end with a return')
    ptxt = ' '.join('(%s : %s)' % (p, cty(t)) for p, t in params)
    val, _ = render(items, 'v', 1)
    out = 'Definition %s_gen %s : %s :=\n%s  %s.\n' % (name, ptxt, cty(ret[1]), val, ret[0])
    hk = has_k(items)
    if hk:
        okt, oks = render(items, 'k', 1)
        out += 'Definition %s_ok %s : bool :=\n%s  %s.\n' % (name, ptxt, okt, conj(oks))
    return Fn(name, params, ret[1], hk), out


# --------------------------------------------------------------------------------------------- classes
def methods_of(node, where):
    """-> {name: FunctionDef} for plain methods / read-only properties, {name: (getter, setter)} for get/set pairs"""
    ms, pairs = {}, {}
    for m in node.body:
        if isinstance(m, ast.Expr) and isinstance(m.value, ast.Constant) and isinstance(m.value.value, str):
            continue
        if not isinstance(m, ast.FunctionDef):
            raise Reject('%s: class-level statement not in the subset: %s' % (where, _u(m)))
        decs = [ast.unparse(d) for d in m.decorator_list]
        if decs == ['%s.setter' % m.name]:
            if m.name not in ms:
                raise Reject('%s: setter of %s before its getter' % (where, m.name))
            pairs[m.name] = (ms.pop(m.name), m)
            continue
        if m.name in ms or m.name in pairs:
            raise Reject('%s defines %s twice' % (where, m.name))
        if decs not in ([], ['property'], ['staticmethod']):
            raise Reject('%s.%s: decorators %s' % (where, m.name, decs))
        ms[m.name] = m
    return ms, pairs


def is_prop(fn):
    return [ast.unparse(d) for d in fn.decorator_list] == ['property']


def plain_sig(fn, where):
    a = fn.args
    if a.vararg or a.kwarg or a.kwonlyargs or a.posonlyargs or not a.args or a.args[0].arg != 'self':
        raise Reject('%s: signature not in the subset' % where)
    return a.args[1:], a.defaults


PY2T = {'int': 'nat', 'bool': 'bool', 'float': 'Q', 'torch.Tensor': 'vec'}


class Binarizer:
    short = 'binarizer'

    def __init__(self, tree):
        cs = [n for n in tree.body if isinstance(n, ast.ClassDef)]
        check_module(tree, 'binarizer.py', {'typing': None, 'torch': None}, ['PITBinarizer'])
        c = cs[0]
        if [ast.unparse(b) for b in c.bases] != ['torch.autograd.Function']:
            raise Reject('PITBinarizer: bases %s' % [ast.unparse(b) for b in c.bases])
        ms, pairs = methods_of(c, 'PITBinarizer')
        if set(ms) != {'forward', 'backward'} or pairs or any([ast.unparse(d) for d in m.decorator_list] != ['staticmethod'] for m in ms.values()):
            raise Reject('PITBinarizer: members %s' % sorted(ms))
        fw = ms['forward']
        a = fw.args
        if [x.arg for x in a.args] != ['ctx'] or a.vararg is None or a.vararg.arg != 'args' or a.kwonlyargs or a.posonlyargs or a.defaults:
            raise Reject('PITBinarizer.forward: signature')
        # the positional arguments are typed by the annotated assignments that read them
        self.argt = {}
        for s in _strip(fw.body):
            if isinstance(s, ast.AnnAssign) and isinstance(s.value, ast.Subscript) and isinstance(s.value.value, ast.Name) and s.value.value.id == 'args' \
                    and isinstance(s.value.slice, ast.Constant) and isinstance(s.value.slice.value, int):
                t = PY2T.get(ast.unparse(s.annotation))
                if t is None or self.argt.setdefault(s.value.slice.value, t) != t:
                    raise Reject('PITBinarizer.forward: %s' % _u(s))
        if sorted(self.argt) != list(range(len(self.argt))) or not self.argt:
            raise Reject('PITBinarizer.forward: positional arguments read: %s' % sorted(self.argt))
        for x in ast.walk(fw):
            if isinstance(x, ast.Name) and x.id in ('args', 'kwargs', 'ctx') and isinstance(x.ctx, ast.Load):
                pass
        sc = Scope(self, 'PITBinarizer.forward')
        params = [('arg%d' % k, self.argt[k]) for k in sorted(self.argt)]
        self.fn, self.text = emit_fn('binarizer_forward', params, fw.body, {}, sc)
        if self.fn.has_ok or self.fn.ret != 'vec':
            raise Reject('PITBinarizer.forward: returns %s' % (self.fn.ret,))

    def read(self, n, env, sc):
        if isinstance(n, ast.Subscript) and isinstance(n.value, ast.Name) and n.value.id == 'args' and isinstance(n.slice, ast.Constant) and n.slice.value in self.argt:
            return 'arg%d' % n.slice.value, self.argt[n.slice.value], []
        return None

    def call(self, n, env, sc):
        return None


def apply_binarizer(n, env, sc, binz):
    """PITBinarizer.apply(a, b) -> the generated forward"""
    if _is(n.func, 'PITBinarizer.apply'):
        if n.keywords or len(n.args) != len(binz.fn.params):
            sc.rej('PITBinarizer.apply: %d positional arguments expected: %s' % (len(binz.fn.params), _u(n)))
        vals = [E(a, env, sc) for a in n.args]
        for (a, ta, _), (_, tp) in zip(vals, binz.fn.params):
            if ta != tp:
                sc.rej('PITBinarizer.apply: argument of type %s where %s is expected: %s' % (ta, tp, _u(n)))
        return '(binarizer_forward_gen %s)' % ' '.join(a for a, _, _ in vals), binz.fn.ret, [o for _, _, oo in vals for o in oo]
    return None


class Masker:
    """a masker class (base or Frozen subclass)"""
    KNOWN = {'__init__', 'theta', '_generate_keep_alive_mask', '_generate_c_matrix', '_gamma_len'}

    def __init__(self, node, short, base=None):
        self.node, self.name, self.short, self.base = node, node.name, short, base
        self.ms, self.pairs = methods_of(node, node.name)
        self.fns, self.text, self.busy = {}, '', set()
        self.fields, self.buffers, self.param = {}, {}, None          # field -> ctor param; buffer -> (has_ok, type); param = (name, length text)
        self.ctor, self.defaults = [], {}
        if set(self.pairs) - {'trainable'}:
            raise Reject('%s: get/set pair %s' % (self.name, sorted(self.pairs)))
        self.read_init()
        self.check_trainable()
        for m in self.ms:
            if m != '__init__' and (m in self.KNOWN or m in self.reached()):
                self.get_fn(m)
        for m in self.ms:
            if m not in self.KNOWN and m not in self.fns:
                raise Reject('%s: member %s is neither one of %s nor reachable from them' % (self.name, m, sorted(self.KNOWN)))
        if 'theta' not in self.fns and (base is None or 'theta' not in base.fns):
            raise Reject('%s has no theta' % self.name)

    def reached(self):
        return set(self.fns)

    # ---- constructor
    def prefix(self):
        return [('c_' + p, 'nat') for p in self.ctor]

    def ctorargs(self):
        return ' '.join('c_' + p for p in self.ctor)

    def read_init(self):
        init = self.ms.get('__init__')
        if init is None:
            raise Reject('%s has no __init__' % self.name)
        args, defaults = plain_sig(init, self.name + '.__init__')
        dflt = dict(zip([a.arg for a in args][len(args) - len(defaults):], defaults))
        penv = {}
        for a in args:
            t = ast.unparse(a.annotation) if a.annotation is not None else None
            if t == 'int':
                self.ctor.append(a.arg)
                penv[a.arg] = ('c_' + a.arg, 'nat')
                if a.arg in dflt:
                    d = dflt[a.arg]
                    if not (isinstance(d, ast.Constant) and isinstance(d.value, int) and not isinstance(d.value, bool) and d.value >= 0):
                        raise Reject('%s.__init__: default of %s' % (self.name, a.arg))
                    self.defaults[a.arg] = d.value
            elif not (t == 'bool' and a.arg == 'trainable'):
                raise Reject('%s.__init__: parameter %s: %s' % (self.name, a.arg, t))
        body = _strip(init.body)
        if self.base is not None:
            if self.ctor != self.base.ctor or self.defaults != self.base.defaults:
                raise Reject('%s.__init__: integer parameters %s differ from those of %s %s' % (self.name, self.ctor, self.base.name, self.base.ctor))
            s0 = body[0] if body else None
            ok = isinstance(s0, ast.Expr) and isinstance(s0.value, ast.Call) and ast.unparse(s0.value.func) in ('super(%s, self).__init__' % self.name, 'super().__init__')
            if ok:
                c = s0.value
                got = {}
                for p, a in zip(self.base.ctor_all, c.args):
                    got[p] = a
                for k in c.keywords:
                    if k.arg is None or k.arg in got:
                        ok = False
                    got[k.arg] = k.value
                ok = ok and len(c.args) <= len(self.base.ctor_all) and set(got) <= set(self.base.ctor_all) and set(self.ctor) - set(self.base.defaults) <= set(got)
                for p, a in got.items():
                    if p in self.ctor:
                        ok = ok and isinstance(a, ast.Name) and a.id == p
                    else:
                        ok = ok and (isinstance(a, ast.Constant) and isinstance(a.value, bool) or isinstance(a, ast.Name) and a.id == 'trainable')
            if not ok:
                raise Reject('%s.__init__ does not start by calling the base constructor with its own integer parameters: %s' % (self.name, _u(s0) if s0 else ''))
            body = body[1:]
            self.param = self.base.param
        else:
            if not body or ast.unparse(body[0]) not in ('super(%s, self).__init__()' % self.name, 'super().__init__()'):
                raise Reject('%s.__init__ does not start with super().__init__()' % self.name)
            body = body[1:]
        self.ctor_all = [a.arg for a in args]
        k = 0
        while k < len(body):
            s = body[k]
            tgt = s.targets[0] if isinstance(s, ast.Assign) and len(s.targets) == 1 else None
            if tgt is not None and isinstance(tgt, ast.Attribute) and _is(tgt.value, 'self'):
                f, v = tgt.attr, s.value
                if f == 'trainable' and isinstance(v, ast.Name) and v.id == 'trainable' and self.base is None:
                    k += 1
                    continue
                if f in self.fields or f in self.buffers or (self.param and f == self.param[0]) or self.lookup_member(f):
                    raise Reject('%s.__init__: %s assigned twice / shadows a member' % (self.name, f))
                if isinstance(v, ast.Name) and v.id in self.ctor and self.base is None:
                    self.fields[f] = v.id
                    k += 1
                    continue
                if f == 'trainable' and isinstance(v, ast.Name) and v.id == 'trainable' and self.base is None:
                    k += 1
                    continue
                if self.base is None and self.param is None and isinstance(v, ast.Call) and ast.unparse(v.func) in ('Parameter', 'nn.Parameter', 'torch.nn.Parameter') \
                        and len(v.args) == 1 and [(q.arg, ast.unparse(q.value)) for q in v.keywords] in ([('requires_grad', 'True')], []):
                    e = v.args[0]
                    okp = isinstance(e, ast.Call) and isinstance(e.func, ast.Attribute) and e.func.attr == 'fill_' and [ast.unparse(x) for x in e.args] == ['1.0'] and not e.keywords \
                        and isinstance(e.func.value, ast.Call) and _is(e.func.value.func, 'torch.empty') and len(e.func.value.args) == 1
                    if okp:
                        _f32(e.func.value.keywords)
                        sc = Scope(self, self.name + '.__init__')
                        n_, tn, on = E(e.func.value.args[0], penv, sc)
                        if tn == 'nat':
                            self.param = (f, n_, on)
                            self.text += 'Definition %s_init_%s %s : vec := repeat 1%%Q %s.\n' % (self.short, f, self.ptxt(), n_)
                            if on:
                                self.text += 'Definition %s_init_%s_ok %s : bool := %s.\n' % (self.short, f, self.ptxt(), conj(on))
                            k += 1
                            continue
                raise Reject('%s.__init__: assignment not in the subset: %s' % (self.name, _u(s)))
            if isinstance(s, ast.Expr) and isinstance(s.value, ast.Call) and _is(s.value.func, 'self.register_buffer') and len(s.value.args) == 2 and not s.value.keywords \
                    and isinstance(s.value.args[0], ast.Constant) and isinstance(s.value.args[0].value, str):
                b = s.value.args[0].value
                # the Frozen pattern: <p> = self.<p>.detach(); del self.<p>; self.register_buffer('<p>', <p>)
                if self.param and b == self.param[0] and self.base is not None:
                    raise Reject('%s.__init__: register_buffer(%r) without the detach / del steps before it' % (self.name, b))
                if b in self.fields or b in self.buffers or self.lookup_member(b) or (self.base and (b in self.base.fields or b in self.base.buffers)):
                    raise Reject('%s.__init__: buffer %s shadows a member' % (self.name, b))
                sc = Scope(self, '%s.__init__ (buffer %s)' % (self.name, b))
                a, ta, oa = E(s.value.args[1], penv, sc)
                if ta not in ('vec', 'mat'):
                    raise Reject('%s.__init__: buffer %s of type %s' % (self.name, b, ta))
                self.text += 'Definition %s_buf_%s %s : %s := %s.\n' % (self.short, b, self.ptxt(), cty(ta), a)
                if oa:
                    self.text += 'Definition %s_buf_%s_ok %s : bool := %s.\n' % (self.short, b, self.ptxt(), conj(oa))
                self.buffers[b] = (bool(oa), ta)
                k += 1
                continue
            if self.base is not None and self.param and k + 2 < len(body) + 0 and [ast.unparse(x) for x in body[k:k + 3]] == [
                    '%s = self.%s.detach()' % (self.param[0], self.param[0]), 'del self.%s' % self.param[0], "self.register_buffer('%s', %s)" % (self.param[0], self.param[0])]:
                k += 3
                continue
            raise Reject('%s.__init__: statement not in the subset: %s' % (self.name, _u(s)))
        if self.base is None and self.param is None:
            raise Reject('%s.__init__ creates no nn.Parameter' % self.name)

    def ptxt(self):
        return ' '.join('(%s : %s)' % (p, cty(t)) for p, t in self.prefix())

    def lookup_member(self, f):
        return f in self.ms or f in self.pairs

    def check_trainable(self):
        p = self.param[0]
        if 'trainable' in self.ms:
            raise Reject('%s.trainable has no setter' % self.name)
        if 'trainable' not in self.pairs:
            if self.base is None:
                raise Reject('%s has no trainable property' % self.name)
            return
        g, s = self.pairs['trainable']
        gb, sb = [ast.unparse(x) for x in _strip(g.body)], [ast.unparse(x) for x in _strip(s.body)]
        okg = gb == ['return self.%s.requires_grad' % p] or (self.base is not None and gb == ['return False'])
        oks = sb == ['self.%s.requires_grad = value' % p] or (self.base is not None and sb == ['pass'])
        if not (okg and oks and [a.arg for a in s.args.args] == ['self', 'value'] and [a.arg for a in g.args.args] == ['self']):
            raise Reject('%s.trainable is not the plain requires_grad accessor pair (getter %s, setter %s): a setter that does more could change what theta returns' % (self.name, gb, sb))

    # ---- reads and calls
    def owner_of(self, m):
        if m in self.ms and m != '__init__':
            return self
        if self.base is not None and m in self.base.ms and m != '__init__':
            return self.base
        return None

    def get_fn(self, m):
        own = self.owner_of(m)
        if own is not self:
            return own.get_fn(m) if own else None
        if m in self.fns:
            return self.fns[m]
        if m in self.busy:
            raise Reject('%s.%s is recursive' % (self.name, m))
        self.busy.add(m)
        fn = self.ms[m]
        if [ast.unparse(d) for d in fn.decorator_list] not in ([], ['property']):
            raise Reject('%s.%s: decorators' % (self.name, m))
        args, defaults = plain_sig(fn, '%s.%s' % (self.name, m))
        if defaults or (is_prop(fn) and args):
            raise Reject('%s.%s: default values / property with parameters' % (self.name, m))
        params, env = [], {}
        for a in args:
            t = PY2T.get(ast.unparse(a.annotation) if a.annotation is not None else None)
            if t is None:
                raise Reject('%s.%s: parameter %s has no known type' % (self.name, m, a.arg))
            params.append((v_(a.arg), t))
            env[a.arg] = (v_(a.arg), t)
        sc = Scope(self, '%s.%s' % (self.name, m))
        sc.uses_param = False
        # two passes: the first finds out whether the body reads the nn.Parameter
        items = block(fn.body, env, sc, True)
        allp = self.prefix() + ([(self.param[0], 'vec')] if sc.uses_param else []) + params
        sc2 = Scope(self, '%s.%s' % (self.name, m))
        sc2.uses_param = False
        f, txt = emit_fn('%s_%s' % (self.short, m), allp, fn.body, env, sc2)
        f.uses_param, f.nparams, f.is_prop = sc.uses_param, len(params), is_prop(fn)
        self.fns[m] = f
        self.text += txt
        self.busy.discard(m)
        return f

    def call_text(self, f, suffix, extra=''):
        return '(%s_%s %s%s%s)' % (f.name, suffix, self.ctorargs(), (' ' + self.param[0]) if f.uses_param else '', extra)

    def read(self, n, env, sc):
        if not (isinstance(n, ast.Attribute) and _is(n.value, 'self')):
            return None
        a = n.attr
        for c in (self, self.base):
            if c is None:
                continue
            if a in c.buffers:
                hk, t = c.buffers[a]
                return '(%s_buf_%s %s)' % (c.short, a, self.ctorargs()), t, (['%s_buf_%s_ok %s' % (c.short, a, self.ctorargs())] if hk else [])
            if a in c.fields:
                return 'c_' + c.fields[a], 'nat', []
        if self.param and a == self.param[0]:
            sc.uses_param = True
            return a, 'vec', []
        own = self.owner_of(a)
        if own is not None and is_prop(own.ms[a]):
            f = self.get_fn(a)
            if f.uses_param:
                sc.uses_param = True
            return self.call_text(f, 'gen'), f.ret, ([self.call_text(f, 'ok')[1:-1]] if f.has_ok else [])
        return None

    def call(self, n, env, sc):
        f = n.func
        if isinstance(f, ast.Attribute) and _is(f.value, 'self'):
            own = self.owner_of(f.attr)
            if own is None or is_prop(own.ms[f.attr]):
                return None
            g = self.get_fn(f.attr)
            if n.keywords or len(n.args) != g.nparams:
                sc.rej('call %s' % _u(n))
            vals = [E(a, env, sc) for a in n.args]
            for (a, ta, _), (_, tp) in zip(vals, g.params[len(g.params) - g.nparams:] if g.nparams else []):
                if ta != tp:
                    sc.rej('argument of type %s where %s is expected: %s' % (ta, tp, _u(n)))
            if g.uses_param:
                sc.uses_param = True
            extra = ''.join(' ' + a for a, _, _ in vals)
            return self.call_text(g, 'gen', extra), g.ret, [o for _, _, oo in vals for o in oo] + ([self.call_text(g, 'ok', extra)[1:-1]] if g.has_ok else [])
        return None

    def aliases(self):
        """a Frozen class: the functions it inherits, under its own prefix"""
        out = ''
        for m, f in self.base.fns.items():
            if m in self.fns:
                continue
            ps = ' '.join('(%s : %s)' % (p, cty(t)) for p, t in f.params)
            names = ' '.join(p for p, _ in f.params)
            out += 'Definition %s_%s_gen %s : %s := %s_gen %s.\n' % (self.short, m, ps, cty(f.ret), f.name, names)
            if f.has_ok:
                out += 'Definition %s_%s_ok %s : bool := %s_ok %s.\n' % (self.short, m, ps, f.name, names)
        return out


LAYER_READS = {
    'self.out_features_masker.theta': ('(s_fm_theta self)', 'vec'),
    'self.timestep_masker.theta': ('(s_tm_theta self)', 'vec'),
    'self.dilation_masker.theta': ('(s_dm_theta self)', 'vec'),
    'self.binarization_threshold': ('(s_thr self)', 'Q'),
    'self.dilation[0]': ('(s_dilation0 self)', 'nat'),
    'self._beta_norm': ('(s_beta_norm self)', 'vec'),
    'self._gamma_norm': ('(s_gamma_norm self)', 'vec'),
}
TRACKED = ('out_features_masker', 'timestep_masker', 'dilation_masker', 'binarization_threshold', 'dilation', 'kernel_size', '_beta_norm', '_gamma_norm')


class Layer:
    def __init__(self, node, short, wanted, binz, time_axis):
        self.node, self.name, self.short, self.binz = node, node.name, short, binz
        self.ms, self.pairs = methods_of(node, node.name)
        self.fns, self.text, self.busy = {}, '', set()
        self.reads = dict(LAYER_READS) if time_axis else {k: v for k, v in LAYER_READS.items() if k in ('self.out_features_masker.theta', 'self.binarization_threshold')}
        self.check_init(time_axis)
        for m in wanted:
            if m not in self.ms:
                raise Reject('%s has no %s' % (self.name, m))
            self.get_fn(m)

    def check_init(self, time_axis):
        init = self.ms.get('__init__')
        if init is None:
            raise Reject('%s has no __init__' % self.name)
        args, defaults = plain_sig(init, self.name + '.__init__')
        dflt = dict(zip([a.arg for a in args][len(args) - len(defaults):], defaults))
        d = dflt.get('binarization_threshold')
        if not (isinstance(d, ast.Constant) and isinstance(d.value, float)):
            raise Reject('%s.__init__: binarization_threshold has no float default' % self.name)
        self.text += 'Definition %s_default_binarization_threshold : Q := %s.\n' % (self.short, qlit(d.value))
        body = [ast.unparse(s) for s in _strip(init.body)]
        need = ['self.out_features_masker = out_features_masker', 'self.binarization_threshold = binarization_threshold']
        if time_axis:
            need += ['self.timestep_masker = timestep_masker', 'self.dilation_masker = dilation_masker', '_beta_norm, _gamma_norm = self._generate_norm_constants()',
                     "self.register_buffer('_beta_norm', _beta_norm)", "self.register_buffer('_gamma_norm', _gamma_norm)"]
        for s in need:
            if body.count(s) != 1:
                raise Reject('%s.__init__: the statement `%s` is expected exactly once at top level' % (self.name, s))
        # tracked attributes are written in __init__ only (by the statements above; dilation / kernel_size by nn.Conv1d.__init__)
        for nm, fn in list(self.ms.items()) + [(k, g) for k, (g, s_) in self.pairs.items()] + [(k, s_) for k, (g, s_) in self.pairs.items()]:
            for x in ast.walk(fn):
                tg = []
                if isinstance(x, ast.Assign):
                    tg = x.targets
                elif isinstance(x, (ast.AugAssign, ast.AnnAssign)):
                    tg = [x.target]
                elif isinstance(x, ast.Delete):
                    tg = x.targets
                for t in tg:
                    for y in (t.elts if isinstance(t, ast.Tuple) else [t]):
                        while isinstance(y, ast.Subscript):
                            y = y.value
                        bad = isinstance(y, ast.Attribute) and (y.attr in TRACKED + ('theta',) or (isinstance(y.value, ast.Attribute) and y.value.attr in TRACKED and y.attr != 'trainable'))
                        if bad and not (nm == '__init__' and ast.unparse(x) in need):
                            raise Reject('%s.%s writes %s' % (self.name, nm, _u(y)))
                if isinstance(x, ast.Call) and ast.unparse(x.func) in ('setattr', 'delattr', 'object.__setattr__', 'self.__setattr__', 'self.register_buffer', 'self.register_parameter') \
                        and not (nm == '__init__' and ast.unparse(x) in need):
                    raise Reject('%s.%s: %s' % (self.name, nm, _u(x)))

    def prefix(self):
        return [('self', 'layer_self')]

    def get_fn(self, m):
        if m in self.fns:
            return self.fns[m]
        if m in self.busy:
            raise Reject('%s.%s is recursive' % (self.name, m))
        self.busy.add(m)
        fn = self.ms[m]
        args, defaults = plain_sig(fn, '%s.%s' % (self.name, m))
        if defaults or (is_prop(fn) and args) or [ast.unparse(d) for d in fn.decorator_list] not in ([], ['property']):
            raise Reject('%s.%s: signature / decorators' % (self.name, m))
        params, env = [], {}
        for a in args:
            t = PY2T.get(ast.unparse(a.annotation) if a.annotation is not None else None)
            if t is None:
                raise Reject('%s.%s: parameter %s has no known type' % (self.name, m, a.arg))
            params.append((v_(a.arg), t))
            env[a.arg] = (v_(a.arg), t)
        sc = Scope(self, '%s.%s' % (self.name, m))
        f, txt = emit_fn('%s_%s' % (self.short, m), [('self', 'layer_self')] + params, fn.body, env, sc)
        f.pnames, f.is_prop = [a.arg for a in args], is_prop(fn)
        self.fns[m] = f
        self.text += txt
        self.busy.discard(m)
        return f

    def read(self, n, env, sc):
        u = ast.unparse(n)
        if u in self.reads:
            return self.reads[u][0], self.reads[u][1], []
        if isinstance(n, ast.Attribute) and _is(n.value, 'self') and n.attr in self.ms and is_prop(self.ms[n.attr]):
            f = self.get_fn(n.attr)
            return '(%s_gen self)' % f.name, f.ret, (['%s_ok self' % f.name] if f.has_ok else [])
        return None

    def call(self, n, env, sc):
        r_ = apply_binarizer(n, env, sc, self.binz)
        if r_ is not None:
            return r_
        f = n.func
        if isinstance(f, ast.Attribute) and _is(f.value, 'self') and f.attr in self.ms and not is_prop(self.ms[f.attr]) and f.attr != '__init__':
            g = self.get_fn(f.attr)
            got = dict(zip(g.pnames, n.args))
            for k in n.keywords:
                if k.arg in got or k.arg not in g.pnames:
                    sc.rej('call %s' % _u(n))
                got[k.arg] = k.value
            if len(n.args) > len(g.pnames) or set(got) != set(g.pnames):
                sc.rej('call %s' % _u(n))
            vals = [E(got[p], env, sc) for p in g.pnames]
            for (a, ta, _), (_, tp) in zip(vals, g.params[1:]):
                if ta != tp:
                    sc.rej('argument of type %s where %s is expected: %s' % (ta, tp, _u(n)))
            extra = ''.join(' ' + a for a, _, _ in vals)
            return '(%s_gen self%s)' % (g.name, extra), g.ret, [o for _, _, oo in vals for o in oo] + (['%s_ok self%s' % (g.name, extra)] if g.has_ok else [])
        return None


# --------------------------------------------------------------------------------------------- module level / surroundings
def check_module(tree, fname, imports, classes):
    seen = []
    for n in tree.body:
        if isinstance(n, ast.Expr) and isinstance(n.value, ast.Constant):
            continue
        if isinstance(n, (ast.Import, ast.ImportFrom)):
            continue
        if isinstance(n, ast.ClassDef):
            if n.decorator_list or n.keywords:
                raise Reject('%s: class %s is decorated / has a metaclass' % (fname, n.name))
            seen.append(n.name)
            continue
        raise Reject('%s: module-level statement not in the subset: %s' % (fname, _u(n)))
    if seen != classes:
        raise Reject('%s defines the classes %s, expected %s' % (fname, seen, classes))
    # the names the translation gives a fixed meaning to must be bound by the expected imports
    bound = {}
    for n in tree.body:
        if isinstance(n, ast.Import):
            for a in n.names:
                bound[a.asname or a.name.split('.')[0]] = a.name if a.asname else a.name.split('.')[0]
        if isinstance(n, ast.ImportFrom):
            for a in n.names:
                bound[a.asname or a.name] = '%s%s.%s' % ('.' * n.level, n.module or '', a.name)
    want = {'torch': 'torch', 'nn': 'torch.nn', 'math': 'math', 'itertools': 'itertools', 'cast': 'typing.cast', 'Parameter': 'torch.nn.parameter.Parameter',
            'PITBinarizer': '.binarizer.PITBinarizer'}
    for k, v in bound.items():
        if k in want and v != want[k]:
            raise Reject('%s: the name %s is bound to %s, not to %s' % (fname, k, v, want[k]))
    used = {x.id for x in ast.walk(tree) if isinstance(x, ast.Name)}
    for k in want:
        if k in used and k not in bound:
            raise Reject('%s uses %s without importing it' % (fname, k))


def cls(tree, name):
    return [n for n in tree.body if isinstance(n, ast.ClassDef) and n.name == name][0]


def bases(node):
    return [ast.unparse(b) for b in node.bases]


PINNED = {'PITConv1d._generate_norm_constants': 'cf22032c53021990'}

CONSUMERS = {
    'PITConv1d': {
        'summary': ["return {'in_features': self.in_features_opt, 'out_features': self.out_features_opt, 'kernel_size': self.kernel_size_opt, 'dilation': self.dilation_opt}"],
        'export': ['cout_mask = submodule.features_mask.bool()', 'time_mask = submodule.time_mask.bool()',
                   'new_submodule = nn.Conv1d(submodule.in_features_opt, submodule.out_features_opt, submodule.kernel_size_opt, submodule.stride, submodule.padding, '
                   'submodule.dilation_opt, groups_opt, submodule.bias is not None, submodule.padding_mode)',
                   'new_weights = submodule.weight[cout_mask, :, :]', 'new_weights = new_weights[:, :, time_mask]',
                   "test:submodule.padding in ('valid', 0, (0,))", 'pad_amount = (submodule.kernel_size_opt[0] - 1) * submodule.dilation_opt[0]',
                   'new_pad = nn.ConstantPad1d(padding=(pad_amount, 0), value=0)'],
        'forward': ['cout_mask = self._features_mask(discrete=True)', 'time_mask = self._time_mask(discrete=True)'],
        'k_eff': ['return torch.sum(self._time_mask(self.discrete_cost))'],
        'out_features_eff': ['return torch.sum(self._features_mask(self.discrete_cost))'],
    },
    'PITConv2d': {
        'summary': ["return {'in_features': self.in_features_opt, 'out_features': self.out_features_opt}"],
        'export': ['cout_mask = submodule.features_mask.bool()',
                   'new_submodule = nn.Conv2d(submodule.in_features_opt, submodule.out_features_opt, submodule.kernel_size, submodule.stride, submodule.padding, '
                   'submodule.dilation, groups_opt, submodule.bias is not None, submodule.padding_mode)', 'new_weights = submodule.weight[cout_mask, :, :, :]'],
        'forward': ['cout_mask = self._features_mask(discrete=True)'],
        'out_features_eff': ['return torch.sum(self._features_mask(self.discrete_cost))'],
    },
    'PITLinear': {
        'summary': ["return {'in_features': self.in_features_opt, 'out_features': self.out_features_opt}"],
        'export': ['cout_mask = submodule.features_mask.bool()', 'new_submodule = nn.Linear(submodule.in_features_opt, submodule.out_features_opt, submodule.bias is not None)',
                   'new_weights = submodule.weight[cout_mask, :]'],
        'forward': ['cout_mask = self._features_mask(discrete=True)'],
        'out_features_eff': ['return torch.sum(self._features_mask(self.discrete_cost))'],
    },
}


def check_consumers(layer):
    for m, want in CONSUMERS[layer.name].items():
        fn = layer.ms.get(m)
        if fn is None:
            raise Reject('%s has no %s' % (layer.name, m))
        if m in ('summary', 'k_eff', 'out_features_eff'):          # one-liners: the whole body
            if [ast.unparse(x) for x in _strip(fn.body)] != want:
                raise Reject('%s.%s is not `%s` (it reports / sums a translated quantity)' % (layer.name, m, want[0]))
            continue
        have = []
        for x in ast.walk(fn):
            if isinstance(x, ast.stmt) and not isinstance(x, (ast.FunctionDef, ast.If, ast.For, ast.With)):
                have.append(ast.unparse(x))
            if isinstance(x, ast.If):
                have.append('test:' + ast.unparse(x.test))
        for w in want:
            if have.count(w) != 1:
                raise Reject('%s.%s: the statement `%s` (where a translated quantity is consumed) is expected exactly once, found %d times' % (layer.name, m, w, have.count(w)))


def check_call_sites(repo, maskers):
    names = {m.name: m for m in maskers}
    for f in sorted(glob.glob(os.path.join(repo, 'plinio', '**', '*.py'), recursive=True)):
        try:
            tree = ast.parse(open(f).read())
        except SyntaxError as e:
            raise Reject('%s does not parse: %s' % (f, e))
        rel = os.path.relpath(f, repo)
        for n in ast.walk(tree):
            if isinstance(n, ast.Call) and isinstance(n.func, (ast.Name, ast.Attribute)):
                nm = n.func.id if isinstance(n.func, ast.Name) else n.func.attr
                if nm in names:
                    if len(n.args) != 1 or any(k.arg != 'trainable' for k in n.keywords) or isinstance(n.args[0], ast.Starred):
                        raise Reject('%s: %s is not constructed with one positional argument (the footer assumes the default keep-alive): %s' % (rel, nm, _u(n)))
                    if rel.endswith(os.path.join('pit', 'nn', 'conv1d.py')) and not (isinstance(n.args[0], ast.Name) and n.args[0].id == 'rf'):
                        raise Reject('%s: %s is not constructed on `rf`: %s' % (rel, nm, _u(n)))
            if isinstance(n, ast.FunctionDef) and n.name == 'autoimport' and rel.endswith(os.path.join('pit', 'nn', 'conv1d.py')):
                rfs = [ast.unparse(x.value) for x in ast.walk(n) if isinstance(x, ast.Assign) and any(isinstance(t, ast.Name) and t.id == 'rf' for t in x.targets)]
                if rfs != ['submodule.kernel_size[0]']:
                    raise Reject('%s: autoimport does not bind rf = submodule.kernel_size[0] exactly once: %s' % (rel, rfs))


HEADER = '''(* GENERATED by translator/masks2coq.py from plinio/methods/pit/nn/{binarizer,features_masker,timestep_masker,dilation_masker,
   conv1d,conv2d,linear}.py of the tree under test -- do not edit.  Tensors are lists over Q (Base/Tensor.v); c_<x> is the
   constructor parameter x of a masker; the nn.Parameter of a masker is a free vector. *)
From Coq Require Import QArith ZArith List Bool Arith.
Import ListNotations.
Require Import Plinio.Base.Qx Plinio.Base.Tensor.
Local Open Scope nat_scope.

(* what the translated methods of a PIT layer read from `self` (fixed text) *)
Record layer_self := { s_fm_theta : vec; s_tm_theta : vec; s_dm_theta : vec; s_thr : Q; s_dilation0 : nat; s_beta_norm : vec; s_gamma_norm : vec }.

'''

FOOTER = '''
(* ---------------------------------------------------------------- the layers as autoimport / graph.py build them (fixed text):
   PITTimestepMasker(rf), PITDilationMasker(rf) with rf = kernel_size[0] = K, a features masker on C channels (default
   keep-alive), the default binarization threshold; the buffers _beta_norm / _gamma_norm are not read by the discrete paths *)
Definition conv1d_obj (K d0 C : nat) (alpha beta gamma : vec) : layer_self :=
  {| s_fm_theta := fm_theta_gen C fm_default_keep_alive_channels alpha; s_tm_theta := tm_theta_gen K beta; s_dm_theta := dm_theta_gen K gamma;
     s_thr := c1_default_binarization_threshold; s_dilation0 := d0; s_beta_norm := []; s_gamma_norm := [] |}.
Definition conv1d_obj_ok (K C : nat) (alpha beta gamma : vec) : bool :=
  fm_theta_ok C fm_default_keep_alive_channels alpha && tm_theta_ok K beta && dm_theta_ok K gamma.
Definition conv1d_frozen_obj (K d0 C : nat) (alpha beta gamma : vec) : layer_self :=
  {| s_fm_theta := ffm_theta_gen C fm_default_keep_alive_channels; s_tm_theta := ftm_theta_gen K beta; s_dm_theta := fdm_theta_gen K gamma;
     s_thr := c1_default_binarization_threshold; s_dilation0 := d0; s_beta_norm := []; s_gamma_norm := [] |}.
Definition feat_obj (thr : Q) (theta : vec) : layer_self :=
  {| s_fm_theta := theta; s_tm_theta := []; s_dm_theta := []; s_thr := thr; s_dilation0 := 1; s_beta_norm := []; s_gamma_norm := [] |}.

(* correspondence helpers: same shape as run_masks / run_alpha of Model/Masks.v *)
Definition run_masks_gen (K d0 : nat) (beta gamma : vec) : list bool * list bool * list bool * (nat * nat * nat) :=
  let s := conv1d_obj K d0 1 [1%Q] beta gamma in
  (map q2b (binarizer_forward_gen (s_tm_theta s) (s_thr s)), map q2b (binarizer_forward_gen (s_dm_theta s) (s_thr s)), map q2b (c1_time_mask_gen s),
   (Z.to_nat (c1_kernel_size_opt_gen s), c1_dilation_opt_gen s, dm__gamma_len_gen K)).
Definition run_masks_gen_ok (K : nat) (beta gamma : vec) : bool :=
  conv1d_obj_ok K 1 [1%Q] beta gamma && c1_time_mask_ok (conv1d_obj K 1 1 [1%Q] beta gamma) && dm__gamma_len_ok K.
Definition run_alpha_gen (alpha : vec) : list bool * nat :=
  let s := conv1d_obj 1 1 (length alpha) alpha [1%Q] [1%Q] in (map q2b (c1_features_mask_gen s), Z.to_nat (c1_out_features_opt_gen s)).
Definition run_alpha2_gen (alpha : vec) : (list bool * nat) * (list bool * nat) :=
  let s2 := feat_obj c2_default_binarization_threshold (fm_theta_gen (length alpha) fm_default_keep_alive_channels alpha) in
  let s3 := feat_obj lin_default_binarization_threshold (fm_theta_gen (length alpha) fm_default_keep_alive_channels alpha) in
  ((map q2b (c2_features_mask_gen s2), Z.to_nat (c2_out_features_opt_gen s2)), (map q2b (lin_features_mask_gen s3), Z.to_nat (lin_out_features_opt_gen s3))).
Definition run_frozen_gen (C : nat) : list bool * nat :=
  let s := feat_obj c1_default_binarization_threshold (ffm_theta_gen C fm_default_keep_alive_channels) in (map q2b (c1_features_mask_gen s), Z.to_nat (c1_out_features_opt_gen s)).
'''

# what the footer (and Proofs/MasksGen.v) expect of the generated functions: name -> (parameter types, result type, has an _ok)
EXPECT = {
    'binarizer_forward': (['vec', 'Q'], 'vec', False),
    'fm_theta': (['nat', 'nat', 'vec'], 'vec', True), 'ffm_theta': (['nat', 'nat'], 'vec', False),
    'tm_theta': (['nat', 'vec'], 'vec', True), 'ftm_theta': (['nat', 'vec'], 'vec', True),
    'dm_theta': (['nat', 'vec'], 'vec', True), 'fdm_theta': (['nat', 'vec'], 'vec', True),
    'dm__gamma_len': (['nat'], 'nat', True),
    'c1_time_mask': (['layer_self'], 'vec', True), 'c1_features_mask': (['layer_self'], 'vec', False), 'c1_kernel_size_opt': (['layer_self'], 'Z', True),
    'c1_dilation_opt': (['layer_self'], 'nat', False), 'c1_out_features_opt': (['layer_self'], 'Z', False),
    'c2_features_mask': (['layer_self'], 'vec', False), 'c2_out_features_opt': (['layer_self'], 'Z', False),
    'lin_features_mask': (['layer_self'], 'vec', False), 'lin_out_features_opt': (['layer_self'], 'Z', False),
}


def read(repo, f):
    return ast.parse(open(os.path.join(repo, 'plinio', 'methods', 'pit', 'nn', f)).read())


def translate_repo(repo):
    out = HEADER
    binz = Binarizer(read(repo, 'binarizer.py'))
    out += '(* ---------------------------------------------------------------- binarizer.py *)\n' + binz.text + '\n'
    allfns = {'binarizer_forward': binz.fn}
    maskers = []
    for fname, base, bshort, frozen, fshort in (('features_masker.py', 'PITFeaturesMasker', 'fm', 'PITFrozenFeaturesMasker', 'ffm'),
                                                ('timestep_masker.py', 'PITTimestepMasker', 'tm', 'PITFrozenTimestepMasker', 'ftm'),
                                                ('dilation_masker.py', 'PITDilationMasker', 'dm', 'PITFrozenDilationMasker', 'fdm')):
        tree = read(repo, fname)
        check_module(tree, fname, None, [base, frozen])
        if bases(cls(tree, base)) != ['nn.Module'] or bases(cls(tree, frozen)) != [base]:
            raise Reject('%s: base classes %s / %s' % (fname, bases(cls(tree, base)), bases(cls(tree, frozen))))
        b = Masker(cls(tree, base), bshort)
        fz = Masker(cls(tree, frozen), fshort, b)
        out += '(* ---------------------------------------------------------------- %s : %s(%s) *)\n' % (fname, base, ', '.join(b.ctor_all))
        for p, d in b.defaults.items():
            out += 'Definition %s_default_%s : nat := %d.\n' % (bshort, p, d)
        out += b.text + '(* %s *)\n' % frozen + fz.text + fz.aliases() + '\n'
        maskers += [b, fz]
        for m in (b, fz):
            for k, f in m.fns.items():
                allfns['%s_%s' % (m.short, k)] = f
        for k, f in b.fns.items():
            if k not in fz.fns:
                allfns['%s_%s' % (fshort, k)] = Fn('%s_%s' % (fshort, k), f.params, f.ret, f.has_ok)
    check_call_sites(repo, maskers)
    for fname, cname, short, wanted, time_axis in (('conv1d.py', 'PITConv1d', 'c1', ['features_mask', 'out_features_opt', 'time_mask', 'kernel_size_opt', 'dilation_opt'], True),
                                                   ('conv2d.py', 'PITConv2d', 'c2', ['features_mask', 'out_features_opt'], False),
                                                   ('linear.py', 'PITLinear', 'lin', ['features_mask', 'out_features_opt'], False)):
        tree = read(repo, fname)
        check_module(tree, fname, None, [cname])
        L = Layer(cls(tree, cname), short, wanted, binz, time_axis)
        check_consumers(L)
        if time_axis:
            nc = L.ms.get('_generate_norm_constants')
            if nc is None or digest(nc) != PINNED['PITConv1d._generate_norm_constants']:
                raise Reject('PITConv1d._generate_norm_constants is not the function the model (beta_norm / gamma_norm of Model/Masks.v) was written for (AST digest %s, expected %s)'
                             % (digest(nc) if nc else None, PINNED['PITConv1d._generate_norm_constants']))
        out += '(* ---------------------------------------------------------------- %s : %s *)\n' % (fname, cname) + L.text + '\n'
        for k, f in L.fns.items():
            allfns['%s_%s' % (short, k)] = f
    for k, (pt, rt, hk) in EXPECT.items():
        f = allfns.get(k)
        if f is None:
            raise Reject('no function %s was generated' % k)
        got = ([t for _, t in f.params], f.ret, f.has_ok)
        if got != (pt, rt, hk) and k == 'ffm_theta':
            raise Reject('PITFrozenFeaturesMasker.theta is not a constant of its own: it depends on the alpha tensor (%s), which a warm start / the check can fill with any values; '
                         'the footer and the proofs expect the shape %s' % (got, (pt, rt, hk)))
        if got != (pt, rt, hk):
            raise Reject('%s_gen has the shape %s; the fixed footer and the proofs expect %s' % (k, got, (pt, rt, hk)))
    return out + FOOTER


def pinned_digests(repo):
    """the digests of the pinned functions in `repo` (for when a pinned function is changed on purpose)"""
    L = cls(read(repo, 'conv1d.py'), 'PITConv1d')
    return {'PITConv1d._generate_norm_constants': digest([m for m in L.body if isinstance(m, ast.FunctionDef) and m.name == '_generate_norm_constants'][0])}


if __name__ == '__main__':
    import sys
    print(translate_repo(sys.argv[1] if len(sys.argv) > 1 else '/repo'))
