(* C11 — Trainability controls do what they say under every sequence of calls.
   Statements only (proofs: Proofs/Train.v; model: Model/Train.v).  Every theorem quantifies over ALL
   operation lists `ops` (run = fold_left step) and all well-formed initial states (`wfb`: distinct
   object ids, frozen masks not trainable at construction, sampler consistent with its stored flags).
   `step false` is the repaired code, `step true` the pinned upstream code (…_refuted). *)
From Coq Require Import ZArith QArith List Bool Permutation.
Import ListNotations.
Require Import Plinio.Base.Qx Plinio.Model.Train Plinio.Proofs.Train.

(* nas_parameters() and net_parameters() partition parameters(): each exactly once, shared objects once,
   and no operation changes the groups  (holds for the upstream and the repaired code) *)
Theorem C11_partition_static : forall v0 ops st, wfb st = true ->
  let st' := run v0 ops st in
  nas_ids v0 st' = nas_ids v0 st /\ net_ids v0 st' = net_ids v0 st /\ param_ids v0 st' = param_ids v0 st /\
  (NoDup (nas_ids v0 st') /\ NoDup (net_ids v0 st') /\
   (forall i, In i (nas_ids v0 st') -> In i (net_ids v0 st') -> False) /\
   (forall i, In i (param_ids v0 st') <-> In i (nas_ids v0 st') \/ In i (net_ids v0 st')) /\
   Permutation (nas_ids v0 st' ++ net_ids v0 st') (param_ids v0 st')).
Proof. exact c11_partition. Qed.

(* after any history, train_nas_only / train_net_only / train_net_and_nas leave EXACTLY the named group
   trainable (every tensor of the model, frozen masks included) *)
Theorem C11_train_x_exact : forall ops st, wfb st = true ->
  let s1 := run false ops st in
  (forall t, In t (tens (fst (step false s1 TNasOnly))) -> p_rg t = memb (p_id t) (nas_ids false st)) /\
  (forall t, In t (tens (fst (step false s1 TNetOnly))) -> p_rg t = memb (p_id t) (net_ids false st)) /\
  (forall t, In t (tens (fst (step false s1 TNetAndNas))) -> p_rg t = memb (p_id t) (param_ids false st)).
Proof. exact c11_train. Qed.

Theorem C11_frozen_never_trainable : forall ops st, wfb st = true ->
  forall t, In t (tens (run false ops st)) -> p_frozen t = true -> p_rg t = false.
Proof. exact c11_frozen_rg. Qed.

(* no forward+backward along any run leaves a gradient on a frozen mask *)
Theorem C11_frozen_never_gets_grad : forall ops st, wfb st = true ->
  forall o, In o (trace false ops st) -> forall i, In i (frozen_ids st) -> ~ In (i, true) o.
Proof. exact c11_frozen_grad. Qed.

(* train_features / train_rf / train_dilation / train_selection (k = 0,1,2,3): the masks of that kind held by
   non-frozen maskers follow the switch, every other tensor keeps its flag *)
Theorem C11_switch_exact : forall v0 ops st k b,
  let s1 := run v0 ops st in
  Forall2 (fun t t' => p_id t' = p_id t /\ p_frozen t' = p_frozen t /\
                      p_rg t' = if memb (p_id t) (sw_ids (sw_sel k) st) && negb (p_frozen t) then b else p_rg t)
          (tens s1) (tens (fst (step v0 s1 (sw_op k b)))).
Proof. exact switch_exact. Qed.

(* update_softmax_options after any history: every option that is not given keeps its value (temperature,
   hard, gumbel, disable_sampling, and the selected sampler function when neither gumbel nor
   disable_sampling is given); every option that is given is set *)
Theorem C11_options_partial_update : forall ops st t h g d, wfb st = true ->
  let s1 := run false ops st in
  Forall2 (fun a b =>
     ((t = None -> s_temp b = s_temp a) /\ (h = None -> s_hard b = s_hard a) /\
      (g = None -> s_gum b = s_gum a) /\ (d = None -> s_dis b = s_dis a) /\
      (g = None -> d = None -> s_kind b = s_kind a) /\ s_upd b = s_upd a /\ s_comb b = s_comb a) /\
     (s_upd a = true ->
      (forall x, t = Some x -> s_temp b = x) /\ (forall x, h = Some x -> s_hard b = x) /\
      (s_comb a = false -> (forall x, g = Some x -> s_gum b = x) /\ (forall x, d = Some x -> s_dis b = x) /\
                           s_kind b = choose (s_dis b) (s_gum b))))
          (samplers s1) (samplers (fst (step false s1 (TUpdate t h g d)))).
Proof. exact c11_options. Qed.

(* no other operation touches a sampling option; update_softmax_options touches nothing else *)
Theorem C11_options_only_changed_by_update : forall v0 st o,
  (match o with TUpdate _ _ _ _ => True | _ => samplers (fst (step v0 st o)) = samplers st end) /\
  (match o with TUpdate _ _ _ _ => tens (fst (step v0 st o)) = tens st /\ layers (fst (step v0 st o)) = layers st
                                   /\ view v0 (fst (step v0 st o)) = (fst (view v0 st), map sampler_view (samplers (fst (step v0 st o))))
              | _ => True end).
Proof. exact options_only_changed_by_update. Qed.

Theorem C11_fwdbwd_is_observer : forall v0 st, fst (step v0 st TFwdBwd) = st.
Proof. exact fwdbwd_is_observer. Qed.

(* ---- the pinned upstream code (step true): train_nas_only / train_net_and_nas write requires_grad on the
   frozen beta/gamma/alpha, a frozen beta then receives a gradient, and update_softmax_options(temperature=x)
   alone turns a Gumbel sampler into the plain soft-max one *)
Theorem C11_upstream_frozen_never_trainable_refuted : exists ops st t, wfb st = true /\
  In t (tens (run true ops st)) /\ p_frozen t = true /\ p_rg t = true.
Proof. exact frozen_never_trainable_refuted. Qed.

Theorem C11_upstream_frozen_never_gets_grad_refuted : exists ops st o i, wfb st = true /\
  In o (trace true ops st) /\ In i (frozen_ids st) /\ In (i, true) o.
Proof. exact frozen_never_gets_grad_refuted. Qed.

Theorem C11_upstream_options_partial_update_refuted : exists st x, wfb st = true /\
  Exists (fun ab => s_kind (fst ab) = KGs /\ s_kind (snd ab) = KSm)
         (combine (samplers st) (samplers (fst (step true st (TUpdate (Some x) None None None))))).
Proof. exact options_partial_update_refuted. Qed.

(* the hypotheses are satisfiable by a non-trivial instance: shared alpha (id 1) listed by two layers, two
   frozen masks, one Gumbel quantizer; after [train_net_only; train_features := false; update(gumbel=false);
   train_nas_only] exactly {1, 4} are trainable and the groups are {1,4} / {0} *)
Example C11_example :
  wfb ex_state = true /\
  let s := run false [TNetOnly; TSetFeat false; TUpdate None None (Some false) None; TNasOnly] ex_state in
  nas_ids false s = [1; 4]%nat /\ net_ids false s = [0]%nat /\ frozen_ids s = [2; 3]%nat /\
  map p_rg (tens s) = [false; true; false; false; true] /\ map s_kind (samplers s) = [KSm] /\
  trace false [TNetAndNas; TFwdBwd] ex_state = [[]; [(0, true); (1, true); (2, false); (3, false); (4, true)]%nat].
Proof. vm_compute. repeat split; reflexivity. Qed.

Print Assumptions C11_partition_static.
Print Assumptions C11_train_x_exact.
Print Assumptions C11_frozen_never_trainable.
Print Assumptions C11_frozen_never_gets_grad.
Print Assumptions C11_switch_exact.
Print Assumptions C11_options_partial_update.
Print Assumptions C11_options_only_changed_by_update.
Print Assumptions C11_fwdbwd_is_observer.
Print Assumptions C11_upstream_frozen_never_trainable_refuted.
Print Assumptions C11_upstream_frozen_never_gets_grad_refuted.
Print Assumptions C11_upstream_options_partial_update_refuted.
