(* C03 — SuperNet export keeps exactly the arg-max branch of every choice block.
   Statements only (proofs: Proofs/SuperNet.v; model: Model/SuperNet.v).  Quantifiers: every network of the
   IR (any chain of fixed layers and choice blocks, any number of branches, branches of any length made of
   named modules and functional ops, blocks repeated any number of times), every winner assignment, every
   input tensor, every layer semantics that is a function of the tensor values (apply_ext).
   A tensor is a map flat index -> Q; teq is pointwise equality. *)
From Coq Require Import QArith List ZArith.
Import ListNotations.
Require Import Plinio.Base.Qx Plinio.Model.SuperNet Plinio.Proofs.SuperNet.
Require Import Plinio.Gen.SnExportGen Plinio.Proofs.SnExportGraphGen Plinio.Proofs.SnExportGen.

(* hard (one-hot) selection: SuperNet.forward computes, on every input, what the exported network computes *)
Theorem C03_sn_hard_eq_export : forall (apply : layer -> tensor -> tensor),
  (forall l x y, teq x y -> teq (apply l x) (apply l y)) ->
  forall nt win th th' e x,
  (forall b brs, In (NChoice b brs) nt -> th b = one_hot (win b) (length brs)) ->
  sn_export win nt = Some e ->
  teq (sn_eval apply qmix th nt x) (sn_eval apply qmix th' e x).
Proof. exact sn_hard_eq_export. Qed.

(* the winner is best_layer_index = arg-max of the raw coefficients, hard sampling is its one-hot *)
Theorem C03_sn_hard_eq_export_argmax : forall (apply : layer -> tensor -> tensor),
  (forall l x y, teq x y -> teq (apply l x) (apply l y)) ->
  forall nt (alpha : Z -> list Q) e x,
  (forall b brs, In (NChoice b brs) nt -> length (alpha b) = length brs) ->
  sn_export (fun b => best_layer_index (alpha b)) nt = Some e ->
  teq (sn_eval apply qmix (fun b => hard_theta (alpha b)) nt x) (sn_eval apply qmix (fun _ => []) e x).
Proof.
  intros apply Hext nt alpha e x Hlen He.
  apply (sn_hard_eq_export apply Hext nt (fun b => best_layer_index (alpha b))); [|exact He].
  intros b brs Hin. unfold hard_theta, best_layer_index. rewrite (Hlen b brs Hin). reflexivity.
Qed.

(* export() succeeds iff every winner index designates a branch *)
Theorem C03_sn_export_succeeds_iff : forall nt win, sn_export win nt <> None <-> winners_ok win nt.
Proof. exact sn_export_succeeds_iff. Qed.

(* exactly the winner's layers remain, in place, in order; the fixed layers are untouched *)
Theorem C03_sn_export_tree : forall nt win e, sn_export win nt = Some e ->
  is_plain e = true /\ fixed_layers e = flat_map (expand win) nt /\
  (forall b brs, In (NChoice b brs) nt -> exists br, nth_error brs (win b) = Some br /\ expand win (NChoice b brs) = br).
Proof. exact sn_export_tree. Qed.

(* module tree of the exported network *)
Theorem C03_sn_export_modules : forall nt win e i, sn_export win nt = Some e ->
  (In i (net_mods e) <->
   In (NFixed (Mod i)) nt \/ exists b brs br, In (NChoice b brs) nt /\ nth_error brs (win b) = Some br /\ In (Mod i) br).
Proof. exact sn_export_modules. Qed.

Theorem C03_sn_export_idempotent : forall nt win win' e, sn_export win nt = Some e -> sn_export win' e = Some e.
Proof. exact sn_export_idempotent. Qed.

Theorem C03_sn_export_deterministic : forall nt win win',
  (forall b brs, In (NChoice b brs) nt -> win b = win' b) -> sn_export win nt = sn_export win' nt.
Proof. exact sn_export_deterministic. Qed.

(* the pinned upstream surgery recognised the winner by the substring 'sn_branches.<w>' of the node name:
   it raises when the winning branch ends in a functional op, and with >= 11 branches it can export a
   non-winning branch (1 vs 10) *)
Theorem C03_upstream_export_raises_refuted : exists nt win, winners_ok win nt /\ sn_export_legacy win nt = None.
Proof. exact sn_export_legacy_raises_refuted. Qed.

Theorem C03_upstream_export_wrong_branch_refuted : exists nt win e,
  sn_export_legacy win nt = Some e /\ sn_export win nt <> Some e.
Proof. exact sn_export_legacy_wrong_branch_refuted. Qed.

(* a concrete non-trivial instance: scalar-affine layers, a block used twice, winner 2 of 3 *)
Example C03_example :
  let apply := fun (l : layer) (x : tensor) => match l with Mod i => fun k => inject_Z i * x k + 1 | Fn _ => fun k => x k + x k end in
  let nt := [NFixed (Mod 2); NChoice 0 [[Mod 3]; [Mod 4; Fn 0]; [Mod 5; Mod 6]]; NFixed (Fn 1); NChoice 0 [[Mod 3]; [Mod 4; Fn 0]; [Mod 5; Mod 6]]] in
  let win := fun _ : Z => 2%nat in
  sn_export win nt = Some (map NFixed [Mod 2; Mod 5; Mod 6; Fn 1; Mod 5; Mod 6]) /\
  (forall l x y, teq x y -> teq (apply l x) (apply l y)) /\
  sn_eval apply qmix (fun _ => one_hot 2 3) nt (fun _ => 1) 0%nat == 5827.
Proof.
  cbn zeta. split; [reflexivity|]. split.
  - intros [i|c] x y H k; cbn; rewrite (H k); reflexivity.
  - vm_compute. reflexivity.
Qed.

(* ---- generalised branch bodies: expressions over the block input with binary functional ops (residual x + body(x)).
   bexp := BIn | BApp layer e | BBin op e1 e2 ; gnode := GFixed | GBody (what export leaves) | GChoice. *)
Theorem C03_g_hard_eq_export : forall (apply : layer -> tensor -> tensor) (bin : Z -> tensor -> tensor -> tensor),
  (forall l x y, teq x y -> teq (apply l x) (apply l y)) ->
  (forall op x y x' y', teq x x' -> teq y y' -> teq (bin op x y) (bin op x' y')) ->
  forall g win th th' e x,
  (forall b brs, In (GChoice b brs) g -> th b = one_hot (win b) (length brs)) ->
  g_export win g = Some e ->
  teq (g_eval apply bin qmix th g x) (g_eval apply bin qmix th' e x).
Proof. exact g_hard_eq_export. Qed.

Theorem C03_g_export_succeeds_iff : forall g win, g_export win g <> None <-> g_winners_ok win g.
Proof. exact g_export_succeeds_iff. Qed.

Theorem C03_g_export_tree : forall g win e, g_export win g = Some e ->
  g_is_plain e = true /\ e = flat_map (g_expand win) g /\
  (forall b brs, In (GChoice b brs) g -> exists br, nth_error brs (win b) = Some br /\ g_expand win (GChoice b brs) = [GBody br]).
Proof. exact g_export_tree. Qed.

Theorem C03_g_export_modules : forall g win e i, g_export win g = Some e ->
  (In i (g_mods e) <->
   In (GFixed (Mod i)) g \/ (exists b0, In (GBody b0) g /\ In (Mod i) (body_layers b0)) \/
   exists b brs br, In (GChoice b brs) g /\ nth_error brs (win b) = Some br /\ In (Mod i) (body_layers br)).
Proof. exact g_export_modules. Qed.

Theorem C03_g_export_idempotent : forall g win win' e, g_export win g = Some e -> g_export win' e = Some e.
Proof. exact g_export_idempotent. Qed.

Theorem C03_g_export_deterministic : forall g win win',
  (forall b brs, In (GChoice b brs) g -> win b = win' b) -> g_export win g = g_export win' g.
Proof. exact g_export_deterministic. Qed.

(* the leaf-layer view used by the name-based bookkeeping commutes with export; chain networks are the instance `embed` *)
Theorem C03_g_flatten_export : forall g win, sn_export win (g_flatten g) = option_map g_flatten (g_export win g).
Proof. exact g_flatten_export. Qed.

Theorem C03_g_eval_embed : forall (T : Type) (apply : layer -> T -> T) (bin : Z -> T -> T -> T) (mix : list Q -> list T -> T) th nt x,
  g_eval apply bin mix th (embed nt) x = sn_eval apply mix th nt x.
Proof. exact @g_eval_embed. Qed.

Theorem C03_g_flatten_embed : forall nt, g_flatten (embed nt) = nt.
Proof. exact g_flatten_embed. Qed.

(* a residual branch wins: x + 3*(2*x+1)... evaluated through the SuperNet and through the export *)
Example C03_g_example :
  let apply := fun (l : layer) (x : tensor) => match l with Mod i => fun k => inject_Z i * x k + 1 | Fn _ => fun k => x k + x k end in
  let bin := fun (_ : Z) (x y : tensor) => fun k => x k + y k in
  let g := [GFixed (Mod 2); GChoice 0 [BApp (Mod 3) BIn; BBin 0 (BApp (Mod 5) (BApp (Fn 0) (BApp (Mod 4) BIn))) BIn]; GFixed (Mod 7)] in
  g_export (fun _ => 1%nat) g = Some [GFixed (Mod 2); GBody (BBin 0 (BApp (Mod 5) (BApp (Fn 0) (BApp (Mod 4) BIn))) BIn); GFixed (Mod 7)] /\
  g_eval apply bin qmix (fun _ => one_hot 1 2) g (fun _ => 1) 0%nat == 939.
Proof. cbn zeta. split; [reflexivity|vm_compute; reflexivity]. Qed.

(* ---- second tie, by translation: the definitions of Gen/SnExportGen.v are GENERATED on every run by translator/snexport2coq.py from the
   source of SuperNetCombiner.forward / summary, SuperNetModule.forward, export_graph, SuperNet.export / summary of the tree under test
   (best_layer_index and the samplers behind self.sample_alpha(): Gen/SnCostGen.v, Gen/SamplerGen.v, generated by the C06 / C10
   translators).  The statements below are about that code as it is now.
   A combiner state `s0 b` is a sampler of Model/Sampler.v; hard selection without noise (`g_hard_det`): hard_softmax set, eval mode or
   the plain soft-max sampler, tie-free alpha with one entry per branch, positive temperature.  `g` is exp: any positive increasing function. *)

(* the generated forward pass (sample, theta-weighted sum of the branch outputs, block after block with the combiner states threaded
   through) under hard selection computes, on every input, the hand model's network with the one-hots of the generated best_layer_index *)
Theorem C03_generated_forward_hard_eq_model : forall (g : Q -> Q), (forall x, 0 < g x) -> (forall x y, x < y -> g x < g y) ->
  forall (apply : layer -> tensor -> tensor) (bin : Z -> tensor -> tensor -> tensor),
  (forall l x y, teq x y -> teq (apply l x) (apply l y)) ->
  (forall op x y x' y', teq x x' -> teq y y' -> teq (bin op x y) (bin op x' y')) ->
  forall noise s0 gn x, g_hard_det s0 gn ->
  teq (snd (seed_forward_gen apply bin qscale qstack_sum g noise (fun b => SG.embed (s0 b)) gn x))
      (g_eval apply bin qmix (th_hard s0) gn x).
Proof. exact gen_forward_hard_eq_model. Qed.

(* ... hence what the hand model's exported network computes (winners = the generated best_layer_index of every block) *)
Theorem C03_generated_forward_hard_eq_export : forall (g : Q -> Q), (forall x, 0 < g x) -> (forall x y, x < y -> g x < g y) ->
  forall (apply : layer -> tensor -> tensor) (bin : Z -> tensor -> tensor -> tensor),
  (forall l x y, teq x y -> teq (apply l x) (apply l y)) ->
  (forall op x y x' y', teq x x' -> teq y y' -> teq (bin op x y) (bin op x' y')) ->
  forall noise s0 gn x e th', g_hard_det s0 gn -> g_export (win_of s0) gn = Some e ->
  teq (snd (seed_forward_gen apply bin qscale qstack_sum g noise (fun b => SG.embed (s0 b)) gn x)) (g_eval apply bin qmix th' e x).
Proof. exact gen_forward_hard_eq_export. Qed.

(* one block: the generated SuperNetModule.forward evaluates the branch at the generated best_layer_index *)
Theorem C03_generated_block_forward_is_winner : forall (g : Q -> Q), (forall x, 0 < g x) -> (forall x y, x < y -> g x < g y) ->
  forall (apply : layer -> tensor -> tensor) (bin : Z -> tensor -> tensor -> tensor),
  (forall l x y, teq x y -> teq (apply l x) (apply l y)) ->
  (forall op x y x' y', teq x x' -> teq y y' -> teq (bin op x y) (bin op x' y')) ->
  forall s0 gn b brs nz x e, g_hard_det s0 gn -> In (GChoice b brs) gn -> nth_error brs (win_of s0 b) = Some e ->
  teq (snd (snm_forward_gen apply bin qscale qstack_sum g (mkSnm b brs) (SG.embed (s0 b)) nz x)) (eval_body apply bin e x).
Proof. exact gen_block_forward_hard_is_winner. Qed.

(* whatever the coefficients: the value of the generated combiner forward is the hand model's qmix of the coefficients the generated
   sampler leaves; no IndexError / empty stack when there is one coefficient per branch *)
Theorem C03_generated_combiner_forward_is_qmix : forall g apply bin self noise ys,
  fst (comb_forward_gen apply bin qscale qstack_sum g self noise ys) = SG.comb_forward_gen g self noise /\
  teq (snd (comb_forward_gen apply bin qscale qstack_sum g self noise ys)) (qmix (theta1 (SG.comb_forward_gen g self noise)) ys).
Proof. exact comb_forward_gen_value. Qed.

Theorem C03_generated_combiner_forward_defined : forall g apply bin self noise (ys : list tensor), ys <> [] ->
  length ys = length (theta1 (SG.comb_forward_gen g self noise)) -> comb_forward_ok apply bin qscale qstack_sum g self noise ys = true.
Proof. exact comb_forward_ok_true. Qed.

(* the generated summary(): the largest reported coefficient is at the generated best_layer_index (the branch export keeps); with hard
   selection the report is its one-hot *)
Theorem C03_generated_summary_names_winner : forall (g : Q -> Q), (forall x, 0 < g x) -> (forall x y, x < y -> g x < g y) ->
  forall sb a, SP.wf sb -> S.alpha sb = [a] ->
  let rep := map snd (comb_summary_gen g (SG.embed sb) (length a)) in
  argmax rep = CG.comb_best_layer_index_gen a /\ (S.hard sb = true -> rep = one_hot (CG.comb_best_layer_index_gen a) (length a)).
Proof. exact gen_summary_names_winner. Qed.

(* the generated SuperNet.summary(): every entry is the report of a combiner among the unique leaf modules, under its name *)
Theorem C03_generated_summary_entries : forall g st self nm v, In (nm, v) (sn_summary_gen g st self) ->
  exists nd c, In (nm, nd, CG.LComb c) (CG.sn_ulm self) /\ v = comb_summary_gen g (st (CG.c_bid c)) (CG.c_nbr c).
Proof. exact gen_sn_summary_entries. Qed.

(* the generated export_graph / convert / SuperNet.export, run on the traced graph of ANY network of the IR (a model of torch.fx: users
   computed from the arguments, erase_node refusing a node that still has users, eliminate_dead_code as torch's reverse sweep): when every
   generated best_layer_index designates a branch it does not raise and leaves exactly the graph of the fixed layers and the winners' bodies *)
Theorem C03_generated_export_traced : forall alphas g,
  let win := fun b => CG.comb_best_layer_index_gen (alphas b) in
  g_winners_ok win g -> export_traced_gen alphas g = Some (fx_delete_unused (trace_with (MExp win) alphas g)).
Proof. exact gen_export_traced. Qed.

(* ... whose layer nodes are, in order, the leaf layers of the hand model's exported network (every fixed layer untouched, in place of
   every block exactly the layers of the arg-max branch), with no combiner left, and whose module tree keeps exactly the modules still called *)
Theorem C03_generated_export_structure : forall alphas g e,
  let win := fun b => CG.comb_best_layer_index_gen (alphas b) in
  g_export win g = Some e ->
  exists s, export_traced_gen alphas g = Some s /\
    graph_layers s = fixed_layers (g_flatten e) /\ graph_combs s = [] /\
    (forall i, In i (g_modtree s) <-> In i (g_mods g) /\ In (Mod i) (fixed_layers (g_flatten e))).
Proof. exact gen_export_structure. Qed.

(* ... and which computes, for EVERY interpretation of the layers, the binary ops and the combiner, what the hand model's exported network
   computes (the traced graph computing what the hand model's SuperNet computes) *)
Theorem C03_generated_export_semantics : forall (T : Type) (apply : layer -> T -> T) (bin : Z -> T -> T -> T) (mix : list Q -> list T -> T)
  theta th' alphas g e x,
  let win := fun b => CG.comb_best_layer_index_gen (alphas b) in
  g_export win g = Some e ->
  exists s, export_traced_gen alphas g = Some s /\
            fx_eval apply bin mix theta s x = g_eval apply bin mix th' e x /\
            fx_eval apply bin mix theta (trace alphas g) x = g_eval apply bin mix theta g x.
Proof. exact gen_export_semantics. Qed.

(* the sentence of the property about the generated code: under hard selection export() succeeds and the network it returns computes on
   every input what the SuperNet's forward pass computes; it consists of the fixed layers and the arg-max branches, no combiner is left *)
Theorem C03_generated_export_eq_hard_forward : forall (g : Q -> Q), (forall x, 0 < g x) -> (forall x y, x < y -> g x < g y) ->
  forall (apply : layer -> tensor -> tensor) (bin : Z -> tensor -> tensor -> tensor),
  (forall l x y, teq x y -> teq (apply l x) (apply l y)) ->
  (forall op x y x' y', teq x x' -> teq y y' -> teq (bin op x y) (bin op x' y')) ->
  forall noise s0 gn x th, g_hard_det s0 gn ->
  exists s e, export_traced_gen (alpha_of s0) gn = Some s /\ g_export (win_of s0) gn = Some e /\
    teq (snd (seed_forward_gen apply bin qscale qstack_sum g noise (fun b => SG.embed (s0 b)) gn x)) (fx_eval apply bin qmix th s x) /\
    graph_layers s = fixed_layers (g_flatten e) /\ graph_combs s = [].
Proof. exact gen_export_eq_hard_forward. Qed.


Print Assumptions C03_sn_hard_eq_export.
Print Assumptions C03_sn_hard_eq_export_argmax.
Print Assumptions C03_sn_export_succeeds_iff.
Print Assumptions C03_sn_export_tree.
Print Assumptions C03_sn_export_modules.
Print Assumptions C03_sn_export_idempotent.
Print Assumptions C03_sn_export_deterministic.
Print Assumptions C03_upstream_export_raises_refuted.
Print Assumptions C03_upstream_export_wrong_branch_refuted.
Print Assumptions C03_g_hard_eq_export.
Print Assumptions C03_g_export_succeeds_iff.
Print Assumptions C03_g_export_tree.
Print Assumptions C03_g_export_modules.
Print Assumptions C03_g_export_idempotent.
Print Assumptions C03_g_export_deterministic.
Print Assumptions C03_g_flatten_export.
Print Assumptions C03_g_eval_embed.
Print Assumptions C03_g_flatten_embed.
Print Assumptions C03_generated_forward_hard_eq_model.
Print Assumptions C03_generated_forward_hard_eq_export.
Print Assumptions C03_generated_block_forward_is_winner.
Print Assumptions C03_generated_combiner_forward_is_qmix.
Print Assumptions C03_generated_combiner_forward_defined.
Print Assumptions C03_generated_summary_names_winner.
Print Assumptions C03_generated_summary_entries.
Print Assumptions C03_generated_export_traced.
Print Assumptions C03_generated_export_structure.
Print Assumptions C03_generated_export_semantics.
Print Assumptions C03_generated_export_eq_hard_forward.
