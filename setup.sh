#!/bin/bash
# MANIFEST.setup_cmd: full .vo build (no -vos) of the Coq development behind every claimed check, offline.
cd "$(dirname "$0")"
export PYTHONPATH="${VERIF_REPO:-/repo}:/verif"
exec /venv/bin/python - <<'PY'
import sys, os, importlib
from vlib import common, registry
# generated models (translator output) must exist before the build
for pid in sorted(registry.CHECKS):
    mod = importlib.import_module('vlib.' + pid.lower())
    if hasattr(mod, 'regenerate'):
        print('regenerating generated model for', pid, flush=True)
        mod.regenerate(None)
targets = ['Props/%s.vo' % pid for pid in sorted(registry.CHECKS)]
# further statement files of a claimed property (Props/<Cxx>gen.v: sentences about the model generated from the source)
import glob
targets += ['Props/' + os.path.basename(f) + 'o' for pid in sorted(registry.CHECKS) for f in sorted(glob.glob(os.path.join(common.COQ, 'Props', pid + 'gen*.v')))]
ok, log = common.coq_make(targets, timeout=3000)
print(log[-4000:])
g = common.gate_scan()
if g:
    print('GATE FAILED:', g); sys.exit(1)
sys.exit(0 if ok else 1)
PY
