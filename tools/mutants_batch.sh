#!/bin/bash
# usage: tools/mutants_batch.sh <outdir e.g. /tmp/mut/out3> <labels e.g. "E F"> [ids...]  -> one line per mutant
out=$1; labels=$2; shift 2
ids="$@"; [ -z "$ids" ] && ids=$(ls $out)
for p in $ids; do for x in $labels; do
  [ -f $out/$p/$x/patch.diff ] || continue
  r=$(/verif/tools/mutant_run.sh $out/$p/$x $p quick 2>&1)
  echo "$p/$x clean=$(echo "$r" | grep -o 'demo exit on clean: [0-9]*' | grep -o '[0-9]*$') mut=$(echo "$r" | grep -o 'demo exit on mutant: [0-9]*' | grep -o '[0-9]*$') check=$(echo "$r" | grep -o 'check exit: [0-9]*' | grep -o '[0-9]*$') $(echo "$r" | grep -c '^VIOLATION') viol $(echo "$r" | grep -m1 'no-failing-input-found' | grep -o 'no-failing-input-found') $(echo "$r" | grep -m1 'does not apply')"
done; done
