(* C03 — SuperNet export keeps exactly the arg-max branch of every choice block.
   Statements only (proofs: Proofs/SuperNet.v; model: Model/SuperNet.v).  Quantifiers: every network of the
   IR (any chain of fixed layers and choice blocks, any number of branches, branches of any length made of
   named modules and functional ops, blocks repeated any number of times), every winner assignment, every
   input tensor, every layer semantics that is a function of the tensor values (apply_ext).
   A tensor is a map flat index -> Q; teq is pointwise equality. *)
From Coq Require Import QArith List ZArith.
Import ListNotations.
Require Import Plinio.Base.Qx Plinio.Model.SuperNet Plinio.Proofs.SuperNet.

(* hard (one-hot) selection: SuperNet.forward computes, on every input, what the exported network computes *)
Theorem C03_sn_hard_eq_export : forall (apply : layer -> tensor -> tensor),
  (forall l x y, teq x y -> teq (apply l x) (apply l y)) ->
  forall nt win th th' e x,
  (forall b brs, In (NChoice b brs) nt -> th b = one_hot (win b) (length brs)) ->
  sn_export win nt = Some e ->
  teq (sn_eval apply qmix th nt x) (sn_eval apply qmix th' e x).
Proof. exact sn_hard_eq_export. Qed.

(* the winner is best_layer_index = arg-max of the raw coefficients, hard sampling is its one-hot *)
Theorem C03_sn_hard_eq_export_argmax : forall (apply : layer -> tensor -> tensor),
  (forall l x y, teq x y -> teq (apply l x) (apply l y)) ->
  forall nt (alpha : Z -> list Q) e x,
  (forall b brs, In (NChoice b brs) nt -> length (alpha b) = length brs) ->
  sn_export (fun b => best_layer_index (alpha b)) nt = Some e ->
  teq (sn_eval apply qmix (fun b => hard_theta (alpha b)) nt x) (sn_eval apply qmix (fun _ => []) e x).
Proof.
  intros apply Hext nt alpha e x Hlen He.
  apply (sn_hard_eq_export apply Hext nt (fun b => best_layer_index (alpha b))); [|exact He].
  intros b brs Hin. unfold hard_theta, best_layer_index. rewrite (Hlen b brs Hin). reflexivity.
Qed.

(* export() succeeds iff every winner index designates a branch *)
Theorem C03_sn_export_succeeds_iff : forall nt win, sn_export win nt <> None <-> winners_ok win nt.
Proof. exact sn_export_succeeds_iff. Qed.

(* exactly the winner's layers remain, in place, in order; the fixed layers are untouched *)
Theorem C03_sn_export_tree : forall nt win e, sn_export win nt = Some e ->
  is_plain e = true /\ fixed_layers e = flat_map (expand win) nt /\
  (forall b brs, In (NChoice b brs) nt -> exists br, nth_error brs (win b) = Some br /\ expand win (NChoice b brs) = br).
Proof. exact sn_export_tree. Qed.

(* module tree of the exported network *)
Theorem C03_sn_export_modules : forall nt win e i, sn_export win nt = Some e ->
  (In i (net_mods e) <->
   In (NFixed (Mod i)) nt \/ exists b brs br, In (NChoice b brs) nt /\ nth_error brs (win b) = Some br /\ In (Mod i) br).
Proof. exact sn_export_modules. Qed.

Theorem C03_sn_export_idempotent : forall nt win win' e, sn_export win nt = Some e -> sn_export win' e = Some e.
Proof. exact sn_export_idempotent. Qed.

Theorem C03_sn_export_deterministic : forall nt win win',
  (forall b brs, In (NChoice b brs) nt -> win b = win' b) -> sn_export win nt = sn_export win' nt.
Proof. exact sn_export_deterministic. Qed.

(* the pinned upstream surgery recognised the winner by the substring 'sn_branches.<w>' of the node name:
   it raises when the winning branch ends in a functional op, and with >= 11 branches it can export a
   non-winning branch (1 vs 10) *)
Theorem C03_upstream_export_raises_refuted : exists nt win, winners_ok win nt /\ sn_export_legacy win nt = None.
Proof. exact sn_export_legacy_raises_refuted. Qed.

Theorem C03_upstream_export_wrong_branch_refuted : exists nt win e,
  sn_export_legacy win nt = Some e /\ sn_export win nt <> Some e.
Proof. exact sn_export_legacy_wrong_branch_refuted. Qed.

(* a concrete non-trivial instance: scalar-affine layers, a block used twice, winner 2 of 3 *)
Example C03_example :
  let apply := fun (l : layer) (x : tensor) => match l with Mod i => fun k => inject_Z i * x k + 1 | Fn _ => fun k => x k + x k end in
  let nt := [NFixed (Mod 2); NChoice 0 [[Mod 3]; [Mod 4; Fn 0]; [Mod 5; Mod 6]]; NFixed (Fn 1); NChoice 0 [[Mod 3]; [Mod 4; Fn 0]; [Mod 5; Mod 6]]] in
  let win := fun _ : Z => 2%nat in
  sn_export win nt = Some (map NFixed [Mod 2; Mod 5; Mod 6; Fn 1; Mod 5; Mod 6]) /\
  (forall l x y, teq x y -> teq (apply l x) (apply l y)) /\
  sn_eval apply qmix (fun _ => one_hot 2 3) nt (fun _ => 1) 0%nat == 5827.
Proof.
  cbn zeta. split; [reflexivity|]. split.
  - intros [i|c] x y H k; cbn; rewrite (H k); reflexivity.
  - vm_compute. reflexivity.
Qed.

Print Assumptions C03_sn_hard_eq_export.
Print Assumptions C03_sn_hard_eq_export_argmax.
Print Assumptions C03_sn_export_succeeds_iff.
Print Assumptions C03_sn_export_tree.
Print Assumptions C03_sn_export_modules.
Print Assumptions C03_sn_export_idempotent.
Print Assumptions C03_sn_export_deterministic.
Print Assumptions C03_upstream_export_raises_refuted.
Print Assumptions C03_upstream_export_wrong_branch_refuted.
