(* Model of plinio/methods/mps/utils.py : _reassign_precisions and the two searches of
   optimize_prec_assignment   (C20) *)
From Coq Require Import QArith ZArith List Bool Arith Lia.
Import ListNotations.
Require Import Plinio.Base.Qx.
Local Open Scope nat_scope.

(* ------------------------------------------------------------------ reassignment *)
(* abstract inputs:
     cur   : current precision (row index) of every channel  = argmax(scores, dim 0)
     order : for every precision the channels sorted by decreasing score = argsort(scores, dim 1, descending)
     best  : target number of channels per precision *)
Definition assignment := list (option nat).          (* None is the -1 marker *)

Definition set_nth {A} (n : nat) (x : A) (l : list A) : list A :=
  firstn n l ++ match skipn n l with [] => [] | _ :: t => x :: t end.
Definition get (a : assignment) (c : nat) : option nat := nth c a None.
Definition is_prec (p : nat) (x : option nat) : bool :=
  match x with Some q => Nat.eqb p q | None => false end.
Definition is_none (x : option nat) : bool := match x with None => true | _ => false end.
Definition count (p : nat) (a : assignment) : nat := length (filter (is_prec p) a).
Definition set_all (cs : list nat) (x : option nat) (a : assignment) : assignment :=
  fold_left (fun a c => set_nth c x a) cs a.
Definition chans_of (p : nat) (cur : list nat) : list nat :=      (* (current_assignment == p).nonzero() : index order *)
  filter (fun c => Nat.eqb (nth c cur 0) p) (seq 0 (length cur)).

(* pass 1 of the pinned upstream commit *)
Definition pass1_step_v0 (cur : list nat) (a : assignment) (p : nat) (ord : list nat) (t : nat) : assignment :=
  let mine := chans_of p cur in
  match t with
  | O => set_all mine None a
  | _ => let a1 := set_all (firstn t ord) (Some p) a in      (* new_assignment[top_indices] = prec *)
         set_all (skipn t mine) None a1                       (* excess_channels = prec_indices[target_count:] *)
  end.

(* pass 1 now: a precision keeps its own best channels (by score) up to the target; the rest is unassigned *)
Definition pass1_step (cur : list nat) (a : assignment) (p : nat) (ord : list nat) (t : nat) : assignment :=
  let mine_sorted := filter (fun c => Nat.eqb (nth c cur 0) p) ord in
  set_all (skipn t mine_sorted) None a.

(* pass 2: fill deficits with the best unassigned channels *)
Definition pass2_step (a : assignment) (p : nat) (ord : list nat) (t : nat) : assignment :=
  let have := count p a in
  if Nat.ltb have t then
    set_all (firstn (t - have) (filter (fun c => is_none (get a c)) ord)) (Some p) a
  else a.

Fixpoint fold_prec (f : assignment -> nat -> list nat -> nat -> assignment)
         (a : assignment) (p : nat) (orders : list (list nat)) (best : list nat) : assignment :=
  match orders, best with
  | o :: os, t :: ts => fold_prec f (f a p o t) (S p) os ts
  | _, _ => a
  end.

Definition reassign_abs_v0 (cur : list nat) (orders : list (list nat)) (best : list nat) : assignment :=
  let a1 := fold_prec (pass1_step_v0 cur) (map Some cur) 0 orders best in
  fold_prec pass2_step a1 0 orders best.
Definition reassign_abs (cur : list nat) (orders : list (list nat)) (best : list nat) : assignment :=
  let a1 := fold_prec (pass1_step cur) (map Some cur) 0 orders best in
  fold_prec pass2_step a1 0 orders best.

(* the property of the reassignment step: every channel has a precision and every count is met *)
Definition counts_met (a : assignment) (best : list nat) : bool :=
  forallb (fun pt => Nat.eqb (count (fst pt) a) (snd pt)) (combine (seq 0 (length best)) best).
Definition total (a : assignment) : bool := forallb (fun x => negb (is_none x)) a.
Definition reassign_ok (a : assignment) (best : list nat) : bool := total a && counts_met a best.

(* concrete inputs: a score matrix (rows = precisions) *)
Fixpoint insert_desc (s : nat -> Q) (c : nat) (l : list nat) : list nat :=
  match l with
  | [] => [c]
  | d :: t => if Qle_bool (s d) (s c) then c :: l else d :: insert_desc s c t   (* stable for equal scores: earlier index first needs strictness; generator is tie-free *)
  end.
Definition argsort_desc (row : list Q) : list nat :=
  fold_right (fun c acc => insert_desc (fun i => nth i row 0%Q) c acc) [] (seq 0 (length row)).
Fixpoint argmax_from (s : nat -> Q) (cands : list nat) (bi : nat) : nat :=
  match cands with
  | [] => bi
  | c :: t => if qlt_bool (s bi) (s c) then argmax_from s t c else argmax_from s t bi
  end.
Definition col_argmax (scores : list (list Q)) (c : nat) : nat :=
  argmax_from (fun p => nth c (nth p scores []) 0%Q) (seq 1 (length scores - 1)) 0.
Definition ncols (scores : list (list Q)) : nat := length (hd [] scores).
Definition reassign (scores : list (list Q)) (best : list nat) : assignment :=
  reassign_abs (map (col_argmax scores) (seq 0 (ncols scores))) (map argsort_desc scores) best.
Definition reassign_v0 (scores : list (list Q)) (best : list nat) : assignment :=
  reassign_abs_v0 (map (col_argmax scores) (seq 0 (ncols scores))) (map argsort_desc scores) best.

(* ------------------------------------------------------------------ the two searches *)
(* count vectors in increasing precision order; cost is ANY function of the count vector;
   zero-bit precisions (skip list) are never moved out of *)
Definition vec := list nat.
Definition move (i j : nat) (v : vec) : vec :=
  set_nth j (S (nth j v 0)) (set_nth i (pred (nth i v 0)) v).

Section Search.
Variable cost : vec -> Q.
(* while tmp[i] > 0: move one channel i -> j, remember the cheapest configuration seen *)
Fixpoint drain (fuel : nat) (i j : nat) (tmp : vec) (best : vec) : vec * vec :=
  match fuel with
  | O => (tmp, best)
  | S f => if Nat.ltb 0 (nth i tmp 0)
           then let tmp' := move i j tmp in
                drain f i j tmp' (if qlt_bool (cost tmp') (cost best) then tmp' else best)
           else (tmp, best)
  end.
Definition pairs (n : nat) (skip : nat -> bool) : list (nat * nat) :=
  flat_map (fun i => if skip i then [] else map (fun j => (i, j)) (seq (S i) (n - S i))) (seq 0 n).
(* Case 1: restart from the initial vector for every pair (i, j) *)
Definition search1 (skip : nat -> bool) (init best : vec) : vec :=
  fold_left (fun b ij => snd (drain (nth (fst ij) init 0) (fst ij) (snd ij) init b)) (pairs (length init) skip) best.
(* Case 2: keep draining the same vector through all pairs *)
Definition search2 (skip : nat -> bool) (init best : vec) : vec :=
  snd (fold_left (fun tb ij => drain (nth (fst ij) (fst tb) 0) (fst ij) (snd ij) (fst tb) (snd tb))
                 (pairs (length init) skip) (init, best)).
Definition refine (skip : nat -> bool) (init : vec) : vec := search2 skip init (search1 skip init init).
End Search.

(* ------------------------------------------------------------------ the whole refinement of one layer *)
(* the quantizer may list its precisions in any order: own_of k = own index of the k-th smallest precision
   (sorted_indexes), pos_of p = sorted position of own index p (inverse_indexes) *)
Definition cc (cur : list nat) (p : nat) : nat := count p (map Some cur).          (* channels currently at own index p *)
Definition init_sorted (cur : list nat) (P : nat) (own_of : nat -> nat) : vec := map (fun k => cc cur (own_of k)) (seq 0 P).
Definition unsort (pos_of : nat -> nat) (P : nat) (v : vec) : list nat := map (fun p => nth (pos_of p) v 0) (seq 0 P).
Definition best_own (cost : vec -> Q) (skip : nat -> bool) (P : nat) (cur : list nat) (own_of pos_of : nat -> nat) : list nat :=
  unsort pos_of P (refine cost skip (init_sorted cur P own_of)).

(* correspondence helpers *)
Definition code_assign (a : assignment) : list Z := map (fun x => match x with Some p => Z.of_nat p | None => (-1)%Z end) a.
Definition run_reassign (scores : list (list Q)) (best : list nat) : list Z := code_assign (reassign scores best).
Definition run_reassign_v0 (scores : list (list Q)) (best : list nat) : list Z := code_assign (reassign_v0 scores best).
Fixpoint lookup_cost (tbl : list (vec * Q)) (v : vec) : Q :=
  match tbl with
  | [] => 0%Q
  | (w, q) :: t => if list_eq_dec Nat.eq_dec w v then q else lookup_cost t v
  end.
Definition run_refine (tbl : list (vec * Q)) (skip : list nat) (init : vec) : vec :=
  refine (lookup_cost tbl) (fun i => existsb (Nat.eqb i) skip) init.

(* search + reassignment of one layer from its score (alpha) matrix: (counts kept, in sorted order; new own index per channel) *)
Definition run_pipeline (tbl : list (vec * Q)) (skip own pos : list nat) (scores : list (list Q)) : vec * list Z :=
  let P := length scores in
  let cur := map (col_argmax scores) (seq 0 (ncols scores)) in
  let r := refine (lookup_cost tbl) (fun i => existsb (Nat.eqb i) skip) (init_sorted cur P (fun k => nth k own 0)) in
  (r, code_assign (reassign_abs cur (map argsort_desc scores) (unsort (fun p => nth p pos 0) P r))).
