(* C15 — Cost-function lookup depends on the layer, not on registration order.
   Statements only; proofs are in Proofs/CostSpec.v.  Model: Model/CostSpec.v *)
From Coq Require Import List Bool Arith ZArith Permutation.
Import ListNotations.
Require Import Plinio.Model.CostSpec Plinio.Proofs.CostSpec Plinio.Gen.CostSpecGen Plinio.Proofs.CostSpecGen.

(* For EVERY sequence of registrations (any length, any layer types, duplicates allowed) the lookup
   returns what the documented three-way rule says: the satisfied constrained pattern if there is
   exactly one, Conflict if there are two or more, else the (last) unconstrained pattern of the
   type, else the default. *)
Theorem C15_lookup_rule : forall (F : Type) (regs : list (nat * entry F)) (ty : nat) (sat : nat -> bool),
  getitem F (register_all F regs) ty sat = rule F sat (regs_of F regs ty).
Proof. exact getitem_rule. Qed.

(* ... and it is the same for every order of registration of pairwise distinct patterns. *)
Theorem C15_lookup_perm : forall (F : Type) (regs regs' : list (nat * entry F)) (ty : nat) (sat : nat -> bool),
  NoDup (map (pattern_of F) regs) -> Permutation regs regs' ->
  getitem F (register_all F regs) ty sat = getitem F (register_all F regs') ty sat.
Proof. exact getitem_perm. Qed.

(* An error is raised only when two constrained patterns both match. *)
Theorem C15_conflict_iff : forall (F : Type) (regs : list (nat * entry F)) (ty : nat) (sat : nat -> bool),
  getitem F (register_all F regs) ty sat = Conflict <->
  2 <= length (sat_constrained F sat (regs_of F regs ty)).
Proof. exact conflict_iff. Qed.

(* Registering under one layer type never changes the lookup of another. *)
Theorem C15_setitem_other_type : forall (F : Type) (s : spec F) (ty ty' : nat) (e : entry F) (sat : nat -> bool),
  ty <> ty' -> getitem F (setitem F s ty' e) ty sat = getitem F s ty sat.
Proof. exact setitem_other_type. Qed.


(* ---- the same statements about the model GENERATED from the source of CostSpec.__setitem__ / __getitem__
        (Gen/CostSpecGen.v, rewritten from the tree under test by translator/costspec2coq.py on every run) ---- *)
(* the generated registration and lookup are extensionally the hand-written model ... *)
Theorem C15_generated_setitem_is_model : forall (F : Type) (s : spec F) (ty : nat) (e : entry F),
  setitem_gen F s ty e = setitem F s ty e.
Proof. exact setitem_gen_eq. Qed.
Theorem C15_generated_getitem_is_model : forall (F : Type) (s : spec F) (ty : nat) (sat : nat -> bool),
  getitem_gen F s ty sat = getitem F s ty sat.
Proof. exact getitem_gen_eq. Qed.

(* ... hence the code as it is now obeys the documented rule for every registration sequence, *)
Theorem C15_generated_lookup_rule : forall (F : Type) (regs : list (nat * entry F)) (ty : nat) (sat : nat -> bool),
  getitem_gen F (register_all_gen F regs) ty sat = rule F sat (regs_of F regs ty).
Proof. exact gen_getitem_rule. Qed.

(* is independent of the registration order, *)
Theorem C15_generated_lookup_perm : forall (F : Type) (regs regs' : list (nat * entry F)) (ty : nat) (sat : nat -> bool),
  NoDup (map (pattern_of F) regs) -> Permutation regs regs' ->
  getitem_gen F (register_all_gen F regs) ty sat = getitem_gen F (register_all_gen F regs') ty sat.
Proof. exact gen_getitem_perm. Qed.

(* and raises only when two constrained patterns both match. *)
Theorem C15_generated_conflict_iff : forall (F : Type) (regs : list (nat * entry F)) (ty : nat) (sat : nat -> bool),
  getitem_gen F (register_all_gen F regs) ty sat = Conflict <->
  2 <= length (sat_constrained F sat (regs_of F regs ty)).
Proof. exact gen_conflict_iff. Qed.

(* The lookup of the pinned upstream commit (kept as getitem_v0) is order dependent. *)
Theorem C15_upstream_order_refuted :
  exists regs regs' ty sat,
    NoDup (map (pattern_of Z) regs) /\ Permutation regs regs' /\
    getitem_v0 Z (register_all Z regs) ty sat <> getitem_v0 Z (register_all Z regs') ty sat.
Proof. exact lookup_order_refuted_v0. Qed.

(* non-vacuity: a concrete non-trivial table meeting the hypotheses *)
Example C15_example :
  let regs := [(1, (Some 0, 10%Z)); (0, (None, 5%Z)); (1, (None, 11%Z)); (1, (Some 1, 12%Z))] in
  NoDup (map (pattern_of Z) regs) /\
  getitem Z (register_all Z regs) 1 (sat_of [0]) = Found 10%Z /\
  getitem Z (register_all Z regs) 1 (sat_of []) = Found 11%Z /\
  getitem Z (register_all Z regs) 1 (sat_of [0; 1]) = Conflict /\
  getitem Z (register_all Z regs) 2 (sat_of [0]) = Default.
Proof.
  cbn zeta. split; [|vm_compute; repeat split].
  repeat (constructor; [cbn; intuition discriminate|]). constructor.
Qed.

Print Assumptions C15_lookup_rule.
Print Assumptions C15_lookup_perm.
Print Assumptions C15_conflict_iff.
Print Assumptions C15_setitem_other_type.
Print Assumptions C15_upstream_order_refuted.
Print Assumptions C15_generated_setitem_is_model.
Print Assumptions C15_generated_getitem_is_model.
Print Assumptions C15_generated_lookup_rule.
Print Assumptions C15_generated_lookup_perm.
Print Assumptions C15_generated_conflict_iff.
