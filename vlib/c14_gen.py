"""C14 — second tie, by translation (DESIGN.md §13, "Second tie, by translation").

translator/intbackend2coq.py reads the source of the integer backends of the tree under test (utils.binary_search, the four copies of
_integer_approximation, __init__ + properties + forward of MATCHConv2d / MATCHLinear / MAUPITIConv2d / MAUPITILinear) and writes
coq/Gen/IntBackendGen.v; coq/Proofs/IntBackendGen.v proves the generated functions equal to Model/IntBackend.v with every division /
power / read / recursion defined, and Props/C14.v states the C14_generated_* theorems.  This module is what vlib/c14.py needs:

    rej = c14_gen.regenerate(ctx)                 # BEFORE ctx.build(); None, or why the translator refused the source
    ...
    gvals = ctx.coq_eval_sharded('gcases', c14_gen.IMPORTS, '', c14_gen.gen_exprs(exprs), shard=...)
    mism += c14_gen.differences(exprs, vals, gvals)   # the generated model next to the hand model, same cases
    ...
    c14_gen.report(ctx, rej, built)               # translator-rejected verdict when nothing else was filed
"""
import os
import re
from fractions import Fraction
from .common import COQ, REPO, write_if_changed
from translator import intbackend2coq

GEN_V = os.path.join(COQ, 'Gen', 'IntBackendGen.v')
IMPORTS = ['Plinio.Model.Quant', 'Plinio.Model.IntBackend', 'Plinio.Gen.IntBackendGen']
TRANSLATOR = 'translator/intbackend2coq.py'
SOURCE = 'plinio/methods/mps/quant/backends/{utils.py, match/nn/{conv2d,linear,module}.py, maupiti/nn/{conv2d,linear,module}.py}'


def regenerate(ctx=None, repo=None):
    """translate the integer backends of the tree under test into Gen/IntBackendGen.v (written only when it changed).
    -> None, or the reason why the translator refused the source (the file then fails on purpose)"""
    try:
        text, rej = intbackend2coq.translate_repo(repo or REPO), None
    except (intbackend2coq.Reject, SyntaxError, OSError, RecursionError) as e:
        rej = '%s: %s' % (type(e).__name__, e)
        text = ('(* translator/intbackend2coq.py REFUSED the integer backends of the tree under test:\n   %s\n   no model of the current code exists; this file fails on purpose. *)\n'
                'Definition translator_rejected : True := 0.\n' % rej.replace('*)', '* )').replace('(*', '( *'))
    write_if_changed(GEN_V, text)
    if ctx is not None and rej:
        ctx.notes.append('generated model: the translator refused the source: ' + rej)
    return rej


def status(rej, built):
    """the `generated_model` entry of the evidence file"""
    return {'file': 'coq/Gen/IntBackendGen.v', 'translator': TRANSLATOR, 'source': SOURCE,
            'status': 'refused: ' + rej if rej else
            'regenerated; equal to the hand model, every division / power / read / recursion defined (C14_generated_*)' if built
            else 'regenerated; obligations do not check'}


# hand-model expression  ->  the same case evaluated with the generated functions (footer of Gen/IntBackendGen.v)
_HEADS = [('run_bs ', 'run_bs_gen '), ('run_approx ', 'run_approx_gen '), ('run_match ', 'run_match_gen '), ('run_maupiti2 ', 'run_maupiti2_gen '),
          ('run_maupiti_last ', 'run_maupiti_last_gen '), ('run_zero_point2 ', 'run_zero_point2_gen '), ('run_zero_point_last ', 'run_zero_point_last_gen '),
          ('maupiti_pad_value ', 'run_pad_gen ')]


def gen_expr(e):
    """None if the case has no generated counterpart (run_fq, run_dilate, run_pre, run_zero_point: hand model only)"""
    for h, g in _HEADS:
        if e.startswith(h):
            return g + e[len(h):]
    return None


def gen_exprs(exprs):
    return [g for g in map(gen_expr, exprs) if g is not None]


def _q(t):
    """(n, d, ok) -> (Fraction, ok)"""
    return Fraction(t[0], t[1]), t[2]


def _same(e, hand, gv):
    """does the value of the generated functions (all copies, with their definedness flags) agree with the hand model's?"""
    if e.startswith('run_bs '):
        return gv == (hand, True)
    if e.startswith('run_approx '):
        return len(gv) >= 2 and all(v == (hand, True) for v in gv)
    if e.startswith('run_match ') or e.startswith('run_maupiti2 '):
        return len(gv) == len(hand) and all(len(gc) == len(hc) and all(all(_q(c) == (Fraction(h), True) for c in copies) for copies, h in zip(gc, hc))
                                            for gc, hc in zip(gv, hand))
    if e.startswith('run_maupiti_last '):
        return len(gv) == len(hand) and all(len(gc) == len(hc) and all(all(_q(c) == (Fraction(h[0], h[1]), True) for c in copies) for copies, h in zip(gc, hc))
                                            for gc, hc in zip(gv, hand))
    if e.startswith('run_zero_point2 ') or e.startswith('run_zero_point_last '):
        return len(gv) == len(hand) and all(all(c[1] is True and c[0] is not None and Fraction(c[0][1][0], c[0][1][1]) == h for c in copies)
                                            for copies, h in zip(gv, hand))
    if e.startswith('maupiti_pad_value '):
        return _q(gv) == (Fraction(hand), True)
    return True


def differences(exprs, vals, gvals, limit=3):
    """[(what, info, impl_value, model_value)] (the shape of c14's `mism` entries) for every case on which the generated and the
    hand-written model differ, or on which a definedness flag of the generated model is false"""
    idx = [k for k, e in enumerate(exprs) if gen_expr(e) is not None]
    if len(idx) != len(gvals):
        return [('generated model: %d values for %d cases' % (len(gvals), len(idx)), {}, None, None)]
    bad = []
    for k, gv in zip(idx, gvals):
        try:
            ok = _same(exprs[k], vals[k], gv)
        except (TypeError, IndexError, ZeroDivisionError, ValueError):
            ok = False
        if not ok:
            bad.append((k, gv))
    return [('generated model differs from the hand-written model (or an operation of the generated model is undefined)',
             {'expr': gen_expr(exprs[k])[:600], 'n': len(bad)}, str(gv)[:300], str(vals[k])[:300]) for k, gv in bad[:limit]]


def report(ctx, rej, built):
    """translator-rejected wording for the final verdict; True if a violation was filed"""
    if built or ctx.violations:
        return False
    if rej:
        ctx.violation('translator-rejected', {'translator': TRANSLATOR, 'source': SOURCE, 'reason': rej, 'theorems': [o[0] for o in ctx.obligations if not o[1]]},
                      'the source of the integer backends is outside the subset the translator accepts (%s): no generated model, the C14_generated_* theorems are not established' % rej[:300],
                      no_input=True)
        return True
    return False
