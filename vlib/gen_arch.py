"""Shared architecture grammar (DESIGN.md §5.1).

One seeded derivation produces a JSON-able *spec* (`{'dim', 'input_shape', 'nodes', 'out'}`), from which
`build(spec)` makes an fx-traceable `torch.nn.Module` whose `forward` interprets the static node list
(modules live in `self.layers['n<i>']`, so the qualified name of node i is `layers.n<i>`).

node kinds (every node refers to earlier nodes by index):
  in        {'shape': [C, T] | [C, H, W]}
  pad1d     {'src', 'left'}                         nn.ConstantPad1d((left, 0), 0)   (causal padding)
  conv1d    {'src','cin','cout','ks','dil','stride','groups','bias'}           padding = 0
  conv2d    {'src','cin','cout','ks':[kh,kw],'dil','stride','groups','bias','padding': int | 'same'}
  linear    {'src','cin','cout','bias'}
  bn1d/bn2d {'src','c'}
  relu, relu6, dropout, identity, avgpool1d/maxpool1d/avgpool2d/maxpool2d {'src','ks'}, gap1d, gap2d {'src'}
  relu_f    {'src'}     (functional torch.relu)
  flatten   {'src'}     torch.flatten(x, 1)
  add       {'src': [a, b]}
  cat       {'src': [...], 'dim': 1 | 2}
`shapes(spec)` gives the static (C, spatial...) of every node.
"""
import copy, math, random


# ----------------------------------------------------------------------------- shapes
def conv_out(n, k, d, s, p_total):
    return (n + p_total - d * (k - 1) - 1) // s + 1


def shapes(spec):
    sh = []
    for nd in spec['nodes']:
        k = nd['k']
        if k == 'in':
            sh.append(tuple(nd['shape']))
            continue
        src = nd['src'] if isinstance(nd['src'], int) else nd['src'][0]
        c, sp = sh[src][0], list(sh[src][1:])
        if k == 'pad1d':
            sh.append((c, sp[0] + nd['left']))
        elif k == 'conv1d':
            sh.append((nd['cout'], conv_out(sp[0], nd['ks'], nd['dil'], nd['stride'], 2 * nd['padding'] if isinstance(nd.get('padding'), int) else 0)))
        elif k == 'conv2d':
            if nd['padding'] == 'same':
                sh.append((nd['cout'], sp[0], sp[1]))
            else:
                sh.append((nd['cout'],) + tuple(conv_out(sp[i], nd['ks'][i], nd['dil'], nd['stride'], 2 * nd['padding']) for i in (0, 1)))
        elif k == 'linear':
            sh.append((nd['cout'],))
        elif k in ('avgpool1d', 'maxpool1d'):
            sh.append((c, sp[0] // nd['ks']))
        elif k in ('avgpool2d', 'maxpool2d'):
            sh.append((c, sp[0] // nd['ks'], sp[1] // nd['ks']))
        elif k == 'gap1d':
            sh.append((c, 1))
        elif k == 'gap2d':
            sh.append((c, 1, 1))
        elif k == 'flatten':
            sh.append((c * math.prod(sp),))
        elif k == 'cat':
            if nd['dim'] == 1:
                sh.append((sum(sh[j][0] for j in nd['src']),) + tuple(sp))
            else:
                sh.append((c, sum(sh[j][1] for j in nd['src'])) + tuple(sp[1:]))
        else:   # bn, relu, add, dropout, identity ...
            sh.append(sh[src])
    return sh


# ----------------------------------------------------------------------------- torch module
def build(spec, seed=0, integer=False, dtype=None, bn_random=True):
    """-> nn.Module.  integer=True fills every weight/bias with small integers (exact float arithmetic)."""
    import torch, torch.nn as nn
    nodes = spec['nodes']

    class GNet(nn.Module):
        def __init__(self):
            super().__init__()
            self.layers = nn.ModuleDict()
            for i, nd in enumerate(nodes):
                m = _mk(nn, nd)
                if m is not None:
                    self.layers['n%d' % i] = m

        def _run(self, xs):
            v = []
            nin = 0
            for i, nd in enumerate(nodes):
                k = nd['k']
                if k == 'in':
                    v.append(xs[nin])
                    nin += 1
                elif k == 'add':
                    v.append(v[nd['src'][0]] + v[nd['src'][1]])
                elif k == 'cat':
                    v.append(torch.cat([v[j] for j in nd['src']], dim=nd['dim']))
                elif k == 'relu_f':
                    v.append(torch.relu(v[nd['src']]))
                elif k == 'flatten':
                    v.append(torch.flatten(v[nd['src']], 1))
                else:
                    v.append(self.layers['n%d' % i](v[nd['src']]))
            outs = spec.get('out')
            if outs and len(outs) > 1:
                return tuple(v[j] for j in outs)
            return v[outs[0]] if outs else v[-1]

    nin_total = sum(1 for nd in nodes if nd['k'] == 'in')
    # the forward signature must have exactly one positional parameter per network input (fx placeholders)
    if nin_total == 1:
        class GNet1(GNet):
            def forward(self, x0):
                return self._run((x0,))
        m = GNet1()
    elif nin_total == 2:
        class GNet2(GNet):
            def forward(self, x0, x1):
                return self._run((x0, x1))
        m = GNet2()
    else:
        class GNet3(GNet):
            def forward(self, x0, x1, x2):
                return self._run((x0, x1, x2))
        m = GNet3()
    g = torch.Generator().manual_seed(seed)
    with torch.no_grad():
        for mod in m.modules():
            if isinstance(mod, (nn.Conv1d, nn.Conv2d, nn.Linear)):
                if integer:
                    mod.weight.copy_(torch.randint(-3, 4, mod.weight.shape, generator=g).float())
                    if mod.bias is not None:
                        mod.bias.copy_(torch.randint(-3, 4, mod.bias.shape, generator=g).float())
                else:
                    mod.weight.copy_(torch.randn(mod.weight.shape, generator=g) * 0.5)
                    if mod.bias is not None:
                        mod.bias.copy_(torch.randn(mod.bias.shape, generator=g) * 0.5)
            if isinstance(mod, (nn.BatchNorm1d, nn.BatchNorm2d)) and bn_random:
                mod.running_mean.copy_(torch.randn(mod.running_mean.shape, generator=g))
                mod.running_var.copy_(torch.rand(mod.running_var.shape, generator=g) * 1.5 + 0.5)
                mod.weight.copy_(torch.randn(mod.weight.shape, generator=g))
                mod.bias.copy_(torch.randn(mod.bias.shape, generator=g))
    if dtype is not None:
        m = m.to(dtype)
    return m


def _mk(nn, nd):
    k = nd['k']
    if k == 'pad1d':
        return nn.ConstantPad1d((nd['left'], 0), 0)
    if k == 'conv1d':
        return nn.Conv1d(nd['cin'], nd['cout'], nd['ks'], stride=nd['stride'], dilation=nd['dil'], groups=nd['groups'], bias=nd['bias'],
                         padding=nd.get('padding', 0))
    if k == 'conv2d':
        return nn.Conv2d(nd['cin'], nd['cout'], tuple(nd['ks']), stride=nd['stride'], dilation=nd['dil'], groups=nd['groups'], bias=nd['bias'], padding=nd['padding'])
    if k == 'linear':
        return nn.Linear(nd['cin'], nd['cout'], bias=nd['bias'])
    if k == 'bn1d':
        return nn.BatchNorm1d(nd['c'])
    if k == 'bn2d':
        return nn.BatchNorm2d(nd['c'])
    if k == 'relu':
        return nn.ReLU()
    if k == 'relu6':
        return nn.ReLU6()
    if k == 'prelu_c':              # per-channel PReLU: a parameter of static width (PIT refuses it at construction)
        return nn.PReLU(num_parameters=nd['c'])
    if k == 'leakyrelu':
        return nn.LeakyReLU(0.1)
    if k == 'dropout':
        return nn.Dropout(0.3)
    if k == 'identity':
        return nn.Identity()
    if k == 'avgpool1d':
        return nn.AvgPool1d(nd['ks'])
    if k == 'maxpool1d':
        return nn.MaxPool1d(nd['ks'])
    if k == 'avgpool2d':
        return nn.AvgPool2d(nd['ks'])
    if k == 'maxpool2d':
        return nn.MaxPool2d(nd['ks'])
    if k == 'gap1d':
        return nn.AdaptiveAvgPool1d(1)
    if k == 'gap2d':
        return nn.AdaptiveAvgPool2d(1)
    return None


def name(i):
    return 'layers.n%d' % i


def example_input(spec, torch, seed=0, integer=False, batch=2, dtype=None):
    g = torch.Generator().manual_seed(1000 + seed)
    xs = []
    for nd in spec['nodes']:
        if nd['k'] == 'in':
            shp = (batch,) + tuple(nd['shape'])
            x = torch.randint(-3, 4, shp, generator=g).float() if integer else torch.randn(shp, generator=g)
            xs.append(x if dtype is None else x.to(dtype))
    return xs


def input_shape(spec):
    ins = [tuple(nd['shape']) for nd in spec['nodes'] if nd['k'] == 'in']
    return ins[0] if len(ins) == 1 else None


# ----------------------------------------------------------------------------- grammar
class G:
    """derivation state"""

    def __init__(self, rng, dim, opts):
        self.rng, self.dim, self.o = rng, dim, opts
        self.nodes = []
        self.prod = []           # productions used (for the evidence distribution)

    def add(self, **nd):
        self.nodes.append(nd)
        return len(self.nodes) - 1

    def sh(self, i):
        return shapes({'nodes': self.nodes})[i]

    # --- pieces
    def act(self, cur):
        r = self.rng.random()
        if r < 0.45:
            return self.add(k='relu', src=cur)
        if r < 0.6:
            return self.add(k='relu_f', src=cur)
        if r < 0.7:
            return self.add(k='relu6', src=cur)
        return cur

    def bn(self, cur, p=0.5):
        if self.rng.random() < p and self.o.get('bn', True):
            c = self.sh(cur)[0]
            return self.add(k='bn1d' if len(self.sh(cur)) <= 2 else 'bn2d', src=cur, c=c)
        return cur

    def conv(self, cur, cout=None, stride_ok=True, dw=False, k=None):
        rng = self.rng
        c = self.sh(cur)[0]
        if self.dim == 1:
            ks = k or rng.choice(self.o.get('k1d', [1, 2, 3, 3, 4, 5, 5, 6, 7, 8, 9]))
            dil = rng.choice(self.o.get('dil', [1, 1, 2, 3]))
            stride = 2 if (stride_ok and rng.random() < self.o.get('p_stride', 0.15) and self.sh(cur)[1] >= 4) else 1
            left = (ks - 1) * dil
            # opt-in (p_intpad): a STRIDED conv with ordinary symmetric integer padding instead of the causal pad + padding 0
            # convention (its time masks are frozen by PIT, so nothing has to be re-padded at export)
            if stride == 2 and self.o.get('p_intpad', 0) and rng.random() < self.o['p_intpad'] and self.sh(cur)[1] + 2 * (left // 2) - left >= 1:
                co = c if dw else (cout or rng.randint(1, self.o.get('cmax', 6)))
                return self.add(k='conv1d', src=cur, cin=c, cout=co, ks=ks, dil=dil, stride=stride, groups=c if dw else 1, bias=rng.random() < 0.7, padding=left // 2)
            if left > 0 or rng.random() < 0.5:
                cur = self.add(k='pad1d', src=cur, left=left)
            co = c if dw else (cout or rng.randint(1, self.o.get('cmax', 6)))
            # padding given as the string 'valid' (same as 0) for some layers; derived from values already drawn
            padding = 'valid' if (stride == 1 and (ks * 7 + co * 3 + dil) % 4 == 0) else 0
            return self.add(k='conv1d', src=cur, cin=c, cout=co, ks=ks, dil=dil, stride=stride, groups=c if dw else 1, bias=rng.random() < 0.7, padding=padding)
        kk = k or rng.choice(self.o.get('k2d', [1, 3, 3, 5]))
        ks = [kk, kk] if rng.random() < 0.8 else [kk, rng.choice([1, 3])]
        stride = 2 if (stride_ok and rng.random() < self.o.get('p_stride', 0.15) and min(self.sh(cur)[1:]) >= 4) else 1
        if stride == 1 and rng.random() < 0.6:
            padding, dil = 'same', rng.choice([1, 1, 1, 2])
        else:
            ks = [kk, kk]
            padding, dil = kk // 2, 1
        co = c if dw else (cout or rng.randint(1, self.o.get('cmax', 6)))
        return self.add(k='conv2d', src=cur, cin=c, cout=co, ks=ks, dil=dil, stride=stride, groups=c if dw else 1, bias=rng.random() < 0.7, padding=padding)

    def same_shape_conv(self, cur, cout=None, dw=False):
        """a conv block that keeps time/space size (stride 1; 'same' / causal padding)"""
        i = self.conv(cur, cout=cout, stride_ok=False, dw=dw)
        if self.dim == 2 and self.nodes[i]['padding'] != 'same':
            self.nodes[i]['padding'] = self.nodes[i]['ks'][0] // 2
        return i

    def block(self, cur):
        rng = self.rng
        c = self.sh(cur)[0]
        p = rng.random()
        w = self.o.get('weights', {})
        kinds = ['conv', 'dw', 'res', 'res2', 'cat', 'pool', 'misc', 'dwchain', 'nestcat']
        ws = [w.get(k, d) for k, d in zip(kinds, [0.34, 0.12, 0.14, 0.08, 0.14, 0.06, 0.06, 0.06, 0.0])]      # nestcat is opt-in
        kind = rng.choices(kinds, ws)[0]
        self.prod.append(kind)
        if kind == 'conv':
            cur = self.act(self.bn(self.conv(cur)))
        elif kind == 'dw':
            cur = self.act(self.bn(self.conv(cur, dw=True), 0.4))
        elif kind == 'dwchain':
            a = self.act(self.bn(self.same_shape_conv(cur, dw=True), 0.3))
            b = self.same_shape_conv(a, dw=True)
            cur = self.add(k='add', src=[cur, b]) if rng.random() < 0.5 else b
        elif kind == 'res':
            a = self.bn(self.same_shape_conv(cur, cout=c), 0.4)
            a = self.act(a) if rng.random() < 0.3 else a
            cur = self.add(k='add', src=[cur, a] if rng.random() < 0.5 else [a, cur])
            cur = self.act(cur)
        elif kind == 'res2':
            co = rng.randint(1, self.o.get('cmax', 6))
            a = self.bn(self.same_shape_conv(cur, cout=co), 0.3)
            b = self.same_shape_conv(cur, cout=co)
            cur = self.act(self.add(k='add', src=[a, b]))
        elif kind == 'cat':
            srcs = []
            for _ in range(rng.choice([2, 2, 3])):
                r = rng.random()
                if r < 0.55:
                    srcs.append(self.act(self.bn(self.same_shape_conv(cur), 0.3)))
                elif r < 0.8:
                    srcs.append(cur)
                else:
                    srcs.append(self.same_shape_conv(cur, dw=True))
            if not self.o.get('dup_cat', False):
                # torch.fx `all_input_nodes` de-duplicates: cat([x, .., x]) is a C09 matter, opt-in only
                seen = set()
                for q, s_ in enumerate(srcs):
                    if s_ in seen:
                        srcs[q] = self.same_shape_conv(cur)
                    seen.add(srcs[q])
            if all(s == cur for s in srcs):
                srcs[0] = self.same_shape_conv(cur)
            cur = self.add(k='cat', src=srcs, dim=1)
        elif kind == 'nestcat':
            # cat([cat([a, b]), c]) + skip(x), the skip convolution created BEFORE a, b, c: the whole nest is in the frozen
            # group of the add, whatever the order in which the sharing components are numbered
            ca, cb, cc = rng.randint(1, 3), rng.randint(1, 3), rng.randint(1, 3)
            skip = self.same_shape_conv(cur, cout=ca + cb + cc)
            a = self.act(self.same_shape_conv(cur, cout=ca))
            b = self.same_shape_conv(cur, cout=cb)
            inner = self.add(k='cat', src=[a, b], dim=1)
            c2 = self.same_shape_conv(cur, cout=cc)
            outer = self.add(k='cat', src=[inner, c2] if rng.random() < 0.7 else [c2, inner], dim=1)
            cur = self.act(self.add(k='add', src=[outer, skip] if rng.random() < 0.5 else [skip, outer]))
        elif kind == 'pool':
            sp = self.sh(cur)[1:]
            if min(sp) >= 4:
                cur = self.add(k=rng.choice(['avgpool', 'maxpool']) + '%dd' % self.dim, src=cur, ks=2)
        else:
            cur = self.add(k=rng.choice(['dropout', 'identity']), src=cur)
        return cur

    def head(self, cur, nout):
        rng = self.rng
        sp = self.sh(cur)[1:]
        r = rng.random()
        if r < 0.5:
            cur = self.add(k='gap%dd' % self.dim, src=cur)
            self.prod.append('head-gap')
        elif r < 0.65 and min(sp) >= 2:
            cur = self.add(k='avgpool%dd' % self.dim, src=cur, ks=2)
            self.prod.append('head-pool-flatten')
        else:
            self.prod.append('head-flatten')
        cur = self.add(k='flatten', src=cur)
        f = self.sh(cur)[0]
        if rng.random() < 0.6:
            h = rng.randint(2, 6)
            cur = self.add(k='linear', src=cur, cin=f, cout=h, bias=rng.random() < 0.8)
            cur = self.act(self.bn(cur, 0.5))
            f = h
            self.prod.append('head-2fc')
        return self.add(k='linear', src=cur, cin=f, cout=nout, bias=rng.random() < 0.8)


def gen(rng, dim=None, depth=None, **opts):
    """one architecture.  opts: cmax, k1d, k2d, dil, p_stride, bn, weights (production weights), T, HW, cin, p_dense_stem (opt-in)"""
    dim = dim or rng.choice([1, 2])
    g = G(rng, dim, opts)
    cin = opts.get('cin') or rng.randint(1, 4)
    if dim == 1:
        T = opts.get('T') or rng.randint(8, 16)
        cur = g.add(k='in', shape=[cin, T])
    else:
        hw = opts.get('HW') or rng.randint(5, 8)
        cur = g.add(k='in', shape=[cin, hw, hw])
    # the first block is always a plain convolution (so that something searchable consumes the input)
    if opts.get('p_dense_stem') and rng.random() < opts['p_dense_stem']:
        # DenseNet-style stem (opt-in): the raw input is concatenated with a convolution of itself, so the network input (a
        # fixed width) reaches two searchable layers along different paths (directly, and as an operand of the concatenation)
        g.prod.append('dense-stem')
        inp = cur
        a = g.act(g.bn(g.same_shape_conv(inp), 0.3))
        cur = g.add(k='cat', src=[inp, a] if rng.random() < 0.6 else [a, inp], dim=1)
        cur = g.act(g.bn(g.conv(cur)))
    else:
        g.prod.append('stem')
        cur = g.act(g.bn(g.conv(cur)))
    for _ in range(depth if depth is not None else rng.randint(1, 4)):
        cur = g.block(cur)
    if opts.get('conv_head') and rng.random() < 0.5:
        # fully convolutional output (output-connected convolution: frozen masker)
        cur = g.conv(cur, cout=rng.randint(2, 3), stride_ok=False)
        g.prod.append('head-conv')
    else:
        cur = g.head(cur, rng.randint(2, 4))
    spec = {'dim': dim, 'nodes': g.nodes, 'out': [cur], 'productions': g.prod}
    spec['input_shape'] = list(g.nodes[0]['shape'])
    return spec


def describe(spec):
    return ' '.join('%d:%s%s' % (i, nd['k'], ('<-' + str(nd['src'])) if 'src' in nd else '') for i, nd in enumerate(spec['nodes']))


def searchable(spec):
    """indices of conv / linear nodes"""
    return [i for i, nd in enumerate(spec['nodes']) if nd['k'] in ('conv1d', 'conv2d', 'linear')]


def shrink_candidates(spec):
    """smaller specs for the shrinker: drop trailing body blocks is not generally possible on a DAG, so the
    shrinker works by re-generating with smaller depth; kept for API symmetry"""
    return []


def feeds_through_propagating(spec, i):
    """the index of the node whose features node i carries (walk back through single-input propagating ops)"""
    nodes = spec['nodes']
    while nodes[i]['k'] in ('pad1d', 'bn1d', 'bn2d', 'relu', 'relu6', 'relu_f', 'prelu_c', 'leakyrelu', 'dropout', 'identity', 'avgpool1d', 'maxpool1d', 'avgpool2d', 'maxpool2d', 'gap1d', 'gap2d'):
        i = nodes[i]['src']
    return i


def has_dw_after_cat(spec):
    """a depthwise convolution whose features come (through propagating ops) from a features-concat"""
    nodes = spec['nodes']
    for nd in nodes:
        if nd['k'] in ('conv1d', 'conv2d') and nd['groups'] > 1:
            j = feeds_through_propagating(spec, nd['src'])
            # walk through chains of depthwise convolutions too
            while nodes[j]['k'] in ('conv1d', 'conv2d') and nodes[j]['groups'] > 1:
                j = feeds_through_propagating(spec, nodes[j]['src'])
            if nodes[j]['k'] == 'cat' and nodes[j]['dim'] == 1:
                return True
    return False


def has_add_of_cat(spec):
    """a residual add one of whose operands carries the features of a features-concat"""
    nodes = spec['nodes']
    for nd in nodes:
        if nd['k'] == 'add':
            for s in nd['src']:
                j = feeds_through_propagating(spec, s)
                while nodes[j]['k'] in ('conv1d', 'conv2d') and nodes[j]['groups'] > 1:
                    j = feeds_through_propagating(spec, nodes[j]['src'])
                if nodes[j]['k'] == 'cat' and nodes[j]['dim'] == 1:
                    return True
    return False


def add_output_head(spec, rng):
    """turn the network into a multi-output one: a second head `act(conv(h))` on an intermediate tensor h
    (the convolution is output-connected through a features-propagating op).  Returns a new spec."""
    spec = copy.deepcopy(spec)
    nodes = spec['nodes']
    sh = shapes(spec)
    # not on a layer that is fused with a following BatchNorm (PIT rejects a fused layer with several users by design)
    bn_fused = {nd['src'] for nd in nodes if nd['k'] in ('bn1d', 'bn2d')}
    cands = [i for i, nd in enumerate(nodes) if len(sh[i]) >= 2 and nd['k'] not in ('in', 'pad1d') and i not in spec['out'] and i not in bn_fused]
    if not cands:
        return spec
    i = rng.choice(cands)
    c = sh[i][0]
    co = rng.randint(2, 5)
    if spec['dim'] == 1:
        ks = rng.choice([1, 3, 5])
        nodes.append({'k': 'pad1d', 'src': i, 'left': ks - 1})
        nodes.append({'k': 'conv1d', 'src': len(nodes) - 1, 'cin': c, 'cout': co, 'ks': ks, 'dil': 1, 'stride': 1, 'groups': 1, 'bias': True, 'padding': 0})
    else:
        nodes.append({'k': 'conv2d', 'src': i, 'cin': c, 'cout': co, 'ks': [3, 3], 'dil': 1, 'stride': 1, 'groups': 1, 'bias': True, 'padding': 'same'})
    r = rng.random()
    if r < 0.75:
        nodes.append({'k': rng.choice(['relu', 'relu_f', 'relu6']), 'src': len(nodes) - 1})
    spec['out'] = list(spec['out']) + [len(nodes) - 1]
    spec['productions'] = list(spec.get('productions', [])) + ['second-output-head']
    return spec


def with_unsupported_activation(spec, rng):
    """replace one ReLU module that follows a searchable layer by an activation PIT does not list as supported
    (per-channel PReLU / LeakyReLU): PIT is expected to refuse such a model when it is built"""
    spec = copy.deepcopy(spec)
    nodes = spec['nodes']
    sh = shapes(spec)
    cands = [i for i, nd in enumerate(nodes) if nd['k'] == 'relu' and i not in spec['out']]
    if not cands:
        return spec
    i = rng.choice(cands)
    if rng.random() < 0.7:
        nodes[i] = {'k': 'prelu_c', 'src': nodes[i]['src'], 'c': sh[i][0]}
    else:
        nodes[i] = {'k': 'leakyrelu', 'src': nodes[i]['src']}
    spec['productions'] = list(spec.get('productions', [])) + ['unsupported-activation']
    return spec


def insert_after(spec, i, node):
    """new spec with `node` (its 'src' is set to i) inserted right after node i; every consumer of i now reads the new node"""
    spec = copy.deepcopy(spec)
    nodes = spec['nodes']

    def remap(j, consumer=True):
        if j == i and consumer:
            return i + 1
        return j + 1 if j > i else j
    for nd in nodes:
        if 'src' in nd:
            nd['src'] = remap(nd['src']) if isinstance(nd['src'], int) else [remap(j) for j in nd['src']]
    node = dict(node, src=i)
    nodes.insert(i + 1, node)
    spec['out'] = [remap(j) for j in spec['out']]
    return spec


def with_standalone_bn(spec, rng):
    """insert BatchNorm layers that are NOT fused into a preceding convolution / linear layer: on the raw network input,
    after a residual add, after a flatten (BatchNorm1d over channels x positions).  Opt-in (C08): PIT converts them to
    PITBatchNorm layers that follow the mask of their producer."""
    sh = shapes(spec)
    cands = []
    for i, nd in enumerate(spec['nodes']):
        if nd['k'] == 'in' or nd['k'] == 'add':
            cands.append(i)
        elif nd['k'] == 'flatten' and i not in spec['out']:
            cands.append(i)
    rng.shuffle(cands)
    picked = sorted(cands[:rng.randint(1, 2)], reverse=True) if cands else []
    for i in picked:
        shp = sh[i]
        kind = 'bn2d' if len(shp) == 3 else 'bn1d'
        spec = insert_after(spec, i, {'k': kind, 'c': shp[0]})
    if picked:
        spec['productions'] = list(spec.get('productions', [])) + ['standalone-bn']
    return spec
