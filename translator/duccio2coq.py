"""Translator: plinio/regularizers/duccio.py  ->  coq/Gen/DuccioGen.v   (C19)

Reads DUCCIO.__call__ of the tree under test with `ast` and emits, over Q:
  derive_gen task c t            the lazily derived final strength of one metric (cost c, target t)
  step_gen epoch n_epochs cost m the body of the accumulation loop for one metric m = (strength, c, target)
  duccio_gen ms epoch n_epochs   the loop
and, next to every value, a DEFINEDNESS predicate (derive_ok, step_ok): Coq's rational division is total
(x / 0 = 0) while the float division of the code gives inf / nan, so every division `a / b` on an evaluated path
contributes `b <> 0` to the predicate (conditional expressions contribute only the branch taken).
Proofs/DuccioGen.v proves that the generated functions equal the hand-written model (Model/Duccio.v) and that the
predicates hold on the domain of the property; a change that divides by an excess that can be zero makes the latter
false, a change of the schedule makes the former false.

Fail closed: Reject on anything outside the subset listed in the functions below.
"""
import ast
import os
from fractions import Fraction


class Reject(Exception):
    pass


def _d(n):
    return ast.dump(n)[:220]


def lit(v):
    if isinstance(v, bool) or not isinstance(v, (int, float)):
        raise Reject('constant %r' % (v,))
    f = Fraction(v)
    return '%d' % f.numerator if f.denominator == 1 and f >= 0 else '(%d # %d)' % (f.numerator, f.denominator)


def _torch_call(n):
    return isinstance(n, ast.Call) and isinstance(n.func, ast.Attribute) and isinstance(n.func.value, ast.Name) and n.func.value.id == 'torch'


def conj(*xs):
    xs = [x for x in xs if x != 'true']
    if not xs:
        return 'true'
    out = xs[0]
    for x in xs[1:]:
        out = '(%s && %s)' % (out, x)
    return out


def expr(n, env):
    """-> (value text, definedness text)"""
    if isinstance(n, ast.Constant):
        return lit(n.value), 'true'
    if isinstance(n, ast.Name):
        if n.id in env:
            return env[n.id], 'true'
        raise Reject('unknown name ' + n.id)
    if isinstance(n, ast.Attribute) and isinstance(n.value, ast.Name) and n.value.id == 'self' and ('self.' + n.attr) in env:
        return env['self.' + n.attr], 'true'
    if isinstance(n, ast.Call) and isinstance(n.func, ast.Attribute) and n.func.attr == 'get_cost' and isinstance(n.func.value, ast.Name) \
            and n.func.value.id == 'model' and len(n.args) == 1 and not n.keywords and isinstance(n.args[0], ast.Name) and ('metric:' + n.args[0].id) in env:
        return env['metric:' + n.args[0].id], 'true'
    if _torch_call(n):
        f = n.func.attr
        if f == 'tensor' and len(n.args) == 1 and not n.keywords:
            return expr(n.args[0], env)
        if f in ('min', 'minimum', 'max', 'maximum') and len(n.args) == 2 and not n.keywords:
            (a, oa), (b, ob) = expr(n.args[0], env), expr(n.args[1], env)
            return '(%s %s %s)' % ('qmin' if f.startswith('min') else 'qmax', a, b), conj(oa, ob)
        if f == 'relu' and len(n.args) == 1 and not n.keywords:
            a, oa = expr(n.args[0], env)
            return '(qmax 0 %s)' % a, oa
        if f in ('clamp', 'clip') and len(n.args) == 1 and n.keywords and all(k.arg in ('min', 'max') for k in n.keywords):
            a, oa = expr(n.args[0], env)
            for k in n.keywords:
                b, ob = expr(k.value, env)
                a, oa = '(%s %s %s)' % ('qmax' if k.arg == 'min' else 'qmin', b, a), conj(oa, ob)
            return a, oa
        raise Reject('torch call ' + _d(n))
    if isinstance(n, ast.BinOp) and isinstance(n.op, (ast.Add, ast.Sub, ast.Mult, ast.Div)):
        (a, oa), (b, ob) = expr(n.left, env), expr(n.right, env)
        if isinstance(n.op, ast.Div):
            return '(%s / %s)' % (a, b), conj(oa, ob, '(negb (Qeq_bool %s 0))' % b)
        return '(%s %s %s)' % (a, {ast.Add: '+', ast.Sub: '-', ast.Mult: '*'}[type(n.op)], b), conj(oa, ob)
    if isinstance(n, ast.UnaryOp) and isinstance(n.op, ast.USub):
        a, oa = expr(n.operand, env)
        return '(- %s)' % a, oa
    if isinstance(n, ast.IfExp):
        c, oc = test(n.test, env)
        (a, oa), (b, ob) = expr(n.body, env), expr(n.orelse, env)
        return '(if %s then %s else %s)' % (c, a, b), conj(oc, '(if %s then %s else %s)' % (c, oa, ob))
    raise Reject('expression ' + _d(n))


def test(n, env):
    if isinstance(n, ast.Compare) and len(n.ops) == 1:
        (a, oa), (b, ob) = expr(n.left, env), expr(n.comparators[0], env)
        op = type(n.ops[0])
        if op is ast.Gt:
            return '(qlt_bool %s %s)' % (b, a), conj(oa, ob)
        if op is ast.Lt:
            return '(qlt_bool %s %s)' % (a, b), conj(oa, ob)
        if op is ast.GtE:
            return '(Qle_bool %s %s)' % (b, a), conj(oa, ob)
        if op is ast.LtE:
            return '(Qle_bool %s %s)' % (a, b), conj(oa, ob)
    raise Reject('test ' + _d(n))


def _strip(stmts):
    return [s for s in stmts if not (isinstance(s, ast.Expr) and isinstance(s.value, ast.Constant) and isinstance(s.value.value, str))]


def _self_attr(n, name):
    return isinstance(n, ast.Attribute) and n.attr == name and isinstance(n.value, ast.Name) and n.value.id == 'self'


def _targets_items(n):
    return isinstance(n, ast.Call) and isinstance(n.func, ast.Attribute) and n.func.attr == 'items' and _self_attr(n.func.value, 'targets') and not n.args


def _tuple_gen(n):
    """tuple(<elt> for <target> in <iter>) -> (elt, target, iter)"""
    if isinstance(n, ast.Call) and isinstance(n.func, ast.Name) and n.func.id == 'tuple' and len(n.args) == 1 and isinstance(n.args[0], ast.GeneratorExp) \
            and len(n.args[0].generators) == 1 and not n.args[0].generators[0].ifs and not n.args[0].generators[0].is_async:
        g = n.args[0].generators[0]
        return n.args[0].elt, g.target, g.iter
    raise Reject('not a tuple(<generator>) : ' + _d(n))


def translate_lazy_init(w):
    if not (isinstance(w, ast.With) and len(w.items) == 1 and _torch_call(w.items[0].context_expr) and w.items[0].context_expr.func.attr == 'no_grad'):
        raise Reject('__call__ does not start with `with torch.no_grad():`')
    body = _strip(w.body)
    if len(body) != 1 or not (isinstance(body[0], ast.If) and not body[0].orelse and isinstance(body[0].test, ast.Compare) and _self_attr(body[0].test.left, 'final_strengths')
                              and len(body[0].test.ops) == 1 and isinstance(body[0].test.ops[0], ast.Is) and isinstance(body[0].test.comparators[0], ast.Constant)
                              and body[0].test.comparators[0].value is None):
        raise Reject('lazy initialisation is not guarded by `if self.final_strengths is None:`')
    st = _strip(body[0].body)
    if len(st) != 2 or not all(isinstance(s, ast.Assign) and len(s.targets) == 1 for s in st):
        raise Reject('lazy initialisation: expected two assignments (excess, self.final_strengths)')
    a1, a2 = st
    if not (isinstance(a1.targets[0], ast.Name) and _self_attr(a2.targets[0], 'final_strengths')):
        raise Reject('lazy initialisation: targets of the two assignments')
    exname = a1.targets[0].id
    elt1, tg1, it1 = _tuple_gen(a1.value)
    if not (_targets_items(it1) and isinstance(tg1, ast.Tuple) and len(tg1.elts) == 2 and all(isinstance(e, ast.Name) for e in tg1.elts)):
        raise Reject('lazy initialisation: first generator does not range over self.targets.items()')
    nname, tname = tg1.elts[0].id, tg1.elts[1].id
    v1, o1 = expr(elt1, {'metric:' + nname: 'c', tname: 't'})
    elt2, tg2, it2 = _tuple_gen(a2.value)
    if not (isinstance(it2, ast.Name) and it2.id == exname and isinstance(tg2, ast.Name)):
        raise Reject('lazy initialisation: second generator does not range over the first')
    v2, o2 = expr(elt2, {tg2.id: 'e', 'self.task_loss': 'task'})
    return ('Definition derive_gen (task c t : Q) : Q :=\n  let e := %s in\n  %s.\n'
            'Definition derive_ok (task c t : Q) : bool :=\n  let e := %s in\n  %s.\n' % (v1, v2, v1, conj(o1, o2)))


def translate_loop(init, loop, ret):
    if not (isinstance(init, ast.Assign) and len(init.targets) == 1 and isinstance(init.targets[0], ast.Name)):
        raise Reject('accumulator initialisation')
    acc = init.targets[0].id
    i0, oi = expr(init.value, {})
    if oi != 'true':
        raise Reject('accumulator initialisation divides')
    if not (isinstance(ret, ast.Return) and isinstance(ret.value, ast.Name) and ret.value.id == acc):
        raise Reject('__call__ does not return the accumulator')
    if not (isinstance(loop, ast.For) and not loop.orelse and isinstance(loop.iter, ast.Call) and isinstance(loop.iter.func, ast.Name) and loop.iter.func.id == 'zip'
            and len(loop.iter.args) == 2 and _targets_items(loop.iter.args[0]) and _self_attr(loop.iter.args[1], 'final_strengths')):
        raise Reject('the loop does not range over zip(self.targets.items(), self.final_strengths)')
    tg = loop.target
    if not (isinstance(tg, ast.Tuple) and len(tg.elts) == 2 and isinstance(tg.elts[0], ast.Tuple) and len(tg.elts[0].elts) == 2
            and all(isinstance(x, ast.Name) for x in list(tg.elts[0].elts) + [tg.elts[1]])):
        raise Reject('loop target is not ((name, target), strength)')
    nname, tname, sname = tg.elts[0].elts[0].id, tg.elts[0].elts[1].id, tg.elts[1].id
    env = {'metric:' + nname: 'c', tname: 'target', sname: 'strength', 'epoch': 'epoch', 'n_epochs': 'n_epochs', acc: acc}
    lets, oks = '', []
    body = _strip(loop.body)
    final = None
    for k, s in enumerate(body):
        if isinstance(s, ast.Assign) and len(s.targets) == 1 and isinstance(s.targets[0], ast.Name) and s.targets[0].id != acc:
            v, o = expr(s.value, env)
            nm = s.targets[0].id
            if nm in ('c', 'target', 'strength', 'epoch', 'n_epochs', 'm'):
                raise Reject('loop body re-binds ' + nm)
            lets += '  let %s := %s in\n' % (nm, v)
            oks.append((nm, v, o))
            env[nm] = nm
            continue
        if k == len(body) - 1:
            if isinstance(s, ast.AugAssign) and isinstance(s.target, ast.Name) and s.target.id == acc and isinstance(s.op, ast.Add):
                v, o = expr(s.value, env)
                final = ('(%s + %s)' % (acc, v), o)
                continue
            if isinstance(s, ast.Assign) and len(s.targets) == 1 and isinstance(s.targets[0], ast.Name) and s.targets[0].id == acc:
                final = expr(s.value, env)
                continue
        raise Reject('loop body statement ' + _d(s))
    if final is None:
        raise Reject('loop body does not update the accumulator')
    oklets = ''.join('  let %s := %s in\n' % (nm, v) for nm, v, o in oks)
    ok = conj(*([o for _, _, o in oks] + [final[1]]))
    hdr = '(epoch n_epochs %s : Q) (m : Q * Q * Q)' % acc
    return ('Definition step_gen %s : Q :=\n  let \'(strength, c, target) := m in\n%s  %s.\n'
            'Definition step_ok %s : bool :=\n  let \'(strength, c, target) := m in\n%s  %s.\n'
            'Definition duccio_gen (ms : list (Q * Q * Q)) (epoch n_epochs : Q) : Q :=\n  fold_left (step_gen epoch n_epochs) ms %s.\n'
            % (hdr, lets, final[0], hdr, oklets, ok, i0))


def check_init(fn):
    """__init__ stores its three arguments unchanged (besides argument validation)"""
    for s in _strip(fn.body):
        if isinstance(s, ast.If) and all(isinstance(x, ast.Raise) for x in s.body) and not s.orelse:
            continue
        if isinstance(s, ast.Assign) and len(s.targets) == 1 and isinstance(s.targets[0], ast.Attribute) and isinstance(s.value, ast.Name) \
                and s.targets[0].attr == s.value.id and s.value.id in ('targets', 'final_strengths', 'task_loss') and _self_attr(s.targets[0], s.value.id):
            continue
        raise Reject('__init__: statement not in the subset: ' + _d(s))


def translate_source(src):
    tree = ast.parse(src)
    for n in tree.body:
        if isinstance(n, (ast.Import, ast.ImportFrom)) or (isinstance(n, ast.Expr) and isinstance(n.value, ast.Constant)):
            continue
        if isinstance(n, ast.ClassDef) and n.name == 'DUCCIO' and not n.bases and not n.decorator_list:
            continue
        raise Reject('module-level statement the translator does not know: ' + _d(n))
    cls = [n for n in tree.body if isinstance(n, ast.ClassDef) and n.name == 'DUCCIO']
    if len(cls) != 1:
        raise Reject('class DUCCIO not found')
    fns = {n.name: n for n in cls[0].body if isinstance(n, ast.FunctionDef)}
    others = [n for n in cls[0].body if not isinstance(n, ast.FunctionDef) and not (isinstance(n, ast.Expr) and isinstance(n.value, ast.Constant))]
    if set(fns) != {'__init__', '__call__'} or others:
        raise Reject('DUCCIO defines members the translator does not know: %s' % sorted(set(fns) - {'__init__', '__call__'}))
    check_init(fns['__init__'])
    call = fns['__call__']
    if [a.arg for a in call.args.args] != ['self', 'model', 'epoch', 'n_epochs'] or call.decorator_list:
        raise Reject('__call__ signature')
    body = _strip(call.body)
    if len(body) != 4:
        raise Reject('__call__: expected lazy initialisation, accumulator, loop, return (%d statements found)' % len(body))
    return translate_lazy_init(body[0]) + '\n' + translate_loop(body[1], body[2], body[3])


HEADER = '''(* GENERATED by translator/duccio2coq.py from plinio/regularizers/duccio.py of the tree under test -- do not edit.
   DUCCIO.__call__ over Q, with a definedness predicate for every division on an evaluated path. *)
From Coq Require Import QArith List Bool ZArith.
Import ListNotations.
Require Import Plinio.Base.Qx.
Local Open Scope Q_scope.

'''
FOOTER = '''
(* correspondence helpers *)
Definition run_duccio_gen (ms : list (Q * Q * Q)) (e n : Z) : Z * Z := qpair (duccio_gen ms (inject_Z e) (inject_Z n)).
Definition run_derive_gen (task c t : Q) : Z * Z := qpair (derive_gen task c t).
'''


def translate_base(src):
    """plinio/regularizers/base_regularizer.py: BaseRegularizer.__call__ returns one expression of the cost and the strength"""
    tree = ast.parse(src)
    for n in tree.body:
        if isinstance(n, (ast.Import, ast.ImportFrom)) or (isinstance(n, ast.Expr) and isinstance(n.value, ast.Constant)):
            continue
        if isinstance(n, ast.ClassDef) and n.name == 'BaseRegularizer' and not n.bases and not n.decorator_list:
            continue
        raise Reject('base_regularizer.py: module-level statement the translator does not know: ' + _d(n))
    cls = [n for n in tree.body if isinstance(n, ast.ClassDef) and n.name == 'BaseRegularizer']
    if len(cls) != 1:
        raise Reject('class BaseRegularizer not found')
    fns = {n.name: n for n in cls[0].body if isinstance(n, ast.FunctionDef)}
    if set(fns) != {'__init__', '__call__'}:
        raise Reject('BaseRegularizer defines members the translator does not know: %s' % sorted(set(fns) - {'__init__', '__call__'}))
    for s in _strip(fns['__init__'].body):
        if isinstance(s, ast.Assign) and len(s.targets) == 1 and isinstance(s.value, ast.Name) and s.value.id in ('cost_name', 'strength') \
                and _self_attr(s.targets[0], s.value.id):
            continue
        raise Reject('BaseRegularizer.__init__: statement not in the subset: ' + _d(s))
    call = fns['__call__']
    body = _strip(call.body)
    if [a.arg for a in call.args.args] != ['self', 'model'] or len(body) != 1 or not isinstance(body[0], ast.Return):
        raise Reject('BaseRegularizer.__call__ is not a single return')
    r = body[0].value

    class _T(ast.NodeTransformer):           # model.get_cost(self.cost_name) -> the metric's cost
        def visit_Call(self, n):
            if isinstance(n.func, ast.Attribute) and n.func.attr == 'get_cost' and isinstance(n.func.value, ast.Name) and n.func.value.id == 'model' \
                    and len(n.args) == 1 and not n.keywords and _self_attr(n.args[0], 'cost_name'):
                return ast.Name(id='__cost__', ctx=ast.Load())
            return self.generic_visit(n)
    v, o = expr(_T().visit(r), {'__cost__': 'c', 'self.strength': 's'})
    return 'Definition base_gen (s c : Q) : Q := %s.\nDefinition base_ok (s c : Q) : bool := %s.\n' % (v, o)


def translate_repo(repo):
    d = os.path.join(repo, 'plinio', 'regularizers')
    return HEADER + translate_source(open(os.path.join(d, 'duccio.py')).read()) + '\n' + translate_base(open(os.path.join(d, 'base_regularizer.py')).read()) + FOOTER


if __name__ == '__main__':
    import sys
    print(translate_repo(sys.argv[1] if len(sys.argv) > 1 else '/repo'))
