(* Model of the PIT cost evaluation (plinio/methods/pit/pit.py: _get_single_cost, _single_cost_fn_map;
   pit/nn/{conv1d,conv2d,linear}.py: get_modified_vars, out_features_eff, k_eff, export;
   graph/features_calculation.py: the four calculators; cost/{params,params_no_bias,ops,ops_no_bias,
   gap8_latency}.py; cost/pattern.py: conv_dw_constraint)                                        (C04)

   A network is the list of its conv / linear leaf modules in `_unique_leaf_modules` order; every
   other leaf module is costed by the default of the specification (zero for the five built-in ones).
   Masks are the real parameter vectors (alpha, beta, gamma) of each layer (Model/Masks.v, repaired
   comb: flip = true). *)
From Coq Require Import QArith Qround ZArith List Bool Arith.
Import ListNotations.
Require Import Plinio.Base.Qx Plinio.Model.Masks.
Local Open Scope nat_scope.

Inductive lkind := KConv1d | KConv2d | KLinear.

(* input features calculators (Const / ModAttr / Flatten / Concat); CMod i = the PIT layer number i *)
Inductive calc := CConst (c : nat) | CMod (i : nat) | CFlat (p : calc) (mult : nat) | CCat (l : list calc).

Record layer := mkLayer {
  l_kind : lkind; l_cin : nat; l_cout : nat; l_groups : nat; l_ks : list nat; l_bias : bool;
  l_search : bool;                (* converted to a PIT layer (true) or left as it is: excluded (false) *)
  l_calc : calc;                  (* input_features_calculator (PIT layers only) *)
  l_sites : list (list nat) }.    (* spatial part of the output shape at every call site, in call order *)

Record lmask := mkMask { m_afrozen : bool; m_alpha : list Q; m_beta : list Q; m_gamma : list Q }.
Definition dmask : lmask := mkMask false [] [] [].
Definition dlayer : layer := mkLayer KLinear 0 0 1 [] false false (CConst 0) [].

Definition nq (n : nat) : Q := inject_Z (Z.of_nat n).

(* ---- features *)
Definition theta_a (m : lmask) : list Q := if m_afrozen m then theta_alpha_frozen (m_alpha m) else theta_alpha (m_alpha m).
Definition feat_mask (m : lmask) : list bool := map bin (theta_a m).
Definition out_opt (m : lmask) : nat := count_true (feat_mask m).

Fixpoint calc_mask (ms : list lmask) (c : calc) : list bool :=           (* .features_mask *)
  match c with
  | CConst n => repeat true n
  | CMod i => feat_mask (nth i ms dmask)
  | CFlat p mult => flat_map (fun b => repeat b mult) (calc_mask ms p)
  | CCat l => (fix go (l : list calc) : list bool := match l with [] => [] | c :: t => calc_mask ms c ++ go t end) l
  end.
Fixpoint calc_count (ms : list lmask) (c : calc) : nat :=                (* .features, every layer discrete *)
  match c with
  | CConst n => n
  | CMod i => out_opt (nth i ms dmask)
  | CFlat p mult => mult * calc_count ms p
  | CCat l => (fix go (l : list calc) : nat := match l with [] => 0 | c :: t => calc_count ms c + go t end) l
  end.
Fixpoint calc_feat (ms : list lmask) (c : calc) : Q :=                   (* .features, continuous *)
  match c with
  | CConst n => nq n
  | CMod i => qsum (theta_a (nth i ms dmask))
  | CFlat p mult => (nq mult * calc_feat ms p)%Q
  | CCat l => (fix go (l : list calc) : Q := match l with [] => 0%Q | c :: t => (calc_feat ms c + go t)%Q end) l
  end.
Fixpoint calc_width (net : list layer) (c : calc) : nat :=               (* static width of the tensor *)
  match c with
  | CConst n => n
  | CMod i => l_cout (nth i net dlayer)
  | CFlat p mult => mult * calc_width net p
  | CCat l => (fix go (l : list calc) : nat := match l with [] => 0 | c :: t => calc_width net c + go t end) l
  end.

(* ---- what a cost function receives *)
Record hp := mkHp { h_in : Q; h_out : Q; h_k : list Q; h_groups : nat; h_bias : bool; h_oshape : list nat }.
(* spec[(type, vars)]: the registered patterns of the specifications in scope are (type, None) and
   (conv type, conv_dw_constraint), so the selected function depends on the type and on that constraint *)
Record cspec := mkSpec { s_shared : bool; s_fn : lkind -> bool -> hp -> Q }.

Definition dwc (cin cout groups : nat) : bool := Nat.eqb cin groups && Nat.eqb cout groups.
Definition static_dw (l : layer) : bool :=
  match l_kind l with KLinear => false | _ => dwc (l_cin l) (l_cout l) (l_groups l) end.
Definition ksize (l : layer) : nat := hd 1 (l_ks l).

Definition static_hp (l : layer) (site : list nat) : hp :=
  mkHp (nq (l_cin l)) (nq (l_cout l)) (map nq (l_ks l)) (l_groups l) (l_bias l) site.

(* get_modified_vars + shapes_dict(node): in <- calculator, out <- sum theta_alpha, kernel (1-D only) <- sum of
   the time mask; groups, bias and everything else keep the static value *)
Definition pit_hp (ms : list lmask) (discrete : bool) (l : layer) (m : lmask) (site : list nat) : hp :=
  mkHp (if discrete then nq (calc_count ms (l_calc l)) else calc_feat ms (l_calc l))
       (if discrete then nq (out_opt m) else qsum (theta_a m))
       (match l_kind l with
        | KConv1d => [if discrete then nq (kernel_size_opt true (ksize l) (m_beta m) (m_gamma m))
                      else k_eff_cont true (ksize l) (m_beta m) (m_gamma m)]
        | _ => map nq (l_ks l) end)
       (l_groups l) (l_bias l) site.

Definition sites_of (spec : cspec) (l : layer) : list (list nat) :=
  if s_shared spec then firstn 1 (l_sites l) else l_sites l.          (* unique leaf modules / every call site *)
Definition counted (full : bool) (l : layer) : bool := l_search l || full.

Definition pit_layer_cost (spec : cspec) (ms : list lmask) (d : bool) (l : layer) (m : lmask) : Q :=
  qsum (map (fun site => s_fn spec (l_kind l) (static_dw l) (if l_search l then pit_hp ms d l m site else static_hp l site))
            (sites_of spec l)).
Definition pit_cost (spec : cspec) (net : list layer) (ms : list lmask) (d full : bool) : Q :=
  qsum (map (fun lm => if counted full (fst lm) then pit_layer_cost spec ms d (fst lm) (snd lm) else 0%Q) (combine net ms)).

(* the same metric from scratch on a plain network: static sizes, lookup on the layer's own attributes *)
Definition plain_layer_cost (spec : cspec) (l : layer) : Q :=
  qsum (map (fun site => s_fn spec (l_kind l) (static_dw l) (static_hp l site)) (sites_of spec l)).
Definition plain_cost (spec : cspec) (full : bool) (net : list layer) : Q :=
  qsum (map (fun l => if counted full l then plain_layer_cost spec l else 0%Q) net).

(* ---- export (sizes only): in <- alive inputs, out <- alive outputs, kernel <- kept taps,
        groups <- in_features_opt for a depthwise layer (groups == in_channels == out_channels), unchanged otherwise *)
Definition export_layer (ms : list lmask) (l : layer) (m : lmask) : layer :=
  if l_search l then
    let cin' := count_true (calc_mask ms (l_calc l)) in
    mkLayer (l_kind l) cin' (out_opt m)
            (match l_kind l with KLinear => l_groups l | _ => if static_dw l then cin' else l_groups l end)
            (match l_kind l with KConv1d => [kernel_size_opt true (ksize l) (m_beta m) (m_gamma m)] | _ => l_ks l end)
            (l_bias l) true (CConst cin') (l_sites l)
  else l.
Definition export_net (net : list layer) (ms : list lmask) : list layer :=
  map (fun lm => export_layer ms (fst lm) (snd lm)) (combine net ms).

(* number of elements of weight and bias of a plain conv / linear layer *)
Definition prod_nat (l : list nat) : nat := fold_right Nat.mul 1 l.
Definition numel (l : layer) : nat :=
  l_cout l * (l_cin l / l_groups l) * prod_nat (l_ks l) + (if l_bias l then l_cout l else 0).
Definition numel_net (full : bool) (net : list layer) : nat :=
  fold_right Nat.add 0 (map (fun l => if counted full l then numel l else 0) net).

(* ---- the five built-in specifications, by hand over Q *)
Definition bq (b : bool) : Q := if b then 1%Q else 0%Q.
Definition k0 (h : hp) : Q := nth 0 (h_k h) 0%Q.
Definition k1 (h : hp) : Q := nth 1 (h_k h) 0%Q.
Definition os (h : hp) (i : nat) : Q := nq (nth i (h_oshape h) 0).
Local Open Scope Q_scope.
Definition params_fn (k : lkind) (dw : bool) (h : hp) : Q :=
  match k, dw with
  | KConv1d, false => h_out h * (h_in h * k0 h + bq (h_bias h))
  | KConv2d, false => h_out h * (h_in h * k0 h * k1 h + bq (h_bias h))
  | KConv1d, true => h_in h * (k0 h + bq (h_bias h))
  | KConv2d, true => h_in h * (k0 h * k1 h + bq (h_bias h))
  | KLinear, _ => h_out h * (h_in h + bq (h_bias h))
  end.
Definition params_nb_fn (k : lkind) (dw : bool) (h : hp) : Q :=
  match k, dw with
  | KConv1d, false => h_in h * h_out h * k0 h
  | KConv2d, false => h_in h * h_out h * k0 h * k1 h
  | KConv1d, true => h_in h * k0 h
  | KConv2d, true => h_in h * k0 h * k1 h
  | KLinear, _ => h_in h * h_out h
  end.
Definition spatial (k : lkind) (h : hp) : Q :=
  match k with KConv1d => os h 0 | KConv2d => os h 0 * os h 1 | KLinear => 1 end.
Definition ops_fn (k : lkind) (dw : bool) (h : hp) : Q := params_fn k dw h * spatial k h.
Definition ops_nb_fn (k : lkind) (dw : bool) (h : hp) : Q := params_nb_fn k dw h * spatial k h.
(* FloorSTE / _floor : floor((x + N - 1) / N) *)
Definition fl (x : Q) (n : Z) : Q := inject_Z (Qfloor ((x + inject_Z n - 1) / inject_Z n)).
Definition gap8_fn (k : lkind) (dw : bool) (h : hp) : Q :=
  match k, dw with
  | KConv2d, false =>
      fl (os h 0) 2 * fl (os h 1) 8 *
      (k0 h * k1 h * h_in h * 2 + fl (h_out h) 4 * (5 + fl (k0 h * k1 h * h_in h) 4 * (6 + 8) + 10))
  | KConv2d, true => 4 * fl (h_out h) 4 * os h 0 * os h 1 * k0 h * k1 h
  | KLinear, _ => fl (h_in h) 2 * fl (h_out h) 4
  | KConv1d, _ => 0
  end.
Definition params_spec := mkSpec true params_fn.
Definition params_nb_spec := mkSpec true params_nb_fn.
Definition ops_spec := mkSpec false ops_fn.
Definition ops_nb_spec := mkSpec false ops_nb_fn.
Definition gap8_spec := mkSpec true gap8_fn.
Local Close Scope Q_scope.

(* ---- well-formedness / hypotheses of the theorems (all decidable, evaluated by the harness too) *)
Definition is_conv (k : lkind) : bool := match k with KLinear => false | _ => true end.
(* a depthwise layer shares its features masker with its producer (C09): as many outputs alive as inputs *)
Definition dw_consistent_b (ms : list lmask) (l : layer) (m : lmask) : bool :=
  negb (l_search l && static_dw l) || Nat.eqb (out_opt m) (count_true (calc_mask ms (l_calc l))).
(* the sub-domain of the open finding: a FULL convolution whose exported version has
   groups == in_channels == out_channels (1 -> 1 channels) *)
Definition degenerate_b (ms : list lmask) (l : layer) (m : lmask) : bool :=
  l_search l && is_conv (l_kind l) && negb (static_dw l) &&
  dwc (count_true (calc_mask ms (l_calc l))) (out_opt m) (l_groups l).
Definition wf_layer_b (l : layer) : bool :=
  negb (match l_sites l with [] => true | _ => false end) &&
  match l_kind l with
  | KLinear => Nat.eqb (l_groups l) 1 && Nat.eqb (length (l_ks l)) 0
  | k => (Nat.eqb (l_groups l) 1 || (static_dw l && Nat.leb 1 (l_groups l))) &&
         Nat.eqb (length (l_ks l)) (match k with KConv1d => 1 | _ => 2 end)
  end.
Definition open_mask (l : layer) (m : lmask) : Prop :=
  m_alpha m = repeat 1%Q (l_cout l) /\ m_beta m = repeat 1%Q (ksize l) /\ m_gamma m = repeat 1%Q (gamma_len (ksize l)).
Definition open_of (l : layer) : lmask :=
  mkMask false (repeat 1%Q (l_cout l)) (repeat 1%Q (ksize l)) (repeat 1%Q (gamma_len (ksize l))).

(* ---- correspondence helpers *)
Definition all_specs : list cspec := [params_spec; params_nb_spec; ops_spec; ops_nb_spec; gap8_spec].
Definition lsize (l : layer) : nat * nat * nat * list nat := (l_cin l, l_cout l, l_groups l, l_ks l).
Definition run_cost (net : list layer) (ms : list lmask) (full : bool) :=
  let e := export_net net ms in
  (map (fun s => (qpair (pit_cost s net ms false full), qpair (pit_cost s net ms true full),
                  qpair (plain_cost s full e), qpair (plain_cost s full net),
                  qpair (pit_cost s net (map open_of net) false full))) all_specs,
   map lsize e, numel_net full e,
   (forallb (fun lm => dw_consistent_b ms (fst lm) (snd lm)) (combine net ms),
    existsb (fun lm => degenerate_b ms (fst lm) (snd lm)) (combine net ms),
    forallb wf_layer_b net)).
Definition run_keff_open (K : nat) : Z * Z := qpair (k_eff_cont true K (repeat 1%Q K) (repeat 1%Q (gamma_len K))).
