(* C12 -- second tie, by translation, obtained by COMPOSITION with C04's translator.
   Statements only (bridge and proofs: Proofs/CostGradBridge.v).

   C12's sentences about the VALUE of the PIT cost are proved in Props/C12.v about the hand model Model/CostGrad.v
   (`pit_cost f n` over `net St`).  C04's translator (translator/pitcost2coq.py) regenerates Gen/PitCostGen.v from the
   source on every run and Proofs/PitCostGen.v proves the generated `.cost` (`gen_cost1 net ms spec d full`) equal to
   C04's hand model Model/PitCost.v.  Proofs/CostGradBridge.v embeds EVERY C04 network + masks into C12's model
   (`to_costgrad net ms`: masker i = (alpha, frozen) of mask record i; layer i points to masker i, carries the C04 layer
   record as static data, the affine normal form `to_affine` of its calculator term and, for a searchable Conv1d, its
   (K, beta, gamma)); the C04 specification induces the C12 cost function `bridge_f spec full` (sum over the call sites
   of the registered function on the record (in, out, kernel, static groups / bias / shape); static sizes and counted
   only under full_cost for layers that are not searchable).  The two hand models agree (C12_bridge_models_agree), so
   the sentences below are about the cost GENERATED from the code as it is now, continuous (discrete_cost = False).

   Premises, all visible:
     spec_proper spec : equal rationals give equal costs (C04's premise; every function of floats)
     spec_mono spec   : C12's `admissible`, said of a C04 specification: non-negative and non-decreasing in in / out /
                        kernel sizes on non-negative sizes.  Proved for the five built-in specifications
                        (C12_generated_builtin_admissible).
   No premise on the network or on the masks for value / sign / monotonicity. *)
From Coq Require Import QArith ZArith List Bool.
Import ListNotations.
Require Import Plinio.Base.Qx Plinio.Model.Masks Plinio.Model.PitCost Plinio.Proofs.PitCost.
Require Import Plinio.Gen.PitCostGen Plinio.Proofs.PitCostGen.
Require Plinio.Model.CostGrad Plinio.Proofs.CostGrad.
Require Import Plinio.Proofs.CostGradBridge.
Open Scope Q_scope.

(* ---------------------------------------------------------------- the bridge *)
(* C04's hand model and C12's hand model compute the same continuous cost on the embedded network *)
Theorem C12_bridge_models_agree : forall spec net ms full, spec_proper spec ->
  pit_cost spec net ms false full == CG.pit_cost (bridge_f spec full) (to_costgrad net ms).
Proof. exact bridge_value. Qed.

(* the cost generated from the source IS C12's model cost of the embedded network *)
Theorem C12_generated_cost_is_costgrad : forall spec net ms full, spec_proper spec ->
  gen_cost1 net ms spec false full == CG.pit_cost (bridge_f spec full) (to_costgrad net ms).
Proof. exact gen_cost_is_costgrad. Qed.

(* the embedding lands in C12's domain: non-negative affine inputs, admissible cost function *)
Theorem C12_bridge_in_domain : forall spec net ms full, spec_mono spec ->
  CG.wf_net (to_costgrad net ms) /\
  (forall l a b c, 0 <= a -> 0 <= b -> 0 <= c -> 0 <= bridge_f spec full l a b c) /\
  (forall l a b c a' b' c', 0 <= a <= a' -> 0 <= b <= b' -> 0 <= c <= c' -> bridge_f spec full l a b c <= bridge_f spec full l a' b' c').
Proof.
  intros spec net ms full Hm. split; [apply wf_to_costgrad|]. split.
  - intros. apply bridge_f_nonneg; trivial.
  - intros. apply bridge_f_mono; trivial.
Qed.

Theorem C12_generated_builtin_admissible : forall spec, In spec all_specs -> spec_proper spec /\ spec_mono spec.
Proof. exact builtin_admissible. Qed.

(* ---------------------------------------------------------------- the sentences of C12 about values, on the generated cost *)
(* C12_pit_cost_nonneg transferred *)
Theorem C12_generated_cost_nonneg : forall spec net ms full, spec_proper spec -> spec_mono spec ->
  0 <= gen_cost1 net ms spec false full.
Proof. exact gen_cost_nonneg. Qed.

(* C12_pit_cost_mono_abs transferred: raising the magnitude of any set of elements of any alpha / beta / gamma (a masker
   shared by several layers is the same vector in each of their records: raise it in all) never lowers the cost *)
Theorem C12_generated_cost_mono_abs : forall spec net ms ms' full, spec_proper spec -> spec_mono spec ->
  Forall2 lmask_le ms ms' -> gen_cost1 net ms spec false full <= gen_cost1 net ms' spec false full.
Proof. exact gen_cost_mono_abs. Qed.

(* C12_pit_cost_open_eq_original transferred: every mask element of magnitude 1, EITHER SIGN, any rational
   representation (C04_generated_cost_open_eq_original asks the literal vectors of ones): the cost of the original network *)
Theorem C12_generated_cost_unit_eq_original : forall spec net ms full, spec_proper spec -> spec_mono spec ->
  Forall (wf_open net) net -> Forall2 unit_mask net ms ->
  gen_cost1 net ms spec false full == plain_cost spec full net.
Proof. exact gen_cost_unit_eq_original. Qed.

(* C12_cost_indep_weights transferred: the generated cost is the cost of the C12 model object whatever its weights *)
Theorem C12_generated_cost_indep_weights : forall spec net ms full (w : list (list Q)), spec_proper spec ->
  gen_cost1 net ms spec false full ==
  CG.model_cost (bridge_f spec full) {| CG.pm_arch := to_costgrad net ms; CG.pm_weights := w |}.
Proof. exact gen_cost_indep_weights. Qed.

(* the three sentences for params, params_no_bias, ops, ops_no_bias, gap8_latency without any premise on the function *)
Theorem C12_generated_builtin : forall spec net full, In spec all_specs ->
  (forall ms, 0 <= gen_cost1 net ms spec false full) /\
  (forall ms ms', Forall2 lmask_le ms ms' -> gen_cost1 net ms spec false full <= gen_cost1 net ms' spec false full) /\
  (forall ms, Forall (wf_open net) net -> Forall2 unit_mask net ms -> gen_cost1 net ms spec false full == plain_cost spec full net).
Proof. exact gen_cost_builtin. Qed.


(* ---------------------------------------------------------------- params / ops (+ no-bias): C12's `std_f` and its derivative *)
(* C12's derivative theorems are about `d_pit_cost d_std_f` over `net std`, std_f being the hand-written common shape of
   the params / ops formulas.  `to_std cb sp spec full net ms` embeds a C04 network index-preservingly (mask record j ->
   masker j, layer j -> layer j; osz of a layer = sum of the spatial sizes of its counted call sites; a layer that is not
   searchable = a constant); `std_like cb sp spec` says the specification's function is std_f on that record. *)
Theorem C12_generated_std_builtin : std_like true false params_spec /\ std_like false false params_nb_spec /\
                                    std_like true true ops_spec /\ std_like false true ops_nb_spec.
Proof. exact std_builtin. Qed.

(* the generated cost IS pit_cost std_f of the embedded network: ties C12's hand-written std_f to the source *)
Theorem C12_generated_cost_is_std : forall cb sp spec net ms full, spec_proper spec -> std_like cb sp spec ->
  gen_cost1 net ms spec false full == CG.pit_cost CG.std_f (to_std cb sp spec full net ms).
Proof. exact gen_cost_is_std. Qed.

(* the embedded network is in the domain of the derivative theorems *)
Theorem C12_bridge_std_in_domain : forall cb sp spec full net ms, spec_mono spec ->
  CG.wf_net (to_std cb sp spec full net ms) /\ Forall (fun l => CG.wf_std (CG.l_s l)) (CG.n_layers (to_std cb sp spec full net ms)).
Proof. exact to_std_domain. Qed.

(* its parameter elements are the elements of the mask records, same indices *)
Theorem C12_bridge_std_parameters : forall cb sp spec full net ms,
  (forall j i, CGP.pval (to_std cb sp spec full net ms) (CG.PAlpha j i) = nth i (m_alpha (nth j ms dmask)) 0) /\
  (forall j i l m, nth_error (combine net ms) j = Some (l, m) -> l_search l = true -> l_kind l = KConv1d ->
     CGP.pval (to_std cb sp spec full net ms) (CG.PBeta j i) = nth i (m_beta m) 0 /\
     CGP.pval (to_std cb sp spec full net ms) (CG.PGamma j i) = nth i (m_gamma m) 0).
Proof. intros. split; [intros; apply pval_alpha|intros; eapply pval_time; eassumption]. Qed.

(* C12_dual_value_std transferred: the value part of the forward-mode evaluation is the generated cost *)
Theorem C12_generated_dual_value : forall cb sp spec net ms full w, spec_proper spec -> std_like cb sp spec ->
  CG.dv (CG.d_pit_cost CG.d_std_f w (to_std cb sp spec full net ms)) == gen_cost1 net ms spec false full.
Proof. exact gen_dual_value. Qed.

(* C12_pit_grad_sign transferred: sign(x) * d cost / d x >= 0 for every parameter element *)
Theorem C12_generated_grad_sign : forall cb sp spec net ms full w, spec_mono spec ->
  0 <= CG.qsgn (CGP.pval (to_std cb sp spec full net ms) w) * CG.dd (CG.d_pit_cost CG.d_std_f w (to_std cb sp spec full net ms)).
Proof. exact gen_grad_sign. Qed.

(* C12_pit_grad_zero_at_zero / keepalive_zero / frozen_zero transferred, in C04's vocabulary *)
Theorem C12_generated_grad_zero : forall cb sp spec net ms full,
  (forall w, CGP.pval (to_std cb sp spec full net ms) w == 0 -> CG.dd (CG.d_pit_cost CG.d_std_f w (to_std cb sp spec full net ms)) == 0) /\
  (forall j i, (j < length ms)%nat -> S i = length (m_alpha (nth j ms dmask)) ->
     CG.dd (CG.d_pit_cost CG.d_std_f (CG.PAlpha j i) (to_std cb sp spec full net ms)) == 0) /\
  (forall j i, m_afrozen (nth j ms dmask) = true ->
     CG.dd (CG.d_pit_cost CG.d_std_f (CG.PAlpha j i) (to_std cb sp spec full net ms)) == 0).
Proof. exact gen_grad_zero. Qed.

(* C12_pit_grad_pos_partial transferred: the alpha of a searchable layer that is not depthwise *)
Theorem C12_generated_grad_pos_out : forall cb sp spec net ms full j i l m, spec_mono spec ->
  nth_error (combine net ms) j = Some (l, m) -> l_search l = true -> static_dw l = false ->
  m_afrozen m = false -> (S i < length (m_alpha m))%nat -> ~ nth i (m_alpha m) 0 == 0 ->
  0 < std_osz sp spec full l ->
  0 < calc_feat ms (l_calc l) * (CG.k_eff (to_time l m) * CG.s_kc (std_rec cb sp spec full l)) + CG.s_b (std_rec cb sp spec full l) ->
  0 < CG.qsgn (nth i (m_alpha m) 0) * CG.dd (CG.d_pit_cost CG.d_std_f (CG.PAlpha j i) (to_std cb sp spec full net ms)).
Proof. exact gen_grad_pos_out. Qed.

(* ---------------------------------------------------------------- gap8_latency: C12's `gap8_f` and its straight-through derivative *)
(* `to_g8 full net ms`: same index-preserving embedding into `net g8`; layers without a GAP8 model (Conv1d), not counted or
   never called are zero-cost records.  Premise fixed_masks_ok: the mask record of a COUNTED layer that is NOT searchable
   says cout (sum of theta = cout: the all-ones frozen masker the C12 check gives to fixed layers); vacuous under
   full_cost = false.  The cost generated from the source does not read those records. *)
Theorem C12_generated_cost_is_gap8 : forall net ms full, fixed_masks_ok full net ms ->
  gen_cost1 net ms gap8_spec false full == CG.pit_cost CG.gap8_f (to_g8 full net ms).
Proof. exact gen_cost_is_gap8. Qed.

Theorem C12_bridge_gap8_in_domain : forall full net ms,
  CG.wf_net (to_g8 full net ms) /\ Forall (fun l => CGP.wf_g8 (CG.l_s l)) (CG.n_layers (to_g8 full net ms)).
Proof. exact to_g8_domain. Qed.

(* C12_dual_value_gap8 transferred *)
Theorem C12_generated_dual_value_gap8 : forall net ms full w, fixed_masks_ok full net ms ->
  CG.dv (CG.d_pit_cost CG.d_gap8_f w (to_g8 full net ms)) == gen_cost1 net ms gap8_spec false full.
Proof. exact gen_dual_value_gap8. Qed.

(* C12_pit_grad_sign_gap8 / C12_pit_grad_zero_gap8 transferred *)
Theorem C12_generated_grad_sign_gap8 : forall net ms full w,
  0 <= CG.qsgn (CGP.pval (to_g8 full net ms) w) * CG.dd (CG.d_pit_cost CG.d_gap8_f w (to_g8 full net ms)).
Proof. exact gen_grad_sign_gap8. Qed.
Theorem C12_generated_grad_zero_gap8 : forall net ms full,
  (forall w, CGP.pval (to_g8 full net ms) w == 0 -> CG.dd (CG.d_pit_cost CG.d_gap8_f w (to_g8 full net ms)) == 0) /\
  (forall j i, (j < length ms)%nat -> S i = length (m_alpha (nth j ms dmask)) ->
     CG.dd (CG.d_pit_cost CG.d_gap8_f (CG.PAlpha j i) (to_g8 full net ms)) == 0) /\
  (forall j i, m_afrozen (nth j ms dmask) = true ->
     CG.dd (CG.d_pit_cost CG.d_gap8_f (CG.PAlpha j i) (to_g8 full net ms)) == 0).
Proof. exact gen_grad_zero_gap8. Qed.

(* ---------------------------------------------------------------- non-vacuity *)
(* conv1d 2->4 (K=5), a depthwise conv1d on it invoked at two call sites, flatten x3 + linear; a fixed conv1d stem *)
Definition g_net : list layer :=
  [mkLayer KConv1d 2 4 1 [5]%nat true true (CConst 2) [[12]]%nat;
   mkLayer KConv1d 4 4 4 [3]%nat false true (CMod 0) [[12]; [6]]%nat;
   mkLayer KLinear 12 2 1 [] true true (CFlat (CMod 1) 3) [[]];
   mkLayer KConv1d 3 2 1 [3]%nat true false (CConst 3) [[12]]%nat].
Definition g_ms : list lmask :=
  [mkMask false [1; 0; -3; 0] [0; (1#2); 1; 0; 0] [0; 1; 0];
   mkMask false [1; 0; -3; 0] [1; 1; 1] [1; 1];
   mkMask true [1; 1] [] [];
   mkMask false [] [] []].
Definition g_ms' : list lmask :=
  [mkMask false [-2; (1#3); 3; 0] [0; -1; 1; 5; 0] [0; -1; 0];
   mkMask false [-2; (1#3); 3; 0] [1; -1; 1] [1; 1];
   mkMask true [1; 1] [] [];
   mkMask false [] [] []].
Definition g_unit : list lmask :=
  [mkMask false [-1; 1; -1; (2#2)] [1; -1; 1; 1; -1] [-1; 1; 1];
   mkMask false [-1; 1; -1; (2#2)] [-1; 1; 1] [1; -1];
   mkMask false [1; -1] [] [];
   mkMask false [(-3#3); 1] [] []].
Example C12_generated_example :
  Forall2 lmask_le g_ms g_ms' /\ Forall (wf_open g_net) g_net /\ Forall2 unit_mask g_net g_unit /\
  map (fun s => qpair (gen_cost1 g_net g_ms s false true)) all_specs =
  map (fun s => qpair (CG.pit_cost (bridge_f s true) (to_costgrad g_net g_ms))) all_specs /\
  forallb (fun s => Qle_bool 0 (gen_cost1 g_net g_ms s false true) &&
                    Qle_bool (gen_cost1 g_net g_ms s false true) (gen_cost1 g_net g_ms' s false true) &&
                    negb (Qeq_bool (gen_cost1 g_net g_ms params_spec false true) (gen_cost1 g_net g_ms' params_spec false true)) &&
                    Qeq_bool (gen_cost1 g_net g_unit s false true) (plain_cost s true g_net)) all_specs = true.
Proof.
  split; [|split; [|split; [|split]]].
  - repeat constructor; vm_compute; discriminate.
  - repeat constructor; intros; try discriminate; reflexivity.
  - repeat constructor; try discriminate; try reflexivity; try (vm_compute; reflexivity); try (intros; discriminate).
  - vm_compute. reflexivity.
  - vm_compute. reflexivity.
Qed.

(* the std embedding on the same network: values of the four specifications, and the derivative w.r.t. alpha[2] = -3 of
   layer 0 (negative: the cost grows with the magnitude), w.r.t. its keep-alive element (0), w.r.t. beta[1] of layer 0 *)
Example C12_generated_std_example :
  map (fun c => qpair (gen_cost1 g_net g_ms (snd c) false true))
      [((true, false), params_spec); ((false, false), params_nb_spec); ((true, true), ops_spec); ((false, true), ops_nb_spec)] =
  map (fun c => qpair (CG.pit_cost CG.std_f (to_std (fst (fst c)) (snd (fst c)) (snd c) true g_net g_ms)))
      [((true, false), params_spec); ((false, false), params_nb_spec); ((true, true), ops_spec); ((false, true), ops_nb_spec)] /\
  qlt_bool (CG.dd (CG.d_pit_cost CG.d_std_f (CG.PAlpha 0 2) (to_std true true ops_spec true g_net g_ms))) 0 = true /\
  Qeq_bool (CG.dd (CG.d_pit_cost CG.d_std_f (CG.PAlpha 0 3) (to_std true true ops_spec true g_net g_ms))) 0 = true /\
  qlt_bool 0 (CG.dd (CG.d_pit_cost CG.d_std_f (CG.PBeta 0 1) (to_std true true ops_spec true g_net g_ms))) = true.
Proof. vm_compute. repeat split. Qed.

(* 2-D: a fixed conv2d stem 3->4 (3x3, counted under full_cost, all-ones frozen record), conv2d 4->6 (3x3), depthwise
   conv2d on it, flatten x4 + linear *)
Definition h_net : list layer :=
  [mkLayer KConv2d 3 4 1 [3; 3]%nat true false (CConst 3) [[8; 8]]%nat;
   mkLayer KConv2d 4 6 1 [3; 3]%nat true true (CConst 4) [[8; 8]]%nat;
   mkLayer KConv2d 6 6 6 [3; 3]%nat false true (CMod 1) [[4; 4]]%nat;
   mkLayer KLinear 24 5 1 [] true true (CFlat (CMod 2) 4) [[]]].
Definition h_ms : list lmask :=
  [mkMask true [1; 1; 1; 1] [] [];
   mkMask false [1; (1#4); -2; 0; 0; 1] [] [];
   mkMask false [1; (1#4); -2; 0; 0; 1] [] [];
   mkMask false [3; -1; 0; 1; 1] [] []].
Example C12_generated_gap8_example :
  fixed_masks_ok true h_net h_ms /\
  qpair (gen_cost1 h_net h_ms gap8_spec false true) = qpair (CG.pit_cost CG.gap8_f (to_g8 true h_net h_ms)) /\
  qlt_bool 0 (gen_cost1 h_net h_ms gap8_spec false true) = true /\
  qlt_bool (CG.dd (CG.d_pit_cost CG.d_gap8_f (CG.PAlpha 1 2) (to_g8 true h_net h_ms))) 0 = true /\
  Qeq_bool (CG.dd (CG.d_pit_cost CG.d_gap8_f (CG.PAlpha 0 1) (to_g8 true h_net h_ms))) 0 = true.
Proof.
  split; [|vm_compute; repeat split].
  unfold fixed_masks_ok. cbn [combine h_net h_ms]. repeat (apply Forall_cons); try apply Forall_nil;
    intros A B; try discriminate B. vm_compute. reflexivity.
Qed.

Print Assumptions C12_bridge_models_agree.
Print Assumptions C12_generated_cost_is_costgrad.
Print Assumptions C12_bridge_in_domain.
Print Assumptions C12_generated_builtin_admissible.
Print Assumptions C12_generated_cost_nonneg.
Print Assumptions C12_generated_cost_mono_abs.
Print Assumptions C12_generated_cost_unit_eq_original.
Print Assumptions C12_generated_cost_indep_weights.
Print Assumptions C12_generated_builtin.
Print Assumptions C12_generated_example.
Print Assumptions C12_generated_std_builtin.
Print Assumptions C12_generated_cost_is_std.
Print Assumptions C12_bridge_std_in_domain.
Print Assumptions C12_bridge_std_parameters.
Print Assumptions C12_generated_dual_value.
Print Assumptions C12_generated_grad_sign.
Print Assumptions C12_generated_grad_zero.
Print Assumptions C12_generated_grad_pos_out.
Print Assumptions C12_generated_std_example.
Print Assumptions C12_generated_cost_is_gap8.
Print Assumptions C12_bridge_gap8_in_domain.
Print Assumptions C12_generated_dual_value_gap8.
Print Assumptions C12_generated_grad_sign_gap8.
Print Assumptions C12_generated_grad_zero_gap8.
Print Assumptions C12_generated_gap8_example.
