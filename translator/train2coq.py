"""Translator: the trainability bookkeeping of a PLiNIO NAS model  ->  coq/Gen/TrainGen.v   (C11)

Reads, with `ast`, the SOURCE of the tree under test:
  plinio/methods/dnas_base/dnas.py          DNAS.train_nas_only / train_net_only / train_net_and_nas, nas_parameters,
                                            net_parameters                                   -> dnas_*_gen (parametric in the two
                                                                                                virtual methods named_nas / named_net)
  plinio/methods/pit/pit.py                 PIT.named_nas_parameters / named_net_parameters, the train_features / train_rf /
                                            train_dilation / discrete_cost properties and setters  -> pit_*_gen
  plinio/methods/pit/nn/{features,timestep,dilation}_masker.py
                                            __init__ (is the mask a registered Parameter or a buffer), `trainable` property
                                            and setter of the masker and of its Frozen variant   -> <kind>_masker_*_gen
  plinio/methods/pit/nn/{conv1d,conv2d,linear,batchnorm_1d,batchnorm_2d}.py
                                            named_nas_parameters, the train_* properties / setters of the layer, which switches
                                            a layer class has; PITConv1d.autoimport: which masker classes a stride selects
  plinio/methods/mps/mps.py                 MPS.named_nas_parameters / named_net_parameters       -> mps_*_gen
  plinio/methods/supernet/supernet.py       SuperNet.named_nas_parameters / named_net_parameters, train_selection (+ setter) -> sn_*_gen
  plinio/methods/supernet/nn/combiner.py    SuperNetCombiner.named_nas_parameters, train_selection (+ setter)  -> combiner_*_gen
and emits Gallina definitions that follow the code statement by statement over the vocabulary of Model/Train.v.
Proofs/TrainGen.v proves them equal to `nas_ids false`, `net_ids false`, `train false`, the switch cases of `step false`
and `run false` (the repaired code: frozen masks are buffers).

How the code is read (TRUSTED conventions)
  * the heap is a `tstate`.  A tensor object is its `ptensor` record (identity = p_id; `x.requires_grad = b` on the tensor
    with id i rewrites every record with that id).  A masker / combiner object is identified with the tensor it holds in its
    mask attribute (alpha / beta / gamma); `p_frozen` says that the owner is the Frozen subclass (dynamic dispatch of
    `trainable`).  A layer object is its `layer` record: out_features_masker / timestep_masker / dilation_masker are
    l_feat / l_rf / l_dil (None = the class has no such attribute), the combiner's alpha is l_sel, what an MPS layer's own
    named_nas_parameters yields is l_other (not translated: observed by the harness).  The class of a PIT layer record is
    read off its shape (`pit_class`: a receptive-field or dilation masker -> PITConv1d, else PITConv2d; PITLinear has the
    same code as PITConv2d, proved); PITBatchNorm layers hold no masker and no switch and are not part of the state.
  * self.named_modules(), self._leaf_modules, self._unique_leaf_modules all enumerate `layers st` (every other module fails
    the isinstance / hasattr guard; order and multiplicity in which convert() lists the layers are not modelled: the loop
    bodies are idempotent per layer).  isinstance(layer, PITModule | MPSModule | SuperNetCombiner) is a predicate on the shape
    of the record (is_pit_module / is_mps_module / is_combiner); the theorems assume every layer of the state passes the
    test of its method (`method_state`, checked on every prototype).
  * nn.Module.named_parameters() of the whole model = the tensors of the heap that are registered Parameters, each once, in
    heap order (`module_named_parameters`); of a masker = its mask if the heap holds it as a registered Parameter.  Whether a
    mask is a Parameter is READ from the masker's __init__ (`self.alpha = Parameter(..)` -> RParam, `del self.alpha` ->
    RAbsent, `self.register_buffer('alpha', ..)` -> RBuffer).  Tensors that are not masks of frozen maskers are Parameters.
  * generators are lists (`yield` appends to `out`; names / prefixes / `recurse` are dropped: strings are checked to be used
    only as names), `set()` is a list with `memb` (membership of tensors in a set = identity), `break` is a flag carried by
    the fold, `continue` / early `return` copy the rest of the block into the other branch.
  * a loop over layers whose body assigns an attribute of the layer itself (`layer.discrete_cost = v`) runs over
    (position, record) pairs and rewrites the record at that position.
  * the iterable of a `for` is evaluated on the state at loop entry (Python's generators are lazy: the subset has no loop
    body that changes what its own iterable reads -- the groups do not depend on requires_grad, which is all the bodies
    write; an iterable that reads requires_grad is refused).
  * `self.trainable = trainable` / `self.train_features = ..` inside the constructors are construction-time calls of the
    setters: the state they leave is the INITIAL state, which the harness observes on the real object (wfb, view).

Fail closed: everything outside this subset raises Reject.  Wiring checked structurally: the classes of each module and the
method set of DNAS / PIT / MPS / SuperNet / SuperNetCombiner / the six masker classes are fixed (an unknown method -> Reject);
PIT / MPS / SuperNet must not override train_* / nas_parameters / net_parameters; in EVERY file of plinio/ a store to
.requires_grad / .trainable / .train_* / ._train_* / .discrete_cost / ._discrete_cost, a call of requires_grad_ /
register_parameter, outside the translated functions and the constructors is refused; the files read here must not use
setattr / delattr / __dict__ / exec / eval (DNAS._preserve_state, which puts buffers back with setattr after export(), is
pinned by its text; `vars(layer)` in the cost code is not followed); the model-level update_softmax_options of MPS and
SuperNet (the TUpdate case of `step`, not translated here: C10's translator reads the per-sampler part) are pinned by their
text; pit/nn must hold no layer / masker class besides the eleven known files.
NOT covered by this tie: update_softmax_options and forward+backward (gen_step falls back to the hand model's step), what an
MPS layer's own named_nas_parameters yields (l_other, observed), which layers convert() builds and which feature maskers
it freezes (pit/graph.py), p_reads / p_via.
"""
import ast
import glob
import os


class Reject(Exception):
    pass


def _u(n):
    return ast.unparse(n)


def _strip(stmts):
    return [s for s in stmts if not (isinstance(s, ast.Expr) and isinstance(s.value, ast.Constant) and isinstance(s.value.value, str))]


def _is_name(n, name=None):
    return isinstance(n, ast.Name) and (name is None or n.id == name)


COQTY = {'id': 'nat', 'optid': 'option nat', 'bool': 'bool', 'set': 'list nat', 'layer': 'layer', 'tensor': 'ptensor',
         'st': 'tstate', 'ids': 'list nat', 'optids': 'list (option nat)', 'reg': 'reg', 'pos': 'nat'}

FLAGS = {'_train_features': ('tr_feat', 'with_tr_feat'), '_train_rf': ('tr_rf', 'with_tr_rf'), '_train_dilation': ('tr_dil', 'with_tr_dil'),
         '_train_selection': ('tr_sel', 'with_tr_sel'), '_discrete_cost': ('discrete', 'with_discrete')}
MASKERS = {'out_features_masker': ('KFeatures', 'l_feat', 'PITFeaturesMasker'), 'timestep_masker': ('KTimestep', 'l_rf', 'PITTimestepMasker'),
           'dilation_masker': ('KDilation', 'l_dil', 'PITDilationMasker')}
SWITCHES = ('train_features', 'train_rf', 'train_dilation')
WRITE_TRACKED = ('requires_grad', 'trainable', 'train_features', 'train_rf', 'train_dilation', 'train_selection', 'discrete_cost',
                 '_train_features', '_train_rf', '_train_dilation', '_train_selection', '_discrete_cost', '_leaf_modules', '_unique_leaf_modules')


def tup(names):
    return names[0] if len(names) == 1 else '(%s)' % ', '.join(names)


# ================================================================================================ one function body
class Tr:
    """translation of one function body.
    ctx: 'model' (self = the NAS model, state st), 'layer' (self : layer, state st), 'tensor' (self : ptensor = a masker or
    combiner seen through its mask), 'combid' (self_alpha : nat = a combiner seen through the id of its alpha)
    W: resolver of the calls that depend on the class (see the worlds below)"""

    def __init__(self, where, ctx, W, out_kind=None, mask_attr=None):
        self.where, self.ctx, self.W = where, ctx, W
        self.out_kind = out_kind           # element kind of the yielded list ('id' | 'optid'), None if not a generator
        self.mask_attr = mask_attr
        self.types = {'st': 'tstate', 'self': 'ptensor', 'brk': 'bool'}
        if out_kind:
            self.types['out'] = 'list nat' if out_kind == 'id' else 'list (option nat)'

    def rej(self, msg, n=None):
        raise Reject('%s: %s%s' % (self.where, msg, '' if n is None else ': ' + _u(n)[:160]))

    # ------------------------------------------------------------------ strings (dropped)
    def is_str(self, n, env):
        if isinstance(n, ast.Constant) and isinstance(n.value, str):
            return True
        if isinstance(n, ast.Name):
            return env.get(n.id, (None, None))[1] == 'str'
        if isinstance(n, ast.BinOp) and isinstance(n.op, ast.Add):
            return self.is_str(n.left, env) and self.is_str(n.right, env)
        if isinstance(n, ast.IfExp):
            t = n.test
            ok = isinstance(t, ast.Compare) and len(t.ops) == 1 and isinstance(t.left, ast.Call) and _is_name(t.left.func, 'len') and len(t.left.args) == 1 \
                and self.is_str(t.left.args[0], env) and isinstance(t.comparators[0], ast.Constant) and type(t.comparators[0].value) is int
            ok = ok or self.is_str(t, env)
            return ok and self.is_str(n.body, env) and self.is_str(n.orelse, env)
        if isinstance(n, ast.JoinedStr):
            return all(isinstance(v, ast.Constant) or (isinstance(v, ast.FormattedValue) and self.is_str(v.value, env)) for v in n.values)
        return False

    def name_args(self, call, env, npos=2):
        """arguments of a named_*(prefix, recurse) / *_parameters(recurse) call: names and the `recurse` flag only"""
        if len(call.args) > npos:
            self.rej('too many arguments', call)
        for a in list(call.args) + [k.value for k in call.keywords]:
            if not (self.is_str(a, env) or (isinstance(a, ast.Name) and env.get(a.id, (None, None))[1] == 'rec')
                    or (isinstance(a, ast.Constant) and a.value is True)):
                self.rej('argument that is neither a name / prefix nor the `recurse` flag', call)
        for k in call.keywords:
            if k.arg not in ('prefix', 'recurse'):
                self.rej('keyword argument %s' % k.arg, call)

    # ------------------------------------------------------------------ expressions
    def self_attr(self, n):
        return n.attr if isinstance(n, ast.Attribute) and _is_name(n.value, 'self') else None

    def bexpr(self, n, env):
        v, k = self.expr(n, env)
        if k != 'bool':
            self.rej('not a boolean (%s)' % k, n)
        return v

    def expr(self, n, env):
        """-> (Coq text, kind)"""
        if isinstance(n, ast.Constant):
            if isinstance(n.value, bool):
                return ('true' if n.value else 'false'), 'bool'
            if n.value is None:
                return 'None', 'none'
            self.rej('constant', n)
        if isinstance(n, ast.Name):
            if n.id in env and env[n.id][1] not in ('str', 'rec', 'erased', 'pair', 'pos'):
                return env[n.id][0], env[n.id][1]
            self.rej('name %s is not a value here' % n.id)
        if isinstance(n, ast.UnaryOp) and isinstance(n.op, ast.Not):
            return '(negb %s)' % self.bexpr(n.operand, env), 'bool'
        if isinstance(n, ast.BoolOp):
            op = 'andb' if isinstance(n.op, ast.And) else 'orb'
            out = self.bexpr(n.values[0], env)
            for v in n.values[1:]:
                out = '(%s %s %s)' % (op, out, self.bexpr(v, env))     # operands are effect-free and total: lazy = strict
            return out, 'bool'
        if isinstance(n, ast.Compare) and len(n.ops) == 1:
            op, l, r = n.ops[0], n.left, n.comparators[0]
            if isinstance(op, (ast.In, ast.NotIn)):
                a, ka = self.expr(l, env)
                s, ks = self.expr(r, env)
                if ka != 'id' or ks != 'set':
                    self.rej('membership test between %s and %s' % (ka, ks), n)
                t = '(memb %s %s)' % (a, s)
                return (t if isinstance(op, ast.In) else '(negb %s)' % t), 'bool'
            if isinstance(op, (ast.Is, ast.IsNot)) and isinstance(r, ast.Constant) and r.value is None:
                a, ka = self.expr(l, env)
                if ka == 'optid':
                    return ('(is_none %s)' % a if isinstance(op, ast.Is) else '(negb (is_none %s))' % a), 'bool'
                if ka == 'id':        # a tensor that cannot be None
                    return ('false' if isinstance(op, ast.Is) else 'true'), 'bool'
                self.rej('None test on %s' % ka, n)
            self.rej('comparison', n)
        if isinstance(n, ast.Subscript) and isinstance(n.value, ast.Name) and n.value.id in env and env[n.value.id][1] == 'pair' \
                and isinstance(n.slice, ast.Constant) and n.slice.value == 1 and type(n.slice.value) is int:
            return env[n.value.id][0], env[n.value.id][2]                 # (name, param)[1]
        if isinstance(n, ast.Call):
            f = n.func
            if _is_name(f, 'cast') and len(n.args) == 2 and not n.keywords:
                return self.expr(n.args[1], env)
            if _is_name(f, 'isinstance') and len(n.args) == 2 and not n.keywords and isinstance(n.args[0], ast.Name) and isinstance(n.args[1], ast.Name):
                a, ka = self.expr(n.args[0], env)
                if ka != 'layer' or n.args[1].id not in self.W.get('isinstance', {}):
                    self.rej('isinstance test', n)
                return '(%s %s)' % (self.W['isinstance'][n.args[1].id], a), 'bool'
            if _is_name(f, 'hasattr') and len(n.args) == 2 and not n.keywords and isinstance(n.args[1], ast.Constant) and isinstance(n.args[1].value, str):
                a, ka = self.expr(n.args[0], env)
                if ka != 'layer' or n.args[1].value not in self.W.get('hasattr', {}):
                    self.rej('hasattr test', n)
                return self.W['hasattr'][n.args[1].value] % a, 'bool'
            if _is_name(f, 'set'):
                if not n.args and not n.keywords:
                    return '[]', 'set'
                if len(n.args) == 1 and not n.keywords and isinstance(n.args[0], (ast.GeneratorExp, ast.ListComp, ast.SetComp)):
                    return self.comp(n.args[0], env), 'set'
                self.rej('set(..)', n)
        if isinstance(n, ast.SetComp):
            return self.comp(n, env), 'set'
        if isinstance(n, ast.Attribute):
            a = self.self_attr(n)
            if self.ctx == 'model' and a in FLAGS:
                return '(%s st)' % FLAGS[a][0], 'bool'
            if self.ctx == 'combid' and a == 'alpha':
                return 'self_alpha', 'id'
            if n.attr == 'requires_grad' and self.ctx == 'tensor' and self.self_attr(n.value) == self.mask_attr:
                return '(p_rg self)', 'bool'
            if n.attr == 'trainable' and self.ctx == 'layer' and self.self_attr(n.value) in self.W.get('maskers', {}):
                k, fld = self.W['maskers'][self.self_attr(n.value)]
                return '(masker_trainable st %s (%s self))' % (k, fld), 'bool'
        self.rej('expression not in the subset', n)

    def comp(self, n, env):
        """{e for x in it} / set(e for x in it) over a generator of (name, param) pairs -> list nat"""
        if len(n.generators) != 1 or n.generators[0].ifs or n.generators[0].is_async:
            self.rej('comprehension', n)
        g = n.generators[0]
        it, shape = self.iterable(g.iter, env)
        env2, binder, _ = self.bind(g.target, shape, env)
        v, k = self.expr(n.elt, env2)
        if k != 'id':
            self.rej('comprehension collects %s' % k, n)
        return '(map (fun %s => %s) %s)' % (binder, v, it)

    # ------------------------------------------------------------------ iterables
    def iterable(self, n, env):
        """-> (Coq list, shape) ; shape: list of component kinds of one element"""
        a = self.self_attr(n)
        if self.ctx == 'model' and a in ('_leaf_modules', '_unique_leaf_modules'):
            return '(%s st)' % a[1:], ['erased', 'erased', 'layer']
        if isinstance(n, ast.Call) and isinstance(n.func, ast.Attribute):
            f = n.func
            m = f.attr
            if _is_name(f.value, 'self') and self.ctx == 'model':
                if m == 'named_modules' and not n.args and not n.keywords:
                    return '(named_modules st)', ['str', 'layer']
                if m == 'named_parameters':
                    self.name_args(n, env)
                    return '(module_named_parameters st)', ['str', 'id']
                if m in self.W.get('self_iters', {}):
                    self.name_args(n, env)
                    t, shape = self.W['self_iters'][m]
                    return t, list(shape)
            if self.ctx == 'layer' and m == 'named_parameters' and self.self_attr(f.value) in self.W.get('maskers', {}):
                self.name_args(n, env)
                k, fld = self.W['maskers'][self.self_attr(f.value)]
                return '(masker_named_parameters st %s (%s self))' % (k, fld), ['str', 'optid']
            if isinstance(f.value, ast.Name) and f.value.id in env and env[f.value.id][1] == 'layer' and m == 'named_nas_parameters' and 'layer_nas' in self.W:
                self.name_args(n, env)
                t, ek = self.W['layer_nas']
                return t % {'l': env[f.value.id][0]}, ['str', ek]
        self.rej('iterable not in the subset', n)

    def bind(self, target, shape, env):
        """loop / comprehension target against the shape of an element -> (env, Coq binder, kind of the element)"""
        env = dict(env)
        vals = [k for k in shape if k not in ('str', 'erased')]
        if len(vals) != 1:
            self.rej('element shape %s' % shape)
        vk = vals[0]
        if isinstance(target, ast.Name):
            if len(shape) == 1:
                env[target.id] = ('v_' + target.id, vk)
            elif len(shape) == 2 and shape[0] == 'str':
                env[target.id] = ('v_' + target.id, 'pair', vk)           # usable as x[1] only
            else:
                self.rej('one name for an element of shape %s' % shape)
            return env, 'v_' + target.id, vk
        if isinstance(target, ast.Tuple) and len(target.elts) == len(shape) and all(isinstance(e, ast.Name) for e in target.elts):
            binder = None
            for e, k in zip(target.elts, shape):
                if k in ('str', 'erased'):
                    env[e.id] = ('', 'str' if k == 'str' else 'erased')
                else:
                    env[e.id] = ('v_' + e.id, k)
                    binder = 'v_' + e.id
            vi = [j for j, k in enumerate(shape) if k == vk][0]
            if any(e.id == target.elts[vi].id for j, e in enumerate(target.elts) if j != vi):
                self.rej('the value component shares its name with another component', target)
            return env, binder, vk
        self.rej('loop target', target)

    # ------------------------------------------------------------------ what a block may change
    def assigned(self, stmts, env):
        """Coq variables (among those that exist in env / the state variables) that the statements may rebind"""
        out = []

        def add(v):
            if v not in out:
                out.append(v)
        for s in stmts:
            for x in ast.walk(s):
                if isinstance(x, (ast.Yield, ast.YieldFrom)):
                    add('out')
                if isinstance(x, (ast.Assign, ast.AugAssign, ast.AnnAssign, ast.Delete)):
                    ts = x.targets if isinstance(x, (ast.Assign, ast.Delete)) else [x.target]
                    for t in ts:
                        if isinstance(t, ast.Name):
                            if isinstance(x, ast.Assign) and isinstance(x.value, ast.Call) and _is_name(x.value.func, 'cast') and len(x.value.args) == 2 \
                                    and _is_name(x.value.args[1], t.id):
                                continue
                            if t.id in env and env[t.id][1] not in ('str', 'rec', 'erased'):
                                add(env[t.id][0])
                        elif isinstance(t, ast.Attribute):
                            add('self' if self.ctx == 'tensor' else 'st')
                        else:
                            self.rej('assignment target', t)
                if isinstance(x, ast.Call) and isinstance(x.func, ast.Attribute):
                    if x.func.attr == 'add' and isinstance(x.func.value, ast.Name) and x.func.value.id in env and env[x.func.value.id][1] == 'set':
                        add(env[x.func.value.id][0])
                    if x.func.attr == 'requires_grad_':
                        add('self' if self.ctx == 'tensor' else 'st')
        return out

    def escapes(self, stmts):
        """break / continue / return at this loop level"""
        for s in stmts:
            if isinstance(s, (ast.Break, ast.Continue, ast.Return)):
                return True
            if isinstance(s, ast.If) and (self.escapes(s.body) or self.escapes(s.orelse)):
                return True
            if isinstance(s, (ast.For, ast.While)) and any(isinstance(x, ast.Return) for b in (s.body, s.orelse) for y in b for x in ast.walk(y)):
                return True
        return False

    def has_break(self, stmts):
        for s in stmts:
            if isinstance(s, ast.Break):
                return True
            if isinstance(s, ast.If) and (self.has_break(s.body) or self.has_break(s.orelse)):
                return True
        return False

    def pat(self, names):
        if len(names) == 1:
            return '(%s : %s)' % (names[0], self.types[names[0]])
        return "'((%s) : %s)" % (', '.join(names), ' * '.join(self.types[v] if ' ' not in self.types[v] else '(%s)' % self.types[v] for v in names))

    def letpat(self, names):
        return names[0] if len(names) == 1 else "'(%s)" % ', '.join(names)

    def order(self, names):
        """canonical order of carried variables: st, self, out, locals by name, brk"""
        rank = {'st': 0, 'self': 1, 'out': 2, 'brk': 9}
        return sorted(set(names), key=lambda v: (rank.get(v, 5), v))

    # ------------------------------------------------------------------ statements
    def term(self, stmts, env, outs, ind, loop=None):
        """Coq term for the tuple `outs` after the statements.  loop: None at function level, else the tuple the enclosing loop carries"""
        pad = '  ' * ind
        stmts = _strip(stmts)
        if not stmts:
            return pad + tup(outs)
        s, rest = stmts[0], stmts[1:]
        if isinstance(s, ast.Pass):
            return self.term(rest, env, outs, ind, loop)
        if isinstance(s, ast.Continue):
            if loop is None or outs != loop:
                self.rej('continue outside the body of a loop (or inside a joined if)')
            return pad + tup(outs)
        if isinstance(s, ast.Break):
            if loop is None or outs != loop or 'brk' not in outs:
                self.rej('break outside the body of a loop')
            return pad + tup(['true' if v == 'brk' else v for v in outs])
        if isinstance(s, ast.Return):
            if loop is not None or s.value is not None and not (isinstance(s.value, ast.Constant) and s.value.value is None):
                self.rej('return inside a loop / of a value', s)
            return pad + tup(outs)
        if isinstance(s, ast.If):
            return self.stmt_if(s, rest, env, outs, ind, loop)
        if isinstance(s, ast.For):
            return self.stmt_for(s, rest, env, outs, ind, loop)
        line, env = self.simple(s, env)
        return (pad + line + '\n' if line else '') + self.term(rest, env, outs, ind, loop)

    def stmt_if(self, s, rest, env, outs, ind, loop):
        pad = '  ' * ind
        t = s.test
        # `x is None` / `x is not None` on something that may be None: a match that refines x
        opt = None
        if isinstance(t, ast.Compare) and len(t.ops) == 1 and isinstance(t.ops[0], (ast.Is, ast.IsNot)) and isinstance(t.left, ast.Name) \
                and isinstance(t.comparators[0], ast.Constant) and t.comparators[0].value is None and env.get(t.left.id, (None, None))[1] == 'optid':
            opt = (t.left.id, isinstance(t.ops[0], ast.IsNot))
        dup = self.escapes(s.body) or self.escapes(s.orelse) or opt is not None
        if dup:
            if loop is not None and outs != loop:
                self.rej('break / continue / None test inside a joined if', s)
            a, b = list(s.body) + rest, list(s.orelse) + rest
            if opt is not None:
                x, positive = opt
                cx = env[x][0]
                env_some = dict(env)
                env_some[x] = (cx, 'id')
                some_b, none_b = (a, b) if positive else (b, a)
                return (pad + 'match %s with\n' % cx + pad + '| None =>\n' + self.term(none_b, env, outs, ind + 1, loop) + '\n' +
                        pad + '| Some %s =>\n' % cx + self.term(some_b, env_some, outs, ind + 1, loop) + '\n' + pad + 'end')
            return (pad + 'if %s then\n' % self.bexpr(t, env) + self.term(a, env, outs, ind + 1, loop) + '\n' + pad + 'else\n' +
                    self.term(b, env, outs, ind + 1, loop))
        ch = self.order(self.assigned(list(s.body) + list(s.orelse), env))
        if not ch:
            self.rej('an if that changes nothing', s)
        return (pad + 'let %s := (if %s then\n' % (self.letpat(ch), self.bexpr(t, env)) +
                self.term(s.body, env, ch, ind + 1, None) + '\n' + pad + 'else\n' +
                self.term(s.orelse, env, ch, ind + 1, None) + ') in\n' + self.term(rest, env, outs, ind, loop))

    def stmt_for(self, s, rest, env, outs, ind, loop):
        pad = '  ' * ind
        if s.orelse:
            self.rej('for / else')
        it, shape = self.iterable(s.iter, env)
        env2, binder, vk = self.bind(s.target, shape, env)
        # a loop over layers that assigns an attribute of the layer itself runs over (position, record) pairs
        positional = vk == 'layer' and any(isinstance(x, (ast.Assign, ast.AugAssign)) and any(
            isinstance(t, ast.Attribute) and isinstance(t.value, ast.Name) and env2.get(t.value.id, ('',))[0] == binder and t.attr in self.W.get('layer_fields', {})
            for t in (x.targets if isinstance(x, ast.Assign) else [x.target])) for b in s.body for x in ast.walk(b))
        carried = self.order(self.assigned(s.body, env) + (['brk'] if self.has_break(s.body) else []))
        if not [v for v in carried if v != 'brk']:
            self.rej('a loop that changes nothing', s)
        if 'brk' in carried and 'brk' in [v for v in outs]:
            self.rej('break in a nested loop of a loop that breaks')
        if positional:
            env2 = dict(env2)
            env2['#pos'] = ('k_' + binder, 'pos')
            it = '(enumerate %s)' % it
            xb = "'((k_%s, %s) : nat * %s)" % (binder, binder, COQTY[vk])
        else:
            xb = '(%s : %s)' % (binder, COQTY[vk])
        body = self.term(s.body, env2, carried, ind + 2, carried)
        if 'brk' in carried:
            body = '  ' * (ind + 1) + 'if brk then %s else\n' % tup(carried) + body
        init = tup(['false' if v == 'brk' else v for v in carried])
        head = pad + 'let %s := fold_left (fun %s %s =>\n' % (self.letpat(carried), self.pat(carried), xb)
        return head + body + ') %s %s in\n' % (it, init) + self.term(rest, env, outs, ind, loop)

    def simple(self, s, env):
        """a statement without control flow -> (one `let ... in` line or '', env)"""
        env = dict(env)
        # ---- yield
        if isinstance(s, ast.Expr) and isinstance(s.value, ast.Yield):
            if not self.out_kind:
                self.rej('yield in a function that is not read as a generator')
            v = s.value.value
            if isinstance(v, ast.Tuple) and len(v.elts) == 2 and self.is_str(v.elts[0], env):
                v = v.elts[1]
            e, k = self.expr(v, env)
            if self.out_kind == 'optid':
                e = {'optid': e, 'id': '(Some %s)' % e, 'none': 'None'}.get(k)
            elif k != 'id':
                e = None
            if e is None:
                self.rej('yield of %s in a generator of %s' % (k, self.out_kind), s)
            return 'let out := out ++ [%s] in' % e, env
        # ---- calls
        if isinstance(s, ast.Expr) and isinstance(s.value, ast.Call) and isinstance(s.value.func, ast.Attribute):
            c, f = s.value, s.value.func
            if f.attr == 'add' and isinstance(f.value, ast.Name) and env.get(f.value.id, (None, None))[1] == 'set' and len(c.args) == 1 and not c.keywords:
                e, k = self.expr(c.args[0], env)
                if k != 'id':
                    self.rej('.add(%s)' % k, s)
                sv = env[f.value.id][0]
                return 'let %s := %s :: %s in' % (sv, e, sv), env
            if f.attr == 'requires_grad_' and len(c.args) <= 1 and not c.keywords:
                b = self.bexpr(c.args[0], env) if c.args else 'true'
                return self.set_rg(f.value, b, env, s), env
        # ---- assignments
        if isinstance(s, ast.AugAssign) and isinstance(s.target, ast.Name) and isinstance(s.op, ast.Add) \
                and env.get(s.target.id, (None, None))[1] == 'str' and self.is_str(s.value, env):
            return '', env
        if isinstance(s, ast.Assign) and len(s.targets) == 1:
            t, v = s.targets[0], s.value
            if isinstance(t, ast.Name):
                if t.id in ('self', 'st', 'out', 'brk'):
                    self.rej('assignment to %s' % t.id)
                if isinstance(v, ast.Call) and _is_name(v.func, 'cast') and len(v.args) == 2 and not v.keywords and _is_name(v.args[1], t.id) \
                        and env.get(t.id, (None, None))[1] == 'layer':
                    return '', env                                        # x = cast(C, x)
                if self.is_str(v, env) and env.get(t.id, (None, 'str'))[1] == 'str':
                    env[t.id] = ('', 'str')
                    return '', env
                e, k = self.expr(v, env)
                if k not in ('set', 'layer', 'id', 'bool') or env.get(t.id, (None, k))[1] != k:
                    self.rej('local %s of kind %s' % (t.id, k), s)
                if isinstance(v, ast.Name) and k == 'set':
                    self.rej('two names for one set', s)
                cv = env[t.id][0] if t.id in env else 'v_' + t.id
                env[t.id] = (cv, k)
                self.types[cv] = COQTY[k]
                return 'let %s : %s := %s in' % (cv, COQTY[k], e), env
            if isinstance(t, ast.Attribute):
                if t.attr == 'requires_grad':
                    return self.set_rg(t.value, self.bexpr(v, env), env, s), env
                a = self.self_attr(t)
                if self.ctx == 'model' and a in FLAGS:
                    return 'let st := %s st %s in' % (FLAGS[a][1], self.bexpr(v, env)), env
                if self.ctx == 'layer' and t.attr == 'trainable' and self.self_attr(t.value) in self.W.get('maskers', {}):
                    k, fld = self.W['maskers'][self.self_attr(t.value)]
                    return 'let st := set_masker_trainable st %s (%s self) %s in' % (k, fld, self.bexpr(v, env)), env
                if isinstance(t.value, ast.Name) and env.get(t.value.id, (None, None))[1] == 'layer':
                    lv = env[t.value.id][0]
                    if t.attr in self.W.get('layer_set', {}):
                        return 'let st := %s in' % (self.W['layer_set'][t.attr] % {'l': lv, 'v': self.bexpr(v, env)}), env
                    if t.attr in self.W.get('layer_fields', {}) and '#pos' in env and env['#pos'][0] == 'k_' + lv:
                        return 'let st := update_layer st k_%s (fun l => %s l %s) in' % (lv, self.W['layer_fields'][t.attr], self.bexpr(v, env)), env
        self.rej('statement not in the subset', s)

    def set_rg(self, target, b, env, s):
        """<target>.requires_grad = b"""
        if self.ctx == 'tensor' and self.self_attr(target) == self.mask_attr:
            return 'let self := set_requires_grad self %s in' % b
        if self.ctx in ('model',) and isinstance(target, ast.Name) and env.get(target.id, (None, None))[1] == 'id':
            return 'let st := update_tensor st %s (fun t => set_requires_grad t %s) in' % (env[target.id][0], b)
        self.rej('requires_grad of something that is not a tensor the translator follows', s)


# ================================================================================================ structure
OK_DECORATORS = ('property', 'abstractmethod', 'staticmethod', 'contextmanager')


def methods_of(cls, rel):
    out = {}
    for m in _strip(cls.body):
        if not isinstance(m, ast.FunctionDef):
            raise Reject('%s: class %s: class-level statement %s' % (rel, cls.name, _u(m)[:100]))
        decs = [_u(d) for d in m.decorator_list]
        key = m.name
        for d in decs:
            if d == m.name + '.setter':
                key = m.name + '.setter'
            elif d not in OK_DECORATORS:
                raise Reject('%s: %s.%s: decorator %s' % (rel, cls.name, m.name, d))
        if key in out:
            raise Reject('%s: class %s defines %s twice' % (rel, cls.name, key))
        out[key] = m
    for k in out:
        if k.endswith('.setter') and ('property' not in [_u(d) for d in out.get(k[:-7], ast.FunctionDef(decorator_list=[])).decorator_list]):
            raise Reject('%s: %s.%s without a property of that name in the same class' % (rel, cls.name, k))
    return out


def classes_of(tree, rel, expected):
    """expected: {class name: [bases]}; exactly these classes, module level holds nothing else that executes"""
    out = {}
    for n in tree.body:
        if isinstance(n, ast.ClassDef):
            if n.name in out or n.decorator_list or n.keywords:
                raise Reject('%s: class %s defined twice / decorated / with a metaclass' % (rel, n.name))
            out[n.name] = n
        elif isinstance(n, (ast.Import, ast.ImportFrom, ast.FunctionDef)):
            continue
        elif isinstance(n, ast.Expr) and isinstance(n.value, ast.Constant) and isinstance(n.value.value, str):
            continue
        elif isinstance(n, ast.Assign) and all(isinstance(t, ast.Name) and (t.id.isupper() or t.id == '__all__') for t in n.targets):
            continue
        else:
            raise Reject('%s: module-level statement %s' % (rel, _u(n)[:100]))
    for c, bases in expected.items():
        if c not in out:
            raise Reject('%s: class %s not found' % (rel, c))
        if [_u(b) for b in out[c].bases] != bases:
            raise Reject('%s: class %s has bases %s, expected %s' % (rel, c, [_u(b) for b in out[c].bases], bases))
    if set(out) != set(expected):
        raise Reject('%s defines classes the translator does not know: %s' % (rel, sorted(set(out) - set(expected))))
    return out


def imports_ok(tree, rel, want):
    """want: {bound name: origin}: every binding of such a name in the module is the expected import"""
    seen = {}
    for n in ast.walk(tree):
        if isinstance(n, ast.Import):
            for a in n.names:
                seen.setdefault(a.asname or a.name.split('.')[0], set()).add(a.name if a.asname else a.name.split('.')[0])
        elif isinstance(n, ast.ImportFrom):
            for a in n.names:
                seen.setdefault(a.asname or a.name, set()).add('%s%s:%s' % ('.' * n.level, n.module or '', a.name))
        else:
            names = []
            if isinstance(n, (ast.FunctionDef, ast.ClassDef)):
                names = [n.name] if n in tree.body else []
            elif isinstance(n, (ast.Assign, ast.AnnAssign, ast.AugAssign, ast.For, ast.NamedExpr)):
                ts = n.targets if isinstance(n, ast.Assign) else [n.target]
                names = [x.id for t in ts for x in ast.walk(t) if isinstance(x, ast.Name)]
            elif isinstance(n, ast.arg):
                names = [n.arg]
            for nm in names:
                if nm in want:
                    raise Reject('%s: the name %s is re-bound' % (rel, nm))
    for nm, origin in want.items():
        if seen.get(nm) != {origin}:
            raise Reject('%s: %s is not %s (%s)' % (rel, nm, origin, sorted(seen.get(nm, []))))


def qualified_functions(tree):
    """[(qualified name, FunctionDef)] for module-level functions and methods (setters as name.setter)"""
    out = []
    for n in tree.body:
        if isinstance(n, ast.FunctionDef):
            out.append((n.name, n))
        elif isinstance(n, ast.ClassDef):
            for m in n.body:
                if isinstance(m, ast.FunctionDef):
                    key = m.name + ('.setter' if any(_u(d) == m.name + '.setter' for d in m.decorator_list) else '')
                    out.append(('%s.%s' % (n.name, key), m))
    return out


def scan_writes(tree, rel, allowed, strict):
    """stores / calls that change what the model tracks, outside the sites in `allowed` (qualified names) -> Reject.
    strict (the files translated here): also setattr / delattr / __dict__ / exec / eval / global"""
    covered = set()
    for q, fn in qualified_functions(tree):
        for x in ast.walk(fn):
            covered.add(id(x))
            bad = None
            if isinstance(x, ast.Attribute) and isinstance(x.ctx, (ast.Store, ast.Del)) and x.attr in WRITE_TRACKED:
                bad = 'stores .%s' % x.attr
            if isinstance(x, ast.Call) and isinstance(x.func, ast.Attribute) and x.func.attr in ('requires_grad_', 'register_parameter'):
                bad = 'calls .%s()' % x.func.attr
            if strict:
                if isinstance(x, ast.Call) and isinstance(x.func, ast.Name) and x.func.id in ('setattr', 'delattr', 'exec', 'eval'):
                    bad = 'calls %s' % x.func.id
                if isinstance(x, ast.Attribute) and (x.attr in ('__dict__', '__setattr__', '__delattr__') or (x.attr == '__class__' and not isinstance(x.ctx, ast.Load))):
                    bad = 'uses %s' % x.attr
                if isinstance(x, (ast.Global, ast.Nonlocal)):
                    bad = 'global / nonlocal'
            if bad and q not in allowed:
                raise Reject('%s: %s %s (line %d): a change of the trainability state outside the translated functions' % (rel, q, bad, getattr(x, 'lineno', 0)))
    for x in ast.walk(tree):
        if id(x) not in covered and isinstance(x, ast.Attribute) and isinstance(x.ctx, (ast.Store, ast.Del)) and x.attr in WRITE_TRACKED:
            raise Reject('%s: module / class level store to .%s' % (rel, x.attr))


def norm_text(fn):
    """text of a function without docstrings (comments and layout are not in the AST)"""
    fn = ast.parse(ast.unparse(fn)).body[0]
    for x in ast.walk(fn):
        if isinstance(x, (ast.FunctionDef, ast.ClassDef)):
            x.body = _strip(x.body) or [ast.Pass()]
    return ast.unparse(fn)


def params_of(fn, where):
    a = fn.args
    if a.vararg or a.kwarg or a.kwonlyargs or a.posonlyargs or not a.args or a.args[0].arg != 'self':
        raise Reject('%s: signature' % where)
    return a.args[1:], [None] * (len(a.args) - 1 - len(a.defaults)) + list(a.defaults)


def named_sig(fn, where):
    """(self, prefix: str = '', recurse: bool = ..) -> env"""
    ps, ds = params_of(fn, where)
    if [p.arg for p in ps] != ['prefix', 'recurse'] or not (isinstance(ds[0], ast.Constant) and ds[0].value == '') \
            or not (isinstance(ds[1], ast.Constant) and isinstance(ds[1].value, bool)):
        raise Reject('%s: signature is not (self, prefix: str = \'\', recurse: bool = ..)' % where)
    return {'prefix': ('', 'str'), 'recurse': ('', 'rec')}


def value_sig(fn, where):
    ps, ds = params_of(fn, where)
    if len(ps) != 1 or ds[0] is not None or (ps[0].annotation is not None and _u(ps[0].annotation) != 'bool'):
        raise Reject('%s: signature is not (self, <value>: bool)' % where)
    return {ps[0].arg: ('v_' + ps[0].arg, 'bool')}, 'v_' + ps[0].arg


def noarg_sig(fn, where, allow_recurse=False):
    ps, ds = params_of(fn, where)
    if allow_recurse and [p.arg for p in ps] == ['recurse'] and isinstance(ds[0], ast.Constant) and ds[0].value is True:
        return {'recurse': ('', 'rec')}
    if ps:
        raise Reject('%s: takes arguments' % where)
    return {}


def decorators(fn, want, where):
    if sorted(_u(d) for d in fn.decorator_list) != sorted(want):
        raise Reject('%s: decorators %s, expected %s' % (where, [_u(d) for d in fn.decorator_list], want))


def gen_generator(where, fn, ctx, W, name, sig, out_kind, env, mask_attr=None):
    tr = Tr(where, ctx, W, out_kind=out_kind, mask_attr=mask_attr)
    body = tr.term(fn.body, env, ['out'], 1)
    ty = tr.types['out']
    return 'Definition %s %s : %s :=\n  let out : %s := [] in\n%s.\n' % (name, sig, ty, ty, body)


def gen_setter(where, fn, ctx, W, name, sig, env, mask_attr=None):
    tr = Tr(where, ctx, W, mask_attr=mask_attr)
    sv = 'self' if ctx == 'tensor' else 'st'
    body = tr.term(fn.body, env, [sv], 1)
    return 'Definition %s %s : %s :=\n%s.\n' % (name, sig, tr.types[sv], body)


def gen_getter(where, fn, ctx, W, name, sig, env, mask_attr=None):
    """a property whose body is `return <boolean expression>`"""
    tr = Tr(where, ctx, W, mask_attr=mask_attr)
    b = _strip(fn.body)
    if len(b) != 1 or not isinstance(b[0], ast.Return) or b[0].value is None:
        raise Reject('%s: the property is not a single return' % where)
    return 'Definition %s %s : bool :=\n  %s.\n' % (name, sig, tr.bexpr(b[0].value, env))


# ================================================================================================ the maskers
MASKER_FILES = {
    'features': ('features_masker.py', 'PITFeaturesMasker', 'PITFrozenFeaturesMasker', 'alpha', 'KFeatures',
                 {'__init__', 'theta', '_generate_keep_alive_mask', 'trainable', 'trainable.setter'}, {'__init__', 'theta', 'trainable', 'trainable.setter'}),
    'timestep': ('timestep_masker.py', 'PITTimestepMasker', 'PITFrozenTimestepMasker', 'beta', 'KTimestep',
                 {'__init__', 'theta', '_generate_keep_alive_mask', '_generate_c_matrix', 'trainable', 'trainable.setter'}, {'__init__', 'trainable', 'trainable.setter'}),
    'dilation': ('dilation_masker.py', 'PITDilationMasker', 'PITFrozenDilationMasker', 'gamma', 'KDilation',
                 {'__init__', 'theta', '_generate_keep_alive_mask', '_generate_c_matrix', '_gamma_len', 'trainable', 'trainable.setter'}, {'__init__', 'trainable', 'trainable.setter'}),
}


def _is_parameter_call(v):
    return isinstance(v, ast.Call) and _u(v.func) in ('Parameter', 'nn.Parameter', 'nn.parameter.Parameter', 'torch.nn.Parameter', 'torch.nn.parameter.Parameter')


def _mentions_registration(n):
    for x in ast.walk(n):
        if _is_parameter_call(x):
            return True
        if isinstance(x, ast.Call) and isinstance(x.func, ast.Attribute) and x.func.attr in ('register_buffer', 'register_parameter', 'requires_grad_', '__setattr__', '__delattr__'):
            return True
    return False


def masker_init(fn, rel, cname, attr, base):
    """the registration status of the mask attribute after __init__ -> (Coq body lines, final static status).
    base: None for the nn.Module subclass, else (name of the generated init of the base class, its final status, base class name)"""
    where = '%s: %s.__init__' % (rel, cname)
    decorators(fn, [], where)
    lines = ['let r_%s : reg := RAbsent in' % attr]
    cur = 'RAbsent'
    seen_super = False
    for s in _strip(fn.body):
        u = _u(s)
        if isinstance(s, ast.Expr) and isinstance(s.value, ast.Call) and isinstance(s.value.func, ast.Attribute) and s.value.func.attr == '__init__' \
                and _u(s.value.func.value) in ('super(%s, self)' % cname, 'super()'):
            if seen_super or len(lines) > 1:
                raise Reject('%s: super().__init__ is not the first statement' % where)
            seen_super = True
            if base is None:
                if s.value.args or s.value.keywords:
                    raise Reject('%s: nn.Module.__init__ with arguments' % where)
            else:
                lines.append('let r_%s : reg := %s in' % (attr, base[0]))
                cur = base[1]
            continue
        if not seen_super:
            raise Reject('%s: a statement before super().__init__: %s' % (where, u[:100]))
        if isinstance(s, ast.Assign) and len(s.targets) == 1 and isinstance(s.targets[0], ast.Attribute) and _is_name(s.targets[0].value, 'self'):
            a, v = s.targets[0].attr, s.value
            if a == attr:
                if not _is_parameter_call(v) or cur == 'RBuffer':
                    raise Reject('%s: the mask attribute %s gets something that is not a fresh Parameter: %s' % (where, attr, u[:120]))
                lines.append('let r_%s : reg := RParam in' % attr)
                cur = 'RParam'
            elif a == 'trainable':
                if cur != 'RParam' and cur != 'RBuffer':
                    raise Reject('%s: self.trainable is set before the mask exists' % where)
            elif _mentions_registration(v) or a in WRITE_TRACKED:
                raise Reject('%s: %s' % (where, u[:120]))
            continue
        if isinstance(s, ast.Assign) and len(s.targets) == 1 and isinstance(s.targets[0], ast.Name) and s.targets[0].id != 'self' and not _mentions_registration(s.value):
            continue
        if isinstance(s, ast.Expr) and isinstance(s.value, ast.Call) and _u(s.value.func) == 'self.register_buffer' and s.value.args \
                and isinstance(s.value.args[0], ast.Constant) and isinstance(s.value.args[0].value, str):
            if s.value.args[0].value == attr:
                if cur != 'RAbsent':
                    raise Reject('%s: register_buffer(%r) over an attribute that exists (torch raises KeyError)' % (where, attr))
                lines.append('let r_%s : reg := RBuffer in' % attr)
                cur = 'RBuffer'
            continue
        if isinstance(s, ast.Delete) and len(s.targets) == 1 and _u(s.targets[0]) == 'self.' + attr:
            if cur == 'RAbsent':
                raise Reject('%s: del of a mask that does not exist' % where)
            lines.append('let r_%s : reg := RAbsent in' % attr)
            cur = 'RAbsent'
            continue
        raise Reject('%s: statement not in the subset: %s' % (where, u[:120]))
    if not seen_super:
        raise Reject('%s: no super().__init__' % where)
    lines.append('r_%s' % attr)
    return lines, cur


def translate_masker(src, rel, short):
    fname, Base, Frozen, attr, kind, base_methods, frozen_methods = MASKER_FILES[short]
    tree = ast.parse(src)
    cl = classes_of(tree, rel, {Base: ['nn.Module'], Frozen: [Base]})
    imports_ok(tree, rel, {'nn': 'torch.nn', 'Parameter': 'torch.nn.parameter:Parameter'})
    out = ''
    info = {}
    for cname, want, pre in ((Base, base_methods, short + '_masker'), (Frozen, frozen_methods, 'frozen_' + short + '_masker')):
        ms = methods_of(cl[cname], rel)
        if cname == Frozen and 'trainable' not in ms and 'trainable.setter' not in ms:
            want = want - {'trainable', 'trainable.setter'}
        if set(ms) != want:
            raise Reject('%s: %s defines %s, expected exactly %s' % (rel, cname, sorted(set(ms) ^ want), sorted(want)))
        for k, m in ms.items():
            if k == '__init__':
                continue
            for x in ast.walk(m):
                if isinstance(x, ast.Attribute) and x.attr == attr and isinstance(x.ctx, (ast.Store, ast.Del)):
                    raise Reject('%s: %s.%s re-binds the mask attribute' % (rel, cname, k))
                if isinstance(x, ast.Call) and isinstance(x.func, ast.Attribute) and x.func.attr in ('register_buffer', 'register_parameter'):
                    raise Reject('%s: %s.%s registers a tensor' % (rel, cname, k))
        base = None if cname == Base else (short + '_masker_init_gen', info[Base]['reg'], Base)
        lines, cur = masker_init(ms['__init__'], rel, cname, attr, base)
        out += 'Definition %s_init_gen : reg :=\n%s.\n' % (pre, '\n'.join('  ' + ln for ln in lines))
        info[cname] = {'reg': cur}
        if 'trainable' in ms:
            if 'trainable.setter' not in ms:
                raise Reject('%s: %s overrides the property `trainable` without a setter (assignment would raise)' % (rel, cname))
            g, st_ = ms['trainable'], ms['trainable.setter']
            decorators(g, ['property'], '%s: %s.trainable' % (rel, cname))
            decorators(st_, ['trainable.setter'], '%s: %s.trainable.setter' % (rel, cname))
            noarg_sig(g, '%s: %s.trainable' % (rel, cname))
            env, _ = value_sig(st_, '%s: %s.trainable.setter' % (rel, cname))
            vn = list(env.values())[0][0]
            out += gen_getter('%s: %s.trainable' % (rel, cname), g, 'tensor', {}, pre + '_trainable_gen', '(self : ptensor)', {}, mask_attr=attr)
            out += gen_setter('%s: %s.trainable.setter' % (rel, cname), st_, 'tensor', {}, pre + '_set_trainable_gen', '(self : ptensor) (%s : bool)' % vn, env, mask_attr=attr)
        else:   # inherited
            out += 'Definition %s_trainable_gen (self : ptensor) : bool := %s_masker_trainable_gen self.   (* inherited *)\n' % (pre, short)
            out += 'Definition %s_set_trainable_gen (self : ptensor) (value : bool) : ptensor := %s_masker_set_trainable_gen self value.   (* inherited *)\n' % (pre, short)
    allowed = {'%s.%s' % (c, k) for c in (Base, Frozen) for k in ('__init__', 'trainable.setter')}
    scan_writes(tree, rel, allowed, True)
    return out


def masker_dispatch():
    ks = [('KFeatures', 'features'), ('KTimestep', 'timestep'), ('KDilation', 'dilation')]
    out = '(* dynamic dispatch on the class of the masker that owns the tensor: (kind of the masker, p_frozen = the Frozen subclass) *)\n'
    out += 'Definition masker_mask_reg_gen (k : mkind) (frozen : bool) : reg :=\n  match k, frozen with\n'
    for K, sh in ks:
        out += '  | %s, false => %s_masker_init_gen | %s, true => frozen_%s_masker_init_gen\n' % (K, sh, K, sh)
    out += '  end.\nDefinition masker_set_trainable_gen (k : mkind) (self : ptensor) (value : bool) : ptensor :=\n  match k, p_frozen self with\n'
    for K, sh in ks:
        out += '  | %s, false => %s_masker_set_trainable_gen self value | %s, true => frozen_%s_masker_set_trainable_gen self value\n' % (K, sh, K, sh)
    out += '  end.\nDefinition masker_trainable_gen (k : mkind) (self : ptensor) : bool :=\n  match k, p_frozen self with\n'
    for K, sh in ks:
        out += '  | %s, false => %s_masker_trainable_gen self | %s, true => frozen_%s_masker_trainable_gen self\n' % (K, sh, K, sh)
    return out + '  end.\n'


# ================================================================================================ the PIT layers
LAYER_FILES = [
    ('conv1d', 'conv1d.py', 'PITConv1d', ['nn.Conv1d', 'PITModule'], 'LConv1d'),
    ('conv2d', 'conv2d.py', 'PITConv2d', ['nn.Conv2d', 'PITModule'], 'LConv2d'),
    ('linear', 'linear.py', 'PITLinear', ['nn.Linear', 'PITModule'], 'LLinear'),
    ('batchnorm1d', 'batchnorm_1d.py', 'PITBatchNorm1d', ['nn.BatchNorm1d', 'PITModule'], 'LBatchNorm1d'),
    ('batchnorm2d', 'batchnorm_2d.py', 'PITBatchNorm2d', ['nn.BatchNorm2d', 'PITModule'], 'LBatchNorm2d'),
]
PIT_NN_FILES = {'__init__.py', 'binarizer.py', 'module.py', 'features_masker.py', 'timestep_masker.py', 'dilation_masker.py'} | {f[1] for f in LAYER_FILES}
STRIDE_TEXT = 'stride = submodule.stride if isinstance(submodule.stride, int) else submodule.stride[0]'


def translate_layer(src, rel, short, cname, bases):
    tree = ast.parse(src)
    cl = classes_of(tree, rel, {cname: bases})
    want = {'nn': 'torch.nn', 'PITModule': '.module:PITModule'}
    ms = methods_of(cl[cname], rel)
    if '__init__' not in ms or 'named_nas_parameters' not in ms:
        raise Reject('%s: %s lacks __init__ / named_nas_parameters' % (rel, cname))
    # the masker attributes: `self.<m> = <m>` in __init__, parameter annotated with the masker class
    init = ms['__init__']
    ann = {a.arg: (_u(a.annotation) if a.annotation is not None else '') for a in init.args.args}
    maskers, discrete = {}, False
    for k, m in ms.items():
        for x in ast.walk(m):
            if isinstance(x, ast.Attribute) and isinstance(x.ctx, (ast.Store, ast.Del)) and (x.attr in MASKERS or x.attr == 'discrete_cost'):
                ok = k == '__init__' and _is_name(x.value, 'self') and isinstance(x.ctx, ast.Store)
                if not ok:
                    raise Reject('%s: %s.%s re-binds %s' % (rel, cname, k, x.attr))
    for s_ in ast.walk(init):
        if isinstance(s_, (ast.Assign, ast.AnnAssign, ast.AugAssign)):
            ts = s_.targets if isinstance(s_, ast.Assign) else [s_.target]
            for t in ts:
                for x in ast.walk(t):
                    if isinstance(x, ast.Attribute) and x.attr in MASKERS:
                        if not (isinstance(s_, ast.Assign) and len(ts) == 1 and x is t and _is_name(s_.value, x.attr) and ann.get(x.attr) == MASKERS[x.attr][2]) or x.attr in maskers:
                            raise Reject('%s: %s.__init__: %s is not stored once from the parameter of that name annotated %s' % (rel, cname, x.attr, MASKERS[x.attr][2]))
                        maskers[x.attr] = MASKERS[x.attr][:2]
                        want[MASKERS[x.attr][2]] = '.%s_masker:%s' % ({'out_features_masker': 'features', 'timestep_masker': 'timestep', 'dilation_masker': 'dilation'}[x.attr], MASKERS[x.attr][2])
                    if isinstance(x, ast.Attribute) and x.attr == 'discrete_cost':
                        if not (isinstance(s_, ast.Assign) and len(ts) == 1 and x is t and s_ in init.body):
                            raise Reject('%s: %s.__init__: discrete_cost is not a plain attribute assigned at the top level of __init__' % (rel, cname))
                        discrete = True
    imports_ok(tree, rel, want)
    W = {'maskers': maskers}
    out = '(* ---- %s *)\n' % cname
    nn_ = ms['named_nas_parameters']
    where = '%s: %s.named_nas_parameters' % (rel, cname)
    decorators(nn_, [], where)
    out += gen_generator(where, nn_, 'layer', W, short + '_named_nas_parameters_gen', '(st : tstate) (self : layer)', 'optid', named_sig(nn_, where))
    has = {}
    allowed = {cname + '.__init__'}
    for sw in SWITCHES:
        has[sw] = sw in ms
        if sw + '.setter' in ms and sw not in ms:
            raise Reject('%s: %s.%s.setter without the property' % (rel, cname, sw))
        if not has[sw]:
            continue
        if sw + '.setter' not in ms:
            raise Reject('%s: %s.%s is a read-only property (the model-level setter assigns it)' % (rel, cname, sw))
        g, st_ = ms[sw], ms[sw + '.setter']
        decorators(g, ['property'], '%s: %s.%s' % (rel, cname, sw))
        decorators(st_, [sw + '.setter'], '%s: %s.%s.setter' % (rel, cname, sw))
        noarg_sig(g, '%s: %s.%s' % (rel, cname, sw))
        env, vn = value_sig(st_, '%s: %s.%s.setter' % (rel, cname, sw))
        out += gen_getter('%s: %s.%s' % (rel, cname, sw), g, 'layer', W, '%s_%s_gen' % (short, sw), '(st : tstate) (self : layer)', {})
        out += gen_setter('%s: %s.%s.setter' % (rel, cname, sw), st_, 'layer', W, '%s_set_%s_gen' % (short, sw), '(st : tstate) (self : layer) (%s : bool)' % vn, env)
        allowed.add('%s.%s.setter' % (cname, sw))
    if 'discrete_cost' in ms or 'discrete_cost.setter' in ms:
        raise Reject('%s: %s.discrete_cost is a property' % (rel, cname))
    scan_writes(tree, rel, allowed, True)
    extra = ''
    if short == 'conv1d':
        extra = conv1d_autoimport(ms, rel)
    return out + extra, {'has': has, 'discrete': discrete, 'maskers': maskers}


def conv1d_autoimport(ms, rel):
    """which masker classes PITConv1d.autoimport builds for a stride: Frozen iff stride != 1"""
    where = '%s: PITConv1d.autoimport' % rel
    if 'autoimport' not in ms:
        raise Reject(where + ' not found')
    fn = ms['autoimport']
    decorators(fn, ['staticmethod'], where)
    classes = {'PITTimestepMasker': ('timestep', False), 'PITFrozenTimestepMasker': ('timestep', True),
               'PITDilationMasker': ('dilation', False), 'PITFrozenDilationMasker': ('dilation', True)}
    body = _strip(fn.body)
    if sum(1 for s in body if _u(s) == STRIDE_TEXT) != 1 or any(isinstance(t, ast.Name) and t.id in ('stride', 'rf') for s in ast.walk(fn) if isinstance(s, (ast.Assign, ast.AugAssign, ast.AnnAssign))
                                                              for t in (s.targets if isinstance(s, ast.Assign) else [s.target]) if _u(s) != STRIDE_TEXT and _u(s) != 'rf = submodule.kernel_size[0]'):
        raise Reject('%s: `stride` is not bound once by `%s`' % (where, STRIDE_TEXT))
    found = {}
    out = ''
    for s in ast.walk(fn):
        uses = [x for x in ast.walk(s) if isinstance(x, ast.Name) and x.id in classes] if isinstance(s, ast.stmt) and not isinstance(s, (ast.FunctionDef, ast.If, ast.For, ast.With, ast.Try)) else []
        if not uses:
            continue
        if s not in body or not (isinstance(s, ast.Assign) and len(s.targets) == 1 and isinstance(s.targets[0], ast.Name) and isinstance(s.value, ast.IfExp)):
            raise Reject('%s: a masker is built outside `x = Frozen(rf) if stride != 1 else Plain(rf)`: %s' % (where, _u(s)[:120]))
        e = s.value
        t = e.test
        neg = False
        if isinstance(t, ast.UnaryOp) and isinstance(t.op, ast.Not):
            neg, t = True, t.operand
        if not (isinstance(t, ast.Compare) and len(t.ops) == 1 and isinstance(t.ops[0], (ast.Eq, ast.NotEq))):
            raise Reject('%s: test %s' % (where, _u(e.test)))
        l, r = t.left, t.comparators[0]
        if _is_name(r, 'stride'):
            l, r = r, l
        if not (_is_name(l, 'stride') and isinstance(r, ast.Constant) and r.value == 1 and type(r.value) is int):
            raise Reject('%s: test %s' % (where, _u(e.test)))
        c = '(Z.eqb stride 1)' if isinstance(t.ops[0], ast.Eq) else '(negb (Z.eqb stride 1))'
        if neg:
            c = '(negb %s)' % c
        br = []
        for b in (e.body, e.orelse):
            if not (isinstance(b, ast.Call) and isinstance(b.func, ast.Name) and b.func.id in classes and [_u(a) for a in b.args] == ['rf'] and not b.keywords):
                raise Reject('%s: masker construction %s' % (where, _u(b)))
            br.append(classes[b.func.id])
        if br[0][0] != br[1][0] or br[0][0] in found:
            raise Reject('%s: the two branches build maskers of different kinds / a kind is built twice' % where)
        found[br[0][0]] = s.targets[0].id
        out += 'Definition conv1d_autoimport_%s_frozen_gen (stride : Z) : bool :=\n  if %s then %s else %s.\n' % (
            br[0][0], c, 'true' if br[0][1] else 'false', 'true' if br[1][1] else 'false')
    if set(found) != {'timestep', 'dilation'}:
        raise Reject('%s: the timestep / dilation maskers are not both chosen by the stride' % where)
    calls = [x for x in ast.walk(fn) if isinstance(x, ast.Call) and _is_name(x.func, 'PITConv1d')]
    if len(calls) != 1 or {k.arg: _u(k.value) for k in calls[0].keywords if k.arg in ('timestep_masker', 'dilation_masker')} != \
            {'timestep_masker': found['timestep'], 'dilation_masker': found['dilation']}:
        raise Reject('%s: the maskers chosen by the stride are not the ones handed to PITConv1d(...)' % where)
    return out


def translate_pit_module(src, rel):
    tree = ast.parse(src)
    cl = classes_of(tree, rel, {'PITModule': []})
    ms = methods_of(cl['PITModule'], rel)
    b = _strip(ms.get('named_nas_parameters', ast.FunctionDef(body=[])).body)
    if len(b) != 1 or not isinstance(b[0], ast.Raise):
        raise Reject('%s: PITModule.named_nas_parameters is not abstract' % rel)
    for k in ms:
        if k.split('.')[0] in SWITCHES + ('discrete_cost', 'named_parameters', 'trainable'):
            raise Reject('%s: PITModule defines %s (every layer class would inherit it)' % (rel, k))
    scan_writes(tree, rel, set(), True)


def layer_dispatch(infos):
    cons = [(f[4], f[0]) for f in LAYER_FILES]
    out = '(* dynamic dispatch on the class of the layer (generated from the class definitions) *)\n'
    out += 'Definition pit_layer_named_nas_parameters_gen (st : tstate) (c : lclass) (self : layer) : list (option nat) :=\n  match c with\n'
    for L, sh in cons:
        out += '  | %s => %s_named_nas_parameters_gen st self\n' % (L, sh)
    out += '  end.\n'
    for sw in SWITCHES + ('discrete_cost',):
        out += 'Definition pit_class_has_%s_gen (c : lclass) : bool :=\n  match c with\n' % sw
        for L, sh in cons:
            h = infos[sh]['discrete'] if sw == 'discrete_cost' else infos[sh]['has'][sw]
            out += '  | %s => %s\n' % (L, 'true' if h else 'false')
        out += '  end.\n'
    for sw in SWITCHES:
        out += '(* `layer.%s = value`: the property setter of the class; a class without that property gets a plain attribute *)\n' % sw
        out += 'Definition pit_layer_set_%s_gen (st : tstate) (c : lclass) (self : layer) (value : bool) : tstate :=\n  match c with\n' % sw
        for L, sh in cons:
            out += '  | %s => %s\n' % (L, '%s_set_%s_gen st self value' % (sh, sw) if infos[sh]['has'][sw] else 'st')
        out += '  end.\n'
    return out


# ================================================================================================ the NAS models
DNAS_METHODS = {'__init__', 'forward', 'cost_specification', 'cost_specification.setter', 'cost', 'export', '_preserve_state', 'summary', 'get_cost',
                '_get_single_cost', '_create_cost_fn_map', '_single_cost_fn_map', 'train_nas_only', 'train_net_only', 'train_net_and_nas',
                'named_nas_parameters', 'nas_parameters', 'named_net_parameters', 'net_parameters', '_resolve_input_example'}
PIT_METHODS = {'__init__', 'forward', 'cost_specification', 'cost_specification.setter', 'discrete_cost', 'discrete_cost.setter', 'train_features',
               'train_features.setter', 'train_rf', 'train_rf.setter', 'train_dilation', 'train_dilation.setter', 'export', 'summary',
               'named_nas_parameters', 'named_net_parameters', '_get_single_cost', '_single_cost_fn_map', '__str__'}
MPS_METHODS = {'__init__', 'forward', 'cost_specification', 'cost_specification.setter', 'update_softmax_options', 'compensate_weights_values', 'export',
               'summary', 'nas_parameters_summary', 'alpha_summary', 'theta_alpha_summary', 'named_nas_parameters', 'named_net_parameters',
               '_get_single_cost', '_single_cost_fn_map', '__str__'}
SN_METHODS = {'__init__', 'forward', 'cost_specification', 'cost_specification.setter', 'train_selection', 'train_selection.setter', 'get_total_icv',
              'update_softmax_options', 'export', 'summary', 'named_nas_parameters', 'named_net_parameters', '_get_single_cost', '_single_cost_fn_map', '__str__'}
COMB_METHODS = {'__init__', 'set_sn_branch', 'get_cost', 'sample_alpha_sm', 'sample_alpha_gs', 'forward', 'best_layer_index', 'softmax_temperature',
                'softmax_temperature.setter', 'summary', 'train_selection', 'train_selection.setter', 'named_nas_parameters', 'nas_parameters'}

PINNED_TEXT = {
    'DNAS._preserve_state': """@contextmanager
def _preserve_state(self):
    modes = [(m, m.training) for m in self.modules()]
    tensors = []
    for m in self.modules():
        for k, v in list(m._buffers.items()) + list(vars(m).items()):
            if isinstance(v, torch.Tensor) and (not isinstance(v, nn.Parameter)):
                tensors.append((m, k, v))
    cuda = [self._device] if self._device.type == 'cuda' else []
    try:
        with torch.random.fork_rng(devices=cuda):
            yield
    finally:
        for m, mode in modes:
            m.training = mode
        for m, k, v in tensors:
            setattr(m, k, v)""",
    'MPS.update_softmax_options': """def update_softmax_options(self, temperature: Optional[float]=None, hard: Optional[bool]=None, gumbel: Optional[bool]=None, disable_sampling: Optional[bool]=None):
    for _, _, layer in self._unique_leaf_modules:
        if isinstance(layer, MPSModule):
            layer.update_softmax_options(temperature, hard, gumbel, disable_sampling)""",
    'SuperNet.update_softmax_options': """def update_softmax_options(self, temperature: Optional[float]=None, hard: Optional[bool]=None):
    for _, _, layer in self._unique_leaf_modules:
        if isinstance(layer, SuperNetCombiner):
            if temperature is not None:
                layer.softmax_temperature = temperature
            if hard is not None:
                layer.hard_softmax = hard""",
}


def pin_text(ms, cname, name, rel):
    key = '%s.%s' % (cname, name)
    if ast.dump(ast.parse(norm_text(ms[name]))) != ast.dump(ast.parse(PINNED_TEXT[key])):
        raise Reject('%s: %s is not the function the model was written for (pinned by its text, docstrings excluded)' % (rel, key))


def model_class(tree, rel, cname, methods, extra_imports):
    cl = classes_of(tree, rel, {cname: ['DNAS']})
    want = {'DNAS': 'plinio.methods.dnas_base:DNAS', 'nn': 'torch.nn'}
    want.update(extra_imports)
    imports_ok(tree, rel, want)
    ms = methods_of(cl[cname], rel)
    if set(ms) != methods:
        raise Reject('%s: %s defines %s which the translator does not know / lacks %s (an override of train_* / nas_parameters / net_parameters would bypass DNAS)' % (
            rel, cname, sorted(set(ms) - methods), sorted(methods - set(ms))))
    init = ms['__init__']
    n = sum(1 for x in ast.walk(init) if isinstance(x, ast.Attribute) and isinstance(x.ctx, ast.Store) and x.attr in ('_leaf_modules', '_unique_leaf_modules'))
    conv = [s for s in init.body if isinstance(s, ast.Assign) and _u(s.targets[0]) == '(self.seed, self._leaf_modules, self._unique_leaf_modules)'
            and isinstance(s.value, ast.Call) and _is_name(s.value.func, 'convert')]
    if n != 2 or len(conv) != 1:
        raise Reject('%s: %s.__init__ does not bind _leaf_modules / _unique_leaf_modules once, from convert(..)' % (rel, cname))
    return ms


def named_pair(ms, rel, cname, pre, W):
    """named_nas_parameters / named_net_parameters of a NAS model"""
    out = ''
    for nm in ('named_nas_parameters', 'named_net_parameters'):
        where = '%s: %s.%s' % (rel, cname, nm)
        decorators(ms[nm], [], where)
        out += gen_generator(where, ms[nm], 'model', W, '%s_%s_gen' % (pre, nm), '(st : tstate)', 'id', named_sig(ms[nm], where))
    return out


def switch_pair(ms, rel, cname, pre, W, sw):
    g, st_ = ms[sw], ms[sw + '.setter']
    decorators(g, ['property'], '%s: %s.%s' % (rel, cname, sw))
    decorators(st_, [sw + '.setter'], '%s: %s.%s.setter' % (rel, cname, sw))
    noarg_sig(g, '%s: %s.%s' % (rel, cname, sw))
    env, vn = value_sig(st_, '%s: %s.%s.setter' % (rel, cname, sw))
    return (gen_getter('%s: %s.%s' % (rel, cname, sw), g, 'model', W, '%s_%s_gen' % (pre, sw), '(st : tstate)', {}) +
            gen_setter('%s: %s.%s.setter' % (rel, cname, sw), st_, 'model', W, '%s_set_%s_gen' % (pre, sw), '(st : tstate) (%s : bool)' % vn, env))


def translate_dnas(src, rel):
    tree = ast.parse(src)
    cl = classes_of(tree, rel, {'DNAS': ['nn.Module']})
    imports_ok(tree, rel, {'nn': 'torch.nn', 'torch': 'torch'})
    ms = methods_of(cl['DNAS'], rel)
    if set(ms) != DNAS_METHODS:
        raise Reject('%s: DNAS defines %s which the translator does not know / lacks %s' % (rel, sorted(set(ms) - DNAS_METHODS), sorted(DNAS_METHODS - set(ms))))
    for nm in ('named_nas_parameters', 'named_net_parameters'):
        b = _strip(ms[nm].body)
        if len(b) != 1 or not isinstance(b[0], ast.Raise):
            raise Reject('%s: DNAS.%s is not abstract' % (rel, nm))
    pin_text(ms, 'DNAS', '_preserve_state', rel)
    sig = '(named_nas named_net : tstate -> list nat) (st : tstate)'
    W = {'self_iters': {'named_nas_parameters': ('(named_nas st)', ['str', 'id']), 'named_net_parameters': ('(named_net st)', ['str', 'id'])}}
    out = ''
    for nm in ('nas_parameters', 'net_parameters'):
        where = '%s: DNAS.%s' % (rel, nm)
        decorators(ms[nm], [], where)
        out += gen_generator(where, ms[nm], 'model', W, 'dnas_%s_gen' % nm, sig, 'id', noarg_sig(ms[nm], where, allow_recurse=True))
    W = dict(W)
    W['self_iters'] = dict(W['self_iters'], nas_parameters=('(dnas_nas_parameters_gen named_nas named_net st)', ['id']),
                           net_parameters=('(dnas_net_parameters_gen named_nas named_net st)', ['id']))
    for nm in ('train_nas_only', 'train_net_only', 'train_net_and_nas'):
        where = '%s: DNAS.%s' % (rel, nm)
        decorators(ms[nm], [], where)
        out += gen_setter(where, ms[nm], 'model', W, 'dnas_%s_gen' % nm, sig, noarg_sig(ms[nm], where))
    scan_writes(tree, rel, {'DNAS.train_nas_only', 'DNAS.train_net_only', 'DNAS.train_net_and_nas', 'DNAS._preserve_state'}, True)
    return out


def translate_pit(src, rel):
    tree = ast.parse(src)
    ms = model_class(tree, rel, 'PIT', PIT_METHODS, {'PITModule': '.nn.module:PITModule', 'cast': 'typing:cast'})
    W = {'isinstance': {'PITModule': 'is_pit_module'},
         'hasattr': {sw: '(pit_class_has_%s_gen (pit_class %%s))' % sw for sw in SWITCHES + ('discrete_cost',)},
         'layer_nas': ('(pit_layer_named_nas_parameters_gen st (pit_class %(l)s) %(l)s)', 'optid'),
         'layer_set': {sw: 'pit_layer_set_%s_gen st (pit_class %%(l)s) %%(l)s %%(v)s' % sw for sw in SWITCHES},
         'layer_fields': {'discrete_cost': 'with_disc'},
         'self_iters': {'named_nas_parameters': ('(pit_named_nas_parameters_gen st)', ['str', 'id'])}}
    out = named_pair(ms, rel, 'PIT', 'pit', W)
    for sw in SWITCHES + ('discrete_cost',):
        out += switch_pair(ms, rel, 'PIT', 'pit', W, sw)
    scan_writes(tree, rel, {'PIT.__init__'} | {'PIT.%s.setter' % sw for sw in SWITCHES + ('discrete_cost',)}, True)
    return out


def translate_mps(src, rel):
    tree = ast.parse(src)
    ms = model_class(tree, rel, 'MPS', MPS_METHODS, {'MPSModule': '.nn.module:MPSModule'})
    pin_text(ms, 'MPS', 'update_softmax_options', rel)
    W = {'isinstance': {'MPSModule': 'is_mps_module'},
         'layer_nas': ('(mps_layer_named_nas_parameters %(l)s)', 'id'),
         'self_iters': {'named_nas_parameters': ('(mps_named_nas_parameters_gen st)', ['str', 'id'])}}
    out = named_pair(ms, rel, 'MPS', 'mps', W)
    scan_writes(tree, rel, {'MPS.__init__'}, True)
    return out


def translate_supernet(src, rel):
    tree = ast.parse(src)
    ms = model_class(tree, rel, 'SuperNet', SN_METHODS, {'SuperNetCombiner': '.nn.combiner:SuperNetCombiner', 'cast': 'typing:cast'})
    pin_text(ms, 'SuperNet', 'update_softmax_options', rel)
    W = {'isinstance': {'SuperNetCombiner': 'is_combiner'},
         'layer_nas': ('(combiner_layer_named_nas_parameters %(l)s)', 'id'),
         'layer_set': {'train_selection': 'combiner_layer_set_train_selection st %(l)s %(v)s'},
         'self_iters': {'named_nas_parameters': ('(sn_named_nas_parameters_gen st)', ['str', 'id'])}}
    out = named_pair(ms, rel, 'SuperNet', 'sn', W)
    out += switch_pair(ms, rel, 'SuperNet', 'sn', W, 'train_selection')
    scan_writes(tree, rel, {'SuperNet.__init__', 'SuperNet.train_selection.setter'}, True)
    return out


def translate_combiner(src, rel):
    tree = ast.parse(src)
    cl = classes_of(tree, rel, {'SuperNetCombiner': ['nn.Module']})
    imports_ok(tree, rel, {'nn': 'torch.nn'})
    ms = methods_of(cl['SuperNetCombiner'], rel)
    if set(ms) != COMB_METHODS:
        raise Reject('%s: SuperNetCombiner defines %s which the translator does not know / lacks %s' % (rel, sorted(set(ms) - COMB_METHODS), sorted(COMB_METHODS - set(ms))))
    for k, m in ms.items():
        for x in ast.walk(m):
            if isinstance(x, ast.Attribute) and x.attr == 'alpha' and isinstance(x.ctx, (ast.Store, ast.Del)) and k != '__init__':
                raise Reject('%s: SuperNetCombiner.%s re-binds alpha' % (rel, k))
    n_alpha = [s for s in ms['__init__'].body if isinstance(s, ast.Assign) and _u(s.targets[0]) == 'self.alpha']
    if len(n_alpha) != 1 or not _is_parameter_call(n_alpha[0].value) or sum(
            1 for x in ast.walk(ms['__init__']) if isinstance(x, ast.Attribute) and x.attr == 'alpha' and isinstance(x.ctx, (ast.Store, ast.Del))) != 1:
        raise Reject('%s: SuperNetCombiner.__init__ does not create alpha once, as a Parameter' % rel)
    nn_ = ms['named_nas_parameters']
    where = '%s: SuperNetCombiner.named_nas_parameters' % rel
    decorators(nn_, [], where)
    out = gen_generator(where, nn_, 'combid', {}, 'combiner_named_nas_parameters_gen', '(self_alpha : nat)', 'id', named_sig(nn_, where))
    g, st_ = ms['train_selection'], ms['train_selection.setter']
    decorators(g, ['property'], '%s: SuperNetCombiner.train_selection' % rel)
    decorators(st_, ['train_selection.setter'], '%s: SuperNetCombiner.train_selection.setter' % rel)
    noarg_sig(g, '%s: SuperNetCombiner.train_selection' % rel)
    env, vn = value_sig(st_, '%s: SuperNetCombiner.train_selection.setter' % rel)
    out += gen_getter('%s: SuperNetCombiner.train_selection' % rel, g, 'tensor', {}, 'combiner_train_selection_gen', '(self : ptensor)', {}, mask_attr='alpha')
    out += gen_setter('%s: SuperNetCombiner.train_selection.setter' % rel, st_, 'tensor', {}, 'combiner_set_train_selection_gen', '(self : ptensor) (%s : bool)' % vn, env, mask_attr='alpha')
    scan_writes(tree, rel, {'SuperNetCombiner.__init__', 'SuperNetCombiner.train_selection.setter'}, True)
    return out


# ================================================================================================ the file
HEADER = """(* GENERATED by translator/train2coq.py from plinio/methods/{dnas_base/dnas,pit/pit,mps/mps,supernet/supernet}.py,
   plinio/methods/pit/nn/*.py and plinio/methods/supernet/nn/combiner.py of the tree under test -- do not edit.
   The trainability bookkeeping (parameter groups, train_*, the switches, the maskers' `trainable`), statement by
   statement, over the vocabulary of Model/Train.v. *)
From Coq Require Import ZArith QArith List Bool.
Import ListNotations.
Require Import Plinio.Base.Qx Plinio.Model.Train.

(* ---------------------------------------------------------------- vocabulary (fixed text, not generated from the source) *)
(* registration status of an attribute of an nn.Module *)
Inductive reg := RAbsent | RParam | RBuffer.
Definition reg_is_param (r : reg) : bool := match r with RParam => true | _ => false end.
(* a tensor object = its record; `x.requires_grad = b` on the tensor with identity i *)
Definition set_requires_grad (t : ptensor) (b : bool) : ptensor := with_rg t b.
Definition update_tensor (st : tstate) (i : nat) (f : ptensor -> ptensor) : tstate :=
  with_tens st (map (fun t => if Nat.eqb (p_id t) i then f t else t) (tens st)).
Definition is_none {A} (o : option A) : bool := match o with None => true | Some _ => false end.
Definition is_nil {A} (l : list A) : bool := match l with [] => true | _ => false end.
(* the python flags of the model *)
Definition with_tr_feat (st : tstate) (b : bool) : tstate :=
  {| tens := tens st; layers := layers st; samplers := samplers st; tr_feat := b; tr_rf := tr_rf st; tr_dil := tr_dil st; tr_sel := tr_sel st; discrete := discrete st |}.
Definition with_tr_rf (st : tstate) (b : bool) : tstate :=
  {| tens := tens st; layers := layers st; samplers := samplers st; tr_feat := tr_feat st; tr_rf := b; tr_dil := tr_dil st; tr_sel := tr_sel st; discrete := discrete st |}.
Definition with_tr_dil (st : tstate) (b : bool) : tstate :=
  {| tens := tens st; layers := layers st; samplers := samplers st; tr_feat := tr_feat st; tr_rf := tr_rf st; tr_dil := b; tr_sel := tr_sel st; discrete := discrete st |}.
Definition with_tr_sel (st : tstate) (b : bool) : tstate :=
  {| tens := tens st; layers := layers st; samplers := samplers st; tr_feat := tr_feat st; tr_rf := tr_rf st; tr_dil := tr_dil st; tr_sel := b; discrete := discrete st |}.
Definition with_discrete (st : tstate) (b : bool) : tstate :=
  {| tens := tens st; layers := layers st; samplers := samplers st; tr_feat := tr_feat st; tr_rf := tr_rf st; tr_dil := tr_dil st; tr_sel := tr_sel st; discrete := b |}.
Definition with_layers (st : tstate) (ls : list layer) : tstate :=
  {| tens := tens st; layers := ls; samplers := samplers st; tr_feat := tr_feat st; tr_rf := tr_rf st; tr_dil := tr_dil st; tr_sel := tr_sel st; discrete := discrete st |}.
(* a layer object inside a loop that writes one of its own attributes = (position in `layers st`, record) *)
Fixpoint enumerate_from {A} (k : nat) (l : list A) : list (nat * A) := match l with [] => [] | x :: r => (k, x) :: enumerate_from (S k) r end.
Definition enumerate {A} (l : list A) : list (nat * A) := enumerate_from 0 l.
Fixpoint upd_nth {A} (k : nat) (f : A -> A) (l : list A) : list A :=
  match l, k with [], _ => [] | x :: r, O => f x :: r | x :: r, S k' => x :: upd_nth k' f r end.
Definition update_layer (st : tstate) (k : nat) (f : layer -> layer) : tstate := with_layers st (upd_nth k f (layers st)).
(* the three kinds of masker a PIT layer holds; the classes of PIT layer *)
Inductive mkind := KFeatures | KTimestep | KDilation.
Inductive lclass := LConv1d | LConv2d | LLinear | LBatchNorm1d | LBatchNorm2d.
(* the class of a layer record, read off its shape (PITLinear has the code of PITConv2d: proved; PITBatchNorm layers are not in the state) *)
Definition pit_class (l : layer) : lclass := match l_rf l, l_dil l with None, None => LConv2d | _, _ => LConv1d end.
(* isinstance(layer, PITModule | MPSModule | SuperNetCombiner) *)
Definition is_pit_module (l : layer) : bool := is_none (l_sel l) && is_nil (l_other l).
Definition is_mps_module (l : layer) : bool := is_none (l_feat l) && is_none (l_rf l) && is_none (l_dil l) && is_none (l_sel l).
Definition is_combiner (l : layer) : bool := is_none (l_feat l) && is_none (l_rf l) && is_none (l_dil l) && negb (is_none (l_sel l)) && is_nil (l_other l).
(* self.named_modules() / self._leaf_modules / self._unique_leaf_modules: the layers of the state *)
Definition named_modules (st : tstate) : list layer := layers st.
Definition leaf_modules (st : tstate) : list layer := layers st.
Definition unique_leaf_modules (st : tstate) : list layer := layers st.

"""

GLUE_MASKERS = """
(* ---- fixed glue: nn.Module.named_parameters() and the masker objects reached through a layer *)
(* a frozen tensor is the mask of one of the three Frozen masker classes (the state does not say which): it is a registered
   Parameter if one of them leaves its mask registered as a Parameter; every other tensor is a Parameter *)
Definition tensor_is_parameter_gen (t : ptensor) : bool :=
  if p_frozen t then reg_is_param (masker_mask_reg_gen KFeatures true) || reg_is_param (masker_mask_reg_gen KTimestep true)
                     || reg_is_param (masker_mask_reg_gen KDilation true)
  else true.
Definition module_named_parameters (st : tstate) : list nat := map p_id (filter tensor_is_parameter_gen (tens st)).
(* masker.named_parameters(): the mask, if the heap holds it as a Parameter registered by the constructor of its owner *)
Definition masker_named_parameters (st : tstate) (k : mkind) (m : option nat) : list (option nat) :=
  match m with
  | None => []
  | Some i => if existsb (fun t => Nat.eqb i (p_id t) && reg_is_param (masker_mask_reg_gen k (p_frozen t))) (tens st) then [Some i] else []
  end.
(* masker.trainable = value / masker.trainable *)
Definition set_masker_trainable (st : tstate) (k : mkind) (m : option nat) (value : bool) : tstate :=
  match m with None => st | Some i => update_tensor st i (fun t => masker_set_trainable_gen k t value) end.
Definition masker_trainable (st : tstate) (k : mkind) (m : option nat) : bool :=
  match m with None => false | Some i => existsb (fun t => Nat.eqb i (p_id t) && masker_trainable_gen k t) (tens st) end.

"""

GLUE_LAYERS = """
(* ---- fixed glue: the layer objects of MPS (what the layer's own named_nas_parameters yields is part of the state) and SuperNet *)
Definition mps_layer_named_nas_parameters (l : layer) : list nat := l_other l.
Definition combiner_layer_named_nas_parameters (l : layer) : list nat :=
  match l_sel l with Some a => combiner_named_nas_parameters_gen a | None => [] end.
Definition combiner_layer_set_train_selection (st : tstate) (l : layer) (value : bool) : tstate :=
  match l_sel l with Some a => update_tensor st a (fun t => combiner_set_train_selection_gen t value) | None => st end.

"""

FOOTER = """
(* ---------------------------------------------------------------- fixed glue (not generated from the source): op sequences *)
Inductive method := MPit | MMps | MSn.
(* the tensor with identity i is a registered Parameter of the heap / no tensor with identity i is the mask of a frozen masker *)
Definition is_registered (st : tstate) (i : nat) : bool := existsb (fun t => Nat.eqb i (p_id t) && tensor_is_parameter_gen t) (tens st).
Definition not_frozen (st : tstate) (i : nat) : bool := forallb (fun t => negb (Nat.eqb i (p_id t) && p_frozen t)) (tens st).
(* a layer of the state is one the method's isinstance test accepts; what an MPS layer / a combiner yields as its NAS
   parameters are registered Parameters of the heap (they come from named_parameters() of sub-modules), never frozen masks *)
Definition method_layer (m : method) (st : tstate) (l : layer) : bool :=
  match m with
  | MPit => is_pit_module l
  | MMps => is_mps_module l && forallb (is_registered st) (l_other l)
  | MSn => is_combiner l && forallb (is_registered st) (oid (l_sel l)) && forallb (not_frozen st) (oid (l_sel l))
  end.
Definition method_state (m : method) (st : tstate) : bool := forallb (method_layer m st) (layers st).
Definition gen_named_nas (m : method) : tstate -> list nat :=
  match m with MPit => pit_named_nas_parameters_gen | MMps => mps_named_nas_parameters_gen | MSn => sn_named_nas_parameters_gen end.
Definition gen_named_net (m : method) : tstate -> list nat :=
  match m with MPit => pit_named_net_parameters_gen | MMps => mps_named_net_parameters_gen | MSn => sn_named_net_parameters_gen end.
(* model.nas_parameters() / model.net_parameters(): DNAS's methods over the overrides of the method *)
Definition gen_nas_ids (m : method) (st : tstate) : list nat := dnas_nas_parameters_gen (gen_named_nas m) (gen_named_net m) st.
Definition gen_net_ids (m : method) (st : tstate) : list nat := dnas_net_parameters_gen (gen_named_nas m) (gen_named_net m) st.
(* one operation: train_* are DNAS's for every method, the switches exist on the method that defines the property;
   update_softmax_options and forward+backward are not translated here (the hand model's step); an op the method does not
   have is the hand model's step too *)
Definition gen_step (m : method) (st : tstate) (o : top) : tstate * obs :=
  match o, m with
  | TNasOnly, _ => (dnas_train_nas_only_gen (gen_named_nas m) (gen_named_net m) st, [])
  | TNetOnly, _ => (dnas_train_net_only_gen (gen_named_nas m) (gen_named_net m) st, [])
  | TNetAndNas, _ => (dnas_train_net_and_nas_gen (gen_named_nas m) (gen_named_net m) st, [])
  | TSetFeat b, MPit => (pit_set_train_features_gen st b, [])
  | TSetRf b, MPit => (pit_set_train_rf_gen st b, [])
  | TSetDil b, MPit => (pit_set_train_dilation_gen st b, [])
  | TSetDiscrete b, MPit => (pit_set_discrete_cost_gen st b, [])
  | TSetSel b, MSn => (sn_set_train_selection_gen st b, [])
  | _, _ => step false st o
  end.
Definition gen_run (m : method) (ops : list top) (st : tstate) : tstate := fold_left (fun s o => fst (gen_step m s o)) ops st.
Fixpoint gen_trace (m : method) (ops : list top) (st : tstate) : list obs :=
  match ops with
  | [] => []
  | o :: r => snd (gen_step m st o) :: gen_trace m r (fst (gen_step m st o))
  end.

(* correspondence helpers: same shape as view / check_step of Model/Train.v, run with the generated functions; the switch
   read-backs are the generated property getters *)
Definition gen_flags (m : method) (st : tstate) : list bool :=
  match m with
  | MPit => [pit_train_features_gen st; pit_train_rf_gen st; pit_train_dilation_gen st; tr_sel st; pit_discrete_cost_gen st]
  | MSn => [tr_feat st; tr_rf st; tr_dil st; sn_train_selection_gen st; discrete st]
  | MMps => [tr_feat st; tr_rf st; tr_dil st; tr_sel st; discrete st]
  end.
Definition view_gen (m : method) (st : tstate) :=
  (map (fun t => (p_id t, p_rg t)) (tens st), (gen_nas_ids m st, gen_net_ids m st),
   (gen_flags m st, map l_disc (layers st)), map sampler_view (samplers st)).
Definition check_step_gen (m : method) (st0 : tstate) (path : list top) (o : top)
    (e_rg e_flags e_disc : list bool) (e_samp : list ((Z * Z) * bool * Z)) (e_obs : list bool) : bool :=
  let s1 := gen_run m path st0 in
  let r := gen_step m s1 o in
  let s2 := fst r in
  bools_eqb (map p_rg (tens s2)) e_rg &&
  nats_eqb (gen_nas_ids m s2) (gen_nas_ids m st0) && nats_eqb (gen_net_ids m s2) (gen_net_ids m st0) &&
  bools_eqb (gen_flags m s2) e_flags &&
  bools_eqb (map l_disc (layers s2)) e_disc &&
  sviews_eqb (map sampler_view (samplers s2)) e_samp &&
  bools_eqb (map snd (snd r)) e_obs.
"""

MY_FILES = ['plinio/methods/dnas_base/dnas.py', 'plinio/methods/pit/pit.py', 'plinio/methods/mps/mps.py', 'plinio/methods/supernet/supernet.py',
            'plinio/methods/supernet/nn/combiner.py', 'plinio/methods/pit/nn/module.py'] + \
           ['plinio/methods/pit/nn/' + v[0] for v in MASKER_FILES.values()] + ['plinio/methods/pit/nn/' + f[1] for f in LAYER_FILES]


def package_scan(repo):
    """no other file of the package changes what the model tracks; pit/nn holds no layer / masker class the translator does not know"""
    for f in sorted(glob.glob(os.path.join(repo, 'plinio', '**', '*.py'), recursive=True)):
        rel = os.path.relpath(f, repo)
        if rel in MY_FILES:
            continue
        try:
            tree = ast.parse(open(f).read())
        except SyntaxError as e:
            raise Reject('%s does not parse: %s' % (rel, e))
        scan_writes(tree, rel, set(), False)
        if os.path.dirname(rel) == 'plinio/methods/pit/nn' and os.path.basename(rel) not in PIT_NN_FILES:
            for n in ast.walk(tree):
                if isinstance(n, ast.ClassDef):
                    raise Reject('%s defines the class %s: a layer / masker class the translator does not know' % (rel, n.name))
    for f in PIT_NN_FILES:
        if not os.path.exists(os.path.join(repo, 'plinio', 'methods', 'pit', 'nn', f)):
            raise Reject('plinio/methods/pit/nn/%s not found' % f)
    init = ast.parse(open(os.path.join(repo, 'plinio', 'methods', 'pit', 'nn', 'binarizer.py')).read())
    for n in ast.walk(init):
        if isinstance(n, ast.ClassDef) and any('PITModule' in _u(b) or 'Masker' in _u(b) for b in n.bases):
            raise Reject('plinio/methods/pit/nn/binarizer.py defines a layer / masker class')


def translate_repo(repo):
    """-> the text of Gen/TrainGen.v; Reject if any part of the source is outside the subset (an internal error of the
    translator on an unforeseen shape is a refusal too)"""
    try:
        return _translate_repo(repo)
    except (Reject, SyntaxError, OSError):
        raise
    except Exception as e:      # fail closed
        raise Reject('the translator does not understand the source (%s: %s)' % (type(e).__name__, e))


def _translate_repo(repo):
    def rd(rel):
        return open(os.path.join(repo, rel)).read()
    package_scan(repo)
    out = HEADER + '(* ---------------------------------------------------------------- generated: the maskers *)\n'
    for short, v in MASKER_FILES.items():
        rel = 'plinio/methods/pit/nn/' + v[0]
        out += translate_masker(rd(rel), rel, short)
    out += masker_dispatch() + GLUE_MASKERS
    out += '(* ---------------------------------------------------------------- generated: the PIT layers *)\n'
    translate_pit_module(rd('plinio/methods/pit/nn/module.py'), 'plinio/methods/pit/nn/module.py')
    infos = {}
    for short, fname, cname, bases, _ in LAYER_FILES:
        rel = 'plinio/methods/pit/nn/' + fname
        t, infos[short] = translate_layer(rd(rel), rel, short, cname, bases)
        out += t
    out += layer_dispatch(infos)
    out += '(* ---------------------------------------------------------------- generated: SuperNetCombiner *)\n'
    out += translate_combiner(rd('plinio/methods/supernet/nn/combiner.py'), 'plinio/methods/supernet/nn/combiner.py')
    out += GLUE_LAYERS
    out += '(* ---------------------------------------------------------------- generated: PIT *)\n' + translate_pit(rd('plinio/methods/pit/pit.py'), 'plinio/methods/pit/pit.py')
    out += '(* ---------------------------------------------------------------- generated: MPS *)\n' + translate_mps(rd('plinio/methods/mps/mps.py'), 'plinio/methods/mps/mps.py')
    out += '(* ---------------------------------------------------------------- generated: SuperNet *)\n' + translate_supernet(rd('plinio/methods/supernet/supernet.py'), 'plinio/methods/supernet/supernet.py')
    out += '(* ---------------------------------------------------------------- generated: DNAS *)\n' + translate_dnas(rd('plinio/methods/dnas_base/dnas.py'), 'plinio/methods/dnas_base/dnas.py')
    return out + FOOTER


if __name__ == '__main__':
    import sys
    print(translate_repo(sys.argv[1] if len(sys.argv) > 1 else '/repo'))
