(* C07: the model GENERATED from the source of the BatchNorm fusion / folding of the import (Gen/ImportGen.v, rewritten by
   translator/import2coq.py on every run) computes the hand-written model of Model/Import.v:
     remove_bn_inplace (PIT) / fuse_bn_inplace (MPS)   = fold_w / fold_b / import_layer,
     PITConv1d / PITConv2d / PITLinear .__init__        = import_layer without BatchNorm,
     PITConv1d / PITConv2d / PITLinear .forward         = pit_out (bias masked),
     fuse_consecutive_layers as called by fuse_pit_modules = step_fuse (modules invoked at one call site),
   for EVERY function rsqrt; the definedness predicates hold when var + eps > 0. *)
From Coq Require Import QArith ZArith List Bool Arith Lia Lqa Setoid.
Import ListNotations.
Require Import Plinio.Base.Qx Plinio.Model.Masks Plinio.Model.Import Plinio.Proofs.Import Plinio.Gen.ImportGen.
Local Open Scope Q_scope.

(* ================================================================ equality of layers up to == on rationals *)
Definition weq (w w' : list (list Q)) : Prop := Forall2 (Forall2 Qeq) w w'.
Definition oqeq (a b : option Q) : Prop := match a, b with Some x, Some y => x == y | None, None => True | _, _ => False end.
Definition seqv (L L' : slayer) : Prop := weq (s_w L) (s_w L') /\ oqeq (s_b L) (s_b L') /\ s_bn L = s_bn L' /\ s_fold L = s_fold L'.

Lemma row_refl r : Forall2 Qeq r r.
Proof. induction r; constructor; [reflexivity|assumption]. Qed.
Lemma weq_refl w : weq w w.
Proof. induction w; constructor; [apply row_refl|assumption]. Qed.
Lemma oqeq_refl a : oqeq a a.
Proof. destruct a; cbn; [reflexivity|exact I]. Qed.
Lemma seqv_refl L : seqv L L.
Proof. repeat split; [apply weq_refl|apply oqeq_refl]. Qed.

Lemma wmap_ext f g w : (forall e, f e == g e) -> weq (wmap f w) (wmap g w).
Proof.
  intro H. unfold wmap. induction w as [|r w IH]; cbn [map]; constructor; [|exact IH].
  induction r as [|a r IHr]; cbn [map]; constructor; [apply H|exact IHr].
Qed.

Lemma dot_compat r r' x : Forall2 Qeq r r' -> dot r x == dot r' x.
Proof.
  intro H. revert x. induction H as [|a a' r r' Ha Hr IH]; intros [|b x]; cbn [dot]; try reflexivity. rewrite Ha, IH. reflexivity.
Qed.
Lemma dot2_compat w w' x : weq w w' -> dot2 w x == dot2 w' x.
Proof.
  intro H. revert x. induction H as [|a a' w w' Ha Hw IH]; intros [|b x]; cbn [dot2]; try reflexivity.
  rewrite IH, (dot_compat a a' b Ha). reflexivity.
Qed.
Lemma mask_row_compat tm r r' : Forall2 Qeq r r' -> Forall2 Qeq (mask_row tm r) (mask_row tm r').
Proof.
  intro H. revert tm. induction H as [|a a' r r' Ha Hr IH]; intros [|b tm]; cbn [mask_row]; try constructor.
  - rewrite Ha. reflexivity.
  - apply IH.
Qed.
Lemma map_mask_compat tm w w' : weq w w' -> weq (map (mask_row tm) w) (map (mask_row tm) w').
Proof. intro H. induction H; cbn [map]; constructor; [apply mask_row_compat; assumption|assumption]. Qed.
Lemma scale_compat c w w' : weq w w' -> weq (map (map (fun v => v * c)) w) (map (map (fun v => v * c)) w').
Proof.
  intro H. induction H as [|a a' w w' Ha Hw IH]; cbn [map]; constructor; [|exact IH].
  induction Ha as [|u u' a a' Hu Ha IHa]; cbn [map]; constructor; [rewrite Hu; reflexivity|exact IHa].
Qed.
Lemma bias_val_compat a b : oqeq a b -> bias_val a == bias_val b.
Proof. destruct a, b; cbn; intro H; try contradiction; [exact H|reflexivity]. Qed.
Lemma plain_compat w w' b b' x : weq w w' -> oqeq b b' -> plain w b x == plain w' b' x.
Proof. intros Hw Hb. unfold plain. rewrite (dot2_compat w w' x Hw), (bias_val_compat b b' Hb). reflexivity. Qed.

Lemma pit_out_compat mb tm cm L L' x : seqv L L' -> pit_out mb tm cm L x == pit_out mb tm cm L' x.
Proof.
  intros (Hw & Hb & Hbn & Hf). unfold pit_out. rewrite <- Hf, <- Hbn.
  pose proof (bias_val_compat _ _ Hb) as Eb. destruct (s_fold L).
  - pose proof (dot2_compat _ _ x (map_mask_compat tm _ _ (scale_compat (b2q cm) _ _ Hw))) as Ed.
    destruct mb; rewrite Ed, Eb; reflexivity.
  - pose proof (dot2_compat _ _ x (map_mask_compat tm _ _ Hw)) as Ed.
    apply Qmult_comp; [reflexivity|]. destruct (s_bn L) as [p|]; cbn [obn]; [unfold bn_apply|]; rewrite Ed, Eb; reflexivity.
Qed.

Lemma obn_compat o y y' : y == y' -> obn o y == obn o y'.
Proof. intro H. destruct o; cbn [obn]; [unfold bn_apply; rewrite H; reflexivity|exact H]. Qed.

(* a rational equality whatever the order of the operands *)
Ltac qring := first [reflexivity | ring | (unfold Qdiv; ring)].

Section ArithProofs.
Variable rsqrt : Q -> Q.

(* the hand model's view of a BatchNorm module: r = rsqrt (var + eps), absent weight / bias = 1 / 0 *)
Definition bnp_of (m : bnmod) : bnp :=
  {| bn_g := match m_weight m with Some g => g | None => 1 end; bn_b := match m_bias m with Some b => b | None => 0 end;
     bn_mu := m_mean m; bn_r := rsqrt (m_var m + m_eps m) |}.
Definition to_slayer (L : glayer) : slayer :=
  {| s_w := g_w L; s_b := g_b L; s_bn := option_map bnp_of (g_bn L); s_fold := g_fold L |}.

Lemma bn_eval_apply m y : bn_eval rsqrt m y == bn_apply (bnp_of m) y.
Proof. unfold bn_eval, bn_apply, bnp_of. cbn. qring. Qed.

(* ---- remove_bn_inplace (PIT) *)
Theorem remove_bn_inplace_gen_eq : forall L bn fold, m_track bn = true ->
  exists L', remove_bn_inplace_gen rsqrt L bn fold = Some L' /\
             seqv (to_slayer L') (import_layer fold (g_w L) (g_b L) (Some (bnp_of bn))).
Proof.
  intros L bn fold Ht. unfold remove_bn_inplace_gen. rewrite Ht. cbn [negb].
  destruct fold; destruct (g_b L) as [b|]; cbn; eexists; (split; [reflexivity|]);
    unfold seqv, to_slayer, import_layer, fold_w, fold_b, bnp_of; cbn;
    repeat split; try apply weq_refl; try exact I; try reflexivity;
    try (apply (wmap_ext _ (fun v => v * _)); intro e; destruct (m_weight bn); qring);
    destruct (m_weight bn), (m_bias bn); qring.
Qed.

Theorem remove_bn_inplace_gen_raises : forall L bn fold, m_track bn = false -> remove_bn_inplace_gen rsqrt L bn fold = None.
Proof. intros L bn fold Ht. unfold remove_bn_inplace_gen. rewrite Ht. reflexivity. Qed.

Theorem remove_bn_inplace_defined : forall L bn fold, 0 < m_var bn + m_eps bn -> remove_bn_inplace_ok rsqrt L bn fold = true.
Proof.
  intros L bn fold H. apply qlt_bool_iff in H. unfold remove_bn_inplace_ok.
  destruct (m_track bn), fold, (g_b L); cbn; rewrite ?H; reflexivity.
Qed.

(* ---- fuse_bn_inplace (MPS) *)
Theorem fuse_bn_inplace_gen_eq : forall L bn, m_track bn = true ->
  exists L', fuse_bn_inplace_gen rsqrt L bn = Some L' /\
             weq (g_w L') (fold_w (bnp_of bn) (g_w L)) /\ oqeq (g_b L') (Some (fold_b (bnp_of bn) (g_b L))) /\
             g_bn L' = g_bn L /\ g_fold L' = g_fold L.
Proof.
  intros L bn Ht. unfold fuse_bn_inplace_gen. rewrite Ht. cbn [negb].
  destruct (g_b L) as [b|]; cbn; eexists; (split; [reflexivity|]);
    unfold fold_w, fold_b, bnp_of; cbn;
    repeat split; try reflexivity;
    try (apply (wmap_ext _ (fun v => v * _)); intro e; destruct (m_weight bn); qring);
    destruct (m_weight bn), (m_bias bn); qring.
Qed.

Theorem fuse_bn_inplace_defined : forall L bn, 0 < m_var bn + m_eps bn -> fuse_bn_inplace_ok rsqrt L bn = true.
Proof.
  intros L bn H. apply qlt_bool_iff in H. unfold fuse_bn_inplace_ok.
  destruct (m_track bn), (g_b L); cbn; rewrite ?H; reflexivity.
Qed.

(* the fused plain layer computes BatchNorm (eval) of the original one *)
Theorem gen_mps_fold_identity : forall L bn x, m_track bn = true ->
  exists L', fuse_bn_inplace_gen rsqrt L bn = Some L' /\ plain (g_w L') (g_b L') x == bn_eval rsqrt bn (plain (g_w L) (g_b L) x).
Proof.
  intros L bn x Ht. destruct (fuse_bn_inplace_gen_eq L bn Ht) as (L' & E & Hw & Hb & _). exists L'. split; [exact E|].
  rewrite (plain_compat _ _ _ _ x Hw Hb), bn_fold_identity, bn_eval_apply. reflexivity.
Qed.

(* ---- the constructors of the searchable layers copy weight and bias, start without BatchNorm, with the flag given *)
Definition fresh_layer (w : list (list Q)) (ob : option Q) (fold : bool) : glayer := {| g_w := w; g_b := ob; g_bn := None; g_fold := fold |}.

Theorem pit_conv1d_init_gen_eq : forall fresh w ob fold, pit_conv1d_init_gen fresh w ob fold = Some (fresh_layer w ob fold).
Proof. intros fresh w [b|] fold; reflexivity. Qed.
Theorem pit_conv2d_init_gen_eq : forall fresh w ob fold, pit_conv2d_init_gen fresh w ob fold = Some (fresh_layer w ob fold).
Proof. intros fresh w [b|] fold; reflexivity. Qed.
Theorem pit_linear_init_gen_eq : forall fresh w ob fold, pit_linear_init_gen fresh w ob fold = Some (fresh_layer w ob fold).
Proof. intros fresh w [b|] fold; reflexivity. Qed.
Lemma fresh_layer_import w ob fold : to_slayer (fresh_layer w ob fold) = import_layer fold w ob None.
Proof. reflexivity. Qed.

(* ---- the forwards *)
Lemma masked_bias (ob : option Q) (c : Q) :
  bias_val (match ob with None => None | Some v_ => Some (v_ * c) end) == c * bias_val ob.
Proof. destruct ob; cbn; ring. Qed.
Lemma masked_bias' (ob : option Q) (c : Q) :
  bias_val (match ob with None => None | Some v_ => Some (c * v_) end) == c * bias_val ob.
Proof. destruct ob; cbn; ring. Qed.

Lemma obn_to_slayer (o : option bnmod) y : match o with Some m_ => bn_eval rsqrt m_ y | None => y end == obn (option_map bnp_of o) y.
Proof. destruct o; cbn [option_map obn]; [apply bn_eval_apply|reflexivity]. Qed.

(* weights equal up to == : the masks / scalings may be applied in any order of the operands *)
Ltac weq_solve :=
  repeat first [ apply weq_refl
               | apply map_mask_compat
               | match goal with |- weq (wmap ?f ?w) (map (map ?g) ?w) => apply (wmap_ext f g w); intro; qring end
               | match goal with |- weq (wmap ?f ?w) (wmap ?g ?w) => apply (wmap_ext f g w); intro; qring end ].
Ltac fold_branch L :=
  unfold plain; apply Qplus_comp; [apply dot2_compat; weq_solve | destruct (g_b L); cbn [bias_val]; qring].

Theorem pit_conv1d_forward_gen_eq : forall L tm cm x,
  pit_conv1d_forward_gen rsqrt L tm cm x == pit_out true tm cm (to_slayer L) x.
Proof.
  intros L tm cm x. unfold pit_conv1d_forward_gen, pit_out, to_slayer. cbn [s_fold s_w s_b s_bn]. destruct (g_fold L); cbn [negb]; cbv zeta.
  - fold_branch L.
  - rewrite obn_to_slayer. unfold plain. qring.
Qed.

Lemma forward_nomask : forall K L cm x (gen : Q), Forall (fun row => length row = K) (g_w L) ->
  gen == (if g_fold L
          then plain (wmap (fun v => v * b2q cm) (g_w L)) (match g_b L with None => None | Some v_ => Some (v_ * b2q cm) end) x
          else obn (option_map bnp_of (g_bn L)) (plain (g_w L) (g_b L) x) * b2q cm) ->
  gen == pit_out true (repeat true K) cm (to_slayer L) x.
Proof.
  intros K L cm x gen HK E. rewrite E. unfold pit_out, to_slayer. cbn [s_fold s_w s_b s_bn]. destruct (g_fold L).
  - unfold plain, wmap. rewrite masked_bias. rewrite (dot2_mask_open K _ x (forall_len_scale K _ _ HK)). reflexivity.
  - rewrite Qmult_comm. apply Qmult_comp; [reflexivity|]. apply obn_compat. unfold plain. rewrite (dot2_mask_open K _ x HK). reflexivity.
Qed.

Theorem pit_conv2d_forward_gen_eq : forall K L cm x, Forall (fun row => length row = K) (g_w L) ->
  pit_conv2d_forward_gen rsqrt L cm x == pit_out true (repeat true K) cm (to_slayer L) x.
Proof.
  intros K L cm x HK. apply (forward_nomask K L cm x _ HK). unfold pit_conv2d_forward_gen. destruct (g_fold L); cbn [negb]; cbv zeta.
  - fold_branch L.
  - rewrite obn_to_slayer. qring.
Qed.

Theorem pit_linear_forward_gen_eq : forall K L cm x, Forall (fun row => length row = K) (g_w L) ->
  pit_linear_forward_gen rsqrt L cm x == pit_out true (repeat true K) cm (to_slayer L) x.
Proof.
  intros K L cm x HK. apply (forward_nomask K L cm x _ HK). unfold pit_linear_forward_gen. destruct (g_fold L); cbn [negb]; cbv zeta.
  - fold_branch L.
  - rewrite obn_to_slayer. qring.
Qed.

Theorem forward_defined : forall L tm cm x, match g_bn L with Some m => 0 < m_var m + m_eps m | None => True end ->
  pit_conv1d_forward_ok rsqrt L tm cm x = true /\ pit_conv2d_forward_ok rsqrt L cm x = true /\ pit_linear_forward_ok rsqrt L cm x = true.
Proof.
  intros L tm cm x H. unfold pit_conv1d_forward_ok, pit_conv2d_forward_ok, pit_linear_forward_ok, bn_eval_ok.
  destruct (g_fold L), (g_bn L) as [m|]; cbn [negb]; cbv zeta; try (apply qlt_bool_iff in H; rewrite H); repeat split; reflexivity.
Qed.

(* ---- the sentence: a layer wrapped by the import (constructor, then the BatchNorm that follows it attached or folded by
   remove_bn_inplace), run by the generated forward with the initial masks, computes BatchNorm(eval)(plain layer) *)
Definition import_gen (init : glayer -> list (list Q) -> option Q -> bool -> option glayer)
    (fresh : glayer) (w : list (list Q)) (ob : option Q) (bn : option bnmod) (fold : bool) : option glayer :=
  match init fresh w ob fold with
  | None => None
  | Some L0 => match bn with Some m => remove_bn_inplace_gen rsqrt L0 m fold | None => Some L0 end
  end.
Definition tracked (bn : option bnmod) : Prop := match bn with Some m => m_track m = true | None => True end.
Definition original (w : list (list Q)) (ob : option Q) (bn : option bnmod) (x : list (list Q)) : Q :=
  match bn with Some m => bn_eval rsqrt m (plain w ob x) | None => plain w ob x end.

Lemma import_gen_layer init fresh w ob bn fold : init fresh w ob fold = Some (fresh_layer w ob fold) -> tracked bn ->
  exists L, import_gen init fresh w ob bn fold = Some L /\ seqv (to_slayer L) (import_layer fold w ob (option_map bnp_of bn)) /\
            Forall2 (fun r r' => length r = length r') (g_w L) w.
Proof.
  intros Hi Ht. unfold import_gen. rewrite Hi. destruct bn as [m|]; cbn [option_map].
  - destruct (remove_bn_inplace_gen_eq (fresh_layer w ob fold) m fold Ht) as (L & E & HL). exists L. split; [exact E|]. split; [exact HL|].
    destruct HL as (Hw & _). cbn [to_slayer s_w] in Hw. unfold import_layer in Hw. cbn [fresh_layer g_w g_b] in Hw.
    assert (G : forall w1 w2 : list (list Q), weq w1 w2 -> Forall2 (fun r r' => length r = length r') w1 w2).
    { intros w1 w2 H. induction H as [|a a' ? ? Ha ? IH]; constructor; [|exact IH]. induction Ha; cbn; [reflexivity|f_equal; assumption]. }
    apply G in Hw. destruct fold; cbn [s_w] in Hw; [|exact Hw].
    unfold fold_w in Hw. clear -Hw. revert Hw. generalize (g_w L). induction w as [|r w IH]; intros l H; inversion H; subst; constructor.
    + rewrite map_length in *. assumption.
    + apply IH. assumption.
  - exists (fresh_layer w ob fold). split; [reflexivity|]. split; [apply seqv_refl|].
    cbn. clear. induction w; constructor; [reflexivity|assumption].
Qed.

Lemma original_obn w ob bn x : original w ob bn x == obn (option_map bnp_of bn) (plain w ob x).
Proof. unfold original. destruct bn; cbn [option_map obn]; [apply bn_eval_apply|reflexivity]. Qed.

Lemma forall_len_transfer K (w' w : list (list Q)) : Forall2 (fun r r' => length r = length r') w' w ->
  Forall (fun row => length row = K) w -> Forall (fun row => length row = K) w'.
Proof. intro H. induction H; intro HK; inversion HK; subst; constructor; [congruence|auto]. Qed.

Theorem gen_wrap_identity_conv1d : forall K C c fresh w ob bn fold x, (c < C)%nat -> Forall (fun row => length row = K) w -> tracked bn ->
  exists L, import_gen pit_conv1d_init_gen fresh w ob bn fold = Some L /\
    pit_conv1d_forward_gen rsqrt L (open_time_mask K) (nth c (open_features_mask C) false) x == original w ob bn x.
Proof.
  intros K C c fresh w ob bn fold x Hc HK Ht.
  destruct (import_gen_layer _ fresh w ob bn fold (pit_conv1d_init_gen_eq fresh w ob fold) Ht) as (L & E & HL & _).
  exists L. split; [exact E|].
  rewrite pit_conv1d_forward_gen_eq, (pit_out_compat _ _ _ _ _ x HL), (open_masks_identity K C c true fold w ob _ x Hc HK), original_obn. reflexivity.
Qed.

Lemma wrap_nomask (fwd : glayer -> bool -> list (list Q) -> Q) init :
  (forall K L cm x, Forall (fun row => length row = K) (g_w L) -> fwd L cm x == pit_out true (repeat true K) cm (to_slayer L) x) ->
  (forall fresh w ob fold, init fresh w ob fold = Some (fresh_layer w ob fold)) ->
  forall K C c fresh w ob bn fold x, (c < C)%nat -> Forall (fun row => length row = K) w -> tracked bn ->
  exists L, import_gen init fresh w ob bn fold = Some L /\ fwd L (nth c (open_features_mask C) false) x == original w ob bn x.
Proof.
  intros Hf Hi K C c fresh w ob bn fold x Hc HK Ht.
  destruct (import_gen_layer _ fresh w ob bn fold (Hi fresh w ob fold) Ht) as (L & E & HL & Hlen).
  exists L. split; [exact E|].
  rewrite (Hf K L _ x (forall_len_transfer K _ _ Hlen HK)), (pit_out_compat _ _ _ _ _ x HL).
  rewrite <- (open_time_mask_all K), (open_masks_identity K C c true fold w ob _ x Hc HK), original_obn. reflexivity.
Qed.

Theorem gen_wrap_identity_conv2d : forall K C c fresh w ob bn fold x, (c < C)%nat -> Forall (fun row => length row = K) w -> tracked bn ->
  exists L, import_gen pit_conv2d_init_gen fresh w ob bn fold = Some L /\
    pit_conv2d_forward_gen rsqrt L (nth c (open_features_mask C) false) x == original w ob bn x.
Proof. exact (wrap_nomask (pit_conv2d_forward_gen rsqrt) pit_conv2d_init_gen pit_conv2d_forward_gen_eq pit_conv2d_init_gen_eq). Qed.

Theorem gen_wrap_identity_linear : forall K C c fresh w ob bn fold x, (c < C)%nat -> Forall (fun row => length row = K) w -> tracked bn ->
  exists L, import_gen pit_linear_init_gen fresh w ob bn fold = Some L /\
    pit_linear_forward_gen rsqrt L (nth c (open_features_mask C) false) x == original w ob bn x.
Proof. exact (wrap_nomask (pit_linear_forward_gen rsqrt) pit_linear_init_gen pit_linear_forward_gen_eq pit_linear_init_gen_eq). Qed.

End ArithProofs.

(* ================================================================ the fusion pass *)
(* ---- the dict *)
Lemma dmem_dset d k v k' : dmem k' (dset d k v) = (Nat.eqb k' k || dmem k' d)%bool.
Proof.
  induction d as [|[a b] d IH]; cbn [dset dmem].
  - rewrite orb_false_r. reflexivity.
  - destruct (Nat.eqb k a) eqn:E; cbn [dmem].
    + apply Nat.eqb_eq in E. subst a. destruct (Nat.eqb k' k); reflexivity.
    + rewrite IH. destruct (Nat.eqb k' a), (Nat.eqb k' k); reflexivity.
Qed.
Lemma dget_dset_same d k v dflt : dget_default (dset d k v) k dflt = v.
Proof.
  induction d as [|[a b] d IH]; cbn [dset dget_default].
  - rewrite Nat.eqb_refl. reflexivity.
  - destruct (Nat.eqb k a) eqn:E; cbn [dget_default]; rewrite E; [reflexivity|exact IH].
Qed.
Lemma dget_dset_other d k v k' dflt : k' <> k -> dget_default (dset d k v) k' dflt = dget_default d k' dflt.
Proof.
  intro H. induction d as [|[a b] d IH]; cbn [dset dget_default].
  - apply Nat.eqb_neq in H. rewrite H. reflexivity.
  - destruct (Nat.eqb k a) eqn:E; cbn [dget_default].
    + apply Nat.eqb_eq in E. subst a. apply Nat.eqb_neq in H. rewrite H. reflexivity.
    + rewrite IH. reflexivity.
Qed.
Lemma dmem_keys d k : dmem k d = true <-> In k (dkeys d).
Proof.
  unfold dkeys. induction d as [|[a b] d IH]; cbn [dmem map In fst]; [split; [discriminate|contradiction]|].
  rewrite orb_true_iff, IH, Nat.eqb_eq. split; intros [H|H]; auto.
Qed.

Lemma nodup_snoc (s : list nat) a : NoDup s -> ~ In a s -> NoDup (s ++ [a]).
Proof.
  intros Hn Ha. induction Hn as [|b s Hb Hs IH]; cbn [app]; [constructor; [intros []|constructor]|].
  constructor.
  - intro H. apply in_app_or in H. destruct H as [H|[E|[]]]; [contradiction|]. subst. apply Ha. left. reflexivity.
  - apply IH. intro H. apply Ha. right. exact H.
Qed.

(* ---- (1) whatever the graph: a first layer is handed to the fusion function at most once.  The effects are
   instantiated with a log of the first targets fused; the observations are arbitrary functions of the node *)
Section Once.
Variables (cm an acm sec fst_ : nat -> bool) (users a0t tgt : nat -> nat) (sites : list nat -> nat -> nat).
Definition log_fuse (node : nat) (s : list nat) : list nat := s ++ [a0t node].
Definition once_step := fuse_step_gen (list nat) (fun _ => cm) (fun _ => an) (fun _ => acm) (fun _ => sec) (fun _ => fst_)
                                      (fun _ => users) (fun _ => a0t) (fun _ => tgt) log_fuse log_fuse (fun _ s => s).

Lemma once_step_inv ip s fused nf node s' fused' nf' :
  NoDup s -> (forall k, In k s -> dmem k fused = true) ->
  once_step ip (s, fused, nf) node = Some (s', fused', nf') ->
  NoDup s' /\ (forall k, In k s' -> dmem k fused' = true).
Proof.
  intros Hn Hk. unfold once_step, fuse_step_gen.
  repeat match goal with
         | |- (if ?b then _ else _) = Some _ -> _ => destruct b eqn:?
         | |- (let _ := _ in _) = Some _ -> _ => cbv zeta
         | |- Some _ = Some _ -> _ => intro E; inversion E; subst; clear E
         | |- None = Some _ -> _ => discriminate
         | |- match (if ?b then _ else _) with _ => _ end = Some _ -> _ => destruct b eqn:?
         | |- match Some _ with _ => _ end = Some _ -> _ => cbv iota beta
         | |- match None with _ => _ end = Some _ -> _ => discriminate
         end;
  (split;
   [ first [exact Hn | unfold log_fuse; apply nodup_snoc; [exact Hn|]; intro Hin; apply Hk in Hin; congruence]
   | intros k Hin; unfold log_fuse in *; rewrite ?dmem_dset;
     first [ apply Hk; exact Hin
           | rewrite (Hk k Hin); apply orb_true_r
           | apply in_app_or in Hin; destruct Hin as [Hin|[E|[]]]; [rewrite (Hk k Hin); apply orb_true_r|subst k; rewrite Nat.eqb_refl; reflexivity] ] ]).
Qed.

Theorem gen_fuse_pair_once : forall ip nodes s,
  fuse_consecutive_layers_gen (list nat) (fun _ => cm) (fun _ => an) (fun _ => acm) (fun _ => sec) (fun _ => fst_)
    (fun _ => users) (fun _ => a0t) (fun _ => tgt) sites log_fuse log_fuse (fun _ s => s) ip nodes [] = Some s -> NoDup s.
Proof.
  intros ip nodes s. unfold fuse_consecutive_layers_gen.
  assert (G : forall nodes st st', NoDup (fst (fst st)) -> (forall k, In k (fst (fst st)) -> dmem k (snd (fst st)) = true) ->
              fold_opt (once_step ip) nodes st = Some st' -> NoDup (fst (fst st'))).
  { clear. induction nodes as [|n nodes IH]; intros st st' Hn Hk; cbn [fold_opt].
    - intro E. inversion E. subst. exact Hn.
    - destruct st as [[s0 f0] n0]. destruct (once_step ip (s0, f0, n0) n) as [[[s1 f1] n1]|] eqn:E; [|discriminate].
      destruct (once_step_inv ip s0 f0 n0 n s1 f1 n1 Hn Hk E) as [Hn1 Hk1]. apply IH; assumption. }
  fold (once_step ip).
  destruct (fold_opt (once_step ip) nodes ([], [], [])) as [[[s1 f1] n1]|] eqn:E; [|discriminate].
  destruct (existsb _ _); [discriminate|]. intro H. inversion H. subst.
  apply (G nodes ([], [], []) (s, f1, n1)); [constructor|intros k []|exact E].
Qed.
End Once.

(* ---- (2) the object graph of Model/Import.v as an instance: node j = the (only) call site of module j *)
Section FuseEq.
Variable c : cfg.
Variable mods : list umod.
Definition HS : Type := (list obj * list (option nat))%type.
Definition dmod : umod := mk KOther false None 0 false false.
Definition um (j : nat) : umod := nth j mods dmod.
Definition prev_of (j : nat) : nat := match u_prev (um j) with Some i => i | None => 0%nat end.
Definition i_arg (_ : HS) (j : nat) : bool := negb (is_none (u_prev (um j))).
Definition i_second (hs : HS) (j : nat) : bool := kind_eqb (u_kind (um j)) KBn && negb (is_none (nth j (snd hs) None)).
Definition i_first (hs : HS) (j : nat) : bool :=
  match u_prev (um j) with
  | Some i => match nth i (snd hs) None with Some L => kind_eqb (o_kind (nth L (fst hs) dobj)) KPit | None => false end
  | None => false
  end.
(* fusion_fn on (a copy of) the layer in slot prev(j) with the BatchNorm in slot j, the result put into slot prev(j) *)
Definition i_fuse (copy : bool) (j : nat) (hs : HS) : HS :=
  let (h, s) := hs in
  match u_prev (um j) with
  | Some i =>
      match nth i s None, nth j s None with
      | Some L, Some B =>
          let (h1, L') := if copy then (h ++ [copy_of L (nth L h dobj)], length h) else (h, L) in
          let bnid := length h1 in
          let h2 := h1 ++ [copy_of B (nth B h1 dobj)] in
          (upd L' (fuse_write c bnid) h2, upd i (fun _ => Some L') s)
      | _, _ => hs
      end
  | None => hs
  end.
Definition i_erase (j : nat) (hs : HS) : HS := (fst hs, upd j (fun _ => None) (snd hs)).

Definition inst_step (ip : bool) := fuse_step_gen HS (fun _ _ => true) i_arg i_arg i_second i_first (fun _ j => u_users (um j)) (fun _ j => prev_of j) (fun _ j => j)
                                      (i_fuse false) (i_fuse (c_copyfuse c)) i_erase ip.
Definition inst_fuse (ip : bool) := fuse_consecutive_layers_gen HS (fun _ _ => true) i_arg i_arg i_second i_first (fun _ j => u_users (um j)) (fun _ j => prev_of j) (fun _ j => j)
                                      (fun _ _ => 1%nat) (i_fuse false) (i_fuse (c_copyfuse c)) i_erase ip.

(* producers read by BatchNorm modules *)
Definition bnp (j : nat) : list nat := match u_kind (um j), u_prev (um j) with KBn, Some i => [i] | _, _ => [] end.

Definition hand_step (hs : HS) (j : nat) : option HS := fuse_one c (um j) j hs.

Lemma step_fuse_as_fold : forall post j hs, (forall k, (k < length post)%nat -> nth k post dmod = um (j + k)) ->
  step_fuse c post j hs = fold_opt hand_step (seq j (length post)) hs.
Proof.
  induction post as [|m post IH]; intros j hs H; cbn [step_fuse length seq fold_opt]; [reflexivity|].
  assert (Hm : um j = m). { pose proof (H 0%nat ltac:(cbn; lia)) as H0. rewrite Nat.add_0_r in H0. cbn [nth] in H0. symmetry. exact H0. }
  unfold hand_step at 1. rewrite Hm.
  destruct (fuse_one c m j hs) as [hs'|]; [|reflexivity]. apply IH. intros k Hk.
  replace (S j + k)%nat with (j + S k)%nat by lia. rewrite <- H by (cbn; lia). reflexivity.
Qed.

Definition dinv (fused nf : dict) (nodes : list nat) : Prop :=
  (forall k, dmem k fused = true -> ~ In k (flat_map bnp nodes)) /\
  (forall k, dmem k fused = true -> dget nf k = 1%nat) /\
  (forall k, dmem k fused = false -> dget_default nf k 0 = 0%nat).

Lemma kind_bn_dec k : {k = KBn} + {kind_eqb k KBn = false}.
Proof. destruct k; (left; reflexivity) || (right; reflexivity). Qed.

Lemma inst_step_eq : forall node nodes hs fused nf, NoDup (flat_map bnp (node :: nodes)) -> dinv fused nf (node :: nodes) ->
  match inst_step fuse_pit_in_place (hs, fused, nf) node with
  | None => hand_step hs node = None
  | Some (hs', fused', nf') => hand_step hs node = Some hs' /\ dinv fused' nf' nodes
  end.
Proof.
  intros node nodes [h s] fused nf Hnd (I1 & I2 & I3).
  assert (Hrest : dinv fused nf nodes).
  { split; [|split; assumption]. intros k Hk Hin. apply (I1 k Hk). cbn [flat_map]. apply in_or_app. right. exact Hin. }
  unfold inst_step, fuse_step_gen, hand_step, fuse_one, i_arg, i_second, i_first, i_fuse, i_erase, prev_of, fuse_pit_in_place, Nat.ltb.
  cbn [fst snd negb]. unfold bnp in Hnd, I1. cbn [flat_map] in Hnd, I1.
  destruct (u_prev (um node)) as [i|] eqn:Ep; destruct (u_kind (um node)) eqn:Ek;
    try destruct (nth i s None) as [L|] eqn:EL; destruct (nth node s None) as [B|] eqn:EB;
    try destruct (kind_eqb (o_kind (nth L h dobj)) KPit) eqn:EP;
    destruct (Nat.leb 2 (u_users (um node))) eqn:EU;
    cbn [is_none negb orb andb kind_eqb app] in *; cbv zeta;
    try (split; [reflexivity|exact Hrest]); try reflexivity.
  assert (Hi : dmem i fused = false).
  { destruct (dmem i fused) eqn:E; [|reflexivity]. exfalso. apply (I1 i E). left. reflexivity. }
  rewrite Hi. cbv zeta. rewrite ?Ep, ?EL, ?EB. cbn [is_none negb orb andb].
  destruct (c_copyfuse c); cbn [fst snd]; (split; [reflexivity|]).
  all: inversion Hnd as [|? ? Hni Hnd']; subst.
  all: split; [|split].
  all: try (intros k Hk; rewrite dmem_dset in Hk; apply orb_true_iff in Hk; destruct Hk as [Hk|Hk];
            [apply Nat.eqb_eq in Hk; subst k; exact Hni|intro Hin; apply (I1 k Hk); right; exact Hin]).
  all: try (intros k Hk; rewrite dmem_dset in Hk; unfold dget; destruct (Nat.eq_dec k i) as [->|Hne];
            [rewrite dget_dset_same, (I3 i Hi); reflexivity|
             rewrite dget_dset_other by exact Hne; apply Nat.eqb_neq in Hne; rewrite Hne in Hk; apply (I2 k Hk)]).
  all: try (intros k Hk; rewrite dmem_dset in Hk; apply orb_false_iff in Hk; destruct Hk as [Hk1 Hk2]; apply Nat.eqb_neq in Hk1;
            rewrite dget_dset_other by exact Hk1; apply (I3 k Hk2)).
Qed.

Lemma inst_fold_eq : forall nodes hs fused nf, NoDup (flat_map bnp nodes) -> dinv fused nf nodes ->
  match fold_opt (inst_step fuse_pit_in_place) nodes (hs, fused, nf) with
  | None => fold_opt hand_step nodes hs = None
  | Some (hs', fused', nf') => fold_opt hand_step nodes hs = Some hs' /\ dinv fused' nf' []
  end.
Proof.
  induction nodes as [|node nodes IH]; intros hs fused nf Hnd Hinv; cbn [fold_opt]; [split; [reflexivity|exact Hinv]|].
  pose proof (inst_step_eq node nodes hs fused nf Hnd Hinv) as H.
  destruct (inst_step fuse_pit_in_place (hs, fused, nf) node) as [[[hs1 f1] n1]|]; [|rewrite H; reflexivity].
  destruct H as [E Hinv1]. rewrite E. apply IH; [|exact Hinv1].
  cbn [flat_map] in Hnd. clear -Hnd. induction (bnp node) as [|a l IHl]; [exact Hnd|]. inversion Hnd. auto.
Qed.

Lemma inst_fold_eq' : forall nodes hs fused nf r, NoDup (flat_map bnp nodes) -> dinv fused nf nodes ->
  fold_opt (inst_step fuse_pit_in_place) nodes (hs, fused, nf) = r ->
  match r with
  | None => fold_opt hand_step nodes hs = None
  | Some (hs', fused', nf') => fold_opt hand_step nodes hs = Some hs' /\ dinv fused' nf' []
  end.
Proof. intros nodes hs fused nf r Hnd Hinv E. subst r. apply inst_fold_eq; assumption. Qed.

(* the generated pass, run as fuse_pit_modules runs it, is the fusion step of the hand-written conversion *)
Theorem gen_fuse_is_step_fuse : forall hs, NoDup (flat_map bnp (seq 0 (length mods))) ->
  inst_fuse fuse_pit_in_place (seq 0 (length mods)) hs = step_fuse c mods 0 hs.
Proof.
  intros hs Hnd. rewrite (step_fuse_as_fold mods 0 hs) by (intros k _; reflexivity).
  assert (H0 : dinv [] [] (seq 0 (length mods))) by (repeat split; intros k Hk; try discriminate Hk; reflexivity).
  change (inst_fuse fuse_pit_in_place (seq 0 (length mods)) hs) with
    (match fold_opt (inst_step fuse_pit_in_place) (seq 0 (length mods)) (hs, [], []) with
     | None => None
     | Some (s, fused, n_fused) => if existsb (fun first_target => negb (Nat.eqb 1 (dget n_fused first_target))) (dkeys fused) then None else Some s
     end).
  destruct (fold_opt (inst_step fuse_pit_in_place) (seq 0 (length mods)) (hs, [], [])) as [[[hs1 f1] n1]|] eqn:EF;
    pose proof (inst_fold_eq' _ _ _ _ _ Hnd H0 EF) as H; cbv beta iota in H; [|symmetry; exact H].
  destruct H as [E (_ & I2 & _)]. rewrite E.
  assert (X : existsb (fun first_target => negb (Nat.eqb 1 (dget n1 first_target))) (dkeys f1) = false).
  { apply not_true_is_false. intro X. apply existsb_exists in X. destruct X as (k & Hk & Hb). apply dmem_keys in Hk.
    rewrite (I2 k Hk) in Hb. discriminate Hb. }
  rewrite X. reflexivity.
Qed.
End FuseEq.

(* ---- the theorems about the fusion step of the hand-written conversion, transported to the generated pass *)
Theorem gen_fuse_keeps_user_objects : forall c mods n h0 h s h' s',
  c_copyfuse c = fuse_pit_copy -> NoDup (flat_map (bnp mods) (seq 0 (length mods))) -> UP n h0 h ->
  inst_fuse c mods fuse_pit_in_place (seq 0 (length mods)) (h, s) = Some (h', s') -> UP n h0 h'.
Proof.
  intros c mods n h0 h s h' s' Hc Hnd Hup E. rewrite (gen_fuse_is_step_fuse c mods (h, s) Hnd) in E.
  eapply (UP_fuse c n h0 mods); [rewrite Hc; reflexivity|exact Hup|exact E].
Qed.

Theorem gen_fuse_sets_flag : forall c mods h s h' s',
  c_setflag c = true -> NoDup (flat_map (bnp mods) (seq 0 (length mods))) -> Forall (FB c) h ->
  inst_fuse c mods fuse_pit_in_place (seq 0 (length mods)) (h, s) = Some (h', s') -> Forall (FB c) h'.
Proof.
  intros c mods h s h' s' Hc Hnd Hfb E. rewrite (gen_fuse_is_step_fuse c mods (h, s) Hnd) in E.
  eapply (FB_fuse c mods Hc); [exact Hfb|exact E].
Qed.

(* ---- (3) concrete graphs for the repaired call-site handling (8a6c6ca): node = position in the lists *)
Local Close Scope Q_scope.
Local Open Scope nat_scope.
Definition ex_fuse (targets : list nat) (arg0 : list (option nat)) (users : list nat) (bn first_ : list nat) (sites : nat -> nat) : option (list nat) :=
  let tgt := fun n => nth n targets 0%nat in
  let a0 := fun n => nth n arg0 None in
  fuse_consecutive_layers_gen (list nat) (fun _ _ => true) (fun _ n => negb (is_none (a0 n))) (fun _ n => negb (is_none (a0 n)))
    (fun _ n => existsb (Nat.eqb (tgt n)) bn)
    (fun _ n => match a0 n with Some p => existsb (Nat.eqb (tgt p)) first_ | None => false end)
    (fun _ n => nth n users 0%nat) (fun _ n => match a0 n with Some p => tgt p | None => 0%nat end) (fun _ n => tgt n)
    (fun _ => sites) (fun n s => s ++ [match a0 n with Some p => tgt p | None => 0%nat end]) (fun n s => s ++ [match a0 n with Some p => tgt p | None => 0%nat end]) (fun _ s => s)
    false (seq 0 (length targets)) [].

Theorem gen_fuse_call_sites :
  (* conv(10) -> bn(11): fused *)
  ex_fuse [10; 11] [None; Some 0] [0; 1] [11] [10] (fun _ => 1) = Some [10] /\
  (* the producer has two users: ValueError *)
  ex_fuse [10; 11] [None; Some 0] [0; 2] [11] [10] (fun _ => 1) = None /\
  (* the pair conv(10) -> bn(11) at two call sites: fused once *)
  ex_fuse [10; 11; 10; 11] [None; Some 0; Some 1; Some 2] [0; 1; 1; 1] [11] [10] (fun _ => 2) = Some [10] /\
  (* conv(10) followed by bn(11) at one call site and by bn(12) at the other: ValueError *)
  ex_fuse [10; 11; 10; 12] [None; Some 0; Some 1; Some 2] [0; 1; 1; 1] [11; 12] [10] (fun _ => 2) = None /\
  (* conv(10) also invoked without its BatchNorm (three call sites left, two fusions): ValueError *)
  ex_fuse [10; 11; 10; 11; 10] [None; Some 0; Some 1; Some 2; Some 3] [0; 1; 1; 1; 1] [11] [10] (fun _ => 3) = None /\
  (* a BatchNorm after something that is not a searchable layer: left alone *)
  ex_fuse [10; 11] [None; Some 0] [0; 1] [11] [] (fun _ => 1) = Some [].
Proof. vm_compute. repeat split; reflexivity. Qed.

(* ---- the correspondence helper of the generated model gives the numbers of run_fold (PIT and MPS folding alike) *)
Local Close Scope nat_scope.
Local Open Scope Q_scope.
Lemma qpair_compat x y : x == y -> qpair x = qpair y.
Proof. intro H. unfold qpair. rewrite (Qred_complete x y H). reflexivity. Qed.
Lemma map_qpair_ext (f g : Q -> Q) l : (forall e, f e == g e) -> map qpair (map f l) = map qpair (map g l).
Proof. intro H. induction l as [|a l IH]; cbn [map]; [reflexivity|]. rewrite IH, (qpair_compat _ _ (H a)). reflexivity. Qed.

Theorem gen_run_fold : forall g be mu r w ob,
  run_fold_gen g be mu r w ob =
    (let v := run_fold (match g with Some x => x | None => 1 end) (match be with Some x => x | None => 0 end) mu r w ob in
     Some (fst v, snd v, fst v, snd v)).
Proof.
  intros g be mu r w ob. unfold run_fold_gen, run_fold, remove_bn_inplace_gen, fuse_bn_inplace_gen, fold_w, fold_b, wmap.
  destruct ob as [b|]; cbn -[Qplus Qmult Qminus Qopp Qdiv Qinv qpair]; rewrite ?app_nil_r;
    repeat match goal with
           | |- Some _ = Some _ => apply f_equal
           | |- (_, _) = (_, _) => apply f_equal2
           | |- map qpair (map _ _) = map qpair (map _ _) => apply map_qpair_ext; intro e; destruct g; qring
           | |- qpair _ = qpair _ => apply qpair_compat; destruct g, be; qring
           end.
Qed.
