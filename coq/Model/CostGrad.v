(* C12 -- cost as a function of the architectural parameters only: value, monotonicity, derivative.

   PIT (plinio/methods/pit/pit.py  PIT._get_single_cost, nn/conv1d.py conv2d.py linear.py
   get_modified_vars / out_features_eff / k_eff, features_masker.py, plinio/graph/features_calculation.py):

     cost = sum over the (unique) leaf layers l of   cost_fn_l ( in_eff l , out_eff l , k_eff l )
     out_eff l = sum (theta of the layer's output-features masker)          (shared maskers: same index)
     k_eff  l  = sum (theta_gamma * gamma_norm * theta_beta * beta_norm)    (Conv1d; Masks.k_eff_cont, flip = true)
     in_eff l  = input_features_calculator.features : the calculators (Const, ModAttr, Flatten, Concat) compose
                 to an affine form  c0 + sum_j mult_j * out_eff (masker j)  with non-negative coefficients --
                 the harness reads the calculator objects of the real layer and emits this normal form.

   The evaluator takes the architecture only: there is no weight and no input-data argument (cost_indep_weights
   is structural; the harness perturbs weights / inputs on the implementation and observes no change).
   The per-layer cost function is a Section variable `f` (hypotheses in Proofs/CostGrad.v); `std_f` is the common
   shape of the built-in params / ops / params_no_bias / ops_no_bias formulas, `gap8_f` the GAP8 latency model.

   Derivative: the same evaluators over dual numbers Q[eps] (forward-mode AD); torch.abs has derivative sign(x)
   (0 at x = 0), the straight-through estimators (FloorSTE) have derivative 1.

   MPS / SuperNet: the layer cost is  sum_i theta_i * c_i  (SuperNetCombiner.get_cost)  resp.
   sum_i sum_j thin_i * thw_j * c_ij  (MPSConv2d.get_cost + torch.sum), ODiMO: softmax(c) . c .  *)
From Coq Require Import QArith Qround ZArith List Bool Arith.
Import ListNotations.
Require Import Plinio.Base.Qx Plinio.Model.Masks.
Local Open Scope Q_scope.

(* ------------------------------------------------------------------ PIT: effective sizes *)
Record masker := { m_alpha : list Q; m_frozen : bool }.
Definition theta_of (m : masker) : list Q :=
  if m_frozen m then theta_alpha_frozen (m_alpha m) else theta_alpha (m_alpha m).
Definition out_eff (m : masker) : Q := qsum (theta_of m).
Definition dflt_masker : masker := {| m_alpha := []; m_frozen := true |}.
Definition mask_eff (ms : list masker) (j : nat) : Q := out_eff (nth j ms dflt_masker).

(* c0 + sum mult_j * out_eff(masker j) *)
Definition affine := (Q * list (Q * nat))%type.
Definition in_eff (ms : list masker) (a : affine) : Q :=
  fst a + qsum (map (fun p => fst p * mask_eff ms (snd p)) (snd a)).

Record tmask := { t_K : nat; t_beta : list Q; t_gamma : list Q }.
Definition k_eff (t : option tmask) : Q :=
  match t with None => 1 | Some t => k_eff_cont true (t_K t) (t_beta t) (t_gamma t) end.

Section Cost.
  Variable St : Type.                       (* static (non searchable) data of a layer *)
  Record layer := { l_s : St; l_mask : nat; l_in : affine; l_time : option tmask }.
  Record net := { n_maskers : list masker; n_layers : list layer }.
  Variable f : St -> Q -> Q -> Q -> Q.      (* cost_fn: static -> in_eff -> out_eff -> k_eff -> cost *)
  Definition layer_cost (ms : list masker) (l : layer) : Q :=
    f (l_s l) (in_eff ms (l_in l)) (mask_eff ms (l_mask l)) (k_eff (l_time l)).
  Definition pit_cost (n : net) : Q := qsum (map (layer_cost (n_maskers n)) (n_layers n)).

  (* the cost of the original (un-searched) model: every size is the static size *)
  Definition n_of (l : list Q) : Q := inject_Z (Z.of_nat (length l)).
  Definition mask_orig (ms : list masker) (j : nat) : Q := n_of (m_alpha (nth j ms dflt_masker)).
  Definition in_orig (ms : list masker) (a : affine) : Q :=
    fst a + qsum (map (fun p => fst p * mask_orig ms (snd p)) (snd a)).
  Definition k_orig (t : option tmask) : Q := match t with None => 1 | Some t => inject_Z (Z.of_nat (t_K t)) end.
  Definition orig_cost (n : net) : Q :=
    qsum (map (fun l => f (l_s l) (in_orig (n_maskers n) (l_in l)) (mask_orig (n_maskers n) (l_mask l)) (k_orig (l_time l))) (n_layers n)).

  (* a model = architecture + weights; the cost evaluator only looks at the architecture *)
  Record pit_model := { pm_arch : net; pm_weights : list (list Q) }.
  Definition model_cost (m : pit_model) : Q := pit_cost (pm_arch m).
End Cost.
Arguments l_s {St}. Arguments l_mask {St}. Arguments l_in {St}. Arguments l_time {St}.
Arguments n_maskers {St}. Arguments n_layers {St}. Arguments Build_layer {St}. Arguments Build_net {St}.
Arguments pit_cost {St}. Arguments orig_cost {St}. Arguments layer_cost {St}. Arguments model_cost {St}.
Arguments pm_arch {St}. Arguments pm_weights {St}. Arguments Build_pit_model {St}.

(* component-wise order of the magnitudes of two parameter vectors *)
Definition abs_le (p q : list Q) : Prop := Forall2 (fun x y => qabs x <= qabs y) p q.
Definition masker_le (m m' : masker) : Prop := m_frozen m = m_frozen m' /\ abs_le (m_alpha m) (m_alpha m').
Definition tmask_le (t t' : tmask) : Prop :=
  t_K t = t_K t' /\ abs_le (t_beta t) (t_beta t') /\ abs_le (t_gamma t) (t_gamma t').
Definition otmask_le (t t' : option tmask) : Prop :=
  match t, t' with None, None => True | Some a, Some b => tmask_le a b | _, _ => False end.
Definition layer_le {St} (l l' : layer St) : Prop :=
  l_s l = l_s l' /\ l_mask l = l_mask l' /\ l_in l = l_in l' /\ otmask_le (l_time l) (l_time l').
Definition net_le {St} (n n' : net St) : Prop :=
  Forall2 masker_le (n_maskers n) (n_maskers n') /\ Forall2 layer_le (n_layers n) (n_layers n').

Definition wf_affine (a : affine) : Prop := 0 <= fst a /\ Forall (fun p => 0 <= fst p) (snd a).
Definition wf_net {St} (n : net St) : Prop := Forall (fun l => wf_affine (l_in l)) (n_layers n).

(* every mask fully open: magnitude 1 everywhere, vectors of the lengths the layers create *)
Definition unit_vec (p : list Q) : Prop := Forall (fun x => qabs x == 1) p.
Definition open_tmask (t : option tmask) : Prop :=
  match t with None => True
  | Some t => (1 <= t_K t)%nat /\ length (t_beta t) = t_K t /\ length (t_gamma t) = gamma_len (t_K t) /\
              unit_vec (t_beta t) /\ unit_vec (t_gamma t) end.
Definition open_net {St} (n : net St) : Prop :=
  Forall (fun m => unit_vec (m_alpha m)) (n_maskers n) /\ Forall (fun l => open_tmask (l_time l)) (n_layers n).

(* ------------------------------------------------------------------ the built-in cost formulas *)
(* params / ops (+ _no_bias): generic  osz * cout * (cin * (k * kc) + b) ; depthwise  osz * cin * (k * kc + b)
   osz = product of the output spatial sizes (ops) or 1 (params); kc = product of the fixed kernel sizes
   (Conv2d: kh*kw, Linear / Conv1d: 1); b = 1 if the layer has a bias and the spec counts it, else 0 *)
Record std := { s_dw : bool; s_osz : Q; s_b : Q; s_kc : Q }.
Definition std_f (s : std) (cin cout k : Q) : Q :=
  if s_dw s then s_osz s * (cin * (k * s_kc s + s_b s)) else s_osz s * (cout * (cin * (k * s_kc s) + s_b s)).
Definition wf_std (s : std) : Prop := 0 <= s_osz s /\ 0 <= s_b s /\ 0 <= s_kc s.

(* gap8_latency.py (2-D networks): FloorSTE(ch, N) = floor((ch + N - 1) / N) *)
Definition fl (x : Q) (n : Z) : Q := inject_Z (Qfloor ((x + inject_Z n - 1) / inject_Z n)).
Inductive g8kind := G8Conv | G8Dw | G8Lin.
Record g8 := { g_kind : g8kind; g_kx : Q; g_ky : Q; g_ox : Q; g_oy : Q }.
Definition gap8_f (s : g8) (cin cout k : Q) : Q :=
  match g_kind s with
  | G8Conv => (fl (g_ox s) 2 * fl (g_oy s) 8) *
              (g_kx s * g_ky s * cin * 2 + fl cout 4 * (5 + fl (g_kx s * g_ky s * cin) 4 * (6 + 8) + 10))
  | G8Dw => 4 * fl cout 4 * g_ox s * g_oy s * g_kx s * g_ky s
  | G8Lin => fl cin 2 * fl cout 4
  end.

(* ------------------------------------------------------------------ dual numbers: forward-mode AD *)
Record dual := { dv : Q; dd : Q }.
Definition dconst (c : Q) : dual := {| dv := c; dd := 0 |}.
Definition dadd (a b : dual) : dual := {| dv := dv a + dv b; dd := dd a + dd b |}.
Definition dmul (a b : dual) : dual := {| dv := dv a * dv b; dd := dd a * dv b + dv a * dd b |}.
Definition qsgn (x : Q) : Q := if qlt_bool 0 x then 1 else if qlt_bool x 0 then -1 else 0.
Definition dabs (a : dual) : dual := {| dv := qabs (dv a); dd := qsgn (dv a) * dd a |}.   (* torch.abs: grad * sign(x) *)
Definition dfl (a : dual) (n : Z) : dual := {| dv := fl (dv a) n; dd := dd a |}.            (* FloorSTE: grad passes *)
Definition dsum (l : list dual) : dual := fold_right dadd (dconst 0) l.

Fixpoint d_keep_alive (p : list dual) : list dual :=
  match p with
  | [] => []
  | [_] => [dconst 1]
  | x :: t => dabs x :: d_keep_alive t
  end.
Definition d_theta_beta (beta : list dual) : list dual :=
  let ka := d_keep_alive beta in map (fun t => dsum (firstn (S t) ka)) (seq 0 (length beta)).
Definition d_theta_gamma_at (ka : list dual) (d : nat) : dual :=
  dsum (map (fun i => if Nat.eqb (d mod 2 ^ i) 0 then nth i ka (dconst 0) else dconst 0) (seq 0 (length ka))).
Definition d_theta_gamma (K : nat) (gamma : list dual) : list dual :=
  let ka := d_keep_alive gamma in map (fun j => d_theta_gamma_at ka (dist true K j)) (seq 0 K).
Definition dmul3 (a b : list dual) : list dual := map (fun p => dmul (fst p) (snd p)) (combine a b).
Definition d_k_eff_cont (K : nat) (beta gamma : list dual) : dual :=
  dsum (dmul3 (dmul3 (d_theta_gamma K gamma) (map dconst (gamma_norm K))) (dmul3 (d_theta_beta beta) (map dconst (beta_norm K)))).

(* seed: the derivative is taken with respect to ONE scalar parameter element *)
Inductive pid := PAlpha (m i : nat) | PBeta (l i : nat) | PGamma (l i : nat).
Definition seed (on : bool) (pos : nat) (p : list Q) : list dual :=
  map (fun q => {| dv := snd q; dd := if on && Nat.eqb (fst q) pos then 1 else 0 |}) (combine (seq 0 (length p)) p).
Definition alpha_on (w : pid) (j : nat) : bool * nat := match w with PAlpha m i => (Nat.eqb m j, i) | _ => (false, O) end.
Definition beta_on (w : pid) (j : nat) : bool * nat := match w with PBeta l i => (Nat.eqb l j, i) | _ => (false, O) end.
Definition gamma_on (w : pid) (j : nat) : bool * nat := match w with PGamma l i => (Nat.eqb l j, i) | _ => (false, O) end.

Definition d_out_eff (w : pid) (j : nat) (m : masker) : dual :=
  if m_frozen m then dconst (qsum (theta_alpha_frozen (m_alpha m)))
  else dsum (d_keep_alive (seed (fst (alpha_on w j)) (snd (alpha_on w j)) (m_alpha m))).
Definition d_mask_eff (w : pid) (ms : list masker) (j : nat) : dual := d_out_eff w j (nth j ms dflt_masker).
Definition d_in_eff (w : pid) (ms : list masker) (a : affine) : dual :=
  dadd (dconst (fst a)) (dsum (map (fun p => dmul (dconst (fst p)) (d_mask_eff w ms (snd p))) (snd a))).
Definition d_k_eff (w : pid) (li : nat) (t : option tmask) : dual :=
  match t with
  | None => dconst 1
  | Some t => d_k_eff_cont (t_K t) (seed (fst (beta_on w li)) (snd (beta_on w li)) (t_beta t))
                                   (seed (fst (gamma_on w li)) (snd (gamma_on w li)) (t_gamma t))
  end.

Definition d_std_f (s : std) (cin cout k : dual) : dual :=
  if s_dw s then dmul (dconst (s_osz s)) (dmul cin (dadd (dmul k (dconst (s_kc s))) (dconst (s_b s))))
  else dmul (dconst (s_osz s)) (dmul cout (dadd (dmul cin (dmul k (dconst (s_kc s)))) (dconst (s_b s)))).
Definition d_gap8_f (s : g8) (cin cout k : dual) : dual :=
  match g_kind s with
  | G8Conv => dmul (dconst (fl (g_ox s) 2 * fl (g_oy s) 8))
               (dadd (dmul (dconst (g_kx s * g_ky s)) (dmul cin (dconst 2)))
                     (dmul (dfl cout 4) (dadd (dadd (dconst 5) (dmul (dfl (dmul (dconst (g_kx s * g_ky s)) cin) 4) (dconst (6 + 8)))) (dconst 10))))
  | G8Dw => dmul (dmul (dconst 4) (dfl cout 4)) (dconst (g_ox s * g_oy s * g_kx s * g_ky s))
  | G8Lin => dmul (dfl cin 2) (dfl cout 4)
  end.

Section DCost.
  Variable St : Type.
  Variable df : St -> dual -> dual -> dual -> dual.
  Definition d_layer_cost (w : pid) (ms : list masker) (il : nat * layer St) : dual :=
    df (l_s (snd il)) (d_in_eff w ms (l_in (snd il))) (d_mask_eff w ms (l_mask (snd il))) (d_k_eff w (fst il) (l_time (snd il))).
  Definition d_pit_cost (w : pid) (n : net St) : dual :=
    dsum (map (d_layer_cost w (n_maskers n)) (combine (seq 0 (length (n_layers n))) (n_layers n))).
End DCost.
Arguments d_pit_cost {St}. Arguments d_layer_cost {St}.

(* ------------------------------------------------------------------ MPS / SuperNet / ODiMO *)
Definition mix_cost (theta c : list Q) : Q := qsum (map (fun p => fst p * snd p) (combine theta c)).
(* MPSConv2d.get_cost + torch.sum:  sum_i sum_j thin_i * thw_j * c_ij *)
Definition mps_layer_cost (thin thw : list Q) (c : list (list Q)) : Q :=
  mix_cost thin (map (fun row => mix_cost thw row) c).
(* replace element i of a vector by x *)
Fixpoint upd (l : list Q) (i : nat) (x : Q) : list Q :=
  match l, i with
  | [], _ => []
  | _ :: t, O => x :: t
  | y :: t, S i' => y :: upd t i' x
  end.
(* odimo_mps_latency_reduction: softmax(c) . c = sum_i g(c_i) c_i / sum_i g(c_i), g = exp (positive) *)
Definition wavg (w c : list Q) : Q := mix_cost w c / qsum w.

(* ------------------------------------------------------------------ correspondence helpers *)
Definition all_pids {St} (n : net St) : list pid :=
  flat_map (fun jm => map (fun i => PAlpha (fst jm) i) (seq 0 (length (m_alpha (snd jm))))) (combine (seq 0 (length (n_maskers n))) (n_maskers n))
  ++ flat_map (fun il => match l_time (snd il) with None => []
       | Some t => map (fun i => PBeta (fst il) i) (seq 0 (length (t_beta t))) ++ map (fun i => PGamma (fst il) i) (seq 0 (length (t_gamma t))) end)
       (combine (seq 0 (length (n_layers n))) (n_layers n)).
(* value, value of the original model, gradient (one forward-mode pass per parameter element, order of all_pids) *)
Definition run_std (n : net std) : (Z * Z) * (Z * Z) * list (Z * Z) :=
  (qpair (pit_cost std_f n), qpair (orig_cost std_f n), map (fun w => qpair (dd (d_pit_cost d_std_f w n))) (all_pids n)).
Definition run_gap8 (n : net g8) : (Z * Z) * (Z * Z) * list (Z * Z) :=
  (qpair (pit_cost gap8_f n), qpair (orig_cost gap8_f n), map (fun w => qpair (dd (d_pit_cost d_gap8_f w n))) (all_pids n)).
Definition run_mix (theta c : list Q) : Z * Z := qpair (mix_cost theta c).
Definition run_mps (thin thw : list Q) (c : list (list Q)) : Z * Z := qpair (mps_layer_cost thin thw c).
Definition run_wavg (w c : list Q) : Z * Z := qpair (wavg w c).

(* ------------------------------------------------------------------ softmax coefficients (MPS / SuperNet): theta = g(alpha)/sum g(alpha), g abstract *)

(* cost of a layer whose coefficients are the g-softmax of alpha *)
Definition sm_cost (g : Q -> Q) (alpha c : list Q) : Q := wavg (map g alpha) c.

(* closed form of d/d alpha_j [ (sum_k w_k c_k) / (sum_k w_k) ] with d w_j = gp (quotient rule) *)
Definition d_sm_cost (w c : list Q) (j : nat) (gp : Q) : Q := gp * (nth j c 0 - wavg w c) / qsum w.

(* the same derivative, honestly, through dual numbers *)
Definition dual_div (a b : dual) : dual :=
  {| dv := dv a / dv b; dd := (dd a * dv b - dv a * dd b) / (dv b * dv b) |}.
Definition d_wavg (w : list dual) (c : list Q) : dual :=
  dual_div (dsum (map (fun p => dmul (fst p) (dconst (snd p))) (combine w c))) (dsum w).
(* seed: dd = gp on element j, 0 elsewhere *)
Fixpoint seedw (w : list Q) (j : nat) (gp : Q) : list dual :=
  match w, j with
  | [], _ => []
  | x :: t, O => {| dv := x; dd := gp |} :: map dconst t
  | x :: t, S j' => dconst x :: seedw t j' gp
  end.

(* built-in bit-cost shapes: params_bit: size = k * cin * cout ; ops_bit: size = MACs * activation bits *)
Definition bit_cost (bits size : Q) : Q := bits * size.
Definition bit_costs (precs : list Q) (size : Q) : list Q := map (fun b => bit_cost b size) precs.

Definition run_sm_grad (w c : list Q) (j : nat) (gp : Q) : Z * Z := qpair (dd (d_wavg (seedw w j gp) c)).
