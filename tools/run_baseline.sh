#!/bin/bash
# runs the pinned baseline suite on a scratch worktree of /repo HEAD with the hook guard OFF and compares with BASELINE.json
sha=$(git -C /repo rev-parse --short HEAD)
wt=/tmp/baseline_$sha
git -C /repo worktree remove --force $wt 2>/dev/null
git -C /repo worktree add -q --detach $wt HEAD || exit 2
cd $wt
env -u EML_EDA_PLINIO_VERIF PYTHONPATH=$wt OMP_NUM_THREADS=1 MKL_NUM_THREADS=1 timeout 7200 /venv/bin/python -m pytest -ra -q -p no:cacheprovider --timeout=900 --continue-on-collection-errors --junitxml=/tmp/baseline_$sha.xml ${BASELINE_XDIST:+-n $BASELINE_XDIST} > /tmp/baseline_$sha.log 2>&1
/venv/bin/python - <<PY
import json, xml.etree.ElementTree as ET
b = json.load(open('/root/.vp/BASELINE.json'))
t = ET.parse('/tmp/baseline_$sha.xml')
res = {}
for tc in t.iter('testcase'):
    name = tc.get('classname') + '::' + tc.get('name')
    bad = any(c.tag in ('failure', 'error') for c in tc)
    res[name] = not bad
missing = [n for n in b['stable_pass'] if not res.get(n)]
print('baseline at $sha: stable tests passing %d/%d ; not passing: %s' % (len(b['stable_pass']) - len(missing), len(b['stable_pass']), missing))
PY
git -C /repo worktree remove --force $wt
