"""C17 helpers: seed networks, wrapper construction, histories, observation / model-state extraction.

Everything here runs the implementation selected by VERIF_REPO (PYTHONPATH); no verdict is taken here.
"""
import copy, hashlib, itertools, json, re
from fractions import Fraction
import torch
import torch.nn as nn

SMP = {'sample_alpha_sm': 0, 'sample_alpha_gs': 1, 'sample_alpha_none': 2}
SMP_NAME = {0: 'Sm', 1: 'Gs', 2: 'NoSamp'}
OBS_ID = {'export': 0, 'export_nobn': 1, 'summary': 2, 'cost': 3, 'str': 4, 'export_run': 5}
SW_ID = {'train_net_only': 0, 'train_nas_only': 1, 'train_net_and_nas': 2, 'train_features': 3, 'train_rf': 4, 'train_dilation': 5, 'train_selection': 6}


# ----------------------------------------------------------------------------- seed networks
TRICKY = ['se_module', 'module', 'model', 'seed', 'sn_module', 'sn_branches_like', 'my_module_2', 'alpha', 'module_', 'x_module',
          'weight_q', 'bias0', 'seed_model', 'layer_module', 'remodule', 'theta', 'module1', 'state_dict_', 'bn_module', 'sn_combiner_2']


class Named(nn.Module):
    """sub-modules are registered under attribute names chosen by a naming scheme: 0 = short plain names; 1, 2 = names that
    contain substrings a key rewrite could hit ('module', 'model', 'seed', 'sn_branches', 'alpha', 'bn' ...), digits, underscores"""
    def __init__(s, scheme=0):
        super().__init__()
        s._scheme, s._names = scheme, {}
        s._no_sn = False

    def put(s, logical, mod):
        if s._scheme == 0:
            actual = logical
        else:
            actual = TRICKY[(len(s._names) + 7 * (s._scheme - 1)) % len(TRICKY)]
            if s._no_sn and 'sn_branches' in actual:
                # SuperNet conversion (supernet/graph.py link_combiners_to_branches) cannot even construct a wrapper around a
                # seed with a plain layer whose name contains 'sn_branches' (ValueError): outside the domain of this property
                actual = 'sn_branch_like'
        s._names[logical] = actual
        s.add_module(actual, mod)

    def g(s, logical):
        return getattr(s, s._names[logical])


class Pit1d(Named):
    """Conv1d with receptive-field / dilation masks, BN, residual add, strided (frozen time masks) conv, Linear"""
    def __init__(s, k=5, stride2=False, scheme=0):
        super().__init__(scheme)
        s.put('p0', nn.ConstantPad1d((k - 1, 0), 0)); s.put('c0', nn.Conv1d(3, 6, k)); s.put('b0', nn.BatchNorm1d(6)); s.put('r', nn.ReLU())
        s.put('p1', nn.ConstantPad1d((2, 0), 0)); s.put('c1', nn.Conv1d(6, 6, 3))
        s.stride2 = stride2
        if stride2:
            s.put('p2', nn.ConstantPad1d((2, 0), 0)); s.put('c2', nn.Conv1d(6, 5, 3, stride=2))
        s.put('pool', nn.AdaptiveAvgPool1d(2)); s.put('f', nn.Flatten()); s.put('l', nn.Linear(10 if stride2 else 12, 4))

    def forward(s, x):
        a = s.g('r')(s.g('b0')(s.g('c0')(s.g('p0')(x)))); b = s.g('c1')(s.g('p1')(a)); y = a + b
        if s.stride2:
            y = torch.relu(s.g('c2')(s.g('p2')(y)))
        return s.g('l')(s.g('f')(s.g('pool')(y)))


class Net2d(Named):
    """Conv2d/BN/ReLU, residual add, Linear/BN1d head; radd = 2 / 3: the SAME two operand tensors are added again further on
    (h = conv(a + b); out = h + (a + b) [+ (a + b)]): additions with identical operand nodes"""
    def __init__(s, c=4, head_bn=False, scheme=0, radd=0):
        super().__init__(scheme)
        s.put('c', nn.Conv2d(3, c, 3, padding=1)); s.put('bn', nn.BatchNorm2d(c)); s.put('r', nn.ReLU())
        s.put('c2', nn.Conv2d(c, c, 3, padding=1)); s.put('r2', nn.ReLU())
        s.radd = radd
        if radd:
            s.put('c3', nn.Conv2d(c, c, 3, padding=1))
        s.put('p', nn.AdaptiveAvgPool2d(1)); s.put('f', nn.Flatten()); s.put('l', nn.Linear(c, 5))
        s.head_bn = head_bn
        if head_bn:
            s.put('bn1', nn.BatchNorm1d(5)); s.put('l2', nn.Linear(5, 3))

    def forward(s, x):
        a = s.g('r')(s.g('bn')(s.g('c')(x))); b = s.g('r2')(s.g('c2')(a))
        t = a + b
        if s.radd:
            t = s.g('c3')(t) + (a + b)
            if s.radd >= 3:
                t = t + (a + b)
        y = s.g('l')(s.g('f')(s.g('p')(t)))
        if s.head_bn:
            y = s.g('l2')(torch.relu(s.g('bn1')(y)))
        return y


class Block(Named):
    """user-defined multi-layer SuperNet branch (conv1x1 - BN - conv3x3) with named sub-modules"""
    def __init__(s, scheme):
        super().__init__(scheme)
        s.put('a', nn.Conv2d(3, 3, 1)); s.put('n', nn.BatchNorm2d(3)); s.put('b', nn.Conv2d(3, 3, 3, padding=1))

    def forward(s, x):
        return s.g('b')(s.g('n')(s.g('a')(x)))


class Sn2(Named):
    """two SuperNet blocks (conv3x3 | conv1x1-BN-conv3x3 | identity) and (conv3x3 | conv5x5), plain conv between, residual add"""
    def __init__(s, gumbel=False, hard=False, scheme=0):
        super().__init__(scheme)
        s._no_sn = True
        from plinio.methods.supernet import SuperNetModule
        mid = nn.Sequential(nn.Conv2d(3, 3, 1), nn.BatchNorm2d(3), nn.Conv2d(3, 3, 3, padding=1)) if scheme == 0 else Block(scheme + 1)
        s.put('b', SuperNetModule([nn.Conv2d(3, 3, 3, padding=1), mid, nn.Identity()], gumbel_softmax=gumbel, hard_softmax=hard))
        s.put('l', nn.Conv2d(3, 2, 1)); s.put('bn', nn.BatchNorm2d(2))
        s.put('b2', SuperNetModule([nn.Conv2d(2, 2, 3, padding=1), nn.Conv2d(2, 2, 5, padding=2)], gumbel_softmax=gumbel, hard_softmax=hard))
        s.put('p', nn.AdaptiveAvgPool2d(1)); s.put('f', nn.Flatten()); s.put('fc', nn.Linear(2, 3))

    def forward(s, x):
        a = torch.relu(s.g('bn')(s.g('l')(s.g('b')(x))))
        return s.g('fc')(s.g('f')(s.g('p')(s.g('b2')(a) + a)))


def input_shape(cfg):
    return (3, 12) if cfg['net'] == 'pit1d' else (3, 6, 6)


def wrapper_rng(cfg, inst):
    """the seed network (initial weights) is the same for every wrapper of a configuration, but each wrapper INSTANCE is
    constructed at its own position of the global random stream, as after a real restart: whatever a constructor draws
    (e.g. the private input example made from input_shape) differs between the original and the restored wrapper"""
    torch.manual_seed(424242 + 1000 * inst + cfg['seed'])


def build(cfg, inst=0):
    """fresh wrapper of the same seed network (same torch seed -> same initial weights) with the constructor options of cfg"""
    from plinio.methods import PIT, MPS, SuperNet
    from plinio.methods.mps import MPSType, get_default_qinfo
    from plinio.cost import params, ops, params_bit, ops_bit
    torch.manual_seed(cfg['seed'])
    m, o = cfg['method'], cfg['opts']
    if m == 'PIT':
        net = Pit1d(o.get('k', 5), o.get('stride2', False), o.get('names', 0)) if cfg['net'] == 'pit1d' else Net2d(4, o.get('head_bn', False), o.get('names', 0), o.get('radd', 0))
        net.train(o.get('seed_training', True))
        wrapper_rng(cfg, inst)
        return PIT(net, input_shape=input_shape(cfg), cost={'params': params, 'ops': ops}, discrete_cost=o.get('discrete_cost', False),
                   fold_bn=o.get('fold_bn', False), full_cost=o.get('full_cost', False))
    if m == 'MPS':
        net = Net2d(o.get('c', 3), o.get('head_bn', False), o.get('names', 0), o.get('radd', 0))
        net.train(o.get('seed_training', True))
        wrapper_rng(cfg, inst)
        return MPS(net, input_shape=input_shape(cfg), cost={'pbit': params_bit, 'obit': ops_bit},
                   w_search_type=MPSType.PER_CHANNEL if o.get('per_channel') else MPSType.PER_LAYER,
                   qinfo=get_default_qinfo(tuple(o.get('w_prec', (2, 4, 8))), tuple(o.get('a_prec', (2, 4, 8)))),
                   temperature=o.get('temperature', 1.0), gumbel_softmax=o.get('gumbel', False), hard_softmax=o.get('hard', False),
                   disable_sampling=o.get('nosamp', False), full_cost=o.get('full_cost', False))
    if m == 'SN':
        net = Sn2(o.get('gumbel', False), o.get('hard', False), o.get('names', 0))
        net.train(o.get('seed_training', True))
        wrapper_rng(cfg, inst)
        return SuperNet(net, input_shape=input_shape(cfg), cost={'params': params, 'ops': ops}, full_cost=o.get('full_cost', False))
    raise ValueError(m)


# ----------------------------------------------------------------------------- structure / state extraction
def digest(t):
    return int(hashlib.sha1(t.detach().contiguous().cpu().numpy().tobytes()).hexdigest()[:7], 16)


def fr(x):
    return Fraction(float(x))


def frl(t):
    return [Fraction(float(v)) for v in t.detach().reshape(-1).tolist()]


def _types():
    from plinio.methods.pit.nn.features_masker import PITFeaturesMasker, PITFrozenFeaturesMasker
    from plinio.methods.pit.nn.timestep_masker import PITTimestepMasker
    from plinio.methods.pit.nn.dilation_masker import PITDilationMasker
    from plinio.methods.pit.nn import PITConv1d
    from plinio.methods.mps.nn.qtz import MPSBaseQtz
    from plinio.methods.supernet.nn.combiner import SuperNetCombiner
    return PITFeaturesMasker, PITFrozenFeaturesMasker, PITTimestepMasker, PITDilationMasker, PITConv1d, MPSBaseQtz, SuperNetCombiner


MASK_SUF = {'Feat': ['alpha', '_keep_alive'], 'FrozenFeat': ['alpha', '_keep_alive', '_fixed_alpha'],
            'TimeM': ['beta', '_keep_alive', '_c_beta'], 'DilM': ['gamma', '_keep_alive', '_c_gamma']}


def extract(W, method):
    """abstract state of a wrapper, read through named_modules / _parameters / _buffers (not through state_dict()):
    plain entries (name, digest), PIT maskers, PIT layers, samplers (MPS quantizers / SuperNet combiners) with alias paths"""
    FM, FFM, TM, DM, C1, QZ, CB = _types()
    masks, mask_ix, samplers, samp_ix, layers, plain = [], {}, [], {}, [], []
    for path, mod in W.named_modules(remove_duplicate=False):
        own = None
        if method == 'PIT' and isinstance(mod, (FM, TM, DM)):
            kind = 'FrozenFeat' if isinstance(mod, FFM) else 'Feat' if isinstance(mod, FM) else 'TimeM' if isinstance(mod, TM) else 'DilM'
            if id(mod) not in mask_ix:
                mask_ix[id(mod)] = len(masks)
                masks.append({'names': [], 'kind': kind, 'mod': mod})
            masks[mask_ix[id(mod)]]['names'].append(path)
            own = MASK_SUF[kind]
        elif method == 'MPS' and isinstance(mod, QZ):
            if id(mod) not in samp_ix:
                samp_ix[id(mod)] = len(samplers)
                samplers.append({'names': [], 'mod': mod})
            samplers[samp_ix[id(mod)]]['names'].append(path)
            own = ['alpha', 'precision', 'temperature', 'theta_alpha']
        elif method == 'SN' and isinstance(mod, CB):
            if id(mod) not in samp_ix:
                samp_ix[id(mod)] = len(samplers)
                samplers.append({'names': [], 'mod': mod})
            samplers[samp_ix[id(mod)]]['names'].append(path)
            own = ['alpha']
        elif method == 'PIT' and hasattr(mod, 'out_features_masker'):
            layers.append({'name': path, 'mod': mod, 'time': isinstance(mod, C1)})
            own = ['_beta_norm', '_gamma_norm'] if isinstance(mod, C1) else []
        items = [(n, t) for n, t in mod._parameters.items() if t is not None]
        items += [(n, t) for n, t in mod._buffers.items() if t is not None and n not in mod._non_persistent_buffers_set]
        for n, t in items:
            if own is not None and n in own:
                continue
            plain.append((path + '.' + n if path else n, t))
    for l in layers:
        m = l['mod']
        l['feat'] = mask_ix[id(m.out_features_masker)]
        l['tix'] = (mask_ix[id(m.timestep_masker)], mask_ix[id(m.dilation_masker)]) if l['time'] else None
    return {'plain': plain, 'masks': masks, 'layers': layers, 'samplers': samplers}


def mask_param(k):
    m = k['mod']
    return frl(m.alpha if k['kind'] in ('Feat', 'FrozenFeat') else m.beta if k['kind'] == 'TimeM' else m.gamma)


def alpha_cols(q):
    a = q['mod'].alpha.detach()
    if a.dim() == 1:
        return [frl(a)]
    return [frl(a[:, c]) for c in range(a.shape[1])]


def values(st):
    """(plain digests, mask parameters, sampler logits) = the payload of the model's OStep"""
    return [digest(t) for _, t in st['plain']], [mask_param(k) for k in st['masks']], [alpha_cols(q) for q in st['samplers']]


def leaf_mode(W):
    """mode of the modules that compute something (containers' flags are irrelevant, fx roots keep a flag of their own)"""
    fl = {bool(m.training) for m in W.modules() if len(list(m.children())) == 0}
    return fl.pop() if len(fl) == 1 else 'MIXED'


def view(W, st, method):
    """transient options as the implementation holds them (python attributes), plus the MPS temperature buffers"""
    v = {'training': leaf_mode(W)}
    if method == 'PIT':
        v['disc'] = [bool(W.discrete_cost)] + [bool(l['mod'].discrete_cost) for l in st['layers']]
    else:
        v['hard'] = [bool(q['mod'].hard_softmax) for q in st['samplers']]
        v['smp'] = [SMP[q['mod'].sample_alpha.__name__] for q in st['samplers']]
        if method == 'MPS':
            v['temps'] = [fr(q['mod'].temperature) for q in st['samplers']]
        else:
            v['temps'] = [Fraction(q['mod'].softmax_temperature) for q in st['samplers']]
    return v


def reach(W, st, method):
    """MPS: quantizers that MPS.update_softmax_options reaches (out_/w_mps_quantizer of a layer in _unique_leaf_modules)"""
    if method != 'MPS':
        return [True] * len(st['samplers'])
    ids = set()
    for _, _, layer in W._unique_leaf_modules:
        for a in ('out_mps_quantizer', 'w_mps_quantizer'):
            if hasattr(layer, a):
                ids.add(id(getattr(layer, a)))
    return [id(q['mod']) in ids for q in st['samplers']]


# ----------------------------------------------------------------------------- histories
class Runner:
    def __init__(self, cfg):
        self.cfg = cfg
        self.W = build(cfg)
        self.m = cfg['method']
        self.st = extract(self.W, self.m)
        self.opt = None
        self.noise = 0
        self.mops = []          # model ops (python tuples)
        self.views = []
        self.key_changes = []
        self.value_changes = []
        self.obs_exc = []

    def x(self, k):
        g = torch.Generator().manual_seed(7000 + 13 * self.cfg['seed'] + k)
        return torch.randn((4,) + input_shape(self.cfg), generator=g)

    def _opts(self, kind):
        if self.opt is None or self.opt[0] != kind:
            mk = (lambda ps: torch.optim.SGD(ps, lr=0.05, momentum=0.9)) if kind == 'sgd' else (lambda ps: torch.optim.Adam(ps, lr=0.02))
            self.opt = (kind, mk(list(self.W.net_parameters())), mk(list(self.W.nas_parameters())))
        return self.opt[1], self.opt[2]

    def snap(self, mop):
        self.mops.append(mop)
        self.views.append(view(self.W, self.st, self.m))

    def apply(self, op):
        W, k = self.W, op[0]
        if k == 'step':
            self.noise += 1
            torch.manual_seed(1000 + self.noise)
            o1, o2 = self._opts(op[1])
            for q in (o1, o2):
                q.zero_grad()
            out = W(self.x(self.noise))
            cost = sum(W.get_cost(n) for n in W.cost_specification)
            loss = (out ** 2).mean() + 1e-4 * cost
            try:
                loss.backward()
                o1.step(); o2.step()
            except RuntimeError as ex:
                # MPS with disable_sampling keeps the coefficient tensor (and its autograd graph) of an earlier forward
                # pass: a second backward through it is impossible; the step degenerates to a forward pass
                # ... and nothing is left to differentiate when every parameter that reaches the loss is frozen
                if 'backward through the graph a second time' not in str(ex) and 'does not require grad' not in str(ex):
                    raise
            self.snap(('fwd', self.noise))
            self.snap(('vals',) + values(self.st))
        elif k == 'fwd':
            self.noise += 1
            torch.manual_seed(1000 + self.noise)
            with torch.no_grad():
                W(self.x(self.noise))
            self.snap(('fwd', self.noise))
            self.snap(('vals',) + values(self.st))
        elif k == 'train':
            W.train(); self.snap(('train',))
        elif k == 'eval':
            W.eval(); self.snap(('eval',))
        elif k == 'disc':
            W.discrete_cost = op[1]; self.snap(('disc', op[1]))
        elif k == 'obs':     # observer calls inside the history, with their non-default options; never replayed after the restart
            before = sorted(W.state_dict().keys())
            vbefore = {k: digest(v) for k, v in W.state_dict().items()}
            try:
                if op[1] == 'export':
                    W.export()
                elif op[1] == 'export_nobn':
                    W.export(add_bn=False)
                elif op[1] == 'export_run':      # export and USE the exported network (it may share objects with the NAS model)
                    # inference with the exported network: only while the NAS model is in eval mode -- SuperNet.export() returns a
                    # network that SHARES its layers (BatchNorm included) with the NAS model, so calling e.eval() would flip the NAS
                    # model's flags and a train-mode run would write its BatchNorm statistics: neither is an observer call
                    e = W.export()
                    if leaf_mode(W) is False:
                        e.eval()
                        with torch.no_grad():
                            e(self.x(500 + len(self.mops)))
                elif op[1] == 'summary':
                    W.summary()
                elif op[1] == 'cost':
                    [W.get_cost(n) for n in W.cost_specification]
                else:
                    str(W)
                exc = None
            except Exception as ex:
                exc = 'EXC:' + type(ex).__name__
            after = sorted(W.state_dict().keys())
            vafter = {k: digest(v) for k, v in W.state_dict().items()}
            chg = sorted(k for k in vbefore if k in vafter and vbefore[k] != vafter[k])
            if chg:
                self.value_changes.append({'observer': op[1], 'mode': 'train' if leaf_mode(W) is True else 'eval' if leaf_mode(W) is False else 'mixed', 'changed': chg[:8], 'n': len(chg)})
            if before != after:
                self.key_changes.append({'observer': op[1], 'lost': sorted(set(before) - set(after))[:6], 'gained': sorted(set(after) - set(before))[:6]})
            if exc:
                self.obs_exc.append((op[1], exc))
            self.snap(('obs', OBS_ID[op[1]]))
        elif k == 'sw':      # trainability switches: they write requires_grad only; never replayed on the restored wrapper
            name, b = op[1], op[2]
            if name in ('train_net_only', 'train_nas_only', 'train_net_and_nas'):
                getattr(W, name)()
            else:
                setattr(W, name, b)
            self.snap(('sw', SW_ID[name], b))
        elif k == 'perturb':  # arbitrary new values of the architectural parameters (what a long search reaches): masks get pruned
            g = torch.Generator().manual_seed(9000 + op[1])
            with torch.no_grad():
                for q in W.nas_parameters():
                    if self.m == 'PIT':
                        q.copy_(torch.rand(q.shape, generator=g) * 1.3)
                    else:
                        q.copy_(torch.randn(q.shape, generator=g))
            self.snap(('vals',) + values(self.st))
        elif k == 'upd':     # ('upd', temperature|None, hard|None, gumbel|None, disable|None)
            if self.m == 'MPS':
                W.update_softmax_options(temperature=op[1], hard=op[2], gumbel=op[3], disable_sampling=op[4])
            else:
                W.update_softmax_options(temperature=op[1], hard=op[2])
            self.snap(('upd', None if op[1] is None else Fraction(float(torch.tensor(op[1], dtype=torch.float32))) if self.m == 'MPS' else Fraction(op[1]), op[2], op[3], op[4]))
        else:
            raise ValueError(op)


def changed_options(W, st, cfg):
    """transient options (python attributes outside the state_dict) whose value differs from the constructor's"""
    m, o = cfg['method'], cfg['opts']
    v = view(W, st, m)
    ch = []
    if m == 'PIT':
        if set(v['disc']) != {bool(o.get('discrete_cost', False))}:
            ch.append('discrete_cost')
    else:
        rc = reach(W, st, m)
        smp0 = 2 if (m == 'MPS' and o.get('nosamp')) else 1 if o.get('gumbel') else 0
        smp = {x for x, r in zip(v['smp'], rc) if r}
        if smp != {smp0}:
            ch.append('disable_sampling' if (2 in smp or smp0 == 2) else 'gumbel_softmax')
        if {x for x, r in zip(v['hard'], rc) if r} != {bool(o.get('hard', False))}:
            ch.append('hard_softmax')
        if m == 'SN' and set(v['temps']) != {Fraction(1)}:
            ch.append('temperature')
    return ch


def leaf_struct(mod):
    out = []
    for n, m in mod.named_modules():
        if len(list(m.children())) == 0:
            try:
                r = repr(m)
            except Exception as ex:     # a repr that needs state that was never computed is itself an observation
                r = 'EXC:' + type(ex).__name__
            # requires_grad of the exported parameters is neither structure nor weights (printed by some quantizer reprs)
            r = re.sub(r',?\s*requires_grad=(True|False)', '', r)
            out.append((n, type(m).__name__, r))
    return out


def sd_equal(a, b):
    if list(a.keys()) != list(b.keys()):
        return False
    return all(a[k].shape == b[k].shape and torch.equal(a[k], b[k]) for k in a)


def observe(W, x, seed, cb=None):
    """the four observations of the property after the usual forward pass; exceptions are observations"""
    o = {}
    try:
        torch.manual_seed(seed)
        with torch.no_grad():
            o['out'] = W(x).detach().clone()
    except Exception as ex:
        o['out'] = 'EXC:' + type(ex).__name__
    if cb is not None:
        o['_cb'] = cb()
    try:
        o['cost'] = {n: float(W.get_cost(n)) for n in W.cost_specification}
    except Exception as ex:
        o['cost'] = 'EXC:' + type(ex).__name__
    try:
        torch.manual_seed(seed + 1)
        o['summary'] = json.dumps(W.summary(), sort_keys=True, default=str)
    except Exception as ex:
        o['summary'] = 'EXC:' + type(ex).__name__
    try:
        torch.manual_seed(seed + 2)
        e = W.export()
        e.eval()
        with torch.no_grad():
            ye = e(x)
        o['export'] = (leaf_struct(e), {k: v.detach().clone() for k, v in e.state_dict().items()}, ye.detach().clone())
    except Exception as ex:
        o['export'] = 'EXC:' + type(ex).__name__ + ':' + str(ex)[:80]
    return o


def same(a, b, what):
    if isinstance(a, str) or isinstance(b, str):
        return a == b
    if what == 'out':
        return a.shape == b.shape and torch.equal(a, b)
    if what == 'cost':
        return a == b
    if what == 'summary':
        return a == b
    return a[0] == b[0] and sd_equal(a[1], b[1]) and a[2].shape == b[2].shape and torch.equal(a[2], b[2])


def brief(v, what):
    if isinstance(v, str):
        return v[:400]
    if what == 'out':
        return [round(float(z), 6) for z in v.reshape(-1)[:6]]
    if what == 'cost':
        return v
    return ('%d leaf modules, output ' % len(v[0])) + str([round(float(z), 6) for z in v[2].reshape(-1)[:4]])


def theta_impl(st, method):
    out = []
    for q in st['samplers']:
        t = q['mod'].theta_alpha.detach()
        cols = [t.tolist()] if t.dim() == 1 else [t[:, c].tolist() for c in range(t.shape[1])]
        out.append(cols)
    return out


def pit_eff_impl(st):
    out = []
    for l in st['layers']:
        m = l['mod']
        with torch.no_grad():
            out.append((float(m.out_features_eff), float(m.k_eff) if l['time'] else 0.0))
    return out


def run_case(case):
    """one case on the implementation: history -> checkpoint -> fresh wrapper -> strict load -> same mode -> forward -> compare"""
    torch.set_num_threads(1)
    import warnings
    warnings.filterwarnings('ignore')
    cfg, ops = case['cfg'], case['ops']
    R = Runner(cfg)
    st0 = R.st
    res = {'fresh': {'bn': any(isinstance(mm, nn.modules.batchnorm._BatchNorm) and mm.track_running_stats for mm in R.W.modules()),
                     'plain': [n for n, _ in st0['plain']], 'digests': [digest(t) for _, t in st0['plain']],
                     'masks': [{'names': k['names'], 'kind': k['kind'], 'p': mask_param(k), 'ka': frl(k['mod']._keep_alive),
                                'c': ([frl(r) for r in (k['mod']._c_beta if k['kind'] == 'TimeM' else k['mod']._c_gamma)] if k['kind'] in ('TimeM', 'DilM') else []),
                                'fixed': frl(k['mod']._fixed_alpha) if k['kind'] == 'FrozenFeat' else []} for k in st0['masks']],
                     'layers': [{'name': l['name'], 'feat': l['feat'], 'tix': l['tix'],
                                 'bn': [x.limit_denominator(1000) for x in frl(l['mod']._beta_norm)] if l['time'] else [],
                                 'gn': [x.limit_denominator(1000) for x in frl(l['mod']._gamma_norm)] if l['time'] else []} for l in st0['layers']],
                     'samplers': [{'names': q['names'], 'reach': rc, 'alpha': alpha_cols(q), 'prec': frl(q['mod'].precision) if cfg['method'] == 'MPS' else []} for q, rc in zip(st0['samplers'], reach(R.W, st0, cfg['method']))],
                     'view': view(R.W, st0, cfg['method'])}}
    for op in ops:
        R.apply(op)
    W = R.W
    res['mops'], res['views'] = R.mops, R.views
    res['key_changes'], res['obs_exc'] = R.key_changes, R.obs_exc
    res['value_changes'] = R.value_changes
    res['changed'] = changed_options(W, R.st, cfg)
    sd = copy.deepcopy(W.state_dict())
    res['ckpt_keys'] = sorted(sd.keys())
    lm = leaf_mode(W)
    res['uniform_mode'] = lm != 'MIXED'
    seed_mode = lm if lm != 'MIXED' else bool(W.seed.training)
    # restart protocols:  A build, load, train(mode)/eval(), forward      (only when the original has one mode for all modules)
    #                     B build from a seed that is already in the mode of the original, load, forward: NO mode call at all
    #                     C build, train(mode)/eval(), load, forward
    protos = ['A', 'B', 'C'] if res['uniform_mode'] else ['B']
    restored = {}
    for pr in protos:
        c2 = cfg if pr != 'B' else dict(cfg, opts=dict(cfg['opts'], seed_training=seed_mode))
        W2 = build(c2, inst=1 + 'ABC'.index(pr))
        if pr == 'C':
            W2.train(seed_mode)
        if 'fresh_keys' not in res:
            res['fresh_keys'] = sorted(W2.state_dict().keys())
        try:
            r = W2.load_state_dict(sd, strict=True)
            ld = {'ok': True, 'missing': list(r.missing_keys), 'unexpected': list(r.unexpected_keys)}
        except Exception as ex:
            ld = {'ok': False, 'exc': type(ex).__name__, 'msg': str(ex)[:600]}
        res.setdefault('load', ld)
        res.setdefault('loads', {})[pr] = ld
        if not ld['ok']:
            return res
        if pr == 'A':
            W2.train(seed_mode)
        restored[pr] = W2
    noise = R.noise + 1
    res['noise'] = noise
    x = R.x(noise)
    oa = observe(W, x, 1000 + noise, cb=lambda: {'thetas': theta_impl(R.st, cfg['method']) if cfg['method'] != 'PIT' else [],
                                                   'eff': pit_eff_impl(R.st) if cfg['method'] == 'PIT' else []})
    res['after_fwd'] = oa.pop('_cb')
    res['eqs'], res['briefs'] = {}, {}
    for pr in protos:
        ob = observe(restored[pr], x, 1000 + noise)
        res['eqs'][pr] = {k: same(oa[k], ob[k], k) for k in ('out', 'cost', 'summary', 'export')}
        res['briefs'][pr] = {k: (brief(oa[k], k), brief(ob[k], k)) for k in ('out', 'cost', 'summary', 'export') if not res['eqs'][pr][k]}
    res['eq'] = {k: all(res['eqs'][pr][k] for pr in protos) for k in ('out', 'cost', 'summary', 'export')}
    res['exc'] = {k: oa[k] for k in oa if isinstance(oa[k], str) and oa[k].startswith('EXC')}
    return res
