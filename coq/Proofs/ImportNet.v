(* Proofs about Model/ImportNet.v (C07, network level): with the initial masks the imported PIT network computes, at every
   node, what the original network (plain layers followed by their BatchNorm) computes; composed with C01's export soundness:
   so does the immediately exported network, which has the original sizes and parameters. *)
From Coq Require Import List Arith Bool Lia ZArith Setoid Morphisms.
Import ListNotations.
Require Import Plinio.Model.Masks Plinio.Model.Conv Plinio.Model.PitNet Plinio.Model.ImportNet.
Require Plinio.Proofs.Conv Plinio.Proofs.PitNet.
Module PC := Plinio.Proofs.Conv.
Module PN := Plinio.Proofs.PitNet.

(* the laws folding needs on top of PC.laws (0 + x = x, 0 * x = 0 = x * 0, 1 * x = x = x * 1): + and * commutative and
   associative, * distributes over + — every commutative (semi)ring, e.g. Z and Qc *)
Definition sring {R} (radd rmul : R -> R -> R) : Prop :=
  (forall x y, radd x y = radd y x) /\ (forall x y z, radd x (radd y z) = radd (radd x y) z) /\
  (forall x y, rmul x y = rmul y x) /\ (forall x y z, rmul x (rmul y z) = rmul (rmul x y) z) /\
  (forall x y a, rmul (radd x y) a = radd (rmul x a) (rmul y a)).
Lemma sring_Z : sring Z.add Z.mul.
Proof. repeat split; intros; lia. Qed.
Require Import Coq.QArith.Qcanon.
Close Scope Qc_scope.
Lemma sring_Qc : sring Qcplus Qcmult.
Proof.
  repeat split; intros.
  - apply Qcplus_comm.
  - apply Qcplus_assoc.
  - apply Qcmult_comm.
  - apply Qcmult_assoc.
  - apply Qcmult_plus_distr_l.
Qed.

Section P.
Variable R : Type.
Variables (r0 r1 : R) (radd rmul : R -> R -> R).
Hypothesis HL : PC.laws r0 r1 radd rmul.
Let Hadd0 : forall x, radd r0 x = x := proj1 HL.
Let Hm0l : forall x, rmul r0 x = r0 := proj1 (proj2 HL).
Let Hm0r : forall x, rmul x r0 = r0 := proj1 (proj2 (proj2 HL)).
Let Hm1l : forall x, rmul r1 x = x := proj1 (proj2 (proj2 (proj2 HL))).
Let Hm1r : forall x, rmul x r1 = x := proj2 (proj2 (proj2 (proj2 HL))).

Notation SR := (SR R).
Notation eqR := (eqR R).
Notation zeroR := (zeroR R r0).
Notation addR := (addR R radd).
Notation rsum := (rsum r0 radd).

(* ================================================================ open masks are no masks *)
Lemma nth_all_true n c : c < n -> nth c (all_true n) false = true.
Proof. unfold all_true. revert c. induction n as [|n IH]; intros c H; [lia|]. destruct c; cbn [repeat nth]; [reflexivity|apply IH; lia]. Qed.

Lemma nth_open_row K (l : list R) j : j < K ->
  nth j (map (fun p => rmul (bit r0 r1 (fst p)) (snd p)) (combine (all_true K) l)) r0 = nth j l r0.
Proof.
  unfold all_true. revert l j. induction K as [|K IH]; intros l j H; [lia|]. destruct l as [|v l]; [destruct j; reflexivity|].
  cbn [repeat combine map fst snd]. destruct j; cbn [nth]; [apply Hm1l|apply IH; lia].
Qed.

Lemma taps_wext wk wk' K d (x : Z -> R) u : (forall j, j < K -> nth j wk r0 = nth j wk' r0) ->
  taps r0 radd rmul wk K d x u = taps r0 radd rmul wk' K d x u.
Proof. intro H. unfold taps. f_equal. apply map_ext_in. intros j Hj. apply in_seq in Hj. rewrite H by lia. reflexivity. Qed.

Lemma conv1d_open_time dw (w : w3 R) b cin K d s x co t :
  conv1d_at r0 radd rmul dw (mask_w3_time r0 r1 rmul (all_true K) w) b cin K d s x co t = conv1d_at r0 radd rmul dw w b cin K d s x co t.
Proof.
  unfold conv1d_at. f_equal. destruct dw.
  - apply taps_wext. intros j Hj. rewrite PC.w3at_time'. apply nth_open_row. exact Hj.
  - f_equal. apply map_ext. intro ci. apply taps_wext. intros j Hj. rewrite PC.w3at_time'. apply nth_open_row. exact Hj.
Qed.

Lemma all_true_length n : length (all_true n) = n.
Proof. apply repeat_length. Qed.

(* fold off: weights x time mask, conv, BatchNorm, x features mask *)
Lemma open1_nofold dw (w : w3 R) b bn cin K d s cout x co t : co < cout ->
  pit_conv1d_at r0 r1 radd rmul true false dw w b bn cin K d s (all_true cout) (all_true K) x co t
  = bn_at r0 radd rmul bn co (conv1d_at r0 radd rmul dw w b cin K d s x co t).
Proof. intro H. unfold pit_conv1d_at. rewrite (nth_all_true cout co H). cbn [bit]. rewrite Hm1r, conv1d_open_time. reflexivity. Qed.
Lemma open2_nofold dw (w : w4 R) b bn cin kh kw d s ph pw cout x co h v : co < cout ->
  pit_conv2d_at r0 r1 radd rmul true false dw w b bn cin kh kw d s ph pw (all_true cout) x co h v
  = bn_at r0 radd rmul bn co (conv2d_at r0 radd rmul dw w b cin kh kw d s ph pw x co h v).
Proof. intro H. unfold pit_conv2d_at. rewrite (nth_all_true cout co H). cbn [bit]. apply Hm1r. Qed.
Lemma open0_nofold (w : list (list R)) b bn cin cout x co : co < cout ->
  pit_linear_at r0 r1 radd rmul true false w b bn cin (all_true cout) x co = bn_at r0 radd rmul bn co (linear_at r0 radd rmul w b cin x co).
Proof. intro H. unfold pit_linear_at. rewrite (nth_all_true cout co H). cbn [bit]. apply Hm1r. Qed.

(* fold on: weights (and bias) x features mask, x time mask, conv *)
Lemma open1_fold dw (w : w3 R) b bn cin K d s cout x co t : length w = cout -> PC.bias_ok R b cout -> co < cout ->
  pit_conv1d_at r0 r1 radd rmul true true dw w b bn cin K d s (all_true cout) (all_true K) x co t
  = conv1d_at r0 radd rmul dw w b cin K d s x co t.
Proof.
  intros Hw Hb H. rewrite (PC.fold_alive_conv1d R r0 r1 radd rmul Hm0l Hm1r).
  - apply conv1d_open_time.
  - rewrite all_true_length. symmetry. exact Hw.
  - rewrite all_true_length. exact Hb.
  - apply nth_all_true. exact H.
Qed.
Lemma open2_fold dw (w : w4 R) b bn cin kh kw d s ph pw cout x co h v : length w = cout -> PC.bias_ok R b cout -> co < cout ->
  pit_conv2d_at r0 r1 radd rmul true true dw w b bn cin kh kw d s ph pw (all_true cout) x co h v
  = conv2d_at r0 radd rmul dw w b cin kh kw d s ph pw x co h v.
Proof.
  intros Hw Hb H. apply (PC.fold_alive_conv2d R r0 r1 radd rmul Hm0l Hm1r).
  - rewrite all_true_length. symmetry. exact Hw.
  - rewrite all_true_length. exact Hb.
  - apply nth_all_true. exact H.
Qed.
Lemma open0_fold (w : list (list R)) b bn cin cout x co : length w = cout -> PC.bias_ok R b cout -> co < cout ->
  pit_linear_at r0 r1 radd rmul true true w b bn cin (all_true cout) x co = linear_at r0 radd rmul w b cin x co.
Proof.
  intros Hw Hb H. apply (PC.fold_alive_linear R r0 r1 radd rmul Hm0l Hm1r).
  - rewrite all_true_length. symmetry. exact Hw.
  - rewrite all_true_length. exact Hb.
  - apply nth_all_true. exact H.
Qed.

(* ================================================================ folding (remove_bn_inplace) at the level of a layer *)
Hypothesis HS : sring radd rmul.
Let Hac : forall x y, radd x y = radd y x := proj1 HS.
Let Haa : forall x y z, radd x (radd y z) = radd (radd x y) z := proj1 (proj2 HS).
Let Hmc : forall x y, rmul x y = rmul y x := proj1 (proj2 (proj2 HS)).
Let Hma : forall x y z, rmul x (rmul y z) = rmul (rmul x y) z := proj1 (proj2 (proj2 (proj2 HS))).
Let Hd : forall x y a, rmul (radd x y) a = radd (rmul x a) (rmul y a) := proj2 (proj2 (proj2 (proj2 HS))).

Lemma rsum_scale {A} (f : A -> R) c l : rsum (map (fun i => rmul (f i) c) l) = rmul (rsum (map f l)) c.
Proof. induction l as [|i l IH]; cbn [map Conv.rsum fold_right]; [symmetry; apply Hm0l|]. rewrite Hd. f_equal. exact IH. Qed.

Lemma nth_map_zero (g : R -> R) (l : list R) j : g r0 = r0 -> nth j (map g l) r0 = g (nth j l r0).
Proof.
  intro Hg. destruct (Nat.lt_ge_cases j (length l)) as [H|H].
  - apply PC.nth_map_in. exact H.
  - rewrite !nth_overflow; [symmetry; exact Hg|exact H|rewrite map_length; exact H].
Qed.

Lemma mul_swap w c x : rmul (rmul w c) x = rmul (rmul w x) c.
Proof. rewrite <- Hma, (Hmc c x), Hma. reflexivity. Qed.

Lemma taps_scale wk c K d (x : Z -> R) u :
  taps r0 radd rmul (map (fun v => rmul v c) wk) K d x u = rmul (taps r0 radd rmul wk K d x u) c.
Proof.
  unfold taps. rewrite <- rsum_scale. f_equal. apply map_ext. intro j.
  rewrite (nth_map_zero (fun v => rmul v c)) by apply Hm0l. apply mul_swap.
Qed.

Lemma taps2_scale (wk : list (list R)) c kh kw d (x : Z -> Z -> R) u v :
  taps2 r0 radd rmul (map (map (fun z => rmul z c)) wk) kh kw d x u v = rmul (taps2 r0 radd rmul wk kh kw d x u v) c.
Proof.
  unfold taps2. rewrite <- rsum_scale. f_equal. apply map_ext. intro a. rewrite <- rsum_scale. f_equal. apply map_ext. intro b.
  change (@nil R) with (map (fun z => rmul z c) []) at 1. rewrite map_nth.
  rewrite (nth_map_zero (fun z => rmul z c)) by apply Hm0l. apply mul_swap.
Qed.

Lemma nth_fold_rows {A} (g : nat -> A -> A) (w : list A) co d : co < length w ->
  nth co (map (fun p => g (fst p) (snd p)) (combine (seq 0 (length w)) w)) d = g co (nth co w d).
Proof.
  intro H. rewrite (PC.nth_map_in _ (combine (seq 0 (length w)) w) co (0, d) d) by (rewrite combine_length, seq_length; lia).
  rewrite combine_nth by apply seq_length. cbn [fst snd]. rewrite seq_nth by exact H. reflexivity.
Qed.

Lemma w3at_fold a (w : w3 R) co ci : co < length w ->
  w3at (fold_w3 R r0 rmul a w) co ci = map (fun v => rmul v (nth co a r0)) (w3at w co ci).
Proof.
  intro H. unfold w3at, fold_w3. rewrite (nth_fold_rows (fun c rows => map (map (fun v => rmul v (nth c a r0))) rows) w co [] H).
  change (@nil R) with (map (fun v => rmul v (nth co a r0)) []) at 1. rewrite map_nth. reflexivity.
Qed.
Lemma w4at_fold a (w : w4 R) co ci : co < length w ->
  w4at (fold_w4 R r0 rmul a w) co ci = map (map (fun v => rmul v (nth co a r0))) (w4at w co ci).
Proof.
  intro H. unfold w4at, fold_w4. rewrite (nth_fold_rows (fun c rows => map (map (map (fun v => rmul v (nth c a r0)))) rows) w co [] H).
  change (@nil (list R)) with (map (map (fun v => rmul v (nth co a r0))) []) at 1. rewrite map_nth. reflexivity.
Qed.
Lemma w2_fold a (w : list (list R)) co ci : co < length w ->
  nth ci (nth co (fold_w2 R r0 rmul a w) []) r0 = rmul (nth ci (nth co w []) r0) (nth co a r0).
Proof.
  intro H. unfold fold_w2. rewrite (nth_fold_rows (fun c row => map (fun v => rmul v (nth c a r0)) row) w co [] H).
  apply (nth_map_zero (fun v => rmul v (nth co a r0))). apply Hm0l.
Qed.

(* bias part:  (b*a + sh) + acc*a  =  (b + acc)*a + sh   (b = 0 without a conv bias) *)
Lemma fold_bias_at a sh (b : option (list R)) cout co acc : co < cout ->
  addbias r0 radd (fold_bias R r0 radd rmul a sh b cout) co (rmul acc (nth co a r0))
  = bn_at r0 radd rmul (Some (a, sh)) co (addbias r0 radd b co acc).
Proof.
  intro H. unfold fold_bias, addbias, bn_at. rewrite (PC.nth_map_seq0 _ cout co r0 H).
  destruct b as [bl|]; cbn [bval].
  - rewrite Hd. rewrite <- !Haa. f_equal. apply Hac.
  - rewrite Hm0l, Hadd0. apply Hac.
Qed.

Lemma conv1d_fold dw (w : w3 R) b a sh cin K d s x co t : co < length w ->
  conv1d_at r0 radd rmul dw (fold_w3 R r0 rmul a w) (fold_bias R r0 radd rmul a sh b (length w)) cin K d s x co t
  = bn_at r0 radd rmul (Some (a, sh)) co (conv1d_at r0 radd rmul dw w b cin K d s x co t).
Proof.
  intro H. unfold conv1d_at. rewrite <- (fold_bias_at a sh b (length w) co _ H). f_equal. destruct dw.
  - rewrite w3at_fold by exact H. apply taps_scale.
  - rewrite <- rsum_scale. f_equal. apply map_ext. intro ci. rewrite w3at_fold by exact H. apply taps_scale.
Qed.
Lemma conv2d_fold dw (w : w4 R) b a sh cin kh kw d s ph pw x co h v : co < length w ->
  conv2d_at r0 radd rmul dw (fold_w4 R r0 rmul a w) (fold_bias R r0 radd rmul a sh b (length w)) cin kh kw d s ph pw x co h v
  = bn_at r0 radd rmul (Some (a, sh)) co (conv2d_at r0 radd rmul dw w b cin kh kw d s ph pw x co h v).
Proof.
  intro H. unfold conv2d_at. rewrite <- (fold_bias_at a sh b (length w) co _ H). f_equal. destruct dw.
  - rewrite w4at_fold by exact H. apply taps2_scale.
  - rewrite <- rsum_scale. f_equal. apply map_ext. intro ci. rewrite w4at_fold by exact H. apply taps2_scale.
Qed.
Lemma linear_fold (w : list (list R)) b a sh cin x co : co < length w ->
  linear_at r0 radd rmul (fold_w2 R r0 rmul a w) (fold_bias R r0 radd rmul a sh b (length w)) cin x co
  = bn_at r0 radd rmul (Some (a, sh)) co (linear_at r0 radd rmul w b cin x co).
Proof.
  intro H. unfold linear_at. rewrite <- (fold_bias_at a sh b (length w) co _ H). f_equal.
  rewrite <- rsum_scale. f_equal. apply map_ext. intro ci. rewrite w2_fold by exact H. apply mul_swap.
Qed.

(* ================================================================ network level *)
Lemma F2_refl l : Forall2 eqR l l.
Proof. induction l; constructor; auto. intro; reflexivity. Qed.
Lemma F2_trans l1 l2 l3 : Forall2 eqR l1 l2 -> Forall2 eqR l2 l3 -> Forall2 eqR l1 l3.
Proof.
  intro H. revert l3. induction H as [|x y l l' Hxy Hl IH]; intros l3 H3; inversion H3; subst; constructor.
  - intro i. rewrite Hxy. auto.
  - apply IH. assumption.
Qed.
Definition Rel (a b : list (list SR)) : Prop := Forall2 (Forall2 eqR) a b.

Lemma nth_eqR l l' ci i : Forall2 eqR l l' -> nth ci l zeroR i = nth ci l' zeroR i.
Proof.
  intro H. destruct (Nat.lt_ge_cases ci (length l)) as [Hc|Hc].
  - apply (PN.Forall2_nth eqR l l' zeroR zeroR H ci Hc).
  - pose proof (PN.Forall2_len _ _ _ H) as E. rewrite !nth_overflow; [reflexivity|lia|lia].
Qed.
Lemma nth_Rel a b s : Rel a b -> Forall2 eqR (nth s a []) (nth s b []).
Proof.
  intro H. destruct (Nat.lt_ge_cases s (length a)) as [Hc|Hc].
  - apply (PN.Forall2_nth (Forall2 eqR) a b [] [] H s Hc).
  - pose proof (PN.Forall2_len _ _ _ H) as E. rewrite !nth_overflow; [constructor|lia|lia].
Qed.

Lemma taps_xext' wk K d (x x' : Z -> R) u : (forall v, x v = x' v) -> taps r0 radd rmul wk K d x u = taps r0 radd rmul wk K d x' u.
Proof. intro H. unfold taps. f_equal. apply map_ext. intro j. rewrite H. reflexivity. Qed.
Lemma taps2_xext' wk kh kw d (x x' : Z -> Z -> R) u v : (forall a b, x a b = x' a b) -> taps2 r0 radd rmul wk kh kw d x u v = taps2 r0 radd rmul wk kh kw d x' u v.
Proof. intro H. unfold taps2. f_equal. apply map_ext. intro a. f_equal. apply map_ext. intro b. rewrite H. reflexivity. Qed.
Lemma conv1d_xext dw (w : w3 R) b cin K d s (x x' : nat -> Z -> R) co t : (forall ci v, x ci v = x' ci v) ->
  conv1d_at r0 radd rmul dw w b cin K d s x co t = conv1d_at r0 radd rmul dw w b cin K d s x' co t.
Proof. intro H. unfold conv1d_at. f_equal. destruct dw; [apply taps_xext'; apply H|]. f_equal. apply map_ext. intro ci. apply taps_xext'. apply H. Qed.
Lemma conv2d_xext dw (w : w4 R) b cin kh kw d s ph pw (x x' : nat -> Z -> Z -> R) co h v : (forall ci a c, x ci a c = x' ci a c) ->
  conv2d_at r0 radd rmul dw w b cin kh kw d s ph pw x co h v = conv2d_at r0 radd rmul dw w b cin kh kw d s ph pw x' co h v.
Proof. intro H. unfold conv2d_at. f_equal. destruct dw; [apply taps2_xext'; apply H|]. f_equal. apply map_ext. intro ci. apply taps2_xext'. apply H. Qed.
Lemma linear_xext (w : list (list R)) b cin (x x' : nat -> R) co : (forall ci, x ci = x' ci) ->
  linear_at r0 radd rmul w b cin x co = linear_at r0 radd rmul w b cin x' co.
Proof. intro H. unfold linear_at. f_equal. f_equal. apply map_ext. intro ci. rewrite H. reflexivity. Qed.

Lemma fold_w3_length a (w : w3 R) : length (fold_w3 R r0 rmul a w) = length w.
Proof. unfold fold_w3. rewrite map_length, combine_length, seq_length. apply Nat.min_id. Qed.
Lemma fold_w4_length a (w : w4 R) : length (fold_w4 R r0 rmul a w) = length w.
Proof. unfold fold_w4. rewrite map_length, combine_length, seq_length. apply Nat.min_id. Qed.
Lemma fold_w2_length a (w : list (list R)) : length (fold_w2 R r0 rmul a w) = length w.
Proof. unfold fold_w2. rewrite map_length, combine_length, seq_length. apply Nat.min_id. Qed.
Lemma fold_bias_ok a sh b cout : PC.bias_ok R (fold_bias R r0 radd rmul a sh b cout) cout.
Proof. intros bl E. unfold fold_bias in E. inversion E. rewrite map_length, seq_length. reflexivity. Qed.

(* one layer: the PIT layer the import builds (initial masks; BatchNorm attached or folded) = BatchNorm(plain layer) *)
Lemma import_layer_sound l min xsI xsO :
  clayer_wf R (import_clayer R r0 radd rmul l) (all_true (cout_of R l)) min -> Forall2 eqR xsI xsO ->
  Forall2 eqR (clayer_pit R r0 r1 radd rmul (import_clayer R r0 radd rmul l) (all_true (cout_of R l)) xsI)
              (clayer_plain R r0 radd rmul l xsO).
Proof.
  intros Hw Hx.
  destruct l as [fold dw w b bn cin K d s tm K' sp|fold dw w b bn cin kh kw d s ph pw hin win|fold w b bn cin]; cbn [cout_of import_clayer] in *.
  - (* Conv1d *)
    assert (X : forall ci v, padl ((K - 1) * d) (clip R r0 (as1 R (nth ci xsI zeroR))) v = padl ((K - 1) * d) (clip R r0 (as1 R (nth ci xsO zeroR))) v).
    { intros ci v. unfold padl, clip, as1. destruct (_ <? 0)%Z; [reflexivity|]. apply nth_eqR. exact Hx. }
    destruct fold; [destruct bn as [[a sh]|]|]; cbn [clayer_pit clayer_plain clayer_wf] in *; rewrite ?fold_w3_length;
      apply PN.Forall2_map_seq; intros co Hco i; unfold of1.
    + rewrite open1_fold; [|apply fold_w3_length|apply fold_bias_ok|exact Hco]. rewrite conv1d_fold by exact Hco. f_equal. apply conv1d_xext. exact X.
    + destruct Hw as (_ & Hb & _). rewrite all_true_length in Hb. rewrite open1_fold; [|reflexivity|exact Hb|exact Hco]. cbn [bn_at]. apply conv1d_xext. exact X.
    + rewrite open1_nofold by exact Hco. f_equal. apply conv1d_xext. exact X.
  - (* Conv2d *)
    assert (X : forall ci a c, clip2 R r0 hin win (as2 R (nth ci xsI zeroR)) a c = clip2 R r0 hin win (as2 R (nth ci xsO zeroR)) a c).
    { intros ci a c. unfold clip2, as2. destruct (_ && _)%bool; [|reflexivity]. apply nth_eqR. exact Hx. }
    destruct fold; [destruct bn as [[a sh]|]|]; cbn [clayer_pit clayer_plain clayer_wf] in *; rewrite ?fold_w4_length;
      apply PN.Forall2_map_seq; intros co Hco i; unfold of2.
    + rewrite open2_fold; [|apply fold_w4_length|apply fold_bias_ok|exact Hco]. rewrite conv2d_fold by exact Hco. f_equal. apply conv2d_xext. exact X.
    + destruct Hw as (_ & Hb & _). rewrite all_true_length in Hb. rewrite open2_fold; [|reflexivity|exact Hb|exact Hco]. cbn [bn_at]. apply conv2d_xext. exact X.
    + rewrite open2_nofold by exact Hco. f_equal. apply conv2d_xext. exact X.
  - (* Linear *)
    assert (X : forall ci, as0 R (nth ci xsI zeroR) = as0 R (nth ci xsO zeroR)).
    { intro ci. unfold as0. apply nth_eqR. exact Hx. }
    destruct fold; [destruct bn as [[a sh]|]|]; cbn [clayer_pit clayer_plain clayer_wf] in *; rewrite ?fold_w2_length;
      apply PN.Forall2_map_seq; intros co Hco i; unfold of0.
    + rewrite open0_fold; [|apply fold_w2_length|apply fold_bias_ok|exact Hco]. rewrite linear_fold by exact Hco. f_equal. apply linear_xext. exact X.
    + destruct Hw as (_ & Hb & _). rewrite all_true_length in Hb. rewrite open0_fold; [|reflexivity|exact Hb|exact Hco]. cbn [bn_at]. apply linear_xext. exact X.
    + rewrite open0_nofold by exact Hco. f_equal. apply linear_xext. exact X.
Qed.

Lemma F2_flat_map {A} (P : A -> A -> Prop) (g : A -> list SR) l l' :
  (forall a a', P a a' -> Forall2 eqR (g a) (g a')) -> Forall2 P l l' -> Forall2 eqR (flat_map g l) (flat_map g l').
Proof. intros Hg H. induction H; cbn [flat_map]; [constructor|]. apply Forall2_app; auto. Qed.
Lemma F2_zipadd l1 l1' l2 l2' : Forall2 eqR l1 l1' -> Forall2 eqR l2 l2' ->
  Forall2 eqR (zipadd SR addR l1 l2) (zipadd SR addR l1' l2').
Proof.
  intro H. revert l2 l2'. induction H as [|a a' l l' Ha Hl IH]; intros l2 l2' H2; [constructor|].
  inversion H2; subst; cbn [zipadd]; constructor; [|apply IH; assumption].
  intro i. unfold PitNet.addR. rewrite Ha. match goal with E : eqR _ _ |- _ => rewrite E end. reflexivity.
Qed.

Lemma import_node_sound n x al accI accO nd : Rel accI accO -> cwf_node R r0 n al (import_node R r0 radd rmul nd) ->
  Forall2 eqR (cpit_node R r0 r1 radd rmul x accI (import_node R r0 radd rmul nd)) (cplain_node R r0 radd rmul x accO nd).
Proof.
  intros HR Hw. destruct nd as [c|src l m|src f|src mult f|a b|srcs]; cbn [import_node cpit_node cplain_node cwf_node] in *.
  - apply F2_refl.
  - destruct Hw as [_ Hw]. eapply import_layer_sound; [exact Hw|apply nth_Rel; exact HR].
  - destruct Hw as (_ & _ & Hf). apply (PN.Forall2_map2 eqR f f eqR); [exact Hf|apply nth_Rel; exact HR].
  - destruct Hw as (_ & _ & Hf). apply (F2_flat_map eqR); [|apply nth_Rel; exact HR].
    intros s s' Hs. unfold expand1. apply PN.Forall2_map_seq. intros p _. apply Hf. exact Hs.
  - apply F2_zipadd; apply nth_Rel; exact HR.
  - induction srcs as [|s srcs IH]; cbn [flat_map]; [constructor|]. apply Forall2_app; [apply nth_Rel; exact HR|].
    apply IH. inversion Hw; assumption.
Qed.

Lemma import_run_sound n x net : forall al accI accO, Rel accI accO -> cwf_acc R r0 n al (import_net R r0 radd rmul net) ->
  Rel (cpit_acc R r0 r1 radd rmul x accI (import_net R r0 radd rmul net)) (cplain_acc R r0 radd rmul x accO net).
Proof.
  induction net as [|nd net IH]; intros al accI accO HR Hw; cbn [import_net map cpit_acc cplain_acc cwf_acc] in *; [exact HR|].
  destruct Hw as [Hn Hrest]. eapply IH; [|exact Hrest].
  apply Forall2_app; [exact HR|]. constructor; [|constructor]. eapply import_node_sound; eassumption.
Qed.

(* THE NETWORK-LEVEL IMPORT THEOREM: the imported network with its initial masks, evaluated as the code's eval-mode forwards,
   equals the original network at every node *)
Theorem import_sound n net x : cwf R r0 n (import_net R r0 radd rmul net) ->
  Rel (ceval_pit R r0 r1 radd rmul (import_net R r0 radd rmul net) x) (ceval_plain R r0 radd rmul net x).
Proof. intro Hw. unfold ceval_pit, ceval_plain. eapply import_run_sound; [constructor|exact Hw]. Qed.

Lemma cplain_acc_length x net : forall acc, length (cplain_acc R r0 radd rmul x acc net) = length acc + length net.
Proof. induction net as [|nd net IH]; intro acc; cbn [cplain_acc length]; [lia|]. rewrite IH, app_length. cbn. lia. Qed.

Corollary import_sound_nodes n net x : cwf R r0 n (import_net R r0 radd rmul net) ->
  forall i, Forall2 eqR (nth i (ceval_pit R r0 r1 radd rmul (import_net R r0 radd rmul net) x) []) (nth i (ceval_plain R r0 radd rmul net x) []).
Proof. intros Hw i. apply nth_Rel. apply import_sound with (n := n). exact Hw. Qed.

(* ---- every channel of the imported network is alive *)
Definition AllT (al : list (list bool)) : Prop := Forall (Forall (fun b => b = true)) al.
Lemma nth_AllT al s : AllT al -> Forall (fun b => b = true) (nth s al []).
Proof.
  intro H. destruct (Nat.lt_ge_cases s (length al)) as [Hc|Hc].
  - unfold AllT in H. rewrite Forall_forall in H. apply H. apply nth_In. exact Hc.
  - rewrite nth_overflow by exact Hc. constructor.
Qed.
Lemma all_true_forall n : Forall (fun b => b = true) (repeat true n).
Proof. induction n; cbn; constructor; auto. Qed.
Lemma alive_import_node al nd : AllT al -> Forall (fun b => b = true) (calive_node R al (import_node R r0 radd rmul nd)).
Proof.
  intro H. destruct nd as [c|src l m|src f|src mult f|a b|srcs]; cbn [import_node calive_node].
  - apply all_true_forall.
  - apply all_true_forall.
  - apply nth_AllT. exact H.
  - pose proof (nth_AllT al src H) as Hs. induction Hs as [|b l Hb Hl IH]; cbn [flat_map]; [constructor|].
    apply Forall_app. split; [subst b; apply all_true_forall|exact IH].
  - apply nth_AllT. exact H.
  - induction srcs as [|s srcs IH]; cbn [flat_map]; [constructor|]. apply Forall_app. split; [apply nth_AllT; exact H|exact IH].
Qed.
Lemma alive_import_acc net : forall al, AllT al -> AllT (calive_acc R al (import_net R r0 radd rmul net)).
Proof.
  induction net as [|nd net IH]; intros al H; cbn [import_net map calive_acc]; [exact H|].
  apply IH. apply Forall_app. split; [exact H|]. constructor; [|constructor]. apply alive_import_node. exact H.
Qed.

(* composed with C01 (export soundness on concrete layers): the IMMEDIATELY EXPORTED network computes the original function *)
Theorem import_export_sound n net x : cwf R r0 n (import_net R r0 radd rmul net) -> length x = n ->
  forall i, i < length net ->
  Forall2 eqR (nth i (ceval_exp R r0 radd rmul (import_net R r0 radd rmul net) x) []) (nth i (ceval_plain R r0 radd rmul net x) []).
Proof.
  intros Hw Hx i Hi. eapply F2_trans; [|apply (import_sound_nodes n net x Hw i)].
  apply (PN.export_sound_concrete_output R r0 r1 radd rmul HL n _ x Hw Hx i).
  - unfold import_net. rewrite map_length. exact Hi.
  - apply nth_AllT. apply alive_import_acc. constructor.
Qed.

(* ... and has the original sizes: output channels, kernel taps, dilation of every layer *)
Lemma count_true_all_true n : count_true (all_true n) = n.
Proof. unfold count_true, all_true. induction n as [|n IH]; [reflexivity|]. cbn [repeat filter length]. f_equal. exact IH. Qed.
Theorem import_export_sizes l :
  exported_sizes R (import_clayer R r0 radd rmul l) (all_true (cout_of R l)) = layer_sizes R l.
Proof.
  destruct l as [fold dw w b bn cin K d s tm K' sp|fold dw w b bn cin kh kw d s ph pw hin win|fold w b bn cin]; cbn [cout_of import_clayer];
    destruct fold; try destruct bn as [[a sh]|]; cbn [exported_sizes layer_sizes]; rewrite count_true_all_true, ?Nat.mul_1_l; reflexivity.
Qed.

(* ... and the original parameters: slicing by all-true masks is the identity (fold off: these ARE the original weights) *)
Lemma map_id_nth {A} (g : A -> A) (l : list A) d : (forall i, i < length l -> g (nth i l d) = nth i l d) -> map g l = l.
Proof.
  intro H. apply (nth_ext _ _ (g d) d); [apply map_length|]. intros i Hi. rewrite map_length in Hi. rewrite map_nth. apply H. exact Hi.
Qed.
Lemma select_open {A} (l : list A) n : length l = n -> select (all_true n) l = l.
Proof. intros <-. apply PC.select_all_true. Qed.
Theorem export_w2_open (w : list (list R)) cout cin : cshape2 w cout cin -> export_w2 (all_true cout) (all_true cin) w = w.
Proof.
  intros [Hl Hr]. unfold export_w2. rewrite (select_open w cout Hl). apply (map_id_nth _ w []). intros i Hi. apply select_open. apply Hr. lia.
Qed.
Theorem export_w3_open (dw : bool) (w : w3 R) cout cin K : cshape3 R w cout (if dw then 1 else cin) K ->
  export_w3 dw (all_true cout) (all_true cin) (all_true K) w = w.
Proof.
  intros (Hl & Hr & Hk). unfold export_w3. rewrite (select_open w cout Hl). apply (map_id_nth _ w []). intros co Hco.
  assert (E : (if dw then nth co w [] else select (all_true cin) (nth co w [])) = nth co w []).
  { destruct dw; [reflexivity|]. apply select_open. apply Hr. lia. }
  rewrite E. apply (map_id_nth _ _ []). intros ci Hci. apply select_open. apply (Hk co ci); [lia|]. rewrite Hr in Hci by lia. exact Hci.
Qed.
Theorem export_w4_open (dw : bool) (w : w4 R) cout cin : cshape2 w cout (if dw then 1 else cin) ->
  export_w4 dw (all_true cout) (all_true cin) w = w.
Proof.
  intros (Hl & Hr). unfold export_w4. rewrite (select_open w cout Hl). apply (map_id_nth _ w []). intros co Hco.
  destruct dw; [reflexivity|]. apply select_open. apply Hr. lia.
Qed.
Theorem export_bias_open (b : option (list R)) cout : cbias_ok R b cout -> export_bias (all_true cout) b = b.
Proof. intro H. destruct b as [bl|]; [|reflexivity]. cbn. f_equal. apply select_open. apply H. reflexivity. Qed.
End P.
