(* Deep-embedded arithmetic expressions over Q for the closed-form cost models of plinio/cost
   (DESIGN.md §C16).  The translator translator/cost2coq.py emits terms of [expr]; one reflective
   analysis [lbq] (a lower bound under per-variable lower bounds, defined only on the monotone
   fragment) is proved sound ONCE here by induction; the generated file then discharges each cost
   function by [vm_compute].

   Fragment accepted by [lbq]:  variables, constants, +, * of two sub-terms with non-negative lower
   bounds, "- constant", "/ positive constant", floor, and a two-dimensional look-up table read as a
   step function (value of the last key <= argument) whose rows and columns are non-decreasing.
   Everything else (general subtraction, division by a term) is representable in [expr] — so that the
   translator can translate it faithfully — but makes [lbq] return None, i.e. the obligation fails. *)
From Coq Require Import QArith Qround ZArith List Bool Lia Lqa.
Require Import Plinio.Base.Qx Plinio.Base.Round.
Import ListNotations.
Local Open Scope Q_scope.

Definition lut2 := list (Q * list (Q * Q)).

Inductive expr :=
| EVar (i : nat)
| EConst (q : Q)
| EAdd (a b : expr)
| EMul (a b : expr)
| ESub (a b : expr)
| EDiv (a b : expr)
| EFloor (a : expr)
| ELut2 (t : lut2) (a w : expr).

(* step-function reading of a table: value attached to the last key <= x (acc when none) *)
Fixpoint step1 (t : list (Q * Q)) (x acc : Q) : Q :=
  match t with
  | [] => acc
  | (k, v) :: t' => if Qle_bool k x then step1 t' x v else acc
  end.

Fixpoint step2 (t : lut2) (a w : Q) (acc : list (Q * Q)) : Q :=
  match t with
  | [] => step1 acc w 0
  | (k, row) :: t' => if Qle_bool k a then step2 t' a w row else step1 acc w 0
  end.

Fixpoint eval (r : nat -> Q) (e : expr) : Q :=
  match e with
  | EVar i => r i
  | EConst q => q
  | EAdd a b => eval r a + eval r b
  | EMul a b => eval r a * eval r b
  | ESub a b => eval r a - eval r b
  | EDiv a b => eval r a / eval r b
  | EFloor a => inject_Z (Qfloor (eval r a))
  | ELut2 t a w => step2 t (eval r a) (eval r w) []
  end.

(* --- table checks *)
Fixpoint chainb (acc : Q) (row : list (Q * Q)) : bool :=
  match row with
  | [] => true
  | (_, v) :: t => Qle_bool acc v && chainb v t
  end.

Fixpoint rows_leb (a b : list (Q * Q)) : bool :=
  match a, b with
  | [], [] => true
  | (k, v) :: a', (k', v') :: b' => Qeq_bool k k' && Qle_bool v v' && rows_leb a' b'
  | _, _ => false
  end.

Definition rowle (acc row : list (Q * Q)) : bool :=
  match acc with [] => true | _ => rows_leb acc row end.

Fixpoint chain2b (acc : list (Q * Q)) (t : lut2) : bool :=
  match t with
  | [] => true
  | (_, row) :: t' => chainb 0 row && rowle acc row && chain2b row t'
  end.

Definition lut_okb (t : lut2) : bool := chain2b [] t.

(* --- the analysis: lower bound of e on {r | lo <= r pointwise}; Some only on the monotone fragment *)
Fixpoint lbq (lo : nat -> Q) (e : expr) : option Q :=
  match e with
  | EVar i => Some (lo i)
  | EConst q => Some q
  | EAdd a b => match lbq lo a, lbq lo b with Some x, Some y => Some (x + y) | _, _ => None end
  | EMul a b => match lbq lo a, lbq lo b with
                | Some x, Some y => if Qle_bool 0 x && Qle_bool 0 y then Some (x * y) else None
                | _, _ => None end
  | ESub a b => match b with
                | EConst c => match lbq lo a with Some x => Some (x - c) | None => None end
                | _ => None end
  | EDiv a b => match b with
                | EConst c => if qlt_bool 0 c then match lbq lo a with Some x => Some (x / c) | None => None end else None
                | _ => None end
  | EFloor a => match lbq lo a with Some x => Some (inject_Z (Qfloor x)) | None => None end
  | ELut2 t a w => if lut_okb t then
                     match lbq lo a, lbq lo w with Some x, Some y => Some (step2 t x y []) | _, _ => None end
                   else None
  end.

Definition zero_lo : nat -> Q := fun _ => 0.

(* monotone and non-negative on the non-negative orthant *)
Definition okb (e : expr) : bool :=
  match lbq zero_lo e with Some l => Qle_bool 0 l | None => false end.

(* monotone and strictly positive on {r | lo <= r} *)
Definition posb (lo : nat -> Q) (e : expr) : bool :=
  match lbq lo e with Some l => qlt_bool 0 l | None => false end.

(* --- soundness of the table checks *)
Lemma step1_ge t : forall acc x, chainb acc t = true -> acc <= step1 t x acc.
Proof.
  induction t as [|[k v] t IH]; intros acc x H; cbn [step1 chainb] in *.
  - lra.
  - apply andb_true_iff in H as [H1 H2]. apply Qle_bool_iff in H1.
    destruct (Qle_bool k x); [|lra]. specialize (IH v x H2). lra.
Qed.

Lemma step1_mono t : forall acc x x', chainb acc t = true -> x <= x' -> step1 t x acc <= step1 t x' acc.
Proof.
  induction t as [|[k v] t IH]; intros acc x x' H Hx; cbn [step1 chainb] in *.
  - lra.
  - apply andb_true_iff in H as [H1 H2]. apply Qle_bool_iff in H1.
    destruct (Qle_bool k x) eqn:E.
    + apply Qle_bool_iff in E. assert (E' : Qle_bool k x' = true) by (apply Qle_bool_iff; lra).
      rewrite E'. apply IH; assumption.
    + destruct (Qle_bool k x'); [|lra]. pose proof (step1_ge t v x' H2). lra.
Qed.

Lemma step1_le2 a : forall b acc acc' x, rows_leb a b = true -> acc <= acc' -> step1 a x acc <= step1 b x acc'.
Proof.
  induction a as [|[k v] a IH]; intros [|[k' v'] b] acc acc' x H Hacc; cbn [step1 rows_leb] in *; try discriminate.
  - exact Hacc.
  - apply andb_true_iff in H as [H H3]. apply andb_true_iff in H as [H1 H2].
    apply Qeq_bool_iff in H1. apply Qle_bool_iff in H2.
    destruct (Qle_bool k x) eqn:E.
    + apply Qle_bool_iff in E. assert (E' : Qle_bool k' x = true) by (apply Qle_bool_iff; lra).
      rewrite E'. apply IH; assumption.
    + assert (E' : Qle_bool k' x = false).
      { destruct (Qle_bool k' x) eqn:F; [|reflexivity]. apply Qle_bool_iff in F.
        assert (G : Qle_bool k x = true) by (apply Qle_bool_iff; lra). congruence. }
      rewrite E'. exact Hacc.
Qed.

Lemma rowle_step1 acc row w : chainb 0 row = true -> rowle acc row = true -> step1 acc w 0 <= step1 row w 0.
Proof.
  intros Hc H. destruct acc as [|p acc].
  - cbn [step1]. apply step1_ge. exact Hc.
  - apply step1_le2; [exact H|lra].
Qed.

Lemma step2_ge t : forall acc a w, chain2b acc t = true -> step1 acc w 0 <= step2 t a w acc.
Proof.
  induction t as [|[k row] t IH]; intros acc a w H; cbn [step2 chain2b] in *.
  - lra.
  - apply andb_true_iff in H as [H H3]. apply andb_true_iff in H as [H1 H2].
    destruct (Qle_bool k a); [|lra].
    pose proof (IH row a w H3). pose proof (rowle_step1 acc row w H1 H2). lra.
Qed.

Lemma step2_mono_w t : forall acc a w w', chainb 0 acc = true -> chain2b acc t = true -> w <= w' ->
  step2 t a w acc <= step2 t a w' acc.
Proof.
  induction t as [|[k row] t IH]; intros acc a w w' Ha H Hw; cbn [step2 chain2b] in *.
  - apply step1_mono; assumption.
  - apply andb_true_iff in H as [H H3]. apply andb_true_iff in H as [H1 H2].
    destruct (Qle_bool k a).
    + apply IH; assumption.
    + apply step1_mono; assumption.
Qed.

Lemma step2_mono_a t : forall acc a a' w, chain2b acc t = true -> a <= a' ->
  step2 t a w acc <= step2 t a' w acc.
Proof.
  induction t as [|[k row] t IH]; intros acc a a' w H Ha; cbn [step2 chain2b] in *.
  - lra.
  - apply andb_true_iff in H as [H H3]. apply andb_true_iff in H as [H1 H2].
    destruct (Qle_bool k a) eqn:E.
    + apply Qle_bool_iff in E. assert (E' : Qle_bool k a' = true) by (apply Qle_bool_iff; lra).
      rewrite E'. apply IH; assumption.
    + destruct (Qle_bool k a'); [|lra].
      pose proof (step2_ge t row a' w H3). pose proof (rowle_step1 acc row w H1 H2). lra.
Qed.

Lemma step2_mono t a a' w w' : lut_okb t = true -> a <= a' -> w <= w' -> step2 t a w [] <= step2 t a' w' [].
Proof.
  intros H Ha Hw. unfold lut_okb in H.
  pose proof (step2_mono_w t [] a w w' eq_refl H Hw).
  pose proof (step2_mono_a t [] a a' w' H Ha). lra.
Qed.

Lemma step2_nonneg t a w : lut_okb t = true -> 0 <= step2 t a w [].
Proof. intro H. exact (step2_ge t [] a w H). Qed.

(* --- soundness of the analysis *)
Theorem lbq_sound lo e : forall l, lbq lo e = Some l ->
  forall r r', (forall i, lo i <= r i) -> (forall i, r i <= r' i) ->
  l <= eval r e /\ eval r e <= eval r' e.
Proof.
  induction e as [i|q|a IHa b IHb|a IHa b IHb|a IHa b IHb|a IHa b IHb|a IHa|t a IHa w IHw];
    intros l H r r' Hlo Hr; cbn [lbq eval] in *.
  - inversion H; subst. split; [apply Hlo|apply Hr].
  - inversion H; subst. split; lra.
  - destruct (lbq lo a) as [x|]; [|discriminate]. destruct (lbq lo b) as [y|]; [|discriminate].
    inversion H; subst. destruct (IHa x eq_refl r r' Hlo Hr). destruct (IHb y eq_refl r r' Hlo Hr). split; lra.
  - destruct (lbq lo a) as [x|]; [|discriminate]. destruct (lbq lo b) as [y|]; [|discriminate].
    destruct (Qle_bool 0 x && Qle_bool 0 y) eqn:E; [|discriminate]. inversion H; subst.
    apply andb_true_iff in E as [E1 E2]. apply Qle_bool_iff in E1, E2.
    destruct (IHa x eq_refl r r' Hlo Hr). destruct (IHb y eq_refl r r' Hlo Hr). split; nra.
  - destruct b; try discriminate. destruct (lbq lo a) as [x|]; [|discriminate]. inversion H; subst.
    destruct (IHa x eq_refl r r' Hlo Hr). cbn [eval]. split; lra.
  - destruct b; try discriminate. destruct (qlt_bool 0 q) eqn:E; [|discriminate].
    destruct (lbq lo a) as [x|]; [|discriminate]. inversion H; subst. apply qlt_bool_iff in E.
    destruct (IHa x eq_refl r r' Hlo Hr). cbn [eval]. unfold Qdiv.
    pose proof (Qinv_lt_0_compat q E). split; nra.
  - destruct (lbq lo a) as [x|]; [|discriminate]. inversion H; subst.
    destruct (IHa x eq_refl r r' Hlo Hr). split; rewrite <- Zle_Qle; apply Qfloor_resp_le; assumption.
  - destruct (lut_okb t) eqn:E; [|discriminate].
    destruct (lbq lo a) as [x|]; [|discriminate]. destruct (lbq lo w) as [y|]; [|discriminate].
    inversion H; subst. destruct (IHa x eq_refl r r' Hlo Hr). destruct (IHw y eq_refl r r' Hlo Hr).
    split; apply step2_mono; assumption.
Qed.

(* the two corollaries every generated cost function is an instance of *)
Theorem expr_mono_nonneg e : okb e = true ->
  forall r r', (forall i, 0 <= r i) -> (forall i, r i <= r' i) -> 0 <= eval r e /\ eval r e <= eval r' e.
Proof.
  unfold okb. intros H r r' H0 Hr. destruct (lbq zero_lo e) as [l|] eqn:E; [|discriminate].
  apply Qle_bool_iff in H. destruct (lbq_sound zero_lo e l E r r' H0 Hr). split; lra.
Qed.

Theorem expr_pos lo e : posb lo e = true ->
  forall r r', (forall i, lo i <= r i) -> (forall i, r i <= r' i) -> 0 < eval r e /\ eval r e <= eval r' e.
Proof.
  unfold posb. intros H r r' H0 Hr. destruct (lbq lo e) as [l|] eqn:E; [|discriminate].
  apply qlt_bool_iff in H. destruct (lbq_sound lo e l E r r' H0 Hr). split; lra.
Qed.

(* one argument grows, the others stay: the one-dimensional reading of monotonicity *)
Definition upd (r : nat -> Q) (i : nat) (v : Q) : nat -> Q := fun j => if Nat.eqb j i then v else r j.

Theorem expr_mono_var e : okb e = true ->
  forall r i v v', (forall j, 0 <= r j) -> 0 <= v -> v <= v' ->
  0 <= eval (upd r i v) e /\ eval (upd r i v) e <= eval (upd r i v') e.
Proof.
  intros H r i v v' H0 Hv Hvv. apply expr_mono_nonneg; [exact H| |]; intro j; unfold upd; destruct (Nat.eqb j i); try apply H0; lra.
Qed.

(* --- guards (asserts of the Python functions) and guarded cost functions *)
Inductive guard := GIn (e : expr) (vals : list Q).

Definition guard_ok (r : nat -> Q) (g : guard) : bool :=
  match g with GIn e vals => existsb (Qeq_bool (eval r e)) vals end.

Record cfun := { cf_guards : list guard; cf_body : expr }.

(* None = the Python function raises (an assert fails) *)
Definition run_cost (f : cfun) (r : nat -> Q) : option Q :=
  if forallb (guard_ok r) (cf_guards f) then Some (eval r (cf_body f)) else None.

(* --- the layer-spec environment shared by the translator, the hand models and the harness *)
Definition V_cin := 0%nat.     (* in_channels / in_features *)
Definition V_cout := 1%nat.    (* out_channels / out_features *)
Definition V_k0 := 2%nat.      (* kernel_size[0] *)
Definition V_k1 := 3%nat.      (* kernel_size[1] *)
Definition V_o2 := 4%nat.      (* output_shape[2] *)
Definition V_o3 := 5%nat.      (* output_shape[3] *)
Definition V_wp := 6%nat.      (* w_precision *)
Definition V_ip := 7%nat.      (* in_precision / a_precision *)
Definition V_bias := 8%nat.    (* 1 if a bias parameter is present else 0 *)
Definition V_groups := 9%nat.  (* groups *)
Definition V_theta := 10%nat.  (* w_theta_alpha *)

Definition env_of (l : list Q) : nat -> Q := fun i => nth i l 0.

(* "non-empty layer at non-zero bit-widths": every size >= 1, bit-widths >= 2, bias flag >= 0 *)
Definition lo_nonempty : nat -> Q := fun i =>
  match i with
  | 6%nat | 7%nat => 2
  | 8%nat => 0
  | _ => 1
  end.
