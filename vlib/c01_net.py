"""C01 helper: drive grammar networks through PIT / export and extract every observable the model predicts
(runs inside worker processes; imports plinio lazily from VERIF_REPO)."""
import random, traceback, math
from . import gen_arch as ga
from . import pitmask as pm

REL = 1e-9


# ----------------------------------------------------------------------------- extra productions (wrap gen_arch)
def pattern_spec(rng, K, d0, cin=None, bn=None, act=None, K2=None, stride2=None, dw_mid=False):
    """in -> pad -> convA(K, d0) [-> bn] [-> act] [-> pad -> dwconv] -> pad -> convB -> out   (1-D, causal)
    convA is fully searchable (channels, receptive field, dilation); convB is output-connected (frozen channels)."""
    cin = cin or rng.randint(1, 3)
    T = rng.randint(max(6, 2), 12)
    ca = rng.randint(2, 5)
    nodes = [{'k': 'in', 'shape': [cin, T]}]
    cur = 0
    cur = _add(nodes, k='pad1d', src=cur, left=(K - 1) * d0)
    cur = _add(nodes, k='conv1d', src=cur, cin=cin, cout=ca, ks=K, dil=d0, stride=1, groups=1, bias=rng.random() < 0.7)
    if bn if bn is not None else rng.random() < 0.5:
        cur = _add(nodes, k='bn1d', src=cur, c=ca)
    a = act if act is not None else rng.choice(['relu', 'none', 'relu6', 'relu_f'])
    if a != 'none':
        cur = _add(nodes, k=a, src=cur)
    if dw_mid:
        kd, dd = rng.randint(1, 4), rng.choice([1, 2])
        cur = _add(nodes, k='pad1d', src=cur, left=(kd - 1) * dd)
        cur = _add(nodes, k='conv1d', src=cur, cin=ca, cout=ca, ks=kd, dil=dd, stride=1, groups=ca, bias=rng.random() < 0.7)
    K2 = K2 or rng.randint(1, 5)
    d2 = rng.choice([1, 1, 2, 3])
    s2 = stride2 or rng.choice([1, 1, 2])
    cur = _add(nodes, k='pad1d', src=cur, left=(K2 - 1) * d2)
    cur = _add(nodes, k='conv1d', src=cur, cin=ca, cout=rng.randint(1, 3), ks=K2, dil=d2, stride=s2, groups=1, bias=rng.random() < 0.7)
    return {'dim': 1, 'nodes': nodes, 'out': [cur], 'productions': ['pattern'], 'input_shape': [cin, T]}


def _add(nodes, **nd):
    nodes.append(nd)
    return len(nodes) - 1


VARIANTS = ['twosite1d', 'twosite2d', 'twosite_lin', 'cat_axis', 'flatten_end', 'fullyconv1d', 'fullyconv2d', 'padmode1d', 'padmode2d', 'dupcat1d', 'dupcat2d']


def custom_model(torch, rng, variant):
    """hand-written families the node-list grammar cannot express: a layer (+ its BatchNorm) invoked at two call sites of
    forward, the numpy-style `axis=` keyword of torch.cat, flatten with an explicit positive / negative end_dim"""
    import torch.nn as nn
    c = rng.randint(2, 5)
    bn = rng.random() < 0.7
    if variant == 'twosite1d':
        K, d = rng.randint(1, 4), rng.choice([1, 2])
        cin, T = rng.randint(1, 3), rng.randint(6, 10)

        class M(nn.Module):
            def __init__(s):
                super().__init__()
                s.p0 = nn.ConstantPad1d((2, 0), 0); s.c0 = nn.Conv1d(cin, c, 3)
                s.pa = nn.ConstantPad1d(((K - 1) * d, 0), 0); s.c = nn.Conv1d(c, c, K, dilation=d); s.bn = nn.BatchNorm1d(c) if bn else nn.Identity()
                s.p1 = nn.ConstantPad1d((1, 0), 0); s.c1 = nn.Conv1d(c, 2, 2)

            def forward(s, x):
                a = torch.relu(s.c0(s.p0(x)))
                b = torch.relu(s.bn(s.c(s.pa(a))))
                e = torch.relu(s.bn(s.c(s.pa(b))))
                return s.c1(s.p1(e))
        return M(), [cin, T], 'twosite1d(K=%d,d=%d,c=%d,bn=%s)' % (K, d, c, bn)
    if variant == 'twosite2d':
        cin, hw = rng.randint(1, 3), rng.randint(4, 6)

        class M(nn.Module):
            def __init__(s):
                super().__init__()
                s.c0 = nn.Conv2d(cin, c, 3, padding=1); s.c = nn.Conv2d(c, c, 3, padding=1); s.bn = nn.BatchNorm2d(c) if bn else nn.Identity()
                s.c1 = nn.Conv2d(c, 2, 1)

            def forward(s, x):
                a = torch.relu(s.c0(x))
                b = torch.relu(s.bn(s.c(a)))
                e = torch.relu(s.bn(s.c(b)))
                return s.c1(e)
        return M(), [cin, hw, hw], 'twosite2d(c=%d,bn=%s)' % (c, bn)
    if variant == 'twosite_lin':
        cin = rng.randint(2, 5)

        class M(nn.Module):
            def __init__(s):
                super().__init__()
                s.f0 = nn.Linear(cin, c); s.f = nn.Linear(c, c); s.bn = nn.BatchNorm1d(c) if bn else nn.Identity(); s.f1 = nn.Linear(c, 3)

            def forward(s, x):
                a = torch.relu(s.f0(x))
                b = torch.relu(s.bn(s.f(a)))
                e = torch.relu(s.bn(s.f(b)))
                return s.f1(e)
        return M(), [cin], 'twosite_lin(c=%d,bn=%s)' % (c, bn)
    if variant == 'cat_axis':
        cin, hw, ca, cb = rng.randint(1, 3), rng.randint(3, 5), rng.randint(1, 4), rng.randint(1, 4)
        kwd = rng.choice(['axis', 'dim', 'pos', 'neg'])

        class M(nn.Module):
            def __init__(s):
                super().__init__()
                s.c0 = nn.Conv2d(cin, c, 3, padding=1); s.ca = nn.Conv2d(c, ca, 3, padding=1); s.cb = nn.Conv2d(c, cb, 1); s.c1 = nn.Conv2d(ca + cb, 2, 3, padding=1)

            def forward(s, x):
                a = torch.relu(s.c0(x))
                u, v = s.ca(a), s.cb(a)
                if kwd == 'axis':
                    z = torch.cat([u, v], axis=1)
                elif kwd == 'dim':
                    z = torch.cat([u, v], dim=1)
                elif kwd == 'neg':
                    z = torch.cat([u, v], -3)
                else:
                    z = torch.cat([u, v], 1)
                return s.c1(torch.relu(z))
        return M(), [cin, hw, hw], 'cat_%s(c=%d,%d+%d)' % (kwd, c, ca, cb)
    if variant in ('fullyconv1d', 'fullyconv2d'):
        # fully-convolutional classifier: the LAST conv reaches the output through (act) -> pooling -> flatten, no Linear head:
        # it is output-connected, so its features must stay (frozen masker) and PIT / exported outputs have the same width
        two = variant.endswith('2d')
        cin, sz, ncls = rng.randint(1, 3), rng.choice([4, 6, 8]), rng.randint(2, 5)
        pool = rng.choice(['gap', 'avg2', 'max2', 'none'])
        act = rng.random() < 0.4
        flat = rng.choice(['fn', 'module', 'method'])
        Conv, BN = (nn.Conv2d, nn.BatchNorm2d) if two else (nn.Conv1d, nn.BatchNorm1d)

        class M(nn.Module):
            def __init__(s):
                super().__init__()
                s.p0 = nn.Identity() if two else nn.ConstantPad1d((2, 0), 0)
                s.c0 = Conv(cin, c, 3, padding=1 if two else 0); s.bn0 = BN(c) if bn else nn.Identity()
                s.head = Conv(c, ncls, 1)
                s.pool = {'gap': (nn.AdaptiveAvgPool2d(1) if two else nn.AdaptiveAvgPool1d(1)), 'avg2': (nn.AvgPool2d(2) if two else nn.AvgPool1d(2)),
                          'max2': (nn.MaxPool2d(2) if two else nn.MaxPool1d(2)), 'none': nn.Identity()}[pool]
                s.fl = nn.Flatten()

            def forward(s, x):
                a = torch.relu(s.bn0(s.c0(s.p0(x))))
                h = s.head(a)
                if act:
                    h = torch.relu(h)
                h = s.pool(h)
                if flat == 'fn':
                    return torch.flatten(h, 1)
                if flat == 'module':
                    return s.fl(h)
                return h.flatten(1)
        return M(), ([cin, sz, sz] if two else [cin, sz]), '%s(c=%d,cls=%d,pool=%s,act=%s,flat=%s,bn=%s)%s' % (variant, c, ncls, pool, act, flat, bn, ' avgpool' if pool in ('gap', 'avg2') else '')
    if variant in ('dupcat1d', 'dupcat2d'):
        # the same tensor concatenated more than once with another operand in between, followed by a searchable layer:
        # the consumer's input mask must follow the operands in CALL order ([m_a, m_b, m_a], not grouped by operand)
        two = variant.endswith('2d')
        cin, sz, ca, cb = rng.randint(1, 3), rng.randint(4, 6), rng.randint(2, 4), rng.randint(2, 4)
        order = rng.choice(['aba', 'abba', 'bab', 'aab', 'abab', 'baab'])
        Conv = nn.Conv2d if two else nn.Conv1d
        tail = rng.choice(['conv', 'flatten-linear'])

        class M(nn.Module):
            def __init__(s):
                super().__init__()
                s.p0 = nn.Identity() if two else nn.ConstantPad1d((2, 0), 0)
                s.c0 = Conv(cin, c, 3, padding=1 if two else 0)
                s.ca = Conv(c, ca, 1); s.cb = Conv(c, cb, 1); s.bnb = (nn.BatchNorm2d(cb) if two else nn.BatchNorm1d(cb)) if bn else nn.Identity()
                w = sum(ca if ch == 'a' else cb for ch in order)
                s.c1 = Conv(w, 2, 1)
                s.fc = nn.Linear(w * (sz * sz if two else sz), 3)

            def forward(s, x):
                h = torch.relu(s.c0(s.p0(x)))
                a, b = s.ca(h), torch.relu(s.bnb(s.cb(h)))
                z = torch.cat([a if ch == 'a' else b for ch in order], 1)
                if tail == 'conv':
                    return s.c1(torch.relu(z))
                return s.fc(torch.flatten(z, 1))
        return M(), ([cin, sz, sz] if two else [cin, sz]), '%s(cat=%s,a=%d,b=%d,tail=%s,bn=%s)' % (variant, order, ca, cb, tail, bn)
    if variant in ('padmode1d', 'padmode2d'):
        # padding > 0 with a padding_mode other than zeros (PIT carries padding_mode through import and export)
        two = variant.endswith('2d')
        cin, sz = rng.randint(1, 3), rng.randint(5, 8)
        mode = rng.choice(['circular', 'reflect', 'replicate'])
        k = rng.choice([3, 3, 5])
        Conv, BN = (nn.Conv2d, nn.BatchNorm2d) if two else (nn.Conv1d, nn.BatchNorm1d)

        class M(nn.Module):
            def __init__(s):
                super().__init__()
                s.c0 = Conv(cin, c, k, padding=k // 2, padding_mode=mode); s.bn0 = BN(c) if bn else nn.Identity()
                s.c1 = Conv(c, rng.randint(1, 3), 3, padding=1, padding_mode=rng.choice([mode, 'zeros']))

            def forward(s, x):
                return s.c1(torch.relu(s.bn0(s.c0(x))))
        return M(), ([cin, sz, sz] if two else [cin, sz]), '%s(mode=%s,k=%d,c=%d,bn=%s)' % (variant, mode, k, c, bn)
    cin, hw = rng.randint(1, 3), rng.randint(2, 4)
    end = rng.choice([3, -1, None, 'kw3', 'module'])

    class M(nn.Module):
        def __init__(s):
            super().__init__()
            s.c0 = nn.Conv2d(cin, c, 3, padding=1); s.fl = nn.Flatten(1, 3); s.fc = nn.Linear(c * hw * hw, 3)

        def forward(s, x):
            a = torch.relu(s.c0(x))
            if end == 'module':
                f = s.fl(a)
            elif end == 'kw3':
                f = torch.flatten(a, start_dim=1, end_dim=3)
            elif end is None:
                f = torch.flatten(a, 1)
            else:
                f = torch.flatten(a, 1, end)
            return s.fc(f)
    return M(), [cin, hw, hw], 'flatten_end_%s(c=%d,hw=%d)' % (end, c, hw)


def gen_spec(rng, dim):
    return ga.gen(rng, dim=dim, conv_head=True, k1d=[1, 2, 3, 3, 4, 5, 6, 7, 8, 9], p_stride=0.2)


# ----------------------------------------------------------------------------- masks
WRITES = ['copy_', 'data.copy_', 'data=', 'data[i]=', 'param-replace', 'load_state_dict']


def write_param(torch, rng, module, name, values, how=None):
    """give `module.<name>` (a mask parameter) new values in one of the ways user code / optimizers / checkpoints do"""
    how = how or rng.choice(WRITES)
    old = getattr(module, name)
    t = torch.tensor(values, dtype=old.dtype).reshape(old.shape)
    if how == 'copy_':
        with torch.no_grad():
            old.copy_(t)
    elif how == 'data.copy_':
        old.data.copy_(t)
    elif how == 'data=':
        old.data = t
    elif how == 'data[i]=':
        for i in range(t.numel()):
            old.data[i] = t[i]
    elif how == 'param-replace' and isinstance(old, torch.nn.Parameter):
        setattr(module, name, torch.nn.Parameter(t, requires_grad=old.requires_grad))
    else:
        sd = module.state_dict()
        sd[name] = t
        module.load_state_dict(sd)
    return how


def set_masks(torch, rng, p, mode, tpat=None):
    """randomise every trainable masker of the PIT model `p` (shared maskers once).  tpat: {layer name: (r, v)}"""
    from plinio.methods.pit.nn import PITConv1d, PITConv2d, PITLinear
    from plinio.methods.pit.nn.features_masker import PITFrozenFeaturesMasker
    seen = set()
    for nm, layer in p.seed.named_modules():
        if not isinstance(layer, (PITConv1d, PITConv2d, PITLinear)):
            continue
        fm = layer.out_features_masker
        if id(fm) not in seen and isinstance(fm, PITFrozenFeaturesMasker) and rng.random() < 0.5:
            # a frozen masker keeps every feature whatever its (unused) alpha holds, e.g. after load_state_dict(strict=False)
            # from a differently configured PIT: write adversarial values into it
            seen.add(id(fm))
            with torch.no_grad():
                fm.alpha.copy_(torch.tensor([rng.choice(pm.SMALL + [0.5, -0.5, 0.25, 3.0]) for _ in range(fm.alpha.numel())], dtype=fm.alpha.dtype))
        if id(fm) not in seen and fm.alpha.requires_grad:
            seen.add(id(fm))
            C = fm.alpha.numel()
            m = mode if mode != 'mix' else rng.choice(['rand', 'rand', 'min', 'all', 'adv'])
            if m == 'all':
                a = [rng.choice(pm.BIG) for _ in range(C)]
            elif m == 'min':
                a = [rng.choice(pm.SMALL) for _ in range(C)]
            elif m == 'adv':
                a = [rng.choice(pm.ADV) for _ in range(C)]
            else:
                a = [rng.choice(pm.BIG) if rng.random() < 0.55 else rng.choice(pm.SMALL + [0.25, -0.25, 0.5 - 2.0 ** -10, 0.5, -0.5, 0.5, -0.5]) for _ in range(C)]
            write_param(torch, rng, fm, 'alpha', a)
        if isinstance(layer, PITConv1d) and layer.timestep_masker.beta.requires_grad:
            K = layer.kernel_size[0]
            L = pm.glen(K)
            if tpat and nm in tpat:
                r, v = tpat[nm]
            elif mode == 'all':
                r, v = K, 0
            else:
                r, v = rng.randint(1, K), rng.randint(0, L - 1)
            st = rng.choice(['adv', 'adv', 'open'])
            write_param(torch, rng, layer.timestep_masker, 'beta', pm.beta_for(rng, K, r, st))
            write_param(torch, rng, layer.dilation_masker, 'gamma', pm.gamma_for(rng, K, v, st))


SWITCHES = ['train_net_only', 'train_nas_only', 'train_net_and_nas', 'train_features=False', 'train_features=True', 'train_rf=False', 'train_rf=True',
            'train_dilation=False', 'train_dilation=True', 'discrete_cost=True', 'discrete_cost=False']


def apply_switches(rng, p):
    """the property quantifies over every value of the masks however the trainability switches stand: after the masks are
    set, a random sequence (possibly empty) of the public trainability / cost-mode switches is applied to the PIT model"""
    done = []
    for _ in range(rng.choice([0, 1, 1, 2, 3])):
        sw = rng.choice(SWITCHES)
        if '=' in sw:
            attr, val = sw.split('=')
            setattr(p, attr, val == 'True')
        else:
            getattr(p, sw)()
        done.append(sw)
    return done


def _bools(t):
    return [bool(x) for x in t.detach().reshape(-1).tolist()]


def fill_int_bn(torch, rng, m):
    """make every BatchNorm an exact integer affine map: eps = 0, var in {1, 1/4}, integer mean/weight/bias"""
    import torch.nn as nn
    for mod in m.modules():
        if isinstance(mod, (nn.BatchNorm1d, nn.BatchNorm2d)):
            mod.eps = 0.0
            n = mod.num_features
            with torch.no_grad():
                mod.running_var.copy_(torch.tensor([rng.choice([1.0, 0.25]) for _ in range(n)]))
                mod.running_mean.copy_(torch.tensor([float(rng.randint(-2, 2)) for _ in range(n)]))
                mod.weight.copy_(torch.tensor([float(rng.choice([-2, -1, 1, 2, 3])) for _ in range(n)]))
                mod.bias.copy_(torch.tensor([float(rng.randint(-3, 3)) for _ in range(n)]))


def load_exported_bn(torch, p, e):
    """the property's premise: every BatchNorm re-created by export is given the statistics / affine parameters
    of the BatchNorm it replaces (sliced by the layer's feature mask)"""
    from plinio.methods.pit.nn import PITConv1d, PITConv2d, PITLinear
    n = 0
    emods = dict(e.named_modules())
    for nm, layer in p.seed.named_modules():
        if isinstance(layer, (PITConv1d, PITConv2d, PITLinear)) and layer.bn is not None and not layer.fold_bn:
            nb = emods.get(nm + '_exported_bn')
            if nb is None:
                continue
            mk = layer.features_mask.bool()
            with torch.no_grad():
                nb.running_mean.copy_(layer.bn.running_mean[mk])
                nb.running_var.copy_(layer.bn.running_var[mk])
                nb.weight.copy_(layer.bn.weight[mk])
                nb.bias.copy_(layer.bn.bias[mk])
            nb.eps = layer.bn.eps
            n += 1
    return n


def bn_affine(bn, torch):
    """(a, s) of the eval-mode BN as exact integers when fill_int_bn made them so; else None"""
    inv = torch.rsqrt(bn.running_var.double() + bn.eps)
    a = bn.weight.double() * inv
    s = bn.bias.double() - bn.running_mean.double() * a
    if all(float(v) == int(v) for v in a.tolist() + s.tolist()):
        return [int(v) for v in a.tolist()], [int(v) for v in s.tolist()]
    return None


# ----------------------------------------------------------------------------- one network case
def net_case(torch, job):
    """job: dict(seed, kind 'grammar'|'pattern', fold, mode, integer, pat=(K,d0,r,v) for pattern nets)
    -> JSON-able observation dict"""
    import torch.nn as nn
    from plinio.methods import PIT
    from plinio.methods.pit.nn import PITConv1d, PITConv2d, PITLinear
    from plinio.methods.pit.nn.features_masker import PITFrozenFeaturesMasker
    from plinio.methods.pit.nn.timestep_masker import PITFrozenTimestepMasker
    seed = job['seed']
    rng = random.Random(seed)
    o = {'job': job, 'skip': None, 'layers': {}, 'fails': [], 'arch': None}
    try:
        if job['kind'] == 'pattern':
            K, d0, r, v = job['pat']
            spec = pattern_spec(rng, K, d0, dw_mid=job.get('dw_mid', False))
        elif job['kind'] == 'custom':
            cm, ishape, desc = custom_model(torch, rng, job['variant'])
            spec = {'dim': len(ishape) - 1, 'nodes': [], 'productions': ['custom:' + job['variant']], 'input_shape': ishape, 'custom': desc}
        else:
            if job['kind'] == 'xnet':
                # BN-free, no average pooling: every value stays an integer -> the whole network is evaluated by the Coq model
                for _ in range(40):
                    spec = ga.gen(rng, dim=job.get('dim') or rng.choice([1, 1, 2]), conv_head=True, k1d=[1, 2, 3, 3, 4, 5, 6, 7], p_stride=0.2, bn=False, cmax=4,
                                  T=rng.randint(6, 9), HW=rng.randint(4, 6), depth=rng.randint(1, 3))
                    if not any(nd['k'].startswith(('avgpool', 'gap')) for nd in spec['nodes']):
                        break
                else:
                    o['skip'] = 'no-average-free-architecture'
                    return o
            else:
                spec = gen_spec(rng, job.get('dim') or rng.choice([1, 1, 2]))
            # depthwise-after-concat / add-of-concat: their masker groups are frozen since the C09 fix; no longer skipped, counted
            o['topo'] = [t for t, f in (('dw-after-cat', ga.has_dw_after_cat), ('add-of-cat', ga.has_add_of_cat)) if f(spec)]
        o['arch'] = spec.get('custom') or ga.describe(spec)
        o['spec'] = spec
        integer = job['integer']
        # averages are not integers: exact comparison only without average pooling
        exact = integer and not any(nd['k'].startswith(('avgpool', 'gap')) for nd in spec['nodes']) and 'avgpool' not in (spec.get('custom') or '')
        if job['kind'] == 'custom':
            m = cm
            g = torch.Generator().manual_seed(seed)
            with torch.no_grad():
                for prm in m.parameters():
                    prm.copy_(torch.randint(-3, 4, prm.shape, generator=g).float() if integer else torch.randn(prm.shape, generator=g) * 0.5)
                for mod in m.modules():
                    if isinstance(mod, (torch.nn.BatchNorm1d, torch.nn.BatchNorm2d)) and not integer:
                        mod.running_mean.copy_(torch.randn(mod.running_mean.shape, generator=g))
                        mod.running_var.copy_(torch.rand(mod.running_var.shape, generator=g) * 1.5 + 0.5)
            xg = torch.Generator().manual_seed(1000 + seed)
            shp = (2,) + tuple(spec['input_shape'])
            xs = [(torch.randint(-3, 4, shp, generator=xg) if integer else torch.randn(shp, generator=xg)).double()]
        else:
            m = ga.build(spec, seed=seed, integer=integer)
            xs = ga.example_input(spec, torch, seed, integer=integer, batch=2, dtype=torch.float64)
        if integer:
            fill_int_bn(torch, rng, m)
        m = m.double().eval()
        p = PIT(m, input_example=xs[0] if len(xs) == 1 else tuple(xs), fold_bn=job['fold'])
        p = p.double().eval()
        tpat = None
        if job['kind'] == 'pattern':
            first = [nm for nm, l in p.seed.named_modules() if isinstance(l, PITConv1d)][0]
            tpat = {first: (r, v)}
        if job['kind'] == 'custom' and job['variant'] == 'padmode1d':
            # receptive-field / dilation pruning is claimed for causally padded layers only: keep the time masks open here
            tpat = {nm: (l.kernel_size[0], 0) for nm, l in p.seed.named_modules() if isinstance(l, PITConv1d)}
        # the masks may be written on a wrapper that has ALREADY been observed with other mask values (summary / export /
        # str / the mask properties): every observer must follow the current parameters, however they were written
        o['preobserved'] = []
        if rng.random() < 0.6:
            set_masks(torch, rng, p, 'mix')
            for ob in rng.sample(['summary', 'export', 'str', 'properties', 'forward'], rng.randint(1, 3)):
                if ob == 'summary':
                    p.summary()
                elif ob == 'export':
                    p.export()
                elif ob == 'str':
                    str(p)
                elif ob == 'forward':
                    with torch.no_grad():
                        p(*xs)
                else:
                    for l_ in p.seed.modules():
                        if isinstance(l_, (PITConv1d, PITConv2d, PITLinear)):
                            l_.features_mask, l_.out_features_opt, l_.in_features_opt
                            if isinstance(l_, PITConv1d):
                                l_.time_mask, l_.kernel_size_opt, l_.dilation_opt
                o['preobserved'].append(ob)
        set_masks(torch, rng, p, job['mode'], tpat)
        if job['kind'] == 'custom' and job['variant'].startswith('twosite'):
            # the re-used layer reads the first producer at one call site and ITSELF at the other: unless the two maskers hold
            # the same mask the single exported layer cannot serve both call sites (open finding); make them equal in most cases
            mods = dict(p.seed.named_modules())
            first, again = (mods['f0'], mods['f']) if 'f0' in mods else (mods['c0'], mods['c'])
            if rng.random() < 0.65 and first.out_features_masker.alpha.requires_grad and again.out_features_masker.alpha.requires_grad:
                with torch.no_grad():
                    first.out_features_masker.alpha.copy_(again.out_features_masker.alpha)
            o['twosite_mismatch'] = _bools(first.features_mask) != _bools(again.features_mask)
        o['switches'] = apply_switches(rng, p)
        pl = {nm: l for nm, l in p.seed.named_modules() if isinstance(l, (PITConv1d, PITConv2d, PITLinear))}

        # ---- forward of the masked network, with the output of every searchable layer
        pouts, eouts = {}, {}
        hs = [l.register_forward_hook(lambda mod, i, out, nm=nm: pouts.__setitem__(nm, out.detach())) for nm, l in pl.items()]
        with torch.no_grad():
            yp = p(*xs)
        for h in hs:
            h.remove()
        e = p.export()
        e = e.double().eval()
        nbn = load_exported_bn(torch, p, e)
        emods = dict(e.named_modules())
        hs = []
        for nm in pl:
            tgt = emods.get(nm + '_exported_bn', emods.get(nm))
            if tgt is not None:
                hs.append(tgt.register_forward_hook(lambda mod, i, out, nm=nm: eouts.__setitem__(nm, out.detach())))
        with torch.no_grad():
            ye = e(*xs)
        for h in hs:
            h.remove()
        o['nbn'] = nbn

        def differs(a, b):
            if a.shape != b.shape:
                return 'shape %s vs %s' % (list(a.shape), list(b.shape))
            if exact:
                return None if bool((a == b).all()) else 'max abs diff %g (exact integer network)' % float((a - b).abs().max())
            tol = REL * max(1.0, float(a.abs().max()))
            d = float((a - b).abs().max()) if a.numel() else 0.0
            return None if d <= tol else 'max abs diff %g > %g' % (d, tol)

        d = differs(yp, ye)
        o['out_equal'] = d is None
        if d is not None:
            o['fails'].append(('output-differs', d))
        # ---- per layer
        graph_nodes = {str(n.target): n for n in e.graph.nodes if n.op == 'call_module'}
        for nm, l in pl.items():
            L = {'type': type(l).__name__, 'fold': bool(l.fold_bn), 'has_bn': l.bn is not None, 'has_bias': l.bias is not None,
                 'frozen_out': isinstance(l.out_features_masker, PITFrozenFeaturesMasker),
                 'mout': _bools(l.features_mask), 'min': _bools(l.input_features_calculator.features_mask),
                 'wshape': list(l.weight.shape)}
            if isinstance(l, (PITConv1d, PITConv2d)):
                L['dw'] = l.groups > 1
                L['stride'] = l.stride[0]
                L['d0'] = l.dilation[0]
                L['ks'] = list(l.kernel_size)
                L['padding'] = list(l.padding) if not isinstance(l.padding, str) else l.padding
            if isinstance(l, PITConv1d):
                L['K'] = l.kernel_size[0]
                L['beta'] = [float(x) for x in l.timestep_masker.beta.detach()]
                L['gamma'] = [float(x) for x in l.dilation_masker.gamma.detach()]
                L['frozen_t'] = isinstance(l.timestep_masker, PITFrozenTimestepMasker)      # by class: requires_grad follows the switches
                L['tm'] = _bools(l.time_mask)
            x_l = emods.get(nm)
            if x_l is None:
                o['fails'].append(('exported-layer-missing', nm))
                o['layers'][nm] = L
                continue
            E = {'cls': type(x_l).__name__, 'has_bias': x_l.bias is not None, 'wshape': list(x_l.weight.shape)}
            if isinstance(x_l, nn.Linear):
                E.update({'in': x_l.in_features, 'out': x_l.out_features})
            else:
                E.update({'in': x_l.in_channels, 'out': x_l.out_channels, 'groups': x_l.groups, 'ks': list(x_l.kernel_size), 'dil': list(x_l.dilation),
                          'stride': list(x_l.stride), 'padding': list(x_l.padding) if not isinstance(x_l.padding, str) else x_l.padding})
            if isinstance(x_l, nn.Conv1d):
                gn = graph_nodes.get(nm)
                pad = None
                if gn is not None and gn.args and hasattr(gn.args[0], 'op') and gn.args[0].op == 'call_module':
                    pmod = emods.get(str(gn.args[0].target))
                    if isinstance(pmod, nn.ConstantPad1d):
                        pad = list(pmod.padding)
                E['pad'] = pad
            xb = emods.get(nm + '_exported_bn')
            E['bn'] = None if xb is None else xb.num_features
            if xb is not None:
                gb = graph_nodes.get(nm + '_exported_bn')
                E['bn_after_layer'] = bool(gb is not None and gb.args and str(getattr(gb.args[0], 'target', '')) == nm)
            L['exported'] = E
            # layer boundary: exported output = alive channels of the masked output, dead channels are zero
            if nm in pouts and nm in eouts:
                mk = l.features_mask.bool()
                po, eo = pouts[nm], eouts[nm]
                dead = po[:, ~mk]
                L['dead_zero'] = bool((dead == 0).all()) if dead.numel() else True
                if not L['dead_zero']:
                    o['fails'].append(('dead-channel-not-zero', '%s: max |value| on masked-out channels %g' % (nm, float(dead.abs().max()))))
                dd = differs(po[:, mk], eo)
                L['boundary_equal'] = dd is None
                if dd is not None:
                    o['fails'].append(('layer-output-differs', '%s: %s' % (nm, dd)))
            o['layers'][nm] = L

        if job['kind'] == 'xnet' and exact and not o['fails']:
            ints = lambda t: [int(v) for v in t] if t.dim() == 1 else [ints(u) for u in t]
            o['xnet'] = {'x': ints(xs[0][0].detach()), 'yp': ints(yp[0].detach()), 'ye': ints(ye[0].detach()),
                         'w': {nm: ints(l.weight.detach()) for nm, l in pl.items()},
                         'b': {nm: (None if l.bias is None else ints(l.bias.detach())) for nm, l in pl.items()},
                         'pout': {nm: ints(t[0]) for nm, t in pouts.items()}, 'eout': {nm: ints(t[0]) for nm, t in eouts.items()}}
        # ---- provenance: overwrite every parameter of the searchable layers with unique ids, export again
        base = 1
        ids = {}
        with torch.no_grad():
            for nm, l in pl.items():
                n = l.weight.numel()
                l.weight.copy_(torch.arange(base, base + n, dtype=torch.float64).reshape(l.weight.shape))
                ids[nm] = {'w0': base}
                base += n
                if l.bias is not None:
                    nb_ = l.bias.numel()
                    l.bias.copy_(torch.arange(base, base + nb_, dtype=torch.float64))
                    ids[nm]['b0'] = base
                    base += nb_
        e2 = p.export()
        e2mods = dict(e2.named_modules())
        for nm, l in pl.items():
            x_l = e2mods.get(nm)
            if x_l is None:
                continue
            o['layers'][nm]['ids'] = ids[nm]
            o['layers'][nm]['exp_w_ids'] = [int(v) for v in x_l.weight.detach().reshape(-1).tolist()]
            o['layers'][nm]['exp_w_shape'] = list(x_l.weight.shape)
            o['layers'][nm]['exp_b_ids'] = None if x_l.bias is None else [int(v) for v in x_l.bias.detach().reshape(-1).tolist()]
        o['y_shape'] = list(yp.shape)
    except Exception as ex:
        o['fails'].append(('exception', '%s: %s' % (type(ex).__name__, str(ex)[:300])))
        o['trace'] = traceback.format_exc()[-2000:]
    return o


# ----------------------------------------------------------------------------- single-layer cases (exact, model evaluated in Coq)
def layer_case(torch, job):
    """a PITConv1d used directly (no fx): integer weights / bias / fused integer BN, random masks and time pattern;
    returns the layer's forward on a causally padded integer input.  job: seed, K, d0, r, v, fold, dw, stride"""
    import torch.nn as nn
    from plinio.methods.pit.nn import PITConv1d
    from plinio.methods.pit.nn.features_masker import PITFeaturesMasker
    from plinio.methods.pit.nn.timestep_masker import PITTimestepMasker, PITFrozenTimestepMasker
    from plinio.methods.pit.nn.dilation_masker import PITDilationMasker, PITFrozenDilationMasker
    rng = random.Random(job['seed'])
    K, d0, s, dw, fold = job['K'], job['d0'], job['stride'], job['dw'], job['fold']
    cin = rng.randint(1, 3)
    cout = cin if dw else rng.randint(1, 4)
    T = rng.randint(3, 8)
    g = torch.Generator().manual_seed(job['seed'])
    pmode = job.get('padmode')
    if pmode:
        # symmetric padding with a non-zero padding mode: outside the hand model (zero padding only) -> compared with torch's own
        # convolution on the masked weights, i.e. with what the exported layer computes (time masks stay open: non-causal)
        T = max(T, (K - 1) * d0 + 2)
        P = rng.randint(1, min(2, T - 1))
    conv = nn.Conv1d(cin, cout, K, stride=s, dilation=d0, groups=cin if dw else 1, bias=job['bias'], **({'padding': P, 'padding_mode': pmode} if pmode else {})).double()
    with torch.no_grad():
        conv.weight.copy_(torch.randint(-3, 4, conv.weight.shape, generator=g).double())
        if conv.bias is not None:
            conv.bias.copy_(torch.randint(1, 4, conv.bias.shape, generator=g).double())
    fm = PITFeaturesMasker(cout)
    frozen = s != 1
    tmk = PITFrozenTimestepMasker(K) if frozen else PITTimestepMasker(K)
    dmk = PITFrozenDilationMasker(K) if frozen else PITDilationMasker(K)
    alpha = [rng.choice(pm.BIG) if rng.random() < 0.5 else rng.choice(pm.SMALL) for _ in range(cout)]
    beta, gamma = pm.beta_for(rng, K, K if pmode else job['r'], 'adv'), pm.gamma_for(rng, K, 0 if pmode else job['v'], 'adv')
    with torch.no_grad():
        fm.alpha.copy_(torch.tensor(alpha))
        if not frozen:
            tmk.beta.copy_(torch.tensor(beta))
            dmk.gamma.copy_(torch.tensor(gamma))
    layer = PITConv1d(conv, fm, tmk, dmk, fold_bn=fold).double().eval()
    if not frozen and rng.random() < 0.6:
        # the layer has been observed with other mask values before the final ones are written (in various ways)
        r0_, v0_ = rng.randint(1, K), rng.randint(0, pm.glen(K) - 1)
        write_param(torch, rng, tmk, 'beta', pm.beta_for(rng, K, r0_, 'adv'), 'copy_')
        write_param(torch, rng, dmk, 'gamma', pm.gamma_for(rng, K, v0_, 'adv'), 'copy_')
        layer.time_mask, layer.kernel_size_opt, layer.dilation_opt, layer.features_mask
        write_param(torch, rng, tmk, 'beta', beta)
        write_param(torch, rng, dmk, 'gamma', gamma)
        write_param(torch, rng, fm, 'alpha', alpha)
    bn = None
    if job['bn'] and not fold:
        b = nn.BatchNorm1d(cout)
        fill_int_bn(torch, rng, nn.Sequential(b))
        layer.bn = b.double().eval()
        bn = bn_affine(layer.bn, torch)
    x = torch.randint(-3, 4, (1, cin, T), generator=g).double()
    xp = x if pmode else nn.functional.pad(x, ((K - 1) * d0, 0))
    with torch.no_grad():
        y = layer(xp)[0]
    ref = None
    if pmode:
        with torch.no_grad():
            yr = conv(x)[0]                                  # the plain layer with the same parameters (all taps kept)
            if layer.bn is not None:
                yr = layer.bn(yr.unsqueeze(0))[0]
            yr = yr * layer.features_mask.view(-1, 1)
        ref = [[int(v) for v in c] for c in yr.tolist()]
    return {'job': job, 'cin': cin, 'cout': cout, 'w': [[[int(v) for v in r_] for r_ in c] for c in conv.weight.tolist()],
            'b': None if conv.bias is None else [int(v) for v in conv.bias.tolist()], 'bn': bn, 'frozen': frozen,
            'alpha': alpha, 'beta': [float(v) for v in tmk.beta.detach()], 'gamma': [float(v) for v in dmk.gamma.detach()],
            'mout': _bools(layer.features_mask), 'tm': _bools(layer.time_mask), 'x': [[int(v) for v in c] for c in x[0].tolist()],
            'y': [[int(v) for v in c] for c in y.tolist()], 'y_is_int': bool((y == y.round()).all()), 'ref': ref}


def worker(args):
    from .common import setup_torch
    torch = setup_torch()
    kind, job = args
    if kind == 'net':
        return net_case(torch, job)
    return layer_case(torch, job)
