#!/venv/bin/python
"""sync_regress.py: record in seeded/<id>/meta.json the outcome of the last full regression (build/regress/summary.txt, written
by tools/regress_mutants.sh against the checks and /repo HEAD of that moment): detected yes / partial (reported, but only as a
broken proof / refused translation with no failing input) / no."""
import json, re, subprocess, os
head = subprocess.run(['git', '-C', '/repo', 'rev-parse', '--short', 'HEAD'], capture_output=True, text=True).stdout.strip()
vhead = subprocess.run(['git', '-C', '/verif', 'rev-parse', '--short', 'HEAD'], capture_output=True, text=True).stdout.strip()
last = {}
for l in open('/verif/build/regress/summary.txt'):
    m = re.match(r'(\S+) clean=(\d*) mut=(\d*) check=(\d*) viol=(\d+) noinput=(\d+)(.*)', l)
    if m:
        last[m.group(1)] = m.groups()
changed = 0
for sid, (_, clean, mut, chk, viol, noinp, rest) in sorted(last.items()):
    p = '/verif/seeded/%s/meta.json' % sid
    if not os.path.exists(p):
        continue
    meta = json.load(open(p))
    if 'does not apply' in rest:
        res = 'patch does not apply'
    elif chk == '1' and int(viol) > 0:
        res = 'partial' if int(noinp) >= int(viol) else 'yes'
    else:
        res = 'no'
    cr = meta.setdefault('check_result', {})
    old = cr.get('detected')
    cr['regression'] = {'repo_head': head, 'verif_head': vhead, 'demo_exit_clean': clean, 'demo_exit_patched': mut, 'check_exit': chk,
                        'violation_lines': int(viol), 'of_which_no_failing_input_found': int(noinp), 'detected': res}
    if res != 'patch does not apply' and old != res:
        cr['detected'] = res
        cr['note'] = (cr.get('note', '') + ' | full regression at /repo %s: now "%s" (was "%s")' % (head, res, old)).strip(' |')
        changed += 1
        print(sid, old, '->', res)
    json.dump(meta, open(p, 'w'), indent=1)
print('synced', len(last), 'changed', changed)
