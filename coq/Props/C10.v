(* C10 — What is evaluated, what is reported and what is exported are the same choice.
   Statements only (proofs: Proofs/Sampler.v; model: Model/Sampler.v).
   exp is abstract: EVERY g : Q -> Q that is positive and strictly increasing (visible premises Gpos,
   Gincr; no axiom).  Coefficients are lists of columns (one column per decision: the single vector of a
   per-layer selector / SuperNet combiner, one column per channel of a per-channel selector); all lengths,
   all rational coefficients without ties, all positive rational temperatures, EVERY Gumbel noise
   vector, all option updates, all op sequences (induction over list sop). *)
From Coq Require Import QArith ZArith List Bool.
Import ListNotations.
Require Import Plinio.Base.Qx Plinio.Model.Sampler Plinio.Proofs.Sampler.
Open Scope Q_scope.

Definition Gpos (g : Q -> Q) : Prop := forall x, 0 < g x.
Definition Gincr (g : Q -> Q) : Prop := forall x y, x < y -> g x < g y.

(* softmax with temperature is a probability vector (per column for matrices: see C10_invariant) —
   for every temperature, also T <= 0 *)
Theorem C10_softmax_prob : forall g, Gpos g -> forall T a, a <> [] ->
  Forall (fun x => 0 <= x) (softmax g T a) /\ qsum (softmax g T a) == 1.
Proof. exact softmax_prob. Qed.

Theorem C10_argmax_softmax : forall g, Gpos g -> Gincr g -> forall T a, 0 < T -> a <> [] -> tie_free a ->
  argmax (softmax g T a) = argmax a.
Proof. exact argmax_softmax. Qed.

(* STEArgmax / one_hot(argmax) of the softmax is the one-hot at the largest RAW coefficient *)
Theorem C10_ste_onehot_at_argmax : forall g, Gpos g -> Gincr g -> forall T a, 0 < T -> a <> [] -> tie_free a ->
  ste (softmax g T a) = onehot (length a) (argmax a).
Proof. exact ste_onehot_at_argmax. Qed.

Theorem C10_onehot_prob : forall n k, (k < n)%nat ->
  Forall (fun x => 0 <= x) (onehot n k) /\ qsum (onehot n k) == 1.
Proof. exact onehot_prob. Qed.

(* Gumbel: for EVERY noise vector (any length, any values) and every temperature *)
Theorem C10_gumbel_prob : forall g, Gpos g -> forall T hd a noise, a <> [] ->
  Forall (fun x => 0 <= x) (gumbel_softmax g T hd a noise) /\ qsum (gumbel_softmax g T hd a noise) == 1.
Proof. exact gumbel_prob. Qed.

Theorem C10_gumbel_hard_onehot : forall g T a noise, a <> [] ->
  gumbel_softmax g T true a noise = onehot (length a) (argmax (softmax g T (addn a noise))) /\
  (argmax (softmax g T (addn a noise)) < length a)%nat.
Proof. exact gumbel_hard_onehot. Qed.

Theorem C10_gumbel_hard_at_perturbed_argmax : forall g, Gpos g -> Gincr g -> forall T a noise,
  0 < T -> a <> [] -> tie_free (addn a noise) ->
  gumbel_softmax g T true a noise = onehot (length a) (argmax (addn a noise)).
Proof. exact gumbel_hard_at_perturbed_argmax. Qed.

(* THE INVARIANT over all op sequences.  `wf` = positive temperature, non-empty tie-free columns; `wf_op` =
   the same for the values an op installs.  all_forwards_ok: for EVERY forward pass in the sequence that
   runs with sampling enabled (disabled = false) and inside `covered c k s`, i.e.
       k = KMps  \/  comb_eval_argmax c = true  \/  training s = true  \/  hard s = true
   (everything except the SuperNet combiner of the pinned code in eval mode with soft selection: open
   finding, refuted below), post_ok holds for the theta_alpha it leaves:
     - every column is a probability vector,
     - not training, or hard and not Gumbel  ->  theta = one-hot at argmax alpha (per column),
     - hard -> every column is a one-hot (Gumbel in training included). *)
Theorem C10_invariant_all_sequences : forall g, Gpos g -> Gincr g -> forall c k ops s,
  wf s -> Forall wf_op ops -> all_forwards_ok g c k s ops.
Proof. exact invariant_all_sequences. Qed.

Theorem C10_invariant_after_run : forall g, Gpos g -> Gincr g -> forall c k ops s s1 noise s2,
  wf s -> Forall wf_op ops -> run g c k s ops = Some s1 -> step g c k s1 (SForward noise) = Some s2 ->
  disabled s1 = false ->
  (k = KMps \/ comb_eval_argmax c = true \/ training s1 = true \/ hard s1 = true) ->
  Forall (fun v => Forall (fun x => 0 <= x) v /\ qsum v == 1) (theta s2) /\
  ((training s1 = false \/ (hard s1 = true /\ gumbel s1 = false)) ->
     theta s2 = map (fun a => onehot (length a) (argmax a)) (alpha s1)) /\
  (hard s1 = true -> Forall is_onehot (theta s2)).
Proof. exact invariant_after_run. Qed.

(* a SuperNet combiner can never have its sampling disabled *)
Theorem C10_combiner_never_disabled : forall g c ops s s', disabled s = false ->
  run g c KComb s ops = Some s' -> disabled s' = false.
Proof. exact comb_never_disabled. Qed.

(* summary()/export() pick `selected alpha` = arg-max of the raw coefficients of every column; without
   Gumbel noise that is where the largest evaluated coefficient is (also for the pinned combiner) ... *)
Theorem C10_selected_is_argmax : forall g, Gpos g -> Gincr g -> forall c k s noise, wf s ->
  disabled s = false -> (gumbel s = false \/ training s = false) ->
  map argmax (sample g c k s noise) = selected (alpha s).
Proof. exact selected_is_argmax. Qed.

(* ... and in eval mode / hard non-Gumbel training the evaluated coefficients are exactly its one-hot *)
Theorem C10_selected_onehot : forall g, Gpos g -> Gincr g -> forall c k s noise, covered c k s -> wf s ->
  disabled s = false -> (training s = false \/ (hard s = true /\ gumbel s = false)) ->
  sample g c k s noise = map (fun col => onehot (length col) (argmax col)) (alpha s) /\
  selected (alpha s) = map argmax (alpha s).
Proof. exact selected_onehot. Qed.

(* a one-hot mixture IS the selected alternative *)
Theorem C10_onehot_mix : forall n k fs, length fs = n -> dot (onehot n k) fs == nth k fs 0.
Proof. exact onehot_mix. Qed.

(* --- where the unchanged code violates the property (witnesses inside the proofs) *)
(* pinned SuperNetCombiner (comb_eval_argmax = false): eval mode + soft selection evaluates a mixture
   (open finding; the one-line repair breaks an unedited unit test, see KNOWN_FINDINGS.json) *)
Theorem C10_combiner_eval_soft_refuted : forall g, Gpos g -> exists s noise,
  wf s /\ disabled s = false /\ training s = false /\ hard s = false /\
  ~ post_ok s (sample g (mkCfg false false) KComb s noise).
Proof. exact comb_upstream_eval_soft_refuted. Qed.

(* disable_sampling=True (open finding): a forward pass leaves the stale coefficients, also in eval mode;
   this is why the invariant carries the guard `disabled s = false` *)
Theorem C10_disabled_eval_stale_refuted : forall g, Gpos g -> forall c, exists s ops s1 noise s2,
  wf s /\ Forall wf_op ops /\ run g c KMps s ops = Some s1 /\ step g c KMps s1 (SForward noise) = Some s2 /\
  training s1 = false /\ disabled s1 = true /\ ~ post_ok s1 (theta s2).
Proof. exact disabled_eval_stale_refuted. Qed.

(* --- the hypotheses are satisfiable: a concrete positive, strictly increasing g and concrete runs *)
Example C10_g_exists : Gpos gsur /\ Gincr gsur.
Proof. split; [exact gsur_pos|exact gsur_incr]. Qed.

Example C10_example_softmax :
  let a := [3#10; -(1#2); 1] in
  tie_free a /\ map Qred (softmax gsur (1#2) a) = [16#51; 5#51; 10#17] /\ argmax (softmax gsur (1#2) a) = 2%nat.
Proof.
  cbv zeta. split; [|split; vm_compute; reflexivity].
  repeat constructor; cbv; discriminate.
Qed.

Example C10_example_sequence :
  let s0 := mkS false false false 1 true [[3#10; -(1#2); 1]; [2; 1; 0]] [[1; 1; 1]; [1; 1; 1]] in
  let ops := [SUpdate (Some (1#2)) (Some true) (Some true) None; SForward [[0; 5; 0]; []];
              SOptStep [[0; 1; 2]; [5; 4; 3]]; SUpdate None (Some false) None None; SEval; SForward []] in
  wf s0 /\ Forall wf_op ops /\
  option_map theta (run gsur (mkCfg false false) KMps s0 ops) = Some [[0; 0; 1]; [1; 0; 0]] /\
  option_map theta (run gsur (mkCfg false false) KMps s0 (firstn 2 ops)) = Some [[0; 1; 0]; [1; 0; 0]].
Proof.
  cbv zeta. split; [|split; [|split; vm_compute; reflexivity]].
  - split; [reflexivity|]. repeat constructor; try discriminate; cbv; discriminate.
  - repeat constructor; try discriminate; cbv; discriminate.
Qed.

Print Assumptions C10_softmax_prob.
Print Assumptions C10_argmax_softmax.
Print Assumptions C10_ste_onehot_at_argmax.
Print Assumptions C10_onehot_prob.
Print Assumptions C10_gumbel_prob.
Print Assumptions C10_gumbel_hard_onehot.
Print Assumptions C10_gumbel_hard_at_perturbed_argmax.
Print Assumptions C10_invariant_all_sequences.
Print Assumptions C10_invariant_after_run.
Print Assumptions C10_combiner_never_disabled.
Print Assumptions C10_selected_is_argmax.
Print Assumptions C10_selected_onehot.
Print Assumptions C10_onehot_mix.
Print Assumptions C10_combiner_eval_soft_refuted.
Print Assumptions C10_disabled_eval_stale_refuted.
