#!/bin/bash
# MANIFEST.setup_cmd: full .vo build of the Coq development (no -vos), offline.
cd "$(dirname "$0")"
export PYTHONPATH="/verif"
exec /venv/bin/python - <<'PY'
import sys
from vlib import common
ok, log = common.coq_make(None, timeout=3000)
print(log[-4000:])
g = common.gate_scan()
if g:
    print('GATE FAILED:', g); sys.exit(1)
sys.exit(0 if ok else 1)
PY
