(* C09: the model GENERATED from the source of the features calculators (Gen/CalcGen.v, rewritten by
   translator/calc2coq.py on every run: `features`, `features_mask`, `register` and the buffers created in `__init__`
   of Const / ModAttr / Flatten / Concat FeaturesCalculator) computes what the hand-written model says:
     - greg / gregister_all (buffers with their real names, fields `mod` / `prefix` of the calculator objects) simulate
       reg true / register_all true (one number per (consumer, family, prefix) key, first-registrant semantics);
     - geval = (sfeat, smask) through that simulation; every buffer read is defined where coherent_b holds.
   These equalities are the obligations that tie the theorems of Props/C09.v to the code as it is now. *)
From Coq Require Import String List Bool Arith Lia.
Import ListNotations.
Require Import Plinio.Model.Calc Plinio.Proofs.Calc Plinio.Gen.CalcGen.

(* ================================================================ lists *)
Lemma fold_left_snoc_map {A B} (f : A -> B) : forall (l : list A) (a : list B),
  fold_left (fun acc x => acc ++ [f x]) l a = a ++ map f l.
Proof.
  induction l as [|x l IH]; intro a; simpl; [rewrite app_nil_r; reflexivity|].
  rewrite IH, <- app_assoc. reflexivity.
Qed.

Lemma scale_ones b m : scale b (repeat true m) = repeat b m.
Proof. unfold scale. induction m as [|m IH]; simpl; [reflexivity|]. rewrite IH, andb_true_r. reflexivity. Qed.

Lemma flat_map_scale_ones m l : flat_map (fun e => scale e (repeat true m)) l = expand m l.
Proof. unfold expand. apply flat_map_ext. intro b. apply scale_ones. Qed.

Lemma flat_map_nil {A B} (f : A -> list B) l : (forall x, f x = []) -> flat_map f l = [].
Proof. intro H. induction l as [|x l IH]; simpl; [reflexivity|]. rewrite H, IH. reflexivity. Qed.

Lemma list_sum_map_fst_combine : forall (l : list cv), list_sum (map cv_features l) = list_sum (map fst l).
Proof. reflexivity. Qed.

(* ================================================================ keys *)
Definition pk_eqb (a b : nat * list nat) : bool := (fst a =? fst b) && toks_eqb (snd a) (snd b).

Lemma toks_eqb_eq : forall a b, toks_eqb a b = true <-> a = b.
Proof.
  induction a as [|x a IH]; destruct b as [|y b]; simpl; try (split; [discriminate|discriminate]); [tauto|].
  rewrite andb_true_iff, Nat.eqb_eq, IH. split; [intros [-> ->]; reflexivity|intro H; inversion H; auto].
Qed.

Lemma pk_eqb_eq a b : pk_eqb a b = true <-> a = b.
Proof.
  destruct a as [m1 p1], b as [m2 p2]. unfold pk_eqb. simpl.
  rewrite andb_true_iff, Nat.eqb_eq, toks_eqb_eq. split; [intros [-> ->]; reflexivity|intro H; inversion H; auto].
Qed.

Lemma bkey_eqb_pk m1 p1 n1 m2 p2 n2 :
  bkey_eqb (m1, (p1, n1)) (m2, (p2, n2)) = String.eqb n1 n2 && pk_eqb (m1, p1) (m2, p2).
Proof. reflexivity. Qed.

Lemma key_eqb_pk c1 b1 p1 c2 b2 p2 :
  key_eqb (c1, b1, p1) (c2, b2, p2) = (b1 =? b2) && pk_eqb (c1, p1) (c2, p2).
Proof.
  unfold key_eqb, pk_eqb. simpl. destruct (list_eq_dec Nat.eq_dec p1 p2) as [e|ne].
  - rewrite (proj2 (toks_eqb_eq p1 p2) e). destruct (c1 =? c2), (b1 =? b2); reflexivity.
  - destruct (toks_eqb p1 p2) eqn:E; [apply toks_eqb_eq in E; contradiction|].
    destruct (c1 =? c2), (b1 =? b2); reflexivity.
Qed.

(* ================================================================ one step of the generated state *)
Lemma fld_mod_set_mod st a m b : fld_mod (set_mod st a m) b = if a =? b then Some m else fld_mod st b.
Proof. unfold fld_mod, set_mod. simpl. destruct (a =? b); reflexivity. Qed.
Lemma fld_mod_set_prefix st a p b : fld_mod (set_prefix st a p) b = fld_mod st b.
Proof. reflexivity. Qed.
Lemma fld_mod_register_buffer st m nm v b : fld_mod (register_buffer st m nm v) b = fld_mod st b.
Proof. reflexivity. Qed.
Lemma fld_prefix_set_mod st a m b : fld_prefix (set_mod st a m) b = fld_prefix st b.
Proof. reflexivity. Qed.
Lemma fld_prefix_set_prefix st a p b : fld_prefix (set_prefix st a p) b = if a =? b then p else fld_prefix st b.
Proof. unfold fld_prefix, set_prefix. simpl. destruct (a =? b); reflexivity. Qed.
Lemma fld_prefix_register_buffer st m nm v b : fld_prefix (register_buffer st m nm v) b = fld_prefix st b.
Proof. reflexivity. Qed.
Lemma buf_lookup_set_mod st a m k : buf_lookup (set_mod st a m) k = buf_lookup st k.
Proof. reflexivity. Qed.
Lemma buf_lookup_set_prefix st a p k : buf_lookup (set_prefix st a p) k = buf_lookup st k.
Proof. reflexivity. Qed.
Lemma buf_lookup_register_buffer st m nm v k :
  buf_lookup (register_buffer st m nm v) k = if bkey_eqb (m, nm) k then Some v else buf_lookup st k.
Proof. unfold buf_lookup, register_buffer. cbn [g_bufs find fst snd]. destruct (bkey_eqb (m, nm) k); reflexivity. Qed.

Global Hint Rewrite fld_mod_set_mod fld_mod_set_prefix fld_mod_register_buffer fld_prefix_set_mod fld_prefix_set_prefix
  fld_prefix_register_buffer buf_lookup_set_mod buf_lookup_set_prefix buf_lookup_register_buffer : gstep.

(* ================================================================ simulation: real buffers <-> the model's store *)
Definition ones_of (n : nat) : bval := BM (repeat true n).

Record sim (G : gstate) (S : rstate) : Prop := {
  sim_obj : forall id, match lookup_reg id S with
                       | None => fld_mod G id = None
                       | Some (c, _, P) => fld_mod G id = Some c /\ fld_prefix G id = P
                       end;
  sim_const : forall c P, buf_lookup G (c, (P, "feat_calc_const"%string)) = option_map BN (lookup_store (c, 0, P) S);
  sim_mask : forall c P, buf_lookup G (c, (P, "feat_calc_mask"%string)) = option_map ones_of (lookup_store (c, 0, P) S);
  sim_mul : forall c P, buf_lookup G (c, (P, "feat_calc_multiplier"%string)) = option_map BN (lookup_store (c, 1, P) S);
  sim_exp : forall c P, buf_lookup G (c, (P, "feat_calc_mask_expander"%string)) = option_map ones_of (lookup_store (c, 1, P) S) }.

Lemma sim_empty : sim gempty {| regs := []; store := [] |}.
Proof. constructor; intros; reflexivity. Qed.

(* the guarded block of a `register`: fields set, buffers of one family registered under `prefix` *)
Ltac keycases :=
  repeat rewrite bkey_eqb_pk; repeat rewrite key_eqb_pk;
  cbn [String.eqb Ascii.eqb Bool.eqb andb Nat.eqb];
  repeat match goal with |- context [pk_eqb ?a ?b] => destruct (pk_eqb a b) end;
  cbn [option_map andb]; try reflexivity.

Ltac sim_buf H L fld :=
  let c0 := fresh "c0" in let P0 := fresh "P0" in
  intros c0 P0; rewrite (write_new_store _ _ _ _ _ L); autorewrite with gstep; keycases; apply (fld _ _ H).

Ltac sim_new H L :=
  constructor;
  [ let id0 := fresh "id0" in let E := fresh "E" in let Ho := fresh "Ho" in
    intro id0; rewrite (write_new_reg _ _ _ _ id0 L); autorewrite with gstep;
    destruct (Nat.eqb _ id0) eqn:E;
    [ split; reflexivity
    | pose proof (sim_obj _ _ H id0) as Ho; destruct (lookup_reg id0 _) as [[[? ?] ?]|]; exact Ho ]
  | sim_buf H L sim_const | sim_buf H L sim_mask | sim_buf H L sim_mul | sim_buf H L sim_exp ].

Lemma const_register_sim G S id n cons P : sim G S ->
  sim (const_register_gen id n cons P G) (write id (cons, 0, P) n S).
Proof.
  intro H. unfold const_register_gen. pose proof (sim_obj _ _ H id) as Hid.
  destruct (lookup_reg id S) as [[[c b] Q]|] eqn:L.
  - destruct Hid as [E1 _]. rewrite E1. cbn [opt_none negb]. rewrite (write_old _ _ _ _ _ L). exact H.
  - rewrite Hid. cbn [opt_none negb]. cbv zeta. unfold const_init_const, const_init_mask. fold (ones_of n).
    sim_new H L.
Qed.

Lemma flatten_block_sim G S id m cons P : sim G S ->
  sim (flatten_register_gen id m (fun _ _ st => st) cons P G) (write id (cons, 1, P) m S).
Proof.
  intro H. unfold flatten_register_gen. cbv zeta. pose proof (sim_obj _ _ H id) as Hid.
  destruct (lookup_reg id S) as [[[c b] Q]|] eqn:L.
  - destruct Hid as [E1 _]. rewrite E1. cbn [opt_none negb]. rewrite (write_old _ _ _ _ _ L). exact H.
  - rewrite Hid. cbn [opt_none negb]. unfold flatten_init_multiplier, flatten_init_mask_expander. fold (ones_of m).
    sim_new H L.
Qed.

(* the recursive call comes first and is handed "prev_" + prefix *)
Lemma flatten_register_split id m (r : registrar) cons P G :
  flatten_register_gen id m r cons P G = flatten_register_gen id m (fun _ _ st => st) cons P (r cons (0 :: P) G).
Proof. reflexivity. Qed.

(* the loop of ConcatFeaturesCalculator.register *)
Lemma concat_register_loop (rs : list registrar) cons : forall k P G,
  (let '(_, st) := fold_left (fun '(prefix, st) '(i, fc) =>
       let prefix := S i :: prefix in let st := (fc : registrar) cons prefix st in (prefix, st))
     (enumerate_from k rs) (P, G) in st)
  = (fix go (l : list registrar) (k : nat) (P : list nat) (st : gstate) :=
       match l with [] => st | x :: r => go r (S k) (S k :: P) (x cons (S k :: P) st) end) rs k P G.
Proof. induction rs as [|r rs IH]; intros k P G; simpl; [reflexivity|]. apply IH. Qed.

Fixpoint greg_loop (cn : nat) (l : list calc) (k : nat) (P : list nat) (st : gstate) : gstate :=
  match l with
  | [] => st
  | x :: r => greg_loop cn r (S k) (S k :: P) (greg x cn (S k :: P) st)
  end.

Lemma greg_cat cn P cs G : greg (CCat cs) cn P G = greg_loop cn cs 0 P G.
Proof.
  cbn [greg]. unfold concat_register_gen, enumerate.
  etransitivity; [apply (concat_register_loop (map greg cs) cn 0 P G)|].
  generalize 0 as k. revert P G. induction cs as [|c cs IH]; intros P G k; simpl; [reflexivity|]. apply IH.
Qed.

Theorem greg_sim : forall c cons P G S, sim G S -> sim (greg c cons P G) (reg true cons P c S).
Proof.
  intro c. induction c as [id n|i|id p m IH|cs IH] using calc_ind2; intros cons P G S H.
  - cbn [greg reg]. apply const_register_sim. exact H.
  - cbn [greg reg]. unfold modattr_register_gen. exact H.
  - cbn [greg reg]. rewrite flatten_register_split. apply flatten_block_sim. apply IH. exact H.
  - rewrite greg_cat, reg_cat. generalize 0 as k. revert P G S H.
    induction IH as [|c cs Hc Hcs IH2]; intros P G S H k; simpl; [exact H|].
    apply IH2. apply Hc. exact H.
Qed.

Theorem gregister_all_sim : forall nt, sim (gregister_all nt) (register_all true nt).
Proof.
  intro nt. unfold gregister_all, register_all.
  generalize (seq 0 (List.length nt)) as l. intro l.
  assert (Hg : forall G S, sim G S ->
    sim (fold_left (fun st i => if consumer nt i then greg (input_calc true nt i) i [] st else st) l G)
        (fold_left (fun st i => if consumer nt i then reg true i [] (input_calc true nt i) st else st) l S)).
  { induction l as [|i l IH]; intros G S H; simpl; [exact H|].
    apply IH. destruct (consumer nt i); [apply greg_sim|]; exact H. }
  apply Hg. exact sim_empty.
Qed.

(* ================================================================ evaluation *)
Section Kinds.
(* which family of buffers the calculator object `id` owns: 0 const / mask, 1 multiplier / mask_expander *)
Context (kd : nat -> nat).

Definition kinds_ok (S : rstate) : Prop := forall id c b P, lookup_reg id S = Some (c, b, P) -> b = kd id.

Fixpoint kconsts (c : calc) : list (nat * nat) :=
  match c with
  | CConst id _ => [(id, 0)]
  | CMod _ => []
  | CFlat id p _ => kconsts p ++ [(id, 1)]
  | CCat cs => (fix go (l : list calc) := match l with [] => [] | x :: r => kconsts x ++ go r end) cs
  end.
Definition legal (c : calc) : Prop := forall id b, In (id, b) (kconsts c) -> b = kd id.

Lemma kconsts_cat cs : kconsts (CCat cs) = flat_map kconsts cs.
Proof. induction cs as [|c cs IH]; simpl; [reflexivity|]. f_equal; try exact IH. Qed.

Lemma legal_cat c cs : legal (CCat (c :: cs)) -> legal c /\ legal (CCat cs).
Proof.
  intro H. split; intros id b Hin; apply H; rewrite kconsts_cat; simpl; apply in_or_app;
    [left; exact Hin | right; rewrite <- kconsts_cat; exact Hin].
Qed.

Lemma getattr_sim G S id b (f : nat -> bval) nm : sim G S -> kinds_ok S -> kd id = b ->
  (forall c P, buf_lookup G (c, (P, nm)) = option_map f (lookup_store (c, b, P) S)) ->
  getattr_buf G (fld_mod G id) (fld_prefix G id, nm) = option_map f (rd id S).
Proof.
  intros H K Hb Hl. unfold rd. pose proof (sim_obj _ _ H id) as Ho.
  destruct (lookup_reg id S) as [[[c b'] Q]|] eqn:L.
  - destruct Ho as [E1 E2]. rewrite E1, E2. cbn [getattr_buf]. rewrite Hl.
    rewrite (K _ _ _ _ L), Hb. reflexivity.
  - rewrite Ho. reflexivity.
Qed.

Ltac fin := cbn [as_scalar as_mask is_scalar is_mask option_map ones_of cv_features cv_mask fst snd];
            try reflexivity; try ring; try lia.

(* ---- ConstFeaturesCalculator *)
Lemma const_features_eq G S id : sim G S -> kinds_ok S -> kd id = 0 ->
  const_features_gen G id = match rd id S with Some n => n | None => 0 end.
Proof.
  intros H K Hk. unfold const_features_gen. cbv zeta.
  rewrite ?(getattr_sim G S id 0 BN _ H K Hk (sim_const _ _ H)), ?(getattr_sim G S id 0 ones_of _ H K Hk (sim_mask _ _ H)).
  destruct (rd id S); fin.
Qed.
Lemma const_features_mask_eq G S id : sim G S -> kinds_ok S -> kd id = 0 ->
  const_features_mask_gen G id = match rd id S with Some n => repeat true n | None => [] end.
Proof.
  intros H K Hk. unfold const_features_mask_gen. cbv zeta.
  rewrite ?(getattr_sim G S id 0 BN _ H K Hk (sim_const _ _ H)), ?(getattr_sim G S id 0 ones_of _ H K Hk (sim_mask _ _ H)).
  destruct (rd id S); fin.
Qed.
Lemma const_ok_eq G S id : sim G S -> kinds_ok S -> kd id = 0 ->
  const_features_ok G id && const_features_mask_ok G id = negb (opt_none (rd id S)).
Proof.
  intros H K Hk. unfold const_features_ok, const_features_mask_ok. cbv zeta.
  rewrite ?(getattr_sim G S id 0 BN _ H K Hk (sim_const _ _ H)), ?(getattr_sim G S id 0 ones_of _ H K Hk (sim_mask _ _ H)).
  destruct (rd id S); fin.
Qed.

(* ---- FlattenFeaturesCalculator *)
Lemma flatten_features_eq G S id v : sim G S -> kinds_ok S -> kd id = 1 ->
  flatten_features_gen G id v = match rd id S with Some m => m * cv_features v | None => 0 end.
Proof.
  intros H K Hk. unfold flatten_features_gen. cbv zeta.
  rewrite ?(getattr_sim G S id 1 BN _ H K Hk (sim_mul _ _ H)), ?(getattr_sim G S id 1 ones_of _ H K Hk (sim_exp _ _ H)).
  destruct (rd id S); fin.
Qed.
Lemma flatten_features_mask_eq G S id v : sim G S -> kinds_ok S -> kd id = 1 ->
  flatten_features_mask_gen G id v = match rd id S with Some m => expand m (cv_mask v) | None => [] end.
Proof.
  intros H K Hk. unfold flatten_features_mask_gen. cbv zeta.
  rewrite ?(getattr_sim G S id 1 BN _ H K Hk (sim_mul _ _ H)), ?(getattr_sim G S id 1 ones_of _ H K Hk (sim_exp _ _ H)).
  rewrite ?fold_left_snoc_map, ?app_nil_l, <- ?flat_map_concat_map.
  destruct (rd id S); fin.
  - apply flat_map_scale_ones.
  - apply flat_map_nil. intro x. reflexivity.
Qed.
Lemma flatten_ok_eq G S id v : sim G S -> kinds_ok S -> kd id = 1 ->
  flatten_features_ok G id v && flatten_features_mask_ok G id v = negb (opt_none (rd id S)).
Proof.
  intros H K Hk. unfold flatten_features_ok, flatten_features_mask_ok. cbv zeta.
  rewrite ?(getattr_sim G S id 1 BN _ H K Hk (sim_mul _ _ H)), ?(getattr_sim G S id 1 ones_of _ H K Hk (sim_exp _ _ H)).
  destruct (rd id S); fin.
Qed.

(* ---- ConcatFeaturesCalculator: sum of the operands' features, concatenation of their masks *)
Lemma concat_features_eq vs : concat_features_gen vs = list_sum (map cv_features vs).
Proof.
  unfold concat_features_gen. cbv zeta.
  rewrite ?fold_left_snoc_map, ?app_nil_l. try reflexivity.
Qed.
Lemma concat_features_mask_eq vs : concat_features_mask_gen vs = flat_map cv_mask vs.
Proof.
  unfold concat_features_mask_gen. cbv zeta.
  rewrite ?fold_left_snoc_map, ?app_nil_l, <- ?flat_map_concat_map. try reflexivity.
Qed.

(* ---- ModAttrFeaturesCalculator: the two attributes of the producer, unchanged *)
Lemma modattr_eq a m : modattr_features_gen a m = a /\ modattr_features_mask_gen a m = m.
Proof. split; reflexivity. Qed.

(* ---- a calculator term evaluated with the generated functions = the model's sfeat / smask *)
Theorem geval_eq G S ms : sim G S -> kinds_ok S -> forall c, legal c ->
  geval G ms c = (sfeat S ms c, smask S ms c).
Proof.
  intros H K c. induction c as [id n|i|id p m IH|cs IH] using calc_ind2; intro L.
  - cbn [geval sfeat smask].
    assert (Hk : kd id = 0) by (symmetry; apply L; simpl; auto).
    rewrite (const_features_eq _ _ _ H K Hk), (const_features_mask_eq _ _ _ H K Hk). reflexivity.
  - cbn [geval sfeat smask]. destruct (modattr_eq (count (ms i)) (ms i)) as [-> ->]. reflexivity.
  - cbn [geval sfeat smask]. cbv zeta.
    assert (Hk : kd id = 1) by (symmetry; apply L; simpl; apply in_or_app; right; simpl; auto).
    rewrite IH by (intros id' b' Hin; apply L; simpl; apply in_or_app; left; exact Hin).
    rewrite (flatten_features_eq _ _ _ _ H K Hk), (flatten_features_mask_eq _ _ _ _ H K Hk).
    destruct (rd id S); reflexivity.
  - cbn [geval]. cbv zeta. rewrite concat_features_eq, concat_features_mask_eq, sfeat_cat, smask_cat.
    induction IH as [|c cs Hc Hcs IH2]; [reflexivity|].
    destruct (legal_cat _ _ L) as [L1 L2]. specialize (IH2 L2). inversion IH2 as [[E1 E2]].
    simpl. rewrite (Hc L1). simpl. rewrite E1, E2. reflexivity.
Qed.

Theorem gok_of_coherent G S ms : sim G S -> kinds_ok S -> forall c, legal c ->
  coherent_b S c = true -> gok G ms c = true.
Proof.
  intros H K c. induction c as [id n|i|id p m IH|cs IH] using calc_ind2; intros L Hc.
  - cbn [gok]. assert (Hk : kd id = 0) by (symmetry; apply L; simpl; auto).
    rewrite (const_ok_eq _ _ _ H K Hk). simpl in Hc. destruct (rd id S); [reflexivity|discriminate].
  - reflexivity.
  - cbn [gok]. cbv zeta.
    assert (Hk : kd id = 1) by (symmetry; apply L; simpl; apply in_or_app; right; simpl; auto).
    simpl in Hc. apply andb_true_iff in Hc as [Hc1 Hc2].
    rewrite IH; [|intros id' b' Hin; apply L; simpl; apply in_or_app; left; exact Hin|exact Hc2].
    rewrite <- andb_assoc, (flatten_ok_eq _ _ _ (geval G ms p) H K Hk). destruct (rd id S); [reflexivity|discriminate].
  - cbn [gok]. rewrite coherent_cat in Hc.
    induction IH as [|c cs Hcc Hcs IH2]; [reflexivity|].
    destruct (legal_cat _ _ L) as [L1 L2]. simpl in Hc. apply andb_true_iff in Hc as [Hc1 Hc2].
    simpl. rewrite (Hcc L1 Hc1). apply IH2; assumption.
Qed.

(* ---- registration keeps the families apart *)
Lemma write_kinds id cons b P v S : kinds_ok S -> b = kd id -> kinds_ok (write id (cons, b, P) v S).
Proof.
  intros K Hb id0 c0 b0 P0 L0. destruct (lookup_reg id S) as [k|] eqn:L.
  - rewrite (write_old _ _ _ _ _ L) in L0. exact (K _ _ _ _ L0).
  - rewrite (write_new_reg _ _ _ _ id0 L) in L0. destruct (id =? id0) eqn:E.
    + apply Nat.eqb_eq in E. subst id0. inversion L0; subst. reflexivity.
    + exact (K _ _ _ _ L0).
Qed.

Lemma reg_kinds : forall c cons P S, legal c -> kinds_ok S -> kinds_ok (reg true cons P c S).
Proof.
  intro c. induction c as [id n|i|id p m IH|cs IH] using calc_ind2; intros cons P S L K.
  - cbn [reg]. apply write_kinds; [exact K|]. apply L. simpl. auto.
  - exact K.
  - cbn [reg]. apply write_kinds.
    + apply IH; [|exact K]. intros id' b' Hin. apply L. simpl. apply in_or_app. left. exact Hin.
    + apply L. simpl. apply in_or_app. right. simpl. auto.
  - rewrite reg_cat. generalize 0 as k. revert P S K.
    induction IH as [|c cs Hc Hcs IH2]; intros P S K k; simpl; [exact K|].
    destruct (legal_cat _ _ L) as [L1 L2]. apply IH2; [exact L2|]. apply Hc; assumption.
Qed.
End Kinds.

(* ================================================================ on networks *)
Definition kind_of (nt : net) (id : nat) : nat := match node_at nt id with NFlat _ _ _ => 1 | _ => 0 end.

Lemma calcs_kinds nt : wf nt = true -> forall j, j < List.length nt ->
  legal (kind_of nt) (nth j (calcs true nt) (CConst 0 0)).
Proof.
  intros Hwf j. induction j as [j IH] using lt_wf_ind. intros Hj id v.
  pose proof (wf_srcs nt j Hwf Hj) as Hs.
  rewrite calcs_nth by exact Hj. unfold calc_step, calcs.
  rewrite !firstn_build_length by lia. fold (calcs true nt).
  destruct (node_at nt j) as [c|s co k sr|s sr|s t|s m t|a b t|l] eqn:E; simpl in Hs.
  - simpl. intros [H|[]]. inversion H; subst. unfold kind_of. rewrite E. reflexivity.
  - assert (Hsj : s < j) by (apply Hs; auto).
    destruct k, sr; simpl.
    + intros [].
    + intros [H|[]]. inversion H; subst. unfold kind_of. rewrite E. reflexivity.
    + intros [].
    + rewrite nth_firstn_lt by exact Hsj. apply IH; lia.
  - assert (Hsj : s < j) by (apply Hs; auto).
    rewrite nth_firstn_lt by exact Hsj. apply IH; lia.
  - assert (Hsj : s < j) by (apply Hs; auto).
    rewrite nth_firstn_lt by exact Hsj. apply IH; lia.
  - assert (Hsj : s < j) by (apply Hs; auto).
    rewrite nth_firstn_lt by exact Hsj. simpl. intro H. apply in_app_or in H as [H|[H|[]]].
    + revert H. apply IH; lia.
    + inversion H; subst. unfold kind_of. rewrite E. reflexivity.
  - assert (Hsj : a < j) by (apply Hs; auto).
    rewrite nth_firstn_lt by exact Hsj. apply IH; lia.
  - rewrite kconsts_cat. intro H. apply in_flat_map in H as (c & Hc & Hin).
    apply in_map_iff in Hc as (x & Ex & Hx). subst c. specialize (Hs x Hx).
    rewrite nth_firstn_lt in Hin by exact Hs. revert Hin. apply IH; lia.
Qed.

Lemma input_calc_kinds nt i : wf nt = true -> i < List.length nt -> consumer nt i = true ->
  legal (kind_of nt) (input_calc true nt i).
Proof.
  intros Hwf Hi Hc. pose proof (wf_srcs nt i Hwf Hi _ (consumer_src nt i Hc)) as Hlt.
  pose proof (setter_le nt Hwf (src1 (node_at nt i)) ltac:(lia)) as Hle.
  unfold input_calc. apply calcs_kinds; [exact Hwf|lia].
Qed.

Lemma register_all_kinds nt : wf nt = true -> kinds_ok (kind_of nt) (register_all true nt).
Proof.
  intro Hwf. unfold register_all.
  assert (Hg : forall n, n <= List.length nt -> kinds_ok (kind_of nt)
    (fold_left (fun st i => if consumer nt i then reg true i [] (input_calc true nt i) st else st)
               (seq 0 n) {| regs := []; store := [] |})).
  { induction n as [|n IH]; intro Hn.
    - intros id c b P H. discriminate.
    - rewrite seq_S, fold_left_app. simpl. destruct (consumer nt n) eqn:Hc; [|apply IH; lia].
      apply reg_kinds; [apply input_calc_kinds; [exact Hwf|lia|exact Hc]|apply IH; lia]. }
  apply Hg. lia.
Qed.

(* the generated calculators, registered by the generated `register`, evaluate to the model's values *)
Theorem gen_eval_is_model : forall nt ms, wf nt = true -> forall i, i < List.length nt -> consumer nt i = true ->
  geval (gregister_all nt) ms (input_calc true nt i)
  = (sfeat (register_all true nt) ms (input_calc true nt i), smask (register_all true nt) ms (input_calc true nt i)).
Proof.
  intros nt ms Hwf i Hi Hc.
  apply (geval_eq (kind_of nt)); [apply gregister_all_sim|apply register_all_kinds; exact Hwf|].
  apply input_calc_kinds; assumption.
Qed.

(* no AttributeError / default value on the way: every buffer the calculators read was registered (with its own name) *)
Theorem gen_defined : forall nt ms, wf nt = true -> forall i, i < List.length nt -> consumer nt i = true ->
  gok (gregister_all nt) ms (input_calc true nt i) = true.
Proof.
  intros nt ms Hwf i Hi Hc.
  apply (gok_of_coherent (kind_of nt) _ (register_all true nt));
    [apply gregister_all_sim|apply register_all_kinds; exact Hwf|apply input_calc_kinds; assumption|].
  apply names_ok_at; [apply names_ok_fixed; exact Hwf|exact Hi|exact Hc].
Qed.

(* ---- the main sentence of C09, for the generated calculators *)
Theorem gen_calc_sound : forall nt ms, wf nt = true -> sound_b nt ms = true ->
  forall i, i < List.length nt -> consumer nt i = true ->
    geval (gregister_all nt) ms (input_calc true nt i)
    = (count (nth (src1 (node_at nt i)) (alive nt ms) []), nth (src1 (node_at nt i)) (alive nt ms) []).
Proof.
  intros nt ms Hwf Hs i Hi Hc. rewrite (gen_eval_is_model nt ms Hwf i Hi Hc).
  destruct (calc_sound_fixed nt ms Hwf Hs i Hi Hc) as [E1 E2]. rewrite E1, E2. reflexivity.
Qed.

Theorem gen_calc_sound_full : forall nt ms, wf nt = true -> consistent_b true nt ms = true ->
  forall i, i < List.length nt -> consumer nt i = true ->
    geval (gregister_all nt) ms (input_calc true nt i)
    = (count (nth (src1 (node_at nt i)) (alive nt ms) []), nth (src1 (node_at nt i)) (alive nt ms) []).
Proof. intros nt ms Hwf Hc. exact (gen_calc_sound nt ms Hwf (P3 nt ms Hwf Hc)). Qed.

(* charged for (= .features) and exported with (= number of ones of .features_mask) agree *)
Theorem gen_features_is_mask_count : forall nt ms, wf nt = true -> sound_b nt ms = true ->
  forall i, i < List.length nt -> consumer nt i = true ->
    cv_features (geval (gregister_all nt) ms (input_calc true nt i))
    = count (cv_mask (geval (gregister_all nt) ms (input_calc true nt i))).
Proof. intros nt ms Hwf Hs i Hi Hc. rewrite (gen_calc_sound nt ms Hwf Hs i Hi Hc). reflexivity. Qed.

(* in_channels / in_features / num_features of the exported layer = number of ones of the generated features_mask *)
Theorem gen_in_features_export : forall nt ms, wf nt = true -> forall i, i < List.length nt -> consumer nt i = true ->
  export_in true nt ms i = count (cv_mask (geval (gregister_all nt) ms (input_calc true nt i))).
Proof.
  intros nt ms Hwf i Hi Hc. unfold export_in. rewrite Hc, (gen_eval_is_model nt ms Hwf i Hi Hc). reflexivity.
Qed.

(* ================================================================ one calculator object at a time *)
Lemma rd_write_fresh id k v : rd id (write id k v {| regs := []; store := [] |}) = Some v.
Proof.
  unfold rd, write, lookup_reg, lookup_store. cbn [regs store find fst snd]. rewrite Nat.eqb_refl.
  cbn [regs store find fst snd]. rewrite (proj2 (key_eqb_eq k k) eq_refl). reflexivity.
Qed.

Lemma kinds_empty kd : kinds_ok kd {| regs := []; store := [] |}.
Proof. intros id c b P H. discriminate. Qed.

(* a constant calculator registered on a module reads back its constant and an all-ones mask of that length *)
Theorem gen_const_unit : forall id n cons P,
  let G := const_register_gen id n cons P gempty in
  const_features_gen G id = n /\ const_features_mask_gen G id = repeat true n /\
  const_features_ok G id && const_features_mask_ok G id = true.
Proof.
  intros id n cons P G.
  pose proof (const_register_sim gempty _ id n cons P sim_empty) as H. fold G in H.
  assert (K : kinds_ok (fun _ => 0) (write id (cons, 0, P) n {| regs := []; store := [] |}))
    by (apply write_kinds; [apply kinds_empty|reflexivity]).
  rewrite (const_features_eq (fun _ => 0) _ _ _ H K eq_refl), (const_features_mask_eq (fun _ => 0) _ _ _ H K eq_refl),
    (const_ok_eq (fun _ => 0) _ _ _ H K eq_refl), rd_write_fresh. auto.
Qed.

(* flatten: features = multiplier x features of the producer; every bit of the producer's mask repeated multiplier times *)
Theorem gen_flatten_unit : forall id m cons P v,
  let G := flatten_register_gen id m (fun _ _ st => st) cons P gempty in
  flatten_features_gen G id v = m * cv_features v /\ flatten_features_mask_gen G id v = expand m (cv_mask v) /\
  flatten_features_ok G id v && flatten_features_mask_ok G id v = true.
Proof.
  intros id m cons P v G.
  pose proof (flatten_block_sim gempty _ id m cons P sim_empty) as H. fold G in H.
  assert (K : kinds_ok (fun _ => 1) (write id (cons, 1, P) m {| regs := []; store := [] |}))
    by (apply write_kinds; [apply kinds_empty|reflexivity]).
  rewrite (flatten_features_eq (fun _ => 1) _ _ _ v H K eq_refl), (flatten_features_mask_eq (fun _ => 1) _ _ _ v H K eq_refl),
    (flatten_ok_eq (fun _ => 1) _ _ _ v H K eq_refl), rd_write_fresh. auto.
Qed.

(* concat: sum of the operands' features, concatenation of their masks (so the counts add up) *)
Theorem gen_concat_unit : forall vs,
  concat_features_gen vs = list_sum (map cv_features vs) /\ concat_features_mask_gen vs = flat_map cv_mask vs /\
  count (concat_features_mask_gen vs) = list_sum (map (fun v => count (cv_mask v)) vs).
Proof.
  intro vs. rewrite concat_features_eq, concat_features_mask_eq. repeat split.
  induction vs as [|v vs IH]; simpl; [reflexivity|]. rewrite count_app, IH. reflexivity.
Qed.
