#!/venv/bin/python
"""For every /verif/seeded/<id> whose meta says tests pending: scratch worktree of /repo HEAD under /tmp/confirm/<id>,
apply patch, run the test subset relevant to the touched files (OMP_NUM_THREADS=1), compare with the known always-fail set,
write the result into meta.json, remove the worktree."""
import os, sys, json, subprocess, re, concurrent.futures as cf
KNOWN_BAD = ('test_mpic_latency', 'test_backend_match', 'test_backend_maupiti', 'test_qinfo_layer')
FLAKY = ('test_combined_loss_regression',)
def tests_for(patch):
    files = re.findall(r'^\+\+\+ b/(\S+)', patch, flags=re.M)
    t = set()
    for f in files:
        if '/cost/' in f: t |= {'unit_test/test_cost', 'unit_test/test_methods/test_pit/test_pit_search.py', 'unit_test/test_methods/test_mps/test_mps_search.py', 'unit_test/test_methods/test_supernet'}
        elif '/regularizers/' in f: t |= {'unit_test/test_cost', 'unit_test/test_methods/test_pit/test_pit_search.py'}
        elif '/pit/' in f: t |= {'unit_test/test_methods/test_pit', 'unit_test/test_methods/test_supernet'}
        elif '/mps/' in f or '/odimo' in f: t |= {'unit_test/test_methods/test_mps'}
        elif '/supernet/' in f: t |= {'unit_test/test_methods/test_supernet'}
        else: t |= {'unit_test'}
    return sorted(t)
def one(sid):
    d = '/verif/seeded/' + sid
    meta = json.load(open(d + '/meta.json'))
    if not str(meta['confirmed_by_me'].get('tests', '')).startswith('pending') and '--force' not in sys.argv: return sid, 'skip'
    wt = '/tmp/confirm/' + sid
    subprocess.run(['git', '-C', '/repo', 'worktree', 'remove', '--force', wt], capture_output=True)
    os.makedirs('/tmp/confirm', exist_ok=True)
    subprocess.run(['git', '-C', '/repo', 'worktree', 'add', '-q', '--detach', wt, 'HEAD'], check=True)
    try:
        r = subprocess.run(['git', '-C', wt, 'apply', d + '/patch.diff'], capture_output=True, text=True)
        if r.returncode: 
            res = 'patch does not apply to /repo HEAD: ' + r.stderr[:200]
        else:
            tests = tests_for(open(d + '/patch.diff').read())
            env = dict(os.environ, PYTHONPATH=wt, OMP_NUM_THREADS='1', MKL_NUM_THREADS='1', PYTHONDONTWRITEBYTECODE='1')
            env.pop('EML_EDA_PLINIO_VERIF', None)
            r = subprocess.run(['timeout', '3000', '/venv/bin/python', '-m', 'pytest', '-q', '-p', 'no:cacheprovider', '--continue-on-collection-errors', '-x' if False else '-q'] + tests, cwd=wt, env=env, capture_output=True, text=True)
            out = r.stdout
            bad = [l for l in out.split('\n') if re.match(r'^(FAILED|ERROR) ', l) and not any(k in l for k in KNOWN_BAD)]
            hard = [l for l in bad if not any(k in l for k in FLAKY)]
            tail = out.strip().split('\n')[-1]
            res = ('PASS' if not hard else 'FAIL') + ': pytest %s -> %s ; unexpected failures: %s%s' % (' '.join(tests), tail, hard, (' ; flaky-known: %s' % [l for l in bad if l not in hard]) if len(bad) != len(hard) else '')
        meta['confirmed_by_me']['tests'] = res
        json.dump(meta, open(d + '/meta.json', 'w'), indent=1)
        return sid, res
    finally:
        subprocess.run(['git', '-C', '/repo', 'worktree', 'remove', '--force', wt], capture_output=True)
ids = [a for a in sys.argv[1:] if not a.startswith('--')] or sorted(os.listdir('/verif/seeded'))
with cf.ThreadPoolExecutor(6) as ex:
    for sid, res in ex.map(one, ids): print(sid, res, flush=True)
