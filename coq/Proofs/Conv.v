(* Proofs about Model/Conv.v: slicing lemmas, masked tap sums, layer-level export equalities (C01). *)
From Coq Require Import QArith ZArith List Bool Arith Lia.
Import ListNotations.
Require Import Plinio.Model.Masks Plinio.Model.Conv.
Local Open Scope nat_scope.

(* ---------------------------------------------------------------- kept / select *)
Lemma filter_map_comm {A B} (f : A -> B) (p : B -> bool) l : filter p (map f l) = map f (filter (fun x => p (f x)) l).
Proof. induction l as [|x l IH]; [reflexivity|]. cbn. destruct (p (f x)); cbn; rewrite IH; reflexivity. Qed.

Lemma kept_cons b m : kept (b :: m) = (if b then [0] else []) ++ map S (kept m).
Proof.
  unfold kept. cbn [length seq filter nth]. rewrite <- seq_shift, filter_map_comm. cbn [nth].
  destruct b; reflexivity.
Qed.

Lemma kept_length m : length (kept m) = count_true m.
Proof.
  unfold count_true. induction m as [|b m IH]; [reflexivity|]. rewrite kept_cons, app_length, map_length, IH.
  destruct b; reflexivity.
Qed.

Lemma kept_spec m j : In j (kept m) <-> j < length m /\ nth j m false = true.
Proof. unfold kept. rewrite filter_In, in_seq. intuition lia. Qed.

Lemma kept_nth_alive m i : i < length (kept m) -> nth (nth i (kept m) 0) m false = true /\ nth i (kept m) 0 < length m.
Proof. intro H. pose proof (nth_In (kept m) 0 H) as Hin. apply kept_spec in Hin. tauto. Qed.

Lemma select_as_kept {A} (m : list bool) (l : list A) d : length l = length m -> select m l = map (fun j => nth j l d) (kept m).
Proof.
  revert l. induction m as [|b m IH]; intros [|x l] H; try discriminate; [reflexivity|].
  cbn [select]. rewrite kept_cons, map_app, map_map. cbn [nth]. rewrite <- (IH l) by (cbn in H; lia).
  destruct b; reflexivity.
Qed.

Lemma select_length {A} (m : list bool) (l : list A) : length l = length m -> length (select m l) = count_true m.
Proof.
  intro H. destruct l as [|x l]; [destruct m; [reflexivity|discriminate]|].
  rewrite (select_as_kept m (x :: l) x) by exact H. rewrite map_length. apply kept_length.
Qed.

Lemma select_nth {A} (m : list bool) (l : list A) d i : length l = length m -> i < count_true m ->
  nth i (select m l) d = nth (nth i (kept m) 0) l d.
Proof.
  intros H Hi. rewrite (select_as_kept m l d H). rewrite <- kept_length in Hi.
  rewrite (nth_indep _ d (nth 0 l d)) by (rewrite map_length; exact Hi).
  rewrite (map_nth (fun j => nth j l d) (kept m) 0 i). reflexivity.
Qed.

Lemma select_map {A B} (f : A -> B) m l : select m (map f l) = map f (select m l).
Proof. revert l. induction m as [|b m IH]; intros [|x l]; try reflexivity. cbn. destruct b; cbn; rewrite IH; reflexivity. Qed.

Lemma select_all_true {A} (l : list A) : select (all_true (length l)) l = l.
Proof. induction l as [|x l IH]; [reflexivity|]. cbn. f_equal. exact IH. Qed.

Lemma nth_map_in {A B} (f : A -> B) l i dA dB : i < length l -> nth i (map f l) dB = f (nth i l dA).
Proof. intro H. rewrite (nth_indep _ dB (f dA)) by (rewrite map_length; exact H). apply map_nth. Qed.

Lemma nth_map_seq0 {A} (f : nat -> A) n j d : j < n -> nth j (map f (seq 0 n)) d = f j.
Proof. intro H. rewrite (nth_map_in f (seq 0 n) j 0 d) by (rewrite seq_length; exact H). rewrite seq_nth by exact H. reflexivity. Qed.

Lemma map_seq_ext {A} (f g : nat -> A) n : (forall i, i < n -> f i = g i) -> map f (seq 0 n) = map g (seq 0 n).
Proof. intro H. apply map_ext_in. intros i Hi. apply in_seq in Hi. apply H. lia. Qed.

(* re-indexing a map over a list of indices by positions *)
Lemma map_by_position {A} (g : nat -> A) (L : list nat) : map g L = map (fun i => g (nth i L 0)) (seq 0 (length L)).
Proof.
  apply (nth_ext _ _ (g 0) (g 0)); [rewrite !map_length, seq_length; reflexivity|].
  intros i Hi. rewrite map_length in Hi. rewrite (nth_map_in g L i 0) by exact Hi. rewrite nth_map_seq0 by exact Hi. reflexivity.
Qed.

Section RingProofs.
Variable R : Type.
Variables (r0 r1 : R) (radd rmul : R -> R -> R).
Hypothesis radd_0_l : forall x, radd r0 x = x.
Hypothesis rmul_0_l : forall x, rmul r0 x = r0.
Hypothesis rmul_0_r : forall x, rmul x r0 = r0.
Hypothesis rmul_1_l : forall x, rmul r1 x = x.
Hypothesis rmul_1_r : forall x, rmul x r1 = x.

Notation rsum := (rsum r0 radd).
Notation bit := (bit r0 r1).

Lemma rsum_filter {A} (f : A -> R) (p : A -> bool) l :
  (forall j, In j l -> p j = false -> f j = r0) -> rsum (map f l) = rsum (map f (filter p l)).
Proof.
  induction l as [|x l IH]; intro H; [reflexivity|]. cbn [map filter]. destruct (p x) eqn:E.
  - cbn [map Conv.rsum fold_right]. f_equal. apply IH. intros j Hj. apply H. right. exact Hj.
  - cbn [Conv.rsum fold_right]. rewrite (H x (or_introl eq_refl) E), radd_0_l. apply IH. intros j Hj. apply H. right. exact Hj.
Qed.

Lemma rsum_zero {A} (f : A -> R) l : (forall j, In j l -> f j = r0) -> rsum (map f l) = r0.
Proof.
  induction l as [|x l IH]; intro H; [reflexivity|]. cbn [map Conv.rsum fold_right].
  rewrite (H x (or_introl eq_refl)), radd_0_l. apply IH. intros j Hj. apply H. right. exact Hj.
Qed.

(* sum over all indices of terms that vanish off the mask = sum over the kept indices *)
Lemma rsum_kept (f : nat -> R) m n : length m = n ->
  (forall j, j < n -> nth j m false = false -> f j = r0) -> rsum (map f (seq 0 n)) = rsum (map f (kept m)).
Proof.
  intros <- H. unfold kept. apply rsum_filter. intros j Hj E. apply in_seq in Hj. apply H; [lia|exact E].
Qed.

(* T1: the masked tap sum is the sum over the kept taps *)
Theorem masked_sum_filter (m : list bool) (w X : nat -> R) K : length m = K ->
  rsum (map (fun j => rmul (rmul (bit (nth j m false)) (w j)) (X j)) (seq 0 K)) = rsum (map (fun j => rmul (w j) (X j)) (kept m)).
Proof.
  intro HK. rewrite (rsum_kept _ m K HK).
  - f_equal. apply map_ext_in. intros j Hj. apply kept_spec in Hj. destruct Hj as [_ E]. rewrite E. cbn. rewrite rmul_1_l. reflexivity.
  - intros j _ E. rewrite E. cbn. rewrite !rmul_0_l. reflexivity.
Qed.

Lemma nth_masked_time tm (wk : list R) j : length tm = length wk ->
  nth j (map (fun p => rmul (bit (fst p)) (snd p)) (combine tm wk)) r0 = rmul (bit (nth j tm false)) (nth j wk r0).
Proof.
  intro H. destruct (Nat.lt_ge_cases j (length wk)) as [Hj|Hj].
  - rewrite (nth_map_in _ (combine tm wk) j (false, r0) r0) by (rewrite combine_length; lia).
    rewrite combine_nth by exact H. reflexivity.
  - rewrite nth_overflow by (rewrite map_length, combine_length; lia).
    rewrite (nth_overflow wk) by exact Hj. rewrite rmul_0_r. reflexivity.
Qed.

(* T2: time axis.  A causally padded kernel of K taps (dilation d) whose taps are masked by tm computes the
   same thing as the kernel made of the kept taps with K' taps, dilation sp*d and padding (K'-1)*sp*d, as soon as the
   kept taps form the progression that Masks.kept_taps_progression_64 establishes. *)
Theorem taps_export_eq (tm : list bool) (wk : list R) (K K' sp d : nat) (x : Z -> R) (u : Z) :
  length tm = K -> length wk = K -> kept_lags K tm = export_lags K' sp ->
  taps r0 radd rmul (map (fun p => rmul (bit (fst p)) (snd p)) (combine tm wk)) K (Z.of_nat d) (padl ((K - 1) * d) x) u
  = taps r0 radd rmul (select tm wk) K' (Z.of_nat (sp * d)) (padl ((K' - 1) * (sp * d)) x) u.
Proof.
  intros Htm Hwk Hl. subst K. unfold taps.
  assert (Hl' : map (fun j => length tm - 1 - j) (kept tm) = map (fun i => (K' - 1 - i) * sp) (seq 0 K')) by exact Hl.
  assert (Hk : length (kept tm) = count_true tm) by apply kept_length.
  assert (HK' : length (kept tm) = K').
  { apply (f_equal (@length nat)) in Hl'. rewrite !map_length, seq_length in Hl'. exact Hl'. }
  transitivity (rsum (map (fun j => rmul (nth j wk r0) (x (u - Z.of_nat ((length tm - 1 - j) * d))%Z)) (kept tm))).
  - rewrite <- (masked_sum_filter tm (fun j => nth j wk r0) (fun j => x (u - Z.of_nat ((length tm - 1 - j) * d))%Z) (length tm) eq_refl).
    apply f_equal. apply map_ext_in. intros j Hj. apply in_seq in Hj. rewrite nth_masked_time by lia.
    unfold padl. f_equal. f_equal.
    assert (E : (length tm - 1) * d = (length tm - 1 - j) * d + j * d) by (rewrite <- Nat.mul_add_distr_r; f_equal; lia).
    rewrite E, Nat2Z.inj_add, (Nat2Z.inj_mul j d). lia.
  - rewrite (map_by_position _ (kept tm)), HK'. apply f_equal. apply map_seq_ext. intros i Hi.
    rewrite (select_nth tm wk r0 i) by lia.
    f_equal. unfold padl. f_equal.
    assert (E : length tm - 1 - nth i (kept tm) 0 = (K' - 1 - i) * sp).
    { apply (f_equal (fun l => nth i l 0)) in Hl'. rewrite nth_map_seq0 in Hl' by exact Hi.
      rewrite (nth_map_in _ (kept tm) i 0 0) in Hl' by lia. exact Hl'. }
    assert (E2 : (K' - 1) * (sp * d) = (K' - 1 - i) * sp * d + i * (sp * d)).
    { rewrite <- Nat.mul_assoc, <- Nat.mul_add_distr_r. f_equal. lia. }
    rewrite E, E2, Nat2Z.inj_add, (Nat2Z.inj_mul i (sp * d)). lia.
Qed.

(* T3: channel axis.  Summing over all input channels, dead ones contributing nothing, = summing over the kept
   ones with the sliced weights *)
Lemma chan_slice {A B} (f : A -> B) (termP : A -> nat -> R) (termE : B -> nat -> R) (wc : list A) (min : list bool) cin dA dB :
  length wc = cin -> length min = cin ->
  (forall ci, ci < cin -> nth ci min false = false -> termP (nth ci wc dA) ci = r0) ->
  (forall ci, ci < cin -> nth ci min false = true -> termP (nth ci wc dA) ci = termE (f (nth ci wc dA)) ci) ->
  rsum (map (fun ci => termP (nth ci wc dA) ci) (seq 0 cin))
  = rsum (map (fun i => termE (nth i (map f (select min wc)) dB) (nth i (kept min) 0)) (seq 0 (count_true min))).
Proof.
  intros Hw Hm Hdead Halive. rewrite (rsum_kept _ min cin Hm Hdead).
  rewrite (map_by_position _ (kept min)), kept_length. apply f_equal. apply map_seq_ext. intros i Hi.
  assert (Hi' : i < length (kept min)) by (rewrite kept_length; exact Hi).
  destruct (kept_nth_alive min i Hi') as [Ea Hlt].
  rewrite Halive by (lia || exact Ea).
  rewrite (nth_map_in f (select min wc) i dA dB) by (rewrite select_length; lia).
  rewrite (select_nth min wc dA i) by lia. reflexivity.
Qed.

Lemma bn_slice_commutes (bn : option (list R * list R)) (mout : list bool) co' y :
  (forall a sh, bn = Some (a, sh) -> length a = length mout /\ length sh = length mout) -> co' < count_true mout ->
  bn_at r0 radd rmul (slice_bn mout bn) co' y = bn_at r0 radd rmul bn (nth co' (kept mout) 0) y.
Proof.
  intros H Hc. destruct bn as [[a sh]|]; [|reflexivity]. destruct (H a sh eq_refl) as [Ha Hs]. cbn.
  rewrite !select_nth by assumption. reflexivity.
Qed.

Lemma addbias_slice (b : option (list R)) (mout : list bool) co' acc :
  (forall bl, b = Some bl -> length bl = length mout) -> co' < count_true mout ->
  addbias r0 radd (export_bias mout b) co' acc = addbias r0 radd b (nth co' (kept mout) 0) acc.
Proof. intros H Hc. destruct b as [bl|]; [|reflexivity]. cbn. rewrite select_nth by (auto). reflexivity. Qed.

(* shape predicates *)
Definition shape3 (w : w3 R) (cout cin K : nat) : Prop :=
  length w = cout /\ (forall co, co < cout -> length (nth co w []) = cin) /\ (forall co ci, co < cout -> ci < cin -> length (w3at w co ci) = K).
Definition bias_ok (b : option (list R)) (cout : nat) : Prop := forall bl, b = Some bl -> length bl = cout.
Definition bn_ok (bn : option (list R * list R)) (cout : nat) : Prop := forall a sh, bn = Some (a, sh) -> length a = cout /\ length sh = cout.

Lemma w3at_time tm (w : w3 R) co ci cout cin : length w = cout -> co < cout -> length (nth co w []) = cin -> ci < cin ->
  w3at (mask_w3_time r0 r1 rmul tm w) co ci = map (fun p => rmul (bit (fst p)) (snd p)) (combine tm (w3at w co ci)).
Proof.
  intros Hw Hco Hc Hci. unfold w3at, mask_w3_time.
  rewrite (nth_map_in _ w co [] []) by lia. rewrite (nth_map_in _ (nth co w []) ci [] []) by lia. reflexivity.
Qed.

Lemma w3at_export_full tm mout min (w : w3 R) co' i cout cin : length w = cout -> length mout = cout -> length min = cin ->
  (forall co, co < cout -> length (nth co w []) = cin) -> co' < count_true mout -> i < count_true min ->
  w3at (export_w3 false mout min tm w) co' i = nth i (map (select tm) (select min (nth (nth co' (kept mout) 0) w []))) [].
Proof.
  intros Hw Hmo Hmi Hc Hco Hi. unfold w3at, export_w3.
  rewrite (nth_map_in _ (select mout w) co' [] []) by (rewrite select_length; lia).
  rewrite (select_nth mout w [] co') by lia. reflexivity.
Qed.

(* ---- conv1d, full convolution, core (no BN, no gate): masked taps + causal pad + dead inputs vs the exported layer *)
Lemma conv1d_core_full (w : w3 R) b cout cin K K' sp d s mout min tm (x : nat -> Z -> R) co' t :
  shape3 w cout cin K -> bias_ok b cout -> length mout = cout -> length min = cin -> length tm = K ->
  kept_lags K tm = export_lags K' sp ->
  (forall ci, ci < cin -> nth ci min false = false -> forall u, x ci u = r0) ->
  co' < count_true mout ->
  conv1d_at r0 radd rmul false (mask_w3_time r0 r1 rmul tm w) b cin K (Z.of_nat d) s (fun ci => padl ((K - 1) * d) (x ci)) (nth co' (kept mout) 0) t
  = conv1d_at r0 radd rmul false (export_w3 false mout min tm w) (export_bias mout b) (count_true min) K' (Z.of_nat (sp * d)) s
      (fun i => padl ((K' - 1) * (sp * d)) (x (nth i (kept min) 0))) co' t.
Proof.
  intros (Hw & Hc & Hk) Hb Hmo Hmi Htm Hl Hdead Hco.
  assert (Hco' : co' < length (kept mout)) by (rewrite kept_length; exact Hco).
  destruct (kept_nth_alive mout co' Hco') as [_ Hlt]. set (co := nth co' (kept mout) 0) in *. rewrite Hmo in Hlt.
  unfold conv1d_at. rewrite (addbias_slice b mout co') by (try exact Hco; intros bl E; rewrite (Hb bl E); lia). fold co. f_equal.
  transitivity (rsum (map (fun ci => taps r0 radd rmul (map (fun p => rmul (bit (fst p)) (snd p)) (combine tm (nth ci (nth co w []) []))) K (Z.of_nat d) (padl ((K - 1) * d) (x ci)) (s * t)%Z) (seq 0 cin))).
  { apply f_equal. apply map_seq_ext. intros ci Hci. rewrite (w3at_time tm w co ci cout cin) by (auto). reflexivity. }
  rewrite (chan_slice (select tm)
             (fun wk ci => taps r0 radd rmul (map (fun p => rmul (bit (fst p)) (snd p)) (combine tm wk)) K (Z.of_nat d) (padl ((K - 1) * d) (x ci)) (s * t)%Z)
             (fun wk' ci => taps r0 radd rmul wk' K' (Z.of_nat (sp * d)) (padl ((K' - 1) * (sp * d)) (x ci)) (s * t)%Z)
             (nth co w []) min cin [] []); auto.
  - apply f_equal. apply map_seq_ext. intros i Hi. rewrite (w3at_export_full tm mout min w co' i cout cin) by auto. reflexivity.
  - intros ci Hci E. unfold taps. apply rsum_zero. intros j _. unfold padl. rewrite (Hdead ci Hci E). apply rmul_0_r.
  - intros ci Hci E. apply taps_export_eq; auto. specialize (Hk co ci Hlt Hci). exact Hk.
Qed.

(* ---- depthwise core: the layer shares its feature mask with its producer (min = mout) *)
Lemma w3at_export_dw tm mout min (w : w3 R) co' cout : length w = cout -> length mout = cout ->
  (forall co, co < cout -> length (nth co w []) = 1) -> co' < count_true mout ->
  w3at (export_w3 true mout min tm w) co' 0 = select tm (w3at w (nth co' (kept mout) 0) 0).
Proof.
  intros Hw Hmo Hc Hco. unfold w3at, export_w3.
  rewrite (nth_map_in _ (select mout w) co' [] []) by (rewrite select_length; lia).
  rewrite (select_nth mout w [] co') by lia.
  assert (Hco' : co' < length (kept mout)) by (rewrite kept_length; exact Hco).
  destruct (kept_nth_alive mout co' Hco') as [_ Hlt]. rewrite Hmo in Hlt.
  rewrite (nth_map_in _ _ 0 [] []) by (rewrite Hc; lia). reflexivity.
Qed.

Lemma conv1d_core_dw (w : w3 R) b c K K' sp d s mout min tm (x : nat -> Z -> R) co' t :
  shape3 w c 1 K -> bias_ok b c -> length mout = c -> length tm = K ->
  kept_lags K tm = export_lags K' sp -> co' < count_true mout ->
  conv1d_at r0 radd rmul true (mask_w3_time r0 r1 rmul tm w) b c K (Z.of_nat d) s (fun ci => padl ((K - 1) * d) (x ci)) (nth co' (kept mout) 0) t
  = conv1d_at r0 radd rmul true (export_w3 true mout min tm w) (export_bias mout b) (count_true min) K' (Z.of_nat (sp * d)) s
      (fun i => padl ((K' - 1) * (sp * d)) (x (nth i (kept mout) 0))) co' t.
Proof.
  intros (Hw & Hc & Hk) Hb Hmo Htm Hl Hco.
  assert (Hco' : co' < length (kept mout)) by (rewrite kept_length; exact Hco).
  destruct (kept_nth_alive mout co' Hco') as [_ Hlt]. set (co := nth co' (kept mout) 0) in *. rewrite Hmo in Hlt.
  unfold conv1d_at. rewrite (addbias_slice b mout co') by (try exact Hco; intros bl E; rewrite (Hb bl E); lia). fold co. f_equal.
  rewrite (w3at_time tm w co 0 c 1) by (auto). rewrite (w3at_export_dw tm mout min w co' c) by auto. fold co.
  apply taps_export_eq; auto.
Qed.

(* ---- dead output channels *)
Lemma gate_dead y mout co : nth co mout false = false -> rmul y (bit (nth co mout false)) = r0.
Proof. intros ->. apply rmul_0_r. Qed.
Lemma gate_alive y mout co : nth co mout false = true -> rmul y (bit (nth co mout false)) = y.
Proof. intros ->. apply rmul_1_r. Qed.

Theorem dead_out_zero_conv1d maskbias dw w b bn cin K d s mout tm x co t : nth co mout false = false ->
  pit_conv1d_at r0 r1 radd rmul maskbias false dw w b bn cin K d s mout tm x co t = r0.
Proof. intro H. unfold pit_conv1d_at. apply gate_dead. exact H. Qed.
Theorem dead_out_zero_conv2d maskbias dw w b bn cin kh kw d s ph pw mout x co h v : nth co mout false = false ->
  pit_conv2d_at r0 r1 radd rmul maskbias false dw w b bn cin kh kw d s ph pw mout x co h v = r0.
Proof. intro H. unfold pit_conv2d_at. apply gate_dead. exact H. Qed.
Theorem dead_out_zero_linear maskbias w b bn cin mout x co : nth co mout false = false ->
  pit_linear_at r0 r1 radd rmul maskbias false w b bn cin mout x co = r0.
Proof. intro H. unfold pit_linear_at. apply gate_dead. exact H. Qed.

(* ---- conv1d, fold_bn = false : the statement of the property at layer level *)
Theorem conv1d_export_eq_full maskbias (w : w3 R) b bn cout cin K K' sp d s mout min tm (x : nat -> Z -> R) co' t :
  shape3 w cout cin K -> bias_ok b cout -> bn_ok bn cout -> length mout = cout -> length min = cin -> length tm = K ->
  kept_lags K tm = export_lags K' sp ->
  (forall ci, ci < cin -> nth ci min false = false -> forall u, x ci u = r0) ->
  co' < count_true mout ->
  pit_conv1d_at r0 r1 radd rmul maskbias false false w b bn cin K (Z.of_nat d) s mout tm (fun ci => padl ((K - 1) * d) (x ci)) (nth co' (kept mout) 0) t
  = bn_at r0 radd rmul (slice_bn mout bn) co'
      (conv1d_at r0 radd rmul false (export_w3 false mout min tm w) (export_bias mout b) (count_true min) K' (Z.of_nat (sp * d)) s
         (fun i => padl ((K' - 1) * (sp * d)) (x (nth i (kept min) 0))) co' t).
Proof.
  intros Hs Hb Hbn Hmo Hmi Htm Hl Hdead Hco. unfold pit_conv1d_at.
  assert (Hco' : co' < length (kept mout)) by (rewrite kept_length; exact Hco).
  destruct (kept_nth_alive mout co' Hco') as [Ea _]. rewrite gate_alive by exact Ea.
  rewrite bn_slice_commutes by (try exact Hco; intros a sh E; destruct (Hbn a sh E); lia).
  f_equal. eapply conv1d_core_full; eauto.
Qed.

Theorem conv1d_export_eq_dw maskbias (w : w3 R) b bn c K K' sp d s mout min tm (x : nat -> Z -> R) co' t :
  shape3 w c 1 K -> bias_ok b c -> bn_ok bn c -> length mout = c -> length tm = K ->
  kept_lags K tm = export_lags K' sp -> co' < count_true mout ->
  pit_conv1d_at r0 r1 radd rmul maskbias false true w b bn c K (Z.of_nat d) s mout tm (fun ci => padl ((K - 1) * d) (x ci)) (nth co' (kept mout) 0) t
  = bn_at r0 radd rmul (slice_bn mout bn) co'
      (conv1d_at r0 radd rmul true (export_w3 true mout min tm w) (export_bias mout b) (count_true min) K' (Z.of_nat (sp * d)) s
         (fun i => padl ((K' - 1) * (sp * d)) (x (nth i (kept mout) 0))) co' t).
Proof.
  intros Hs Hb Hbn Hmo Htm Hl Hco. unfold pit_conv1d_at.
  assert (Hco' : co' < length (kept mout)) by (rewrite kept_length; exact Hco).
  destruct (kept_nth_alive mout co' Hco') as [Ea _]. rewrite gate_alive by exact Ea.
  rewrite bn_slice_commutes by (try exact Hco; intros a sh E; destruct (Hbn a sh E); lia).
  f_equal. eapply conv1d_core_dw; eauto.
Qed.

End RingProofs.
